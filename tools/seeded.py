#!/usr/bin/env python3
"""Run the registered check of each seeded change's property against a scratch worktree with the change applied.
usage: tools/seeded.py [--harmless] [ids...]   (default: all under seeded/ resp. harmless/).
seeded/<id>/   = a change that BREAKS the property (expected: check exits 1); harmless/<id>/ = a behaviour-preserving refactor of the
anchored code (expected: check exits 0, no VIOLATION line).  Records the outcome in <dir>/<id>/result.json."""
import json
import os
import subprocess
import sys

VERIF = os.path.dirname(os.path.dirname(os.path.abspath(__file__)))
WT = "/tmp/wt_seeded"
DIR = "seeded"
RUN_DEMO = False


def sh(cmd, **kw):
    return subprocess.run(cmd, shell=True, stdout=subprocess.PIPE, stderr=subprocess.STDOUT, text=True, **kw)


def main():
    global DIR, WT, RUN_DEMO
    args = sys.argv[1:]
    if args and args[0] == "--demo":
        RUN_DEMO, args = True, args[1:]
    if args and args[0] == "--harmless":
        DIR, WT, args = "harmless", "/tmp/wt_harmless", args[1:]
    ids = args or sorted(os.listdir(os.path.join(VERIF, DIR)))
    WT = os.environ.get("SEEDED_WT", WT)      # several instances may run side by side, each with its own scratch worktree
    sh("git -C /repo worktree remove --force %s" % WT)
    r = sh("git -C /repo worktree add --detach %s HEAD" % WT)
    assert r.returncode == 0, r.stdout
    try:
        for sid in ids:
            d = os.path.join(VERIF, DIR, sid)
            meta = json.load(open(os.path.join(d, "meta.json")))
            prop = meta.get("property") or sid.split("-")[0]
            sh("git -C %s reset -q --hard && git -C %s clean -fdq" % (WT, WT))
            r = sh("git -C %s apply %s/patch.diff" % (WT, d))
            if r.returncode != 0:
                r = sh("git -C %s apply --3way %s/patch.diff" % (WT, d))
            if r.returncode != 0:
                print(sid, "PATCH DOES NOT APPLY:", r.stdout[-300:])
                json.dump({"applies": False, "note": r.stdout[-500:]}, open(os.path.join(d, "result.json"), "w"), indent=1)
                continue
            script = "demo.py" if os.path.exists(os.path.join(d, "demo.py")) else "equiv.py"
            if not RUN_DEMO:
                class demo:   # the authors of the changes ran their demonstrations themselves (meta.json); re-running them is optional
                    returncode = None
            else:
              demo = sh("cd %s && NUMBA_NUM_THREADS=4 PYTHONPATH=%s/src /venv/bin/python %s/%s" % (d if script == "equiv.py" else "/tmp", WT, d, script), timeout=3000)
            props = [prop] + [p for p in meta.get("also_check", [])]
            res = {"applies": True, ("demo_exit_with_mutant" if DIR == "seeded" else "equiv_exit_with_refactor"): demo.returncode,
                   "expected_check_exit": 1 if DIR == "seeded" else 0, "checks": {}}
            for p in props:
                c = sh("cd %s && HITEN_REPO=%s ./check %s --tier quick" % (VERIF, WT, p), timeout=3600)
                lines = [l for l in c.stdout.splitlines() if l.startswith("VIOLATION") or l.startswith("KNOWN-FINDING")]
                keys = []
                for l in lines:
                    if "replay=" in l:
                        f = l.split("replay=")[1].split()[0]
                        try:
                            keys.append(json.load(open(os.path.join(VERIF, f)))["key"])
                        except Exception:
                            pass
                res["checks"][p] = {"exit": c.returncode, "lines": lines[:6], "keys": keys[:6]}
                print(sid, p, "exit", c.returncode, keys[:4], flush=True)
            json.dump(res, open(os.path.join(d, "result.json"), "w"), indent=1)
    finally:
        sh("git -C /repo worktree remove --force %s" % WT)
        # restore the generated modules of the touched properties (committed = generated from the clean tree)
        for sid in ids:
            prop = sid.split("-")[0]
            sh("cd %s && git checkout -- lean/HitenModel/Gen/%s.lean" % (VERIF, prop))


if __name__ == "__main__":
    main()
