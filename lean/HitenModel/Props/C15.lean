/-
  Props/C15.lean — property C15: synodic section detection finds every crossing once, on the plane, in order.

  Part A is about `Gen.C15` — terms regenerated on every run by *executing* the current `_hermite_scalar`,
  `_hermite_der`, `_refine_hits_cubic`, `_refine_hits_linear`, `_crossing_indices_and_alpha` on symbolic data.
  Part B is about the executable model `Core/C15.lean` of `detect_on_trajectory` (all rational sample sequences, all
  affine sections, all directions / tolerances / refinements, every Hermite triple), which the harness compares with
  the real detector on every run (exactly on dyadic trajectories) with the Hermite triple `genHerm` taken from Part A.
-/
import HitenModel.Gen.C15
import HitenModel.Lemmas.C15Gen
import HitenModel.Lemmas.C15
import HitenModel.Lemmas.C15Real
import Mathlib.Tactic.FieldSimp
import Mathlib.Tactic.Ring
import Mathlib.Tactic.NormNum
import Mathlib.Tactic.Linarith

set_option linter.unusedSimpArgs false

namespace HitenModel.Props.C15
open HitenModel RE Gen.C15 HitenModel.C15

/-! ## Part A — traced formulas (variables of `hermite*`: 0 s, 1 y0, 2 y1, 3 dy0, 4 dy1, 5 dt) -/

theorem hermite_WD (ρ : ℕ → ℝ) : WD ρ hermite := by
  simp [hermite, WD]

/-- algebraic core: the symbolic `s`-derivative of the traced `_hermite_scalar` is the traced `_hermite_der` -/
theorem hermiteDer_eq_D (ρ : ℕ → ℝ) : eval ρ (D 0 hermite) = eval ρ hermiteDer := by
  simp only [hermite, hermiteDer, D, eval, if_true, if_false, reduceIte, Nat.reduceEqDiff, Nat.reduceSub,
    OfNat.ofNat_ne_zero, Nat.succ_ne_zero]
  push_cast
  ring

/-- **hermite_der_is_derivative**: for all section values, slopes and step, `_hermite_der` is the derivative of
`_hermite_scalar` with respect to `s` — the Newton refinement of the cubic paths is Newton's method. -/
theorem hermite_der_is_derivative (ρ : ℕ → ℝ) :
    HasDerivAt (fun s => eval (Function.update ρ 0 s) hermite) (eval ρ hermiteDer) (ρ 0) := by
  rw [← hermiteDer_eq_D]
  exact D_sound 0 ρ hermite (hermite_WD ρ)

theorem hermite_sqrtFree : sqrtFree hermite = true ∧ sqrtFree hermiteDer = true ∧ sqrtFree cubState0I = true := by
  refine ⟨rfl, rfl, rfl⟩

/-- the same statement for the functions the executable model uses (`genHerm.H`, `genHerm.H'` over ℚ) -/
theorem genHerm_H'_is_derivative (s y0 y1 d0 d1 dt : ℚ) :
    HasDerivAt (fun u : ℝ => eval (Function.update (fun i => ((env6 s y0 y1 d0 d1 dt i : ℚ) : ℝ)) 0 u) hermite)
      ((genHerm.H' s y0 y1 d0 d1 dt : ℚ) : ℝ) (s : ℝ) := by
  have h := hermite_der_is_derivative (fun i => ((env6 s y0 y1 d0 d1 dt i : ℚ) : ℝ))
  have e : ((genHerm.H' s y0 y1 d0 d1 dt : ℚ) : ℝ) = eval (fun i => ((env6 s y0 y1 d0 d1 dt i : ℚ) : ℝ)) hermiteDer :=
    evalQ_cast _ _ hermite_sqrtFree.2.1
  rw [e]
  simpa [env6] using h

macro "q_unfold" : tactic =>
  `(tactic| simp only [genHerm, hermite, hermiteDer, cubState0I, cubTime0I, cubTime1I, cubTime1L, cubTime1R, cubTime1B,
      cubState0L, cubState0R, cubState0B, alphaAny, alphaPos, linTime, linState, evalQ, env6, env13,
      List.getD_cons_zero, List.getD_cons_succ])

/-- **hermite_interpolates**: the traced pair satisfies the four Hermite conditions — values `y0, y1` at `s = 0, 1`
and `s`-slopes `dy0·dt, dy1·dt` there. -/
theorem hermite_interpolates (y0 y1 d0 d1 dt : ℚ) :
    genHerm.H 0 y0 y1 d0 d1 dt = y0 ∧ genHerm.H 1 y0 y1 d0 d1 dt = y1 ∧
    genHerm.H' 0 y0 y1 d0 d1 dt = d0 * dt ∧ genHerm.H' 1 y0 y1 d0 d1 dt = d1 * dt := by
  refine ⟨?_, ?_, ?_, ?_⟩ <;> q_unfold <;> push_cast <;> ring

/-- **hermite_reproduces_cubics**: with exact end slopes the interpolant reproduces every cubic polynomial exactly
(local error O(dt⁴): "faster than linear"). -/
theorem hermite_reproduces_cubics (a b c d t0 h s : ℚ) :
    let p := fun t : ℚ => a + b * t + c * t ^ 2 + d * t ^ 3
    let p' := fun t : ℚ => b + 2 * c * t + 3 * d * t ^ 2
    genHerm.H s (p t0) (p (t0 + h)) (p' t0) (p' (t0 + h)) h = p (t0 + s * h) := by
  intro p p'
  simp only [p, p']
  q_unfold <;> push_cast <;> ring

/-- **state_interpolant_is_hermite**: the `h00..h11` combination inlined in `_refine_hits_cubic` is the same Hermite
polynomial as `_hermite_scalar`, applied to the samples `k, k+1` with central-difference slopes over `k-1..k+1` and
`k..k+2`. -/
theorem state_interpolant_is_hermite (u t0 t1 t2 t3 x0 x1 x2 x3 : ℚ) :
    genHerm.Hs u t0 t1 t2 t3 x0 x1 x2 x3 =
      genHerm.H u x1 x2 ((x2 - x0) / (t2 - t0)) ((x3 - x1) / (t3 - t1)) (t2 - t1) := by
  q_unfold <;> push_cast <;> ring

/-- **newton_step_traced (interior segment)**: one pass of the loop in `_refine_hits_cubic` moves `s` to
`s - H/H'` where `H, H'` are the traced pair evaluated on the section values of samples `k, k+1`, the
central-difference slopes and `dt = t_{k+1} - t_k`; the hit time is the linear blend of the segment end times. -/
theorem newton_step_traced (s t0 t1 t2 t3 g0 g1 g2 g3 x0 x1 x2 x3 : ℚ) :
    evalQ (env13 s t0 t1 t2 t3 g0 g1 g2 g3 x0 x1 x2 x3) cubTime1I =
      (let d0 := (g2 - g0) / (t2 - t0); let d1 := (g3 - g1) / (t3 - t1); let dt := t2 - t1
       let s' := s - genHerm.H s g1 g2 d0 d1 dt / genHerm.H' s g1 g2 d0 d1 dt
       (1 - s') * t1 + s' * t2) := by
  q_unfold <;> push_cast <;> ring

/-- first segment (no left neighbour): the left slope is the secant slope -/
theorem newton_step_traced_left (s t0 t1 t2 t3 g0 g1 g2 g3 x0 x1 x2 x3 : ℚ) :
    evalQ (env13 s t0 t1 t2 t3 g0 g1 g2 g3 x0 x1 x2 x3) cubTime1L =
      (let d0 := (g1 - g0) / (t1 - t0); let d1 := (g2 - g0) / (t2 - t0); let dt := t1 - t0
       let s' := s - genHerm.H s g0 g1 d0 d1 dt / genHerm.H' s g0 g1 d0 d1 dt
       (1 - s') * t0 + s' * t1) := by
  q_unfold <;> push_cast <;> ring

/-- last segment (no right neighbour): the right slope is the secant slope -/
theorem newton_step_traced_right (s t0 t1 t2 t3 g0 g1 g2 g3 x0 x1 x2 x3 : ℚ) :
    evalQ (env13 s t0 t1 t2 t3 g0 g1 g2 g3 x0 x1 x2 x3) cubTime1R =
      (let d0 := (g2 - g0) / (t2 - t0); let d1 := (g2 - g1) / (t2 - t1); let dt := t2 - t1
       let s' := s - genHerm.H s g1 g2 d0 d1 dt / genHerm.H' s g1 g2 d0 d1 dt
       (1 - s') * t1 + s' * t2) := by
  q_unfold <;> push_cast <;> ring

/-- two-sample trajectory: both slopes are the secant slope -/
theorem newton_step_traced_both (s t0 t1 t2 t3 g0 g1 g2 g3 x0 x1 x2 x3 : ℚ) :
    evalQ (env13 s t0 t1 t2 t3 g0 g1 g2 g3 x0 x1 x2 x3) cubTime1B =
      (let d0 := (g1 - g0) / (t1 - t0); let dt := t1 - t0
       let s' := s - genHerm.H s g0 g1 d0 d0 dt / genHerm.H' s g0 g1 d0 d0 dt
       (1 - s') * t0 + s' * t1) := by
  q_unfold <;> push_cast <;> ring

/-- at a boundary segment the cubic path interpolates the *state* linearly (the model's `cubicState` does the same) -/
theorem boundary_state_is_linear (s t0 t1 t2 t3 g0 g1 g2 g3 x0 x1 x2 x3 : ℚ) :
    evalQ (env13 s t0 t1 t2 t3 g0 g1 g2 g3 x0 x1 x2 x3) cubState0L = x0 + s * (x1 - x0) ∧
    evalQ (env13 s t0 t1 t2 t3 g0 g1 g2 g3 x0 x1 x2 x3) cubState0R = x1 + s * (x2 - x1) ∧
    evalQ (env13 s t0 t1 t2 t3 g0 g1 g2 g3 x0 x1 x2 x3) cubState0B = x0 + s * (x1 - x0) := by
  refine ⟨?_, ?_, ?_⟩ <;> q_unfold

/-- **linear_formulas_traced**: `_crossing_indices_and_alpha` / `_refine_hits_linear` compute exactly the
expressions the model uses (`alphaOf` before clipping, `timeAt`, one coordinate of `lerp`). -/
theorem linear_formulas_traced (g0 g1 a t0 t1 x0 x1 : ℚ) :
    evalQ (fun i => [g0, g1].getD i 0) alphaAny = g0 / (g0 - g1) ∧
    evalQ (fun i => [g0, g1].getD i 0) alphaPos = g0 / (g0 - g1) ∧
    evalQ (fun i => [a, t0, t1, x0, x1].getD i 0) linTime = (1 - a) * t0 + a * t1 ∧
    evalQ (fun i => [a, t0, t1, x0, x1].getD i 0) linState = x0 + a * (x1 - x0) := by
  refine ⟨?_, ?_, ?_, ?_⟩ <;> q_unfold <;> push_cast <;> ring

/-! ## Part B — the detection model -/

/-- **segments_are_consecutive_samples**: segment `i` of the model is (sample `i-1`), sample `i`, sample `i+1`,
(sample `i+2`) of the trajectory, for every `i` with `i+1 < N`; there are `N-1` segments. -/
theorem segments_are_consecutive_samples (l : List Sample) :
    (segs l).length = l.length - 1 ∧
    ∀ (i : ℕ) (h : i + 1 < l.length),
      (segs l)[i]? = some ⟨i, if i = 0 then none else l[i - 1]?, l[i]'(by omega), l[i + 1]'h, l[i + 2]?⟩ := by
  refine ⟨segsFrom_length l 0 none, fun i h => ?_⟩
  simpa [segs] using segsFrom_get l 0 none i h

/-- **candidates_once_in_order** (plain path, linear or cubic): after the stable sort, the candidate list is exactly
the segment-by-segment scan: each segment contributes its on-surface left sample if accepted, else its crossing if
it has a direction-compatible sign change, else nothing — once, in segment order. -/
theorem candidates_once_in_order (cfg : Cfg) (hm : Herm) (md : Mode) (l : List Sample) :
    sortBySeg (candidates cfg hm md (segs l)) = (segs l).filterMap (segCand cfg hm md) := by
  apply eq_of_perm_sorted_strict
  · exact (sortBySeg_perm _).trans (candidates_perm_scan cfg hm md _)
  · exact sortBySeg_sorted _
  · refine List.Pairwise.filterMap _ ?_ (segsFrom_pairwise_k l 0 none)
    intro a a' haa b hb b' hb'
    rw [segCand_seg hb, segCand_seg hb']; exact haa

/-- **hit_complete** (per segment): for every segment `s` of the trajectory the sorted candidate list contains, with
segment index `s.k`, exactly the candidate the property prescribes: one on-surface hit if the left sample is accepted
as on-surface; otherwise exactly one crossing hit if the segment has a sign change compatible with the direction;
otherwise none.  (No crossing is missed and none is doubled before de-duplication.) -/
theorem hit_complete (cfg : Cfg) (hm : Herm) (md : Mode) (l : List Sample) (s : Seg) (hs : s ∈ segs l) :
    (sortBySeg (candidates cfg hm md (segs l))).filter (fun h => h.seg = s.k) =
      if onAccept cfg s then [onHit s]
      else if crossRaw cfg.dir (s.g0 cfg) (s.g1 cfg) then [crossHit cfg hm md s] else [] := by
  rw [candidates_once_in_order]
  unfold segs at hs ⊢
  rw [filter_scan_eq (segCand cfg hm md) (fun _ _ e => segCand_seg e) _ (segsFrom_pairwise_k l 0 none) s hs]
  unfold segCand
  split
  · rfl
  · split <;> rfl

/-- what "accepted as on-surface" means: `|g_k| < tol` and, for a directed section, the neighbouring values are
compatible with the direction -/
theorem onAccept_iff (cfg : Cfg) (s : Seg) :
    onAccept cfg s = true ↔ |s.g0 cfg| < cfg.tol ∧
      (cfg.dir = .any ∨
       (cfg.dir = .pos ∧ (0 ≤ s.g1 cfg ∨ ∃ p, s.gprev cfg = some p ∧ p ≤ 0)) ∨
       (cfg.dir = .neg ∧ (s.g1 cfg ≤ 0 ∨ ∃ p, s.gprev cfg = some p ∧ 0 ≤ p))) := by
  unfold onAccept dirOn
  rw [absQ_eq]
  cases cfg.dir <;> cases s.gprev cfg <;> simp

/-- what "sign change compatible with the direction" means -/
theorem crossRaw_iff (d : Dir) (g0 g1 : ℚ) :
    crossRaw d g0 g1 = true ↔
      (d = .any ∧ g0 * g1 ≤ 0 ∧ g0 ≠ g1) ∨ (d = .pos ∧ g0 < 0 ∧ 0 ≤ g1) ∨ (d = .neg ∧ 0 < g0 ∧ g1 ≤ 0) := by
  cases d <;> simp [crossRaw]

/-- the dedup output is `detect` (plain path) -/
theorem detect_plain (cfg : Cfg) (hm : Herm) (md : Mode) (l : List Sample) (hr : md.refine = 0) :
    detect cfg hm md l = dedup cfg ((segs l).filterMap (segCand cfg hm md)) := by
  unfold detect
  split
  · have : segs l = [] := by
      match l, ‹l.length < 2› with
      | [], _ => rfl
      | [_], _ => rfl
      | _ :: _ :: _, h => simp at h
    simp [this, dedup, dedupGo]
  · simp [hr, candidates_once_in_order]

theorem detect_refine (cfg : Cfg) (hm : Herm) (md : Mode) (l : List Sample) (hr : md.refine ≠ 0) :
    detect cfg hm md l = dedup cfg (sortBySeg (refineCandidates cfg hm md (segs l))) := by
  unfold detect
  split
  · have : segs l = [] := by
      match l, ‹l.length < 2› with
      | [], _ => rfl
      | [_], _ => rfl
      | _ :: _ :: _, h => simp at h
    simp [this, refineCandidates, sortBySeg, dedup, dedupGo]
  · simp [hr]

/-- **hit_sound** (plain path): every reported hit belongs to a segment `s` of the trajectory and is either
(a) its left sample, accepted as on-surface, reported with that sample's time and state, or
(b) a crossing: the segment has a sign change compatible with the direction, the left sample was not accepted as
on-surface, the fraction lies in `[0,1]`, the time is the matching blend of the end times (so inside the bracketing
interval when `t_k ≤ t_{k+1}`), and — linear interpolation — the fraction is `g_k/(g_k - g_{k+1})`, the state is
the linear blend and it lies on the plane **exactly**: `n·x_hit - c = 0`. -/
theorem hit_sound (cfg : Cfg) (hm : Herm) (md : Mode) (l : List Sample) (hr : md.refine = 0)
    (h : Hit) (hh : h ∈ detect cfg hm md l) :
    ∃ s ∈ segs l, h.seg = s.k ∧
      ((h.onSurf = true ∧ onAccept cfg s = true ∧ h.time = s.a.t ∧ h.state = s.a.x) ∨
       (h.onSurf = false ∧ crossRaw cfg.dir (s.g0 cfg) (s.g1 cfg) = true ∧ onAccept cfg s = false ∧
        0 ≤ h.s ∧ h.s ≤ 1 ∧ h.time = (1 - h.s) * s.a.t + h.s * s.b.t ∧
        (s.a.t ≤ s.b.t → s.a.t ≤ h.time ∧ h.time ≤ s.b.t) ∧
        (md.cubic = false →
          h.s = s.g0 cfg / (s.g0 cfg - s.g1 cfg) ∧ h.state = lerp s.a.x s.b.x h.s ∧
          (s.a.x.length = s.b.x.length → gval cfg.n cfg.c h.state = 0)))) := by
  rw [detect_plain cfg hm md l hr] at hh
  have hh' := (dedupGo_sublist cfg _ none 0).subset hh
  obtain ⟨s, hs, e⟩ := List.mem_filterMap.mp hh'
  refine ⟨s, hs, segCand_seg e, ?_⟩
  unfold segCand at e
  split at e
  · left; cases e; exact ⟨rfl, ‹_›, rfl, rfl⟩
  · split at e
    · right
      rename_i hno hx
      cases e
      obtain ⟨i1, i2, i3, i4⟩ := crossHit_inSeg cfg hm md s
      refine ⟨by unfold crossHit; split <;> rfl, hx, by simpa using hno, i2, i3, i4, ?_, ?_⟩
      · intro ht; rw [i4]; exact timeAt_mem s i2 i3 ht
      · intro hc
        obtain ⟨a1, -, -, a4⟩ := alphaOf_cross hx
        have e1 : crossHit cfg hm md s = linHit cfg s := by simp [crossHit, hc]
        rw [e1]
        refine ⟨a1, rfl, fun hl => ?_⟩
        show gval cfg.n cfg.c (lerp s.a.x s.b.x (alphaOf (s.g0 cfg) (s.g1 cfg))) = 0
        rw [gval_lerp _ _ _ _ _ hl]; exact a4
    · cases e

/-- **hit_located** (every mode: linear/cubic, plain/refined, any Hermite triple, any Newton budget): each reported
hit carries the index of a segment of the trajectory, a fraction in `[0,1]` and the matching time, hence lies inside
its bracketing sample interval. -/
theorem hit_located (cfg : Cfg) (hm : Herm) (md : Mode) (l : List Sample) (h : Hit) (hh : h ∈ detect cfg hm md l) :
    ∃ s ∈ segs l, h.seg = s.k ∧ 0 ≤ h.s ∧ h.s ≤ 1 ∧ h.time = (1 - h.s) * s.a.t + h.s * s.b.t ∧
      (s.a.t ≤ s.b.t → s.a.t ≤ h.time ∧ h.time ≤ s.b.t) := by
  have key : ∃ s ∈ segs l, InSeg s h := by
    by_cases hr : md.refine = 0
    · rw [detect_plain cfg hm md l hr] at hh
      obtain ⟨s, hs, e⟩ := List.mem_filterMap.mp ((dedupGo_sublist cfg _ none 0).subset hh)
      exact ⟨s, hs, segCand_inSeg e⟩
    · rw [detect_refine cfg hm md l hr] at hh
      have := (sortBySeg_perm _).subset ((dedupGo_sublist cfg _ none 0).subset hh)
      obtain ⟨s, hs, e⟩ := List.mem_flatMap.mp this
      exact ⟨s, hs, (refineSeg_spec cfg hm md s).1 h e⟩
  obtain ⟨s, hs, i1, i2, i3, i4⟩ := key
  exact ⟨s, hs, i1, i2, i3, i4, fun ht => by rw [i4]; exact timeAt_mem s i2 i3 ht⟩

/-- **refine_hit_sound** (segment refinement, linear interpolation): a non-on-surface hit comes from a sub-interval
`[m/(r+1), (m+1)/(r+1)]` of a segment on which the interpolated section function changes sign compatibly with the
direction; its fraction lies in that sub-interval and its state lies on the plane exactly. -/
theorem refine_hit_sound (cfg : Cfg) (hm : Herm) (md : Mode) (l : List Sample) (hr : md.refine ≠ 0)
    (hc : md.cubic = false) (h : Hit) (hh : h ∈ detect cfg hm md l) :
    ∃ s ∈ segs l, h.seg = s.k ∧
      ((h = onHit s ∧ onAccept cfg s = true) ∨
       (∃ m ≤ md.refine, h.onSurf = false ∧
          crossRaw cfg.dir ((1 - subLo md.refine m) * s.g0 cfg + subLo md.refine m * s.g1 cfg)
            ((1 - subHi md.refine m) * s.g0 cfg + subHi md.refine m * s.g1 cfg) = true ∧
          subLo md.refine m ≤ h.s ∧ h.s ≤ subHi md.refine m ∧ h.state = lerp s.a.x s.b.x h.s ∧
          (s.a.x.length = s.b.x.length → gval cfg.n cfg.c h.state = 0))) := by
  rw [detect_refine cfg hm md l hr] at hh
  have := (sortBySeg_perm _).subset ((dedupGo_sublist cfg _ none 0).subset hh)
  obtain ⟨s, hs, e⟩ := List.mem_flatMap.mp this
  refine ⟨s, hs, ((refineSeg_spec cfg hm md s).1 h e).1, ?_⟩
  have hu : useCub md s = false := by simp [useCub, hc]
  have sub : ∀ b, h ∈ subHits cfg hm md s b → ∃ m ≤ md.refine, h.onSurf = false ∧
      crossRaw cfg.dir ((1 - subLo md.refine m) * s.g0 cfg + subLo md.refine m * s.g1 cfg)
        ((1 - subHi md.refine m) * s.g0 cfg + subHi md.refine m * s.g1 cfg) = true ∧
      subLo md.refine m ≤ h.s ∧ h.s ≤ subHi md.refine m ∧ h.state = lerp s.a.x s.b.x h.s ∧
      (s.a.x.length = s.b.x.length → gval cfg.n cfg.c h.state = 0) := by
    intro b hb
    obtain ⟨m, hm1, hm2⟩ := List.mem_filterMap.mp hb
    split at hm2
    · cases hm2
    · obtain ⟨x1, -, x3, x4, -, x6⟩ := subHit_spec hm2
      have hu' := subU_mem cfg hm md s m
      refine ⟨m, Nat.lt_succ_iff.mp (List.mem_range.mp hm1), x3, ?_, by rw [x4]; exact hu'.1,
        by rw [x4]; exact hu'.2, by simpa [hu] using x6, fun hl => subHit_linear_on_plane hc hl hm2⟩
      simpa [gAt, hu] using x1
  unfold refineSeg at e
  split at e
  · rcases List.mem_cons.mp e with rfl | e
    · left; exact ⟨rfl, ‹_›⟩
    · right; exact sub _ e
  · right; exact sub _ e

/-- **hits_ordered** (every mode): for a trajectory with non-decreasing sample times the reported hits are ordered
by segment and by time. -/
theorem hits_ordered (cfg : Cfg) (hm : Herm) (md : Mode) (l : List Sample)
    (ht : l.Pairwise (fun a b => a.t ≤ b.t)) :
    (detect cfg hm md l).Pairwise (fun a b => a.seg ≤ b.seg ∧ a.time ≤ b.time) := by
  by_cases hr : md.refine = 0
  · rw [detect_plain cfg hm md l hr, filterMap_eq_flatMap]
    refine List.Pairwise.sublist (dedupGo_sublist cfg _ none 0) (flatMap_ordered _ l ht fun s => ⟨?_, ?_⟩)
    · intro h hh
      exact segCand_inSeg (Option.mem_toList.mp hh)
    · cases segCand cfg hm md s <;> simp
  · rw [detect_refine cfg hm md l hr]
    have ho := flatMap_ordered (refineSeg cfg hm md) l ht (refineSeg_spec cfg hm md)
    have : sortBySeg (refineCandidates cfg hm md (segs l)) = refineCandidates cfg hm md (segs l) :=
      sortBySeg_of_sorted _ (ho.imp fun hab => hab.1)
    rw [this]
    exact List.Pairwise.sublist (dedupGo_sublist cfg _ none 0) ho

/-- **hits_ordered_backward** (every mode): for a trajectory sampled BACKWARD in time (non-increasing stamps, e.g. a stable-manifold branch)
the reported hits are ordered by segment and by DEcreasing time — "time order per trajectory" along the trajectory. -/
theorem hits_ordered_backward (cfg : Cfg) (hm : Herm) (md : Mode) (l : List Sample)
    (ht : l.Pairwise (fun a b => b.t ≤ a.t)) :
    (detect cfg hm md l).Pairwise (fun a b => a.seg ≤ b.seg ∧ b.time ≤ a.time) := by
  by_cases hr : md.refine = 0
  · rw [detect_plain cfg hm md l hr, filterMap_eq_flatMap]
    refine List.Pairwise.sublist (dedupGo_sublist cfg _ none 0) (flatMap_ordered_desc _ l ht fun s => ⟨?_, ?_⟩)
    · intro h hh
      exact segCand_inSeg (Option.mem_toList.mp hh)
    · cases segCand cfg hm md s <;> simp
  · rw [detect_refine cfg hm md l hr]
    have ho := flatMap_ordered_desc (refineSeg cfg hm md) l ht (refineSeg_spec cfg hm md)
    have : sortBySeg (refineCandidates cfg hm md (segs l)) = refineCandidates cfg hm md (segs l) :=
      sortBySeg_of_sorted _ (ho.imp fun hab => hab.1)
    rw [this]
    exact List.Pairwise.sublist (dedupGo_sublist cfg _ none 0) ho

/-- on the plain path two distinct hits never share a segment -/
theorem hits_distinct_segments (cfg : Cfg) (hm : Herm) (md : Mode) (l : List Sample) (hr : md.refine = 0) :
    (detect cfg hm md l).Pairwise (fun a b => a.seg < b.seg) := by
  rw [detect_plain cfg hm md l hr]
  refine List.Pairwise.sublist (dedupGo_sublist cfg _ none 0) ?_
  refine List.Pairwise.filterMap _ ?_ (segsFrom_pairwise_k l 0 none)
  intro a a' haa b hb b' hb'
  rw [segCand_seg hb, segCand_seg hb']; exact haa

/-- **dedup_only_drops_duplicates** (every mode): the reported hits are a sub-sequence of the sorted candidates; a
candidate is dropped only if it is a duplicate — by the stated rule: time within `dedup_time_tol` or projected point
within `dedup_point_tol` — of a reported hit, or because `max_hits_per_traj` hits were already reported; and two
consecutive reported hits are never duplicates of each other. -/
theorem dedup_only_drops_duplicates (cfg : Cfg) (cands : List Hit) :
    (dedup cfg cands).Sublist cands ∧
    (∀ h ∈ cands, h ∈ dedup cfg cands ∨ (∃ p ∈ dedup cfg cands, isDup cfg p h = true) ∨
        (∃ m, cfg.maxHits = some m ∧ m ≤ (dedup cfg cands).length)) ∧
    NoDupFrom cfg none (dedup cfg cands) := by
  refine ⟨dedupGo_sublist cfg _ none 0, fun h hh => ?_, dedupGo_noDup cfg _ none 0⟩
  rcases dedupGo_dropped cfg cands none 0 h hh with h1 | ⟨p, hp, hd⟩ | ⟨m, hm1, hm2⟩
  · exact Or.inl h1
  · right; left
    rcases hp with hp | hp
    · cases hp
    · exact ⟨p, hp, hd⟩
  · right; right; exact ⟨m, hm1, by simpa [dedup] using hm2⟩

/-- **detect_exactly_once**: without a hit cap, and when no candidate is a duplicate of its predecessor (crossings
further apart than the dedup tolerances), the detector reports exactly the candidates: for every segment one hit
if it has a compatible sign change or an accepted on-surface left sample, none otherwise. -/
theorem detect_exactly_once (cfg : Cfg) (hm : Herm) (md : Mode) (l : List Sample) (hr : md.refine = 0)
    (hmax : cfg.maxHits = none) (hsep : NoDupFrom cfg none ((segs l).filterMap (segCand cfg hm md)))
    (s : Seg) (hs : s ∈ segs l) :
    (detect cfg hm md l).filter (fun h => h.seg = s.k) =
      if onAccept cfg s then [onHit s]
      else if crossRaw cfg.dir (s.g0 cfg) (s.g1 cfg) then [crossHit cfg hm md s] else [] := by
  rw [detect_plain cfg hm md l hr, dedup, dedupGo_eq_self cfg hmax _ none 0 hsep, ← candidates_once_in_order]
  exact hit_complete cfg hm md l s hs

/-- **newton_stays_bracketed**: whatever the functions and the iteration budget, the Newton loop of the cubic paths
returns a fraction inside the bracket it was started in. -/
theorem newton_stays_bracketed (f f' : ℚ → ℚ) (lo hi : ℚ) (hlh : lo ≤ hi) (n : ℕ) (s : ℚ) (h0 : lo ≤ s) (h1 : s ≤ hi) :
    lo ≤ newton f f' lo hi n s ∧ newton f f' lo hi n s ≤ hi :=
  newton_mem f f' hlh n s h0 h1

/-! ### non-vacuity: a concrete trajectory on which the hypotheses hold and the detector reports crossings -/

/-- section `x = 0`, direction `+1`; section values `-1, 3, 1, -1, 0, 2` on a non-uniform grid -/
def exCfg : Cfg :=
  { n := [1, 0, 0, 0, 0, 0], c := 0, dir := .pos, tol := 1 / 1000, tTol := 1 / 1000000, pTol := 1 / 1000000,
    maxHits := none, pi := 1, pj := 4 }
def exSamples : List Sample :=
  [⟨0, [-1, 0, 0, 0, 0, 0]⟩, ⟨1, [3, 1, 0, 0, 2, 0]⟩, ⟨3 / 2, [1, 2, 0, 0, 1, 0]⟩, ⟨2, [-1, 3, 0, 0, 0, 0]⟩,
   ⟨4, [0, 4, 0, 0, 1, 0]⟩, ⟨5, [2, 5, 0, 0, 1, 0]⟩]

example : (detect exCfg genHerm ⟨false, 0, 4⟩ exSamples).map (fun h => (h.seg, h.onSurf, h.time)) =
    [(0, false, 1 / 4), (3, false, 4)] := by decide +kernel
example : (detect { exCfg with dir := .any } genHerm ⟨false, 3, 4⟩ exSamples).map (fun h => (h.seg, h.onSurf, h.time)) =
    [(0, false, 1 / 4), (2, false, 7 / 4), (3, false, 4)] := by decide +kernel
example : (detect { exCfg with dir := .neg } genHerm ⟨true, 0, 2⟩ exSamples).length = 1 := by decide +kernel
example : exSamples.Pairwise (fun a b => a.t ≤ b.t) := by decide +kernel
/-- the hypotheses of `detect_exactly_once` hold on the trajectory without its on-surface sample (3 crossings of
either direction, further apart than the tolerances) -/
example : let cfg := { exCfg with dir := .any }
    cfg.maxHits = none ∧
    NoDupFrom cfg none ((segs (exSamples.take 4)).filterMap (segCand cfg genHerm ⟨false, 0, 4⟩)) ∧
    ((segs (exSamples.take 4)).filterMap (segCand cfg genHerm ⟨false, 0, 4⟩)).length = 2 := by
  decide +kernel

end HitenModel.Props.C15
