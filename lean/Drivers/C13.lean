/- Drivers/C13.lean — line-protocol driver of the continuation model (see harness/props/c13.py). -/
import HitenModel.Core.C13
import HitenModel.Core.Drv
open HitenModel.C13 Drv

structure Sess where
  cfg : Cfg := default
  seed : Vec := []
  step0 : Vec := []
  outs : List Outcome := []
  irr : Bool := false

/-- Euclidean norm, exact on the inputs the harness generates (perfect squares); flags anything else -/
def normE (v : Vec) : Rat :=
  match exactSqrt? (v.foldl (fun a x => a + x * x) 0) with
  | some r => r
  | none => -1

def showOpt (o : Option Vec) : String := match o with | none => "none" | some v => showVec v

def handle (s : Sess) (line : String) : IO Sess := do
  match words line with
  | ["cfg", mm, mr, smin, smax, sec] =>
      match mm.toNat?, mr.toNat?, parseRat? smin, parseRat? smax with
      | some a, some b, some c, some d =>
          return { s with cfg := { s.cfg with maxMembers := a, maxRetries := b, stepMin := c, stepMax := d, secant := sec == "1" } }
      | _, _, _, _ => IO.println "bad-op"; return s
  | "tmin" :: ws => match parseRats ws with
      | some v => return { s with cfg := { s.cfg with tmin := v } }
      | none => IO.println "bad-op"; return s
  | "tmax" :: ws => match parseRats ws with
      | some v => return { s with cfg := { s.cfg with tmax := v } }
      | none => IO.println "bad-op"; return s
  | ["shrink", q] => match parseRat? q with
      | some v => return { s with cfg := { s.cfg with shrink := v } }
      | none => IO.println "bad-op"; return s
  | ["idx", "none"] => return { s with cfg := { s.cfg with idx := none } }
  | "idx" :: ws => match parseNats ws with
      | some v => return { s with cfg := { s.cfg with idx := some v } }
      | none => IO.println "bad-op"; return s
  | "pidx" :: ws => match parseNats ws with
      | some v => return { s with cfg := { s.cfg with pidx := v } }
      | none => IO.println "bad-op"; return s
  | "seed" :: ws => match parseRats ws with
      | some v => return { s with seed := v }
      | none => IO.println "bad-op"; return s
  | "step" :: ws => match parseRats ws with
      | some v => return { s with step0 := v }
      | none => IO.println "bad-op"; return s
  | ["o", "fail"] => return { s with outs := s.outs ++ [Outcome.fail] }
  | "o" :: "ok" :: per :: ws =>
      match parseRats ws with
      | some v =>
          let p := if per == "none" then none else parseRat? per
          return { s with outs := s.outs ++ [Outcome.ok v p] }
      | none => IO.println "bad-op"; return s
  | ["run"] =>
      let st0 := init s.cfg normE s.seed s.step0
      let st := run s.cfg normE st0 s.outs
      IO.println s!"family {showVecs st.family}"
      IO.println s!"params {showVecs st.params}"
      IO.println s!"counts {st.accepted} {st.rejected} {st.iterations}"
      IO.println s!"step {showVec st.step}"
      IO.println s!"preds {showVecs st.preds}"
      IO.println s!"steps {showVecs st.steps}"
      IO.println s!"flags {st.failed} {st.leftTarget}"
      IO.println s!"consumed {consumed s.cfg normE st0 s.outs}"
      IO.println s!"tangent {showOpt st.tangent}"
      return { cfg := s.cfg }
  | "periods" :: seedp :: n :: ws =>
      -- periods <seed period|none> <n members> <aux entries: r|none ...>
      let sp := if seedp == "none" then none else parseRat? seedp
      let aux := ws.map fun w => if w == "none" then none else parseRat? w
      let ps := assignPeriods sp (n.toNat?.getD 0) aux
      IO.println ("periods " ++ " ".intercalate (ps.map fun p => match p with | none => "none" | some r => showRat r))
      return s
  | [] => return s
  | _ => IO.println "bad-op"; return s

def main : IO Unit := do
  let _ ← forLines (← IO.getStdin) Sess {} handle
  return ()
