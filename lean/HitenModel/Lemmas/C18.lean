/-
  Lemmas/C18.lean — theory behind property C18:
  (A) ℚ(1/√2)[i] embeds into ℂ as a ring, so matrix identities decided over `Q4` hold for complex matrices;
  (B) the sparse-polynomial model: `evalPoly` is multiplicative, the binary power loop computes powers, and
      `substLinear` composes evaluation with the coordinate map `applyMat`  (substitute_spec);
  (C) the registry BFS only ever returns walks along usable registry edges, for every registry.
-/
import HitenModel.Core.C18
import Mathlib.Analysis.Real.Sqrt
import Mathlib.Data.Complex.Basic
import Mathlib.Analysis.Complex.Norm
import Mathlib.LinearAlgebra.Matrix.ConjTranspose
import Mathlib.Data.Matrix.Mul
import Mathlib.Algebra.BigOperators.Fin
import Mathlib.Tactic.Ring
import Mathlib.Tactic.LinearCombination
import Mathlib.Tactic.FinCases
import Mathlib.Tactic.NormNum

namespace HitenModel.C18

/-! ## (A) scalars -/

/-- the real number `1/√2` -/
noncomputable def rr : ℝ := (Real.sqrt 2)⁻¹

theorem rr_mul_self : rr * rr = 1 / 2 := by
  unfold rr
  rw [← mul_inv, Real.mul_self_sqrt (by norm_num)]
  norm_num

theorem rr_pos : 0 < rr := by
  unfold rr
  exact inv_pos.mpr (Real.sqrt_pos.mpr (by norm_num))

noncomputable def QR.toReal (x : QR) : ℝ := (x.a : ℝ) + (x.b : ℝ) * rr

theorem QR.zero_def : (0 : QR) = ⟨0, 0⟩ := rfl
theorem QR.one_def : (1 : QR) = ⟨1, 0⟩ := rfl
theorem QR.add_def (x y : QR) : x + y = ⟨x.a + y.a, x.b + y.b⟩ := rfl
theorem QR.sub_def (x y : QR) : x - y = ⟨x.a - y.a, x.b - y.b⟩ := rfl
theorem QR.neg_def (x : QR) : -x = ⟨-x.a, -x.b⟩ := rfl
theorem QR.mul_def (x y : QR) : x * y = ⟨x.a * y.a + x.b * y.b / 2, x.a * y.b + x.b * y.a⟩ := rfl

@[simp] theorem QR.toReal_zero : (0 : QR).toReal = 0 := by simp [QR.zero_def, QR.toReal]
@[simp] theorem QR.toReal_one : (1 : QR).toReal = 1 := by simp [QR.one_def, QR.toReal]
@[simp] theorem QR.toReal_add (x y : QR) : (x + y).toReal = x.toReal + y.toReal := by
  simp only [QR.add_def, QR.toReal]; push_cast; ring
@[simp] theorem QR.toReal_sub (x y : QR) : (x - y).toReal = x.toReal - y.toReal := by
  simp only [QR.sub_def, QR.toReal]; push_cast; ring
@[simp] theorem QR.toReal_neg (x : QR) : (-x).toReal = -x.toReal := by
  simp only [QR.neg_def, QR.toReal]; push_cast; ring
@[simp] theorem QR.toReal_mul (x y : QR) : (x * y).toReal = x.toReal * y.toReal := by
  simp only [QR.mul_def, QR.toReal]; push_cast
  linear_combination (-(x.b : ℝ) * (y.b : ℝ)) * rr_mul_self

/-- `(a + b/√2) + (c + d/√2)·i` -/
noncomputable def Q4.toC (z : Q4) : ℂ := ⟨z.re.toReal, z.im.toReal⟩

theorem Q4.zero_def : (0 : Q4) = ⟨0, 0⟩ := rfl
theorem Q4.one_def : (1 : Q4) = ⟨1, 0⟩ := rfl
theorem Q4.add_def (z w : Q4) : z + w = ⟨z.re + w.re, z.im + w.im⟩ := rfl
theorem Q4.mul_def (z w : Q4) : z * w = ⟨z.re * w.re - z.im * w.im, z.re * w.im + z.im * w.re⟩ := rfl

@[simp] theorem Q4.toC_zero : (0 : Q4).toC = 0 := by
  apply Complex.ext <;> simp [Q4.zero_def, Q4.toC]
@[simp] theorem Q4.toC_one : (1 : Q4).toC = 1 := by
  apply Complex.ext <;> simp [Q4.one_def, Q4.toC]
@[simp] theorem Q4.toC_add (z w : Q4) : (z + w).toC = z.toC + w.toC := by
  apply Complex.ext <;> simp [Q4.add_def, Q4.toC]
@[simp] theorem Q4.toC_mul (z w : Q4) : (z * w).toC = z.toC * w.toC := by
  apply Complex.ext <;> simp [Q4.mul_def, Q4.toC]
@[simp] theorem Q4.toC_conj (z : Q4) : z.conj.toC = (starRingEnd ℂ) z.toC := by
  apply Complex.ext <;> simp [Q4.conj, Q4.toC]

/-- the embedding is injective on the generators we use: `1/√2` is not rational is *not* needed anywhere;
identities are only transported from `Q4` to `ℂ`, never back. -/
noncomputable def QMat.toMat (M : QMat) : Matrix (Fin 6) (Fin 6) ℂ := fun i j => (M.entry i j).toC

/-- the same matrix as a list of rows of complex numbers (always 6×6), the argument format of `substLinear`/`applyMat` -/
noncomputable def QMat.toLists (M : QMat) : List (List ℂ) :=
  range6.map fun i => range6.map fun j => (M.entry i j).toC

theorem QMat.entry_mul (A B : QMat) (i j : Fin 6) :
    (A.mul B).entry i j = dot6 (fun k => A.entry i k) (fun k => B.entry k j) := by
  fin_cases i <;> fin_cases j <;> rfl

theorem QMat.entry_conjT (A : QMat) (i j : Fin 6) : A.conjT.entry i j = (A.entry j i).conj := by
  fin_cases i <;> fin_cases j <;> rfl

theorem QMat.entry_ident (i j : Fin 6) : QMat.ident.entry i j = if i = j then 1 else 0 := by
  fin_cases i <;> fin_cases j <;> rfl

theorem QMat.toMat_mul (A B : QMat) : (A.mul B).toMat = A.toMat * B.toMat := by
  ext i j
  simp only [QMat.toMat, Matrix.mul_apply, Fin.sum_univ_six, QMat.entry_mul, dot6, Q4.toC_add, Q4.toC_mul]
  rfl

theorem QMat.toMat_conjT (A : QMat) : A.conjT.toMat = A.toMat.conjTranspose := by
  ext i j
  simp [QMat.toMat, QMat.entry_conjT, Matrix.conjTranspose_apply]

theorem QMat.toMat_ident : QMat.ident.toMat = 1 := by
  ext i j
  simp only [QMat.toMat, QMat.entry_ident, Matrix.one_apply]
  split <;> simp

/-! ## (B) polynomials -/

section poly
variable {K : Type} [CommRing K] [DecidableEq K]
set_option linter.unusedSectionVars false

theorem kpow_eq (x : K) (n : ℕ) : kpow x n = x ^ n := by
  induction n with
  | zero => simp [kpow]
  | succ n ih => simp [kpow, ih, pow_succ]

theorem evalMonoFrom_monoMul (x : ℕ → K) : ∀ (a b : Mono) (i : ℕ),
    evalMonoFrom x i (monoMul a b) = evalMonoFrom x i a * evalMonoFrom x i b
  | [], b, i => by simp [monoMul, evalMonoFrom]
  | a :: as, [], i => by simp [monoMul, evalMonoFrom]
  | a :: as, b :: bs, i => by
    simp only [monoMul, evalMonoFrom, kpow_eq, evalMonoFrom_monoMul x as bs (i + 1), pow_add]
    ring

theorem evalMono_monoMul (x : ℕ → K) (a b : Mono) :
    evalMono x (monoMul a b) = evalMono x a * evalMono x b := evalMonoFrom_monoMul x a b 0

theorem evalMonoFrom_unit (x : ℕ → K) : ∀ (j i : ℕ), evalMonoFrom x i (unitMono j) = x (i + j)
  | 0, i => by simp [unitMono, evalMonoFrom, kpow_eq]
  | j + 1, i => by
    simp only [unitMono, evalMonoFrom, kpow_eq, evalMonoFrom_unit x j (i + 1), pow_zero, one_mul]
    congr 1; omega

theorem evalMono_unit (x : ℕ → K) (j : ℕ) : evalMono x (unitMono j) = x j := by
  simpa [evalMono] using evalMonoFrom_unit x j 0

@[simp] theorem evalMono_nil (x : ℕ → K) : evalMono x [] = 1 := rfl

theorem evalPoly_append (x : ℕ → K) (p q : Poly K) :
    evalPoly x (p ++ q) = evalPoly x p + evalPoly x q := by
  induction p with
  | nil => simp [evalPoly]
  | cons t p ih => obtain ⟨c, k⟩ := t; simp [evalPoly, ih, add_assoc]

theorem evalPoly_scaleMono (x : ℕ → K) (a : K) (ka : Mono) (q : Poly K) :
    evalPoly x (scaleMono a ka q) = a * evalMono x ka * evalPoly x q := by
  induction q with
  | nil => simp [scaleMono, evalPoly]
  | cons t q ih => obtain ⟨b, kb⟩ := t; simp only [scaleMono, evalPoly, ih, evalMono_monoMul]; ring

/-- `_polynomial_multiply` multiplies values -/
theorem evalPoly_pmul (x : ℕ → K) (p q : Poly K) :
    evalPoly x (pmul p q) = evalPoly x p * evalPoly x q := by
  induction p with
  | nil => simp [pmul, evalPoly]
  | cons t p ih =>
    obtain ⟨a, ka⟩ := t
    simp only [pmul, evalPoly, evalPoly_append, evalPoly_scaleMono, ih]; ring

/-- invariant of the binary exponentiation loop of `_polynomial_power` -/
theorem evalPoly_powLoop (x : ℕ → K) : ∀ (fuel : ℕ) (res base : Poly K) (e : ℕ), e ≤ fuel →
    evalPoly x (powLoop fuel res base e) = evalPoly x res * evalPoly x base ^ e
  | 0, res, base, e, h => by
    have : e = 0 := by omega
    subst this; simp [powLoop]
  | fuel + 1, res, base, e, h => by
    unfold powLoop
    by_cases he : e = 0
    · subst he; simp
    · rw [if_neg he]
      have hlt : e / 2 ≤ fuel := by omega
      rw [evalPoly_powLoop x fuel _ _ (e / 2) hlt]
      have hsplit : e = 2 * (e / 2) + e % 2 := (Nat.div_add_mod e 2).symm
      by_cases hodd : e % 2 = 1
      · rw [if_pos hodd]
        by_cases h1 : 1 < e
        · rw [if_pos h1, evalPoly_pmul, evalPoly_pmul]
          conv_rhs => rw [hsplit, hodd]
          rw [pow_succ, pow_mul]; ring
        · have e1 : e = 1 := by omega
          subst e1; simp [evalPoly_pmul]
      · rw [if_neg hodd]
        have hev : e % 2 = 0 := by omega
        have h1 : 1 < e := by omega
        rw [if_pos h1, evalPoly_pmul]
        conv_rhs => rw [hsplit, hev]
        rw [Nat.add_zero, pow_mul]; ring

/-- `_polynomial_power(p, k)` evaluates to the k-th power -/
theorem evalPoly_ppow (x : ℕ → K) (p : Poly K) (k : ℕ) : evalPoly x (ppow p k) = evalPoly x p ^ k := by
  unfold ppow
  rw [evalPoly_powLoop x k _ _ k le_rfl]
  simp [evalPoly]

theorem evalPoly_linFormFrom (x : ℕ → K) : ∀ (cs : List K) (j : ℕ),
    evalPoly x (linFormFrom j cs) = dotFrom x j cs
  | [], j => by simp [linFormFrom, dotFrom, evalPoly]
  | c :: cs, j => by
    unfold linFormFrom dotFrom
    by_cases hc : c = 0
    · simp [hc, evalPoly_linFormFrom x cs (j + 1)]
    · simp [hc, evalPoly, evalMono_unit, evalPoly_linFormFrom x cs (j + 1)]

/-- the polynomial standing for the old variable `i` evaluates to component `i` of the transformed point -/
theorem evalPoly_varPoly (x : ℕ → K) (C : List (List K)) (i : ℕ) :
    evalPoly x (varPoly C i) = applyMat C x i := evalPoly_linFormFrom x _ 0

theorem evalPoly_substTermFrom (x : ℕ → K) (C : List (List K)) : ∀ (es : Mono) (i : ℕ) (term : Poly K),
    evalPoly x (substTermFrom C i es term) = evalPoly x term * evalMonoFrom (applyMat C x) i es
  | [], i, term => by simp [substTermFrom, evalMonoFrom]
  | e :: es, i, term => by
    unfold substTermFrom
    by_cases he : e = 0
    · subst he
      simp [evalPoly_substTermFrom x C es (i + 1), evalMonoFrom, kpow_eq]
    · rw [if_neg he, evalPoly_substTermFrom x C es (i + 1), evalPoly_pmul, evalPoly_ppow, evalPoly_varPoly]
      simp only [evalMonoFrom, kpow_eq]; ring

/-- **substitute_spec**: the polynomial produced by `_substitute_linear(p, C)` evaluated at `x` is the old polynomial
evaluated at the transformed point `C·x` — for every polynomial, every matrix and every point. -/
theorem substitute_spec (C : List (List K)) (p : Poly K) (x : ℕ → K) :
    evalPoly x (substLinear C p) = evalPoly (applyMat C x) p := by
  induction p with
  | nil => simp [substLinear, evalPoly]
  | cons t p ih =>
    obtain ⟨c, k⟩ := t
    simp only [substLinear, evalPoly_append, ih, evalPoly]
    by_cases hc : c = 0
    · simp [hc, evalPoly]
    · rw [if_neg hc, evalPoly_substTermFrom]
      simp [evalPoly, evalMono, evalMonoFrom]

theorem evalMonoFrom_congr (x y : ℕ → K) : ∀ (k : Mono) (i n : ℕ), (∀ j, j < n → x j = y j) → i + k.length ≤ n →
    evalMonoFrom x i k = evalMonoFrom y i k
  | [], i, n, _, _ => rfl
  | e :: es, i, n, h, hl => by
    simp only [List.length_cons] at hl
    simp only [evalMonoFrom]
    rw [h i (by omega), evalMonoFrom_congr x y es (i + 1) n h (by omega)]

/-- a polynomial in the first `n` variables only sees the first `n` coordinates -/
theorem evalPoly_congr (x y : ℕ → K) (n : ℕ) (h : ∀ j, j < n → x j = y j) :
    ∀ (p : Poly K), (∀ t ∈ p, t.2.length ≤ n) → evalPoly x p = evalPoly y p
  | [], _ => rfl
  | (c, k) :: p, hp => by
    simp only [evalPoly, evalMono]
    rw [evalMonoFrom_congr x y k 0 n h (by simpa using hp (c, k) (by simp)),
      evalPoly_congr x y n h p (fun t ht => hp t (by simp [ht]))]

/-- skipping zero entries (as `_substitute_coordinates` does) does not change the sum -/
theorem dotFrom_cons (x : ℕ → K) (c : K) (cs : List K) (j : ℕ) :
    dotFrom x j (c :: cs) = c * x j + dotFrom x (j + 1) cs := by
  by_cases hc : c = 0 <;> simp [dotFrom, hc]

theorem dotFrom_nil (x : ℕ → K) (j : ℕ) : dotFrom x j [] = 0 := rfl

/-! normalisation (merging like terms, dropping trailing zero exponents and zero coefficients) keeps all values -/

theorem evalMonoFrom_trimMono (x : ℕ → K) : ∀ (k : Mono) (i : ℕ),
    evalMonoFrom x i (trimMono k) = evalMonoFrom x i k
  | [], _ => rfl
  | e :: es, i => by
    have ih := evalMonoFrom_trimMono x es (i + 1)
    unfold trimMono
    cases h : trimMono es with
    | nil =>
      rw [h] at ih
      simp only [evalMonoFrom] at ih
      by_cases he : e = 0
      · subst he; simp [evalMonoFrom, kpow, ← ih]
      · simp [he, evalMonoFrom, ← ih]
    | cons t ts =>
      rw [h] at ih
      simp only [evalMonoFrom] at ih ⊢
      rw [ih]

theorem evalPoly_insertTerm (x : ℕ → K) (c : K) (k : Mono) : ∀ p : Poly K,
    evalPoly x (insertTerm c k p) = c * evalMono x k + evalPoly x p
  | [] => by simp [insertTerm, evalPoly]
  | (d, k') :: p => by
    unfold insertTerm
    by_cases hk : k = k'
    · subst hk; simp only [if_true, evalPoly]; ring
    · simp only [hk, if_false, evalPoly, evalPoly_insertTerm x c k p]; ring

theorem evalPoly_foldl_insert (x : ℕ → K) : ∀ (p acc : Poly K),
    evalPoly x (p.foldl (fun acc t => insertTerm t.1 (trimMono t.2) acc) acc) = evalPoly x acc + evalPoly x p
  | [], acc => by simp [evalPoly]
  | (c, k) :: p, acc => by
    simp only [List.foldl_cons, evalPoly_foldl_insert x p, evalPoly_insertTerm, evalPoly, evalMono,
      evalMonoFrom_trimMono]
    ring

theorem evalPoly_filter_ne_zero (x : ℕ → K) : ∀ p : Poly K,
    evalPoly x (p.filter fun t => t.1 ≠ 0) = evalPoly x p
  | [] => rfl
  | (c, k) :: p => by
    have ih := evalPoly_filter_ne_zero x p
    by_cases hc : c = 0
    · simpa [List.filter, hc, evalPoly] using ih
    · simpa [List.filter, hc, evalPoly] using ih

/-- merging like terms does not change any value -/
theorem evalPoly_normalize (x : ℕ → K) (p : Poly K) : evalPoly x (normalize p) = evalPoly x p := by
  unfold normalize
  rw [evalPoly_filter_ne_zero, evalPoly_foldl_insert]
  simp [evalPoly]

end poly

/-- on a 6×6 matrix given by its entries, `_substitute_coordinates` is the matrix–vector product -/
theorem applyMat_toLists (M : QMat) (x : ℕ → ℂ) (i : Fin 6) :
    applyMat M.toLists x i = (M.toMat.mulVec fun j : Fin 6 => x j) i := by
  fin_cases i <;>
    simp [applyMat, QMat.toLists, range6, dotFrom_cons, dotFrom_nil, Matrix.mulVec, dotProduct, Fin.sum_univ_six,
      QMat.toMat] <;>
    ring

/-- if `A·B = 1` then the coordinate maps undo each other on the six phase-space coordinates -/
theorem applyMat_inverse (A B : QMat) (h : A.toMat * B.toMat = 1) (x : ℕ → ℂ) (i : ℕ) (hi : i < 6) :
    applyMat A.toLists (applyMat B.toLists x) i = x i := by
  have key := applyMat_toLists A (applyMat B.toLists x) ⟨i, hi⟩
  simp only at key
  rw [key]
  have inner : (fun j : Fin 6 => applyMat B.toLists x j) = B.toMat.mulVec fun j : Fin 6 => x j := by
    funext j; exact applyMat_toLists B x j
  rw [inner, Matrix.mulVec_mulVec, h, Matrix.one_mulVec]

/-! ## (C) path search -/

/-- one conversion the BFS may take: a registry edge that passes the context filter -/
def Step (edges : List Edge) (a b : ℕ) : Prop := ∃ e ∈ edges, e.src = a ∧ e.dst = b ∧ e.usable = true

/-- `Walk edges s n p`: `p` lists the forms of a walk `s → … → n` along usable registry edges -/
inductive Walk (edges : List Edge) : ℕ → ℕ → List ℕ → Prop
  | single (a : ℕ) : Walk edges a a [a]
  | snoc {a b c : ℕ} {p : List ℕ} : Walk edges a b p → Step edges b c → Walk edges a c (p ++ [c])

theorem Walk.head {edges : List Edge} {s n : ℕ} {p : List ℕ} (w : Walk edges s n p) : p.head? = some s := by
  induction w with
  | single => rfl
  | @snoc b c p w _ ih =>
    cases p with
    | nil => simp at ih
    | cons h t => simpa using ih

theorem Walk.last {edges : List Edge} {s n : ℕ} {p : List ℕ} (w : Walk edges s n p) : p.getLast? = some n := by
  cases w with
  | single => rfl
  | snoc w _ => simp

theorem Walk.chain {edges : List Edge} {s n : ℕ} {p : List ℕ} (w : Walk edges s n p) :
    List.IsChain (fun a b => Step edges a b) p := by
  induction w with
  | single => simp
  | @snoc b c p w st ih =>
    refine List.IsChain.append ih (by simp) ?_
    intro x hx y hy
    have hl := w.last
    simp only [List.head?_cons, Option.mem_def, Option.some.injEq] at hy
    rw [hl] at hx
    simp only [Option.mem_def, Option.some.injEq] at hx
    subst hx; subst hy; exact st

/-- queue invariant: every queued `(node, path)` carries a walk from the start to that node -/
def QInv (edges : List Edge) (s : ℕ) (q : List (ℕ × List ℕ)) : Prop := ∀ t ∈ q, Walk edges s t.1 t.2

theorem scan_sound (edges : List Edge) (s target cur : ℕ) (path : List ℕ) (w : Walk edges s cur path) :
    ∀ (es : List Edge) (vis : List ℕ) (q : List (ℕ × List ℕ)), (∀ e ∈ es, e ∈ edges) → QInv edges s q →
      (∀ p, scan target cur path es vis q = .found p → Walk edges s target p) ∧
      (∀ vis' q', scan target cur path es vis q = .cont vis' q' → QInv edges s q')
  | [], vis, q, _, hq => by
    constructor
    · intro p h; simp [scan] at h
    · intro vis' q' h
      simp only [scan, ScanRes.cont.injEq] at h
      obtain ⟨_, rfl⟩ := h; exact hq
  | e :: es, vis, q, hsub, hq => by
    have hsub' : ∀ e' ∈ es, e' ∈ edges := fun e' h => hsub e' (List.mem_cons_of_mem _ h)
    unfold scan
    by_cases hc : (e.src = cur && !vis.contains e.dst && e.usable) = true
    · rw [if_pos hc]
      simp only [Bool.and_eq_true, decide_eq_true_eq] at hc
      obtain ⟨⟨hsrc, _⟩, hus⟩ := hc
      have st : Step edges cur e.dst := ⟨e, hsub e (by simp), hsrc, rfl, hus⟩
      have w' : Walk edges s e.dst (path ++ [e.dst]) := Walk.snoc w st
      by_cases ht : e.dst = target
      · rw [if_pos ht]
        constructor
        · intro p h
          simp only [ScanRes.found.injEq] at h
          subst h; subst ht; exact w'
        · intro vis' q' h; simp at h
      · rw [if_neg ht]
        refine scan_sound edges s target cur path w es _ _ hsub' ?_
        intro t ht'
        rcases List.mem_append.mp ht' with h | h
        · exact hq t h
        · simp only [List.mem_singleton] at h; subst h; exact w'
    · rw [if_neg hc]
      exact scan_sound edges s target cur path w es vis q hsub' hq

theorem bfs_sound (edges : List Edge) (s target : ℕ) : ∀ (fuel : ℕ) (vis : List ℕ) (q : List (ℕ × List ℕ)),
    QInv edges s q → ∀ p, bfs edges target fuel vis q = some p → Walk edges s target p
  | 0, _, _, _, p, h => by simp [bfs] at h
  | fuel + 1, vis, [], _, p, h => by simp [bfs] at h
  | fuel + 1, vis, (cur, path) :: q, hq, p, h => by
    have w : Walk edges s cur path := hq (cur, path) (by simp)
    have hq' : QInv edges s q := fun t ht => hq t (List.mem_cons_of_mem _ ht)
    have sc := scan_sound edges s target cur path w edges vis q (fun _ h => h) hq'
    unfold bfs at h
    cases hs : scan target cur path edges vis q with
    | found p' =>
      rw [hs] at h
      simp only [Option.some.injEq] at h
      subst h; exact sc.1 _ hs
    | cont vis' q' =>
      rw [hs] at h
      exact bfs_sound edges s target fuel vis' q' (sc.2 _ _ hs) p h

/-- **findPath_sound**: whatever `_follow_conversion_path` decides to execute is a walk from the start form to the
target form along registry edges that pass the context filter — for every registry, start and target. -/
theorem findPath_sound (edges : List Edge) (s t : ℕ) (p : List ℕ) (h : findPath edges s t = some p) :
    Walk edges s t p := by
  unfold findPath at h
  refine bfs_sound edges s t _ _ _ ?_ p h
  intro x hx
  simp only [List.mem_singleton] at hx
  subst hx; exact Walk.single s

/-! ### an independent reachability spec (layers), used to state completeness and minimality of the search -/

/-- forms reachable in one usable step from a form of `l` -/
def succs (edges : List Edge) (l : List ℕ) : List ℕ :=
  edges.filterMap fun e => if e.usable && l.contains e.src then some e.dst else none

/-- forms reachable from `s` in at most `n` usable steps -/
def reachWithin (edges : List Edge) (s : ℕ) : ℕ → List ℕ
  | 0 => [s]
  | n + 1 => reachWithin edges s n ++ succs edges (reachWithin edges s n)

/-- `S` is closed under usable steps -/
def closedB (edges : List Edge) (S : List ℕ) : Bool := (succs edges S).all fun b => S.contains b

theorem mem_succs {edges : List Edge} {l : List ℕ} {a b : ℕ} (ha : a ∈ l) (st : Step edges a b) :
    b ∈ succs edges l := by
  obtain ⟨e, he, hs, hd, hu⟩ := st
  unfold succs
  rw [List.mem_filterMap]
  refine ⟨e, he, ?_⟩
  have : e.src ∈ l := by rw [hs]; exact ha
  simp [hu, this, hd]

/-- a walk with `k+1` forms ends inside the `k`-th layer -/
theorem Walk.mem_reachWithin {edges : List Edge} {s t : ℕ} {p : List ℕ} (w : Walk edges s t p) :
    t ∈ reachWithin edges s (p.length - 1) := by
  induction w with
  | single => simp [reachWithin]
  | @snoc b c p w st ih =>
    have hp : p.length ≠ 0 := by
      intro h; have := w.head; rw [List.length_eq_zero_iff.mp h] at this; simp at this
    have : (p ++ [c]).length - 1 = (p.length - 1) + 1 := by simp; omega
    rw [this, reachWithin]
    exact List.mem_append_right _ (mem_succs ih st)

/-- a walk that starts inside a closed set stays inside -/
theorem Walk.mem_closed {edges : List Edge} {S : List ℕ} (hS : closedB edges S = true) {s t : ℕ} {p : List ℕ}
    (w : Walk edges s t p) (hs : s ∈ S) : t ∈ S := by
  induction w with
  | single => exact hs
  | @snoc b c p w st ih =>
    have := mem_succs ih st
    unfold closedB at hS
    rw [List.all_eq_true] at hS
    simpa using hS c this

/-! ### cleaning: the numerical shell of every conversion, with its exact error bound -/

/-- `Σ_k |x^k|` over the terms of `p`: the natural scale of the value of a polynomial at `x` -/
noncomputable def termScale (x : ℕ → ℂ) : Poly ℂ → ℝ
  | [] => 0
  | (_, k) :: p => ‖evalMono x k‖ + termScale x p

theorem termScale_nonneg (x : ℕ → ℂ) : ∀ p : Poly ℂ, 0 ≤ termScale x p
  | [] => le_rfl
  | (_, _) :: p => add_nonneg (norm_nonneg _) (termScale_nonneg x p)

/-- zeroing every coefficient of modulus ≤ tol moves the value at any point by at most `tol · Σ_k |x^k|` -/
theorem clean_bound (tol : ℝ) (htol : 0 ≤ tol) (x : ℕ → ℂ) : ∀ p : Poly ℂ,
    ‖evalPoly x (cleanTerms (fun c => decide (‖c‖ ≤ tol)) p) - evalPoly x p‖ ≤ tol * termScale x p
  | [] => by simp [cleanTerms, evalPoly, termScale]
  | (c, k) :: p => by
    have ih := clean_bound tol htol x p
    simp only [cleanTerms, evalPoly, termScale]
    by_cases hc : ‖c‖ ≤ tol
    · simp only [hc, decide_true, if_true, zero_mul, zero_add]
      have : evalPoly x (cleanTerms (fun c => decide (‖c‖ ≤ tol)) p) - (c * evalMono x k + evalPoly x p)
          = -(c * evalMono x k) + (evalPoly x (cleanTerms (fun c => decide (‖c‖ ≤ tol)) p) - evalPoly x p) := by ring
      rw [this]
      refine (norm_add_le _ _).trans ?_
      rw [norm_neg, Complex.norm_mul, mul_add]
      exact add_le_add (mul_le_mul_of_nonneg_right hc (norm_nonneg _)) ih
    · simp only [hc, decide_false, Bool.false_eq_true, if_false]
      have : c * evalMono x k + evalPoly x (cleanTerms (fun c => decide (‖c‖ ≤ tol)) p) - (c * evalMono x k + evalPoly x p)
          = evalPoly x (cleanTerms (fun c => decide (‖c‖ ≤ tol)) p) - evalPoly x p := by ring
      rw [this, mul_add]
      have h0 : 0 ≤ tol * ‖evalMono x k‖ := mul_nonneg htol (norm_nonneg _)
      linarith

/-! ### checks over the generated tables (boolean, evaluated by `decide +kernel` in Props/C18.lean) -/

/-- every pair of edges registered in both directions was observed to apply mutually inverse operations -/
def pairsInverse (reg : List Edge) (ops : List Op) : Bool :=
  (List.range reg.length).all fun i => (List.range reg.length).all fun j =>
    let e := reg.getD i default
    let f := reg.getD j default
    if e.src = f.dst && e.dst = f.src then (ops.getD i .unknown).inverseOf (ops.getD j .unknown) else true

def Op.isLin : Op → Bool
  | .lin _ => true
  | _ => false

def Op.known : Op → Bool
  | .lin .other => false
  | .unknown => false
  | _ => true

/-- an edge has a registered reverse exactly when what it does is a linear substitution (the Lie transforms and the
restriction to the centre manifold are one-way) -/
def reverseIffLinear (reg : List Edge) (ops : List Op) : Bool :=
  (List.range reg.length).all fun i =>
    let e := reg.getD i default
    hasEdge reg e.dst e.src == (ops.getD i .unknown).isLin

/-- the path-search table for one ordered pair: a found path is not longer than any walk (no earlier layer contains the
target) and `none` only when the target lies outside a closed set that contains the start -/
def searchOK (reg : List Edge) (n s t : ℕ) : Bool :=
  match findPath reg s t with
  | some p => 2 ≤ p.length && (List.range (p.length - 1)).all fun k => !(reachWithin reg s k).contains t
  | none => closedB reg (reachWithin reg s n) && !(reachWithin reg s n).contains t

def allPairs (n : ℕ) (f : ℕ → ℕ → Bool) : Bool :=
  (List.range n).all fun s => (List.range n).all fun t => s == t || f s t

def getOK (reg : List Edge) (phys : ℕ) (cache : List ℕ) (t : ℕ) : Bool :=
  match getHam reg phys cache t with
  | .ok cache' steps => cache'.contains t && steps.all fun st => hasEdge reg st.1 st.2
  | _ => false

theorem allPairs_spec {n : ℕ} {f : ℕ → ℕ → Bool} (h : allPairs n f = true) {s t : ℕ} (hs : s < n) (ht : t < n)
    (hne : s ≠ t) : f s t = true := by
  unfold allPairs at h
  rw [List.all_eq_true] at h
  have := h s (List.mem_range.mpr hs)
  rw [List.all_eq_true] at this
  have := this t (List.mem_range.mpr ht)
  simpa [hne] using this

end HitenModel.C18
