/- Drivers/C18.lean — line-protocol driver of the C18 hand model (see harness/props/c18.py).

   scalars      a,b,c,d            = (a + b/√2) + (c + d/√2)·i   (rationals "n" or "n/d")
   mat  NAME e00 e01 … (row-major, 6 per row)          define a matrix
   gmat NAME M12|Minv12|M012|Minv012                   bind a generated table
   poly NAME c:k0.k1.k2.k3.k4.k5 …                     define a polynomial (term list)
   subst P M      -> "poly c:k … "                     normalised `substLinear M P`
   convert P M tol -> "poly …"                         `convertLin (|c| ≤ tol) M P` (substitute, merge, clean), zero terms not printed
   subst2 P M N   -> "poly …"                          normalised `substLinear N (substLinear M P)`
   apply M x0 … x5 -> "vec …"                          `applyMat M x`
   eval P x0 … x5  -> "val c"
   reg s,d,c0.c1 …                                     replace the registry (default: the generated one)
   path s t        -> "path a b c" | "path none"       `findPath`
   get PHYS TARGET cache… -> "ok cache|steps" | "notimpl" | "missingctx s t"     `getHam`
-/
import HitenModel.Core.C18
import HitenModel.Core.Drv
import HitenModel.Gen.C18
open HitenModel.C18 Drv

structure Sess where
  mats : List (String × List (List Q4)) := []
  polys : List (String × Poly Q4) := []
  reg : List Edge := HitenModel.Gen.C18.registry

def parseQ4? (s : String) : Option Q4 :=
  match (s.splitOn ",").mapM parseRat? with
  | some [a, b, c, d] => some (Q4.mk4 a b c d)
  | some [a] => some (Q4.mk4 a 0 0 0)
  | _ => none

def showQ4 (z : Q4) : String := s!"{showRat z.re.a},{showRat z.re.b},{showRat z.im.a},{showRat z.im.b}"

def parseTerm? (s : String) : Option (Q4 × Mono) :=
  match s.splitOn ":" with
  | [c, k] => do
      let z ← parseQ4? c
      let e ← (k.splitOn ".").mapM String.toNat?
      some (z, e)
  | _ => none

def pad6 (k : Mono) : Mono := k ++ List.replicate (6 - k.length) 0

def showPoly (p : Poly Q4) : String :=
  "poly " ++ " ".intercalate (p.map fun t => showQ4 t.1 ++ ":" ++ ".".intercalate ((pad6 t.2).map toString))

def chunk6 : List Q4 → List (List Q4)
  | a :: b :: c :: d :: e :: f :: rest => [a, b, c, d, e, f] :: chunk6 rest
  | [] => []
  | rest => [rest]

def lookup {α : Type} (l : List (String × α)) (n : String) : Option α := (l.find? (·.1 == n)).map (·.2)

def parseEdge? (s : String) : Option Edge :=
  match s.splitOn "," with
  | [a, b, c] => do
      let x ← a.toNat?
      let y ← b.toNat?
      let ks ← if c == "" then some [] else (c.splitOn ".").mapM String.toNat?
      some ⟨x, y, ks⟩
  | [a, b] => do
      let x ← a.toNat?
      let y ← b.toNat?
      some ⟨x, y, []⟩
  | _ => none

def showNats (l : List Nat) : String := " ".intercalate (l.map toString)

def handle (s : Sess) (line : String) : IO Sess := do
  match words line with
  | "mat" :: name :: ws =>
      match ws.mapM parseQ4? with
      | some es => return { s with mats := (name, chunk6 es) :: s.mats }
      | none => IO.println "bad-op"; return s
  | ["gmat", name, which] =>
      let m := match which with
        | "M12" => HitenModel.Gen.C18.M12 | "Minv12" => HitenModel.Gen.C18.Minv12
        | "M012" => HitenModel.Gen.C18.M012 | _ => HitenModel.Gen.C18.Minv012
      return { s with mats := (name, m) :: s.mats }
  | "poly" :: name :: ws =>
      match ws.mapM parseTerm? with
      | some ts => return { s with polys := (name, ts) :: s.polys }
      | none => IO.println "bad-op"; return s
  | ["subst", p, m] =>
      match lookup s.polys p, lookup s.mats m with
      | some pp, some mm => IO.println (showPoly (normalize (substLinear mm pp))); return s
      | _, _ => IO.println "bad-op"; return s
  | ["convert", p, m, t] =>
      match lookup s.polys p, lookup s.mats m, parseRat? t with
      | some pp, some mm, some tol =>
          IO.println (showPoly ((convertLin (fun z => z.absLe tol) mm pp).filter fun u => u.1 ≠ 0)); return s
      | _, _, _ => IO.println "bad-op"; return s
  | ["subst2", p, m, n] =>
      match lookup s.polys p, lookup s.mats m, lookup s.mats n with
      | some pp, some mm, some nn => IO.println (showPoly (normalize (substLinear nn (substLinear mm pp)))); return s
      | _, _, _ => IO.println "bad-op"; return s
  | "apply" :: m :: ws =>
      match lookup s.mats m, ws.mapM parseQ4? with
      | some mm, some xs =>
          let x : Nat → Q4 := fun i => xs.getD i 0
          IO.println ("vec " ++ " ".intercalate (range6.map fun i => showQ4 (applyMat mm x i))); return s
      | _, _ => IO.println "bad-op"; return s
  | "eval" :: p :: ws =>
      match lookup s.polys p, ws.mapM parseQ4? with
      | some pp, some xs =>
          let x : Nat → Q4 := fun i => xs.getD i 0
          IO.println ("val " ++ showQ4 (evalPoly x pp)); return s
      | _, _ => IO.println "bad-op"; return s
  | "reg" :: ws =>
      match ws.mapM parseEdge? with
      | some es => return { s with reg := es }
      | none => IO.println "bad-op"; return s
  | ["path", a, b] =>
      match a.toNat?, b.toNat? with
      | some x, some y =>
          match findPath s.reg x y with
          | some p => IO.println ("path " ++ showNats p)
          | none => IO.println "path none"
          return s
      | _, _ => IO.println "bad-op"; return s
  | "get" :: ph :: tg :: ws =>
      match ph.toNat?, tg.toNat?, ws.mapM String.toNat? with
      | some phys, some t, some cache =>
          match getHam s.reg phys cache t with
          | .ok c st => IO.println ("ok " ++ showNats c ++ "|" ++ " ".intercalate (st.map fun x => s!"{x.1}>{x.2}"))
          | .notImplemented => IO.println "notimpl"
          | .missingCtx a b => IO.println s!"missingctx {a} {b}"
          return s
      | _, _, _ => IO.println "bad-op"; return s
  | [] => return s
  | _ => IO.println "bad-op"; return s

def main : IO Unit := do
  let _ ← forLines (← IO.getStdin) Sess {} handle
  return ()
