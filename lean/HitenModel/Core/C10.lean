/-
  Core/C10.lean — direction / time-grid model of hiten's propagation stack (property C10).
  Import-free, total, structurally recursive; executed by Drivers/C10.lean for the correspondence
  and reasoned about in Props/C10.lean.

  Times are `Int` "ticks" (an arbitrary dyadic unit 2^-k): every float64 grid is a tick grid for a
  suitable k, and everything below only uses order, +, - and multiplication by ±1 / small integers, so the
  model is scale invariant.  States are an arbitrary type `S`; everything numerical (a Runge–Kutta step,
  the step-size controller, the dense interpolant, np.isclose) is an ORACLE parameter.

  Modelled code (src/hiten/algorithms):
    dynamics/base.py      _DirectedSystem._rhs_impl, _propagate_dynsys
    integrators/base.py   validate_inputs, _maybe_constant_solution
    integrators/rk.py     _FixedStepRK.integrate/_integrate_fixed_rk, _RK45/_DOP853.integrate,
                          _integrate_rk45/_integrate_dop853 (step loop + searchsorted dense output),
                          *_until_event drivers (no-crossing path)
    integrators/symplectic.py  _ExtendedSymplectic.integrate, _integrate_symplectic
-/
namespace HitenModel.C10

/-- Switches of the code that the harness re-extracts from the current source on every run (Gen/C10.lean). -/
structure Cfg where
  /-- `_DirectedSystem._rhs_impl` (fwd = -1) evaluates the base field at `dirTimeCoef * t` -/
  dirTimeCoef : Int
  /-- `_ExtendedSymplectic.integrate` with `_fwd = -1` integrates the grid `symGridSign * t_vals` -/
  symGridSign : Int
  /-- … and returns `times = symTimesSign * t_vals` -/
  symTimesSign : Int
  /-- `_RK45.integrate` / `_DOP853.integrate` reject a strictly decreasing grid before entering the step loop -/
  guard45 : Bool
  guard853 : Bool
  /-- same for the event-enabled paths (`tmax < t0`) -/
  guardEvent45 : Bool
  guardEvent853 : Bool
deriving DecidableEq, Repr, Inhabited

/-! ## `_DirectedSystem` -/

/-- `self._fwd = 1 if fwd >= 0 else -1` -/
def normFwd (f : Int) : Int := if f ≥ 0 then 1 else -1

/-- `out = dy.copy(); out[_flip] *= -1` -/
def negateAt {β} [Neg β] (idx : List Nat) : Nat → List β → List β
  | _, [] => []
  | i, v :: vs => (if idx.contains i then -v else v) :: negateAt idx (i + 1) vs

/-- `_rhs_impl(t, y)`: `timeArg` is what the wrapper passes to the base field when `fwd = -1`
    (the code as it stands passes `t` itself; a true time reversal needs `-t`). -/
def directedRhs {τ β} [Neg β] (timeArg : τ → τ) (base : τ → List β → List β)
    (fwd : Int) (flip : Option (List Nat)) (t : τ) (y : List β) : List β :=
  if fwd = -1 then
    let dy := base (timeArg t) y
    match flip with
    | none => dy.map (fun v => -v)
    | some idx => negateAt idx 0 dy
  else base t y

/-! ## grids, `validate_inputs` -/

inductive Err where
  | tooShort            -- ValueError "Must provide at least 2 time points"
  | notMonotone         -- ValueError "Time values must be strictly monotonic"
  | descendingRejected  -- (after the proposed repair) ValueError: adaptive integrators need an increasing grid
  | zeroDivision        -- ZeroDivisionError raised inside the compiled RK45 driver
deriving DecidableEq, Repr

inductive GridKind where
  | zeroSpan | ascending | descending
deriving DecidableEq, Repr

def diffs : List Int → List Int
  | a :: b :: rest => (b - a) :: diffs (b :: rest)
  | _ => []

/-- `validate_inputs` (time part): `len < 2` → error; all `dt == 0` → accepted; all `> 0` or all `< 0` → accepted. -/
def validateGrid (ts : List Int) : Except Err GridKind :=
  if ts.length < 2 then .error .tooShort
  else
    let d := diffs ts
    if d.all (fun x => x == 0) then .ok .zeroSpan
    else if d.all (fun x => decide (0 < x)) then .ok .ascending
    else if d.all (fun x => decide (x < 0)) then .ok .descending
    else .error .notMonotone

/-- `np.linspace(t0, tf, n)` on ticks, `tf = t0 + d * (n - 1)` -/
def linspace (t0 d : Int) (n : Nat) : List Int := (List.range n).map fun (i : Nat) => t0 + d * (i : Int)

structure Sol (S : Type) where
  times : List Int
  states : List S
deriving DecidableEq, Repr

inductive Outcome (S : Type) where
  | error (e : Err)
  | sol (s : Sol S)
deriving DecidableEq, Repr

/-! ## fixed-step Runge–Kutta (`_integrate_fixed_rk`): `h = t_vals[idx+1] - t_n` (signed) -/

/-- states produced by the step loop; `step t h y` is one Runge–Kutta step (oracle) -/
def fixedStates {S} (step : Int → Int → S → S) : S → List Int → List S
  | _, [] => []
  | y, [_] => [y]
  | y, t :: t' :: rest => y :: fixedStates step (step t (t' - t) y) (t' :: rest)

/-- `_FixedStepRK.integrate` (no event): validate, zero-span short circuit (`close` = np.isclose oracle), step loop;
    returned times are `t_vals` itself. -/
def integrateFixed {S} (close : Int → Int → Bool) (step : Int → Int → S → S) (y0 : S) (ts : List Int) : Outcome S :=
  match validateGrid ts with
  | .error e => .error e
  | .ok _ =>
    if close (ts.headD 0) (ts.getLastD 0) then .sol ⟨ts, List.replicate ts.length y0⟩
    else .sol ⟨ts, fixedStates step y0 ts⟩

/-! ## adaptive drivers (`_integrate_rk45`, `_integrate_dop853`) -/

inductive Kind where
  | rk45 | dop853
deriving DecidableEq, Repr

structure Ctl where
  maxS : Int
  minS : Int
  h0 : Int      -- `_select_initial_step(...)` (oracle)
deriving Repr

/-- `_clamp_step` -/
def clamp (c : Ctl) (h : Int) : Int :=
  let h1 := if h > c.maxS then c.maxS else h
  if h1 < c.minS then c.minS else h1

/-- `_adjust_step_to_endpoint`: `if t + h > t_end: return abs(t_end - t)` -/
def adjust (t h tf : Int) : Int := if t + h > tf then ((tf - t).natAbs : Int) else h

/-- The loop `while (t - tf) < 0`.  The oracle lists, per attempted step, whether the error test accepted it and the
    controller's next proposal `h * factor`.  Returns the accepted nodes after `t`; `none` = oracle exhausted before
    the loop ended (the real loop has no iteration bound either). -/
def loop (c : Ctl) (tf : Int) : List (Bool × Int) → Int → Int → Option (List Int)
  | [], t, _ => if t - tf < 0 then none else some []
  | (acc, hn) :: rest, t, h =>
    if t - tf < 0 then
      let h1 := adjust t (clamp c h) tf
      if acc then (loop c tf rest (t + h1) hn).map (fun l => (t + h1) :: l)
      else loop c tf rest t (clamp c hn)
    else some []

/-- `np.searchsorted(ts_arr, t_q, side='right')` on an ascending array (or a one-element array) -/
def ssRight : List Int → Int → Nat
  | [], _ => 0
  | t :: ts, q => if t ≤ q then ssRight ts q + 1 else 0

/-- Python/numba negative-index wrap-around -/
def wrapIdx (n : Nat) (j : Int) : Nat := if j < 0 then n - j.natAbs else j.toNat

inductive Sample where
  | dense (j : Nat) (num den : Int)   -- dense interpolant of segment j evaluated at x = num/den
  | left (j : Nat)                    -- DOP853 "degenerate segment": left state copied
  | zeroDiv                           -- RK45: x = (t_q - t0) / 0
deriving DecidableEq, Repr

/-- segment index: `j = searchsorted(...) - 1; if j < 0: j = 0; if j > n_nodes - 2: j = n_nodes - 2`
    (`r` = result of searchsorted; note `j = -1` when `n_nodes = 1`) -/
def segIdx (n r : Nat) : Int :=
  let j0 : Int := (r : Int) - 1
  let j1 : Int := if j0 < 0 then 0 else j0
  if j1 > (n : Int) - 2 then (n : Int) - 2 else j1

/-- one iteration of the dense-output loop -/
def query (k : Kind) (nodes : List Int) (q : Int) : Sample :=
  let n := nodes.length
  let j : Int := segIdx n (ssRight nodes q)
  let a := nodes.getD (wrapIdx n j) 0
  let b := nodes.getD (wrapIdx n (j + 1)) 0
  let hseg := b - a
  match k with
  | .rk45 => if hseg = 0 then .zeroDiv else .dense (wrapIdx n j) (q - a) hseg
  | .dop853 => if hseg = 0 then .left (wrapIdx n j) else .dense (wrapIdx n j) (q - a) hseg

inductive AOutcome where
  | error (e : Err)
  | const (n : Nat)                               -- `_maybe_constant_solution`: n copies of y0
  | nonterm                                       -- oracle exhausted
  | ok (nodes : List Int) (samples : List Sample) -- returned times are `t_vals.copy()`
deriving DecidableEq, Repr

def guardOf (cfg : Cfg) : Kind → Bool
  | .rk45 => cfg.guard45
  | .dop853 => cfg.guard853

/-- `_RK45.integrate` has no zero-span short circuit, `_DOP853.integrate` has -/
def hasConstShort : Kind → Bool
  | .rk45 => false
  | .dop853 => true

/-- Python-level entry logic of `_RK45.integrate` / `_DOP853.integrate` before the compiled driver is entered -/
inductive Entry where
  | error (e : Err)
  | const (n : Nat)
  | run
deriving DecidableEq, Repr

def adaptiveEntry (guard : Bool) (k : Kind) (close : Int → Int → Bool) (ts : List Int) : Entry :=
  match validateGrid ts with
  | .error e => .error e
  | .ok g =>
    if guard && g == .descending then .error .descendingRejected
    else if hasConstShort k && close (ts.headD 0) (ts.getLastD 0) then .const ts.length
    else .run

/-- the compiled driver: step loop, then dense output at every requested time -/
def adaptiveDriver (k : Kind) (c : Ctl) (orc : List (Bool × Int)) (ts : List Int) : AOutcome :=
  match loop c (ts.getLastD 0) orc (ts.headD 0) c.h0 with
  | none => .nonterm
  | some acc =>
    let nodes := ts.headD 0 :: acc
    let ss := ts.map (query k nodes)
    if ss.contains .zeroDiv then .error .zeroDivision else .ok nodes ss

def integrateAdaptive (cfg : Cfg) (k : Kind) (close : Int → Int → Bool) (c : Ctl) (orc : List (Bool × Int))
    (ts : List Int) : AOutcome :=
  match adaptiveEntry (guardOf cfg k) k close ts with
  | .error e => .error e
  | .const n => .const n
  | .run => adaptiveDriver k c orc ts

/-- value of a sample given the node states and the dense interpolant (oracles) -/
def sampleState {S} (nodeState : Nat → S) (dense : Nat → Int → Int → S) : Sample → S
  | .dense j num den => dense j num den
  | .left j => nodeState j
  | .zeroDiv => nodeState 0

def toOutcome {S} (y0 : S) (nodeState : Nat → S) (dense : Nat → Int → Int → S) (ts : List Int) : AOutcome → Option (Outcome S)
  | .error e => some (.error e)
  | .const n => some (.sol ⟨ts, List.replicate n y0⟩)
  | .nonterm => none
  | .ok _ ss => some (.sol ⟨ts, ss.map (sampleState nodeState dense)⟩)

/-! ## event-enabled adaptive drivers, path without a crossing: returns `([t0, tmax], [y0, y_last])` -/

def guardEventOf (cfg : Cfg) : Kind → Bool
  | .rk45 => cfg.guardEvent45
  | .dop853 => cfg.guardEvent853

inductive EOutcome where
  | error (e : Err)
  | const (n : Nat)
  | nonterm
  | noHit (t0 tmax : Int) (lastNode : Nat)   -- `_Solution([t0, tmax], [y0, state of node lastNode])`
deriving DecidableEq, Repr

/-- compiled `*_until_event` driver when no crossing occurs: `return False, t, y, y` -/
def eventDriverNoHit (c : Ctl) (orc : List (Bool × Int)) (ts : List Int) : EOutcome :=
  match loop c (ts.getLastD 0) orc (ts.headD 0) c.h0 with
  | none => .nonterm
  | some acc => .noHit (ts.headD 0) (ts.getLastD 0) acc.length

def integrateAdaptiveEventNoHit (cfg : Cfg) (k : Kind) (close : Int → Int → Bool) (c : Ctl) (orc : List (Bool × Int))
    (ts : List Int) : EOutcome :=
  match adaptiveEntry (guardEventOf cfg k) k close ts with
  | .error e => .error e
  | .const n => .const n
  | .run => eventDriverNoHit c orc ts

/-! ## symplectic (`_ExtendedSymplectic.integrate`, `_integrate_symplectic`) -/

/-- `for dt in np.diff(t_values): q_ext = step(dt, q_ext)` -/
def symStates {S} (step : Int → S → S) : S → List Int → List S
  | y, [] => [y]
  | y, dt :: rest => y :: symStates step (step dt y) rest

def symGrid (cfg : Cfg) (fwd : Int) (ts : List Int) : List Int :=
  if fwd = 1 then ts else ts.map (fun t => cfg.symGridSign * t)

def symTimes (cfg : Cfg) (fwd : Int) (ts : List Int) : List Int :=
  if fwd = 1 then ts else ts.map (fun t => cfg.symTimesSign * t)

/-- `fwd` is the `_fwd` attribute of the system (`getattr(system, "_fwd", 1)`) -/
def integrateSymplectic {S} (cfg : Cfg) (step : Int → S → S) (fwd : Int) (y0 : S) (ts : List Int) : Outcome S :=
  match validateGrid ts with
  | .error e => .error e
  | .ok _ => .sol ⟨symTimes cfg fwd ts, symStates step y0 (diffs (symGrid cfg fwd ts))⟩

/-! ## `_propagate_dynsys` -/

inductive Method where
  | fixed | adaptive | symplectic
deriving DecidableEq, Repr

/-- what the integrator receives from `_propagate_dynsys` -/
structure Call where
  fwd : Int                  -- `_fwd` of the `_DirectedSystem` wrapper (normalised)
  flip : Option (List Nat)
  grid : List Int
deriving DecidableEq, Repr

/-- `integ` = the integrator that the method dispatches to (its outcome for the given call) -/
def propagate {S} (close : Int → Int → Bool) (integ : Method → Call → Outcome S) (m : Method)
    (forward : Int) (flip : Option (List Nat)) (y0 : S) (t0 d : Int) (n : Nat) : Outcome S :=
  let grid := linspace t0 d n
  if decide (n ≥ 2) && close (grid.headD 0) (grid.getLastD 0) then
    .sol ⟨grid.map (fun t => forward * t), List.replicate n y0⟩
  else
    match integ m ⟨normFwd forward, flip, grid⟩ with
    | .error e => .error e
    | .sol s => .sol ⟨s.times.map (fun t => forward * t), s.states⟩

end HitenModel.C10
