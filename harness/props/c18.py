"""C18 — Hamiltonian-form conversions and coordinate changes run and are mutually inverse.

Model: lean/HitenModel/Core/C18.lean (hand model: Q(1/sqrt2)[i] scalars, sparse polynomials with the loop structure of
`_substitute_linear`/`_polynomial_power`/`_linear_variable_polys`, `_substitute_coordinates`, the registry BFS of
`pipeline.py`, `get_hamiltonian` with its cache) and lean/HitenModel/Gen/C18.lean, REGENERATED ON EVERY RUN from the
live objects:
  * T-table: `_CONVERSION_REGISTRY` items (forms, edges in insertion order, required context), the keys of the
    conversion service's own table, `_M(mix)`/`_M_inv(mix)` for both mix sets (entries recognised exactly as
    0, +-1, +-h with h = the float 1/np.sqrt(2.0));
  * T-trace: `_local2synodic_collinear/_triangular`, `_synodic2local_collinear/_triangular` executed on symbolic
    values (framework tracer + a small local shim for the complex/real views);
  * what every registered conversion DOES: each edge is executed on a real degree-3 pipeline (L1 and L4) while
    `transforms._substitute_linear`, the two `_lie_transform`s and `_restrict_poly_to_center_manifold` are wrapped by
    recorders; the matrix handed to `_substitute_linear` is identified (M12, Minv12, M012, Minv012, C, Cinv).
Theorems: lean/HitenModel/Props/C18.lean.

Correspondence (exact): Drivers/C18.lean runs the hand model over Q(1/sqrt2)[i]; the real `_substitute_linear`
(njit), `_substitute_complex/_real`, `_substitute_coordinates`, `_solve_complex/_real` run on the same integer /
Gaussian-integer inputs (all float operations exact) and, with the live `_M` matrices, to 1e-13; the real
`HamiltonianPipeline` runs random `get_hamiltonian` histories with recording stub converters and the executed
conversion sequence + cache order is compared with `getHam`.

Failing-input search on the real code: every registry edge executed on real pipelines (all five points, several
degrees), round trips of edges registered in both directions (coefficients, relative to tol and growth), polynomial
change vs coordinate change at random points for pipeline Hamiltonians AND random polynomials/matrices, point-wise maps
synodic<->local<->real modal<->complex as inverse pairs.
"""
from __future__ import annotations

import itertools
import math
import types
from fractions import Fraction

import numpy as np

import lean_emit as E
import tracer as T

FORMS_DOC = "forms are numbered in order of first appearance in the registry"
PROP_MODS = ["HitenModel.Props.C18"]
SRC_MODS = ["HitenModel.Props.C18", "HitenModel.Lemmas.C18", "HitenModel.Gen.C18", "HitenModel.Core.C18",
            "HitenModel.Lemmas.REReal", "HitenModel.Core.RE"]
MIXES = {"12": (1, 2), "012": (0, 1, 2)}


# ---------------------------------------------------------------------------------------------------------------
# tracing shim (local: translator/tracer.py is shared and not edited)
# ---------------------------------------------------------------------------------------------------------------

class _SymArr(np.ndarray):
    """object ndarray whose `.real/.imag/.astype` keep the symbolic entries (the traced maps only look at the real part
    after checking that the imaginary part is negligible)."""

    @property
    def real(self):
        return self

    @property
    def imag(self):
        return np.zeros(self.shape)

    def astype(self, dtype, *a, **k):
        return self


class _Shim(T.ShimNP):
    def asarray(self, x, dtype=None):
        if T._has_sym(x):
            a = x if isinstance(x, np.ndarray) else self.array(x)
            return a.view(_SymArr)
        return np.asarray(x, dtype=dtype)

    def imag(self, x):
        if T._has_sym(x):
            return np.zeros(np.shape(x))
        return np.imag(x)

    def real(self, x):
        if T._has_sym(x):
            return x
        return np.real(x)

    def sqrt(self, x):
        # np.sqrt(3) of an integer literal stays symbolic (sqrt 3), it is not replaced by its float value
        if not T._has_sym(x) and isinstance(x, (int, float)) and float(x) == int(x) and x >= 0:
            return T.Sym.const(int(x)).sqrt()
        return super().sqrt(x)


LS_VARS = ["c0", "c1", "c2", "c3", "c4", "c5", "gamma", "mu", "sgn", "a"]
LS_FUNS = [("l2sCol", "_local2synodic_collinear"), ("s2lCol", "_synodic2local_collinear"),
           ("l2sTri", "_local2synodic_triangular"), ("s2lTri", "_synodic2local_triangular")]


def _fake_point(gamma, mu, sgn, a):
    return types.SimpleNamespace(mu=T.Sym.var("mu", mu),
                                 dynamics=types.SimpleNamespace(gamma=T.Sym.var("gamma", gamma), sign=T.Sym.var("sgn", sgn),
                                                                a=T.Sym.var("a", a)))


def trace_local_synodic():
    from hiten.algorithms.hamiltonian import transforms as TR
    T.reset()
    out = {}
    pt = _fake_point(0.15, 0.0121505856, -1.0, -0.85)
    c = T.symarray([T.Sym.var("c%d" % i, 0.1 * (i + 1) - 0.25) for i in range(6)])
    for lname, pname in LS_FUNS:
        f = T.retarget(getattr(TR, pname), shim=_Shim())
        res = f(pt, c.copy())
        out[lname] = [T.Sym.lift(v) for v in res]
    out["_path"] = list(T.CTX.path)
    return out


# ---------------------------------------------------------------------------------------------------------------
# tables
# ---------------------------------------------------------------------------------------------------------------

def half_float():
    return float(1.0 / np.sqrt(2.0))


def _part(x):
    """(a, b) with x = a + b*h exactly (h = float 1/sqrt2), else the exact rational of the float"""
    x = float(x)
    h = half_float()
    if x == 0.0:
        return (Fraction(0), Fraction(0)), True
    if abs(x) == 1.0:
        return (Fraction(int(x)), Fraction(0)), True
    if abs(x) == h:
        return (Fraction(0), Fraction(1 if x > 0 else -1)), True
    return (Fraction(x), Fraction(0)), False


def _rat(q):
    q = Fraction(q)
    if q.denominator == 1:
        return "(%d : Rat)" % q.numerator if q.numerator >= 0 else "(-%d : Rat)" % (-q.numerator)
    return "((%d : Rat) / %d)" % (q.numerator, q.denominator)


def q4_of_complex(z):
    (a, b), ok1 = _part(np.real(z))
    (c, d), ok2 = _part(np.imag(z))
    return (a, b, c, d), ok1 and ok2


def emit_qmat(name, M):
    rows = []
    allok = True
    for i in range(M.shape[0]):
        ents = []
        for j in range(M.shape[1]):
            q, ok = q4_of_complex(M[i, j])
            allok = allok and ok
            if all(v.denominator == 1 for v in q):
                ents.append("Q4.q %s" % " ".join("%d" % v if v >= 0 else "(%d)" % v for v in q))
            else:
                ents.append("Q4.mk4 %s %s %s %s" % tuple(_rat(v) for v in q))
        rows.append("[" + ", ".join(ents) + "]")
    return "def %s : QMat := [\n  %s]\n" % (name, ",\n  ".join(rows)), allok


def registry_tables():
    from hiten.algorithms.types.services import get_hamiltonian_services
    import hiten.algorithms.hamiltonian.wrappers  # noqa: F401  (registers the edges)
    reg = get_hamiltonian_services()
    items = list(reg._CONVERSION_REGISTRY.items())
    forms = []
    for (s, d), _ in items:
        for f in (s, d):
            if f not in forms:
                forms.append(f)
    keys = ["point", "_pipeline"]
    for _, (_, ctxl, _) in items:
        for k in (ctxl or []):
            if k not in keys:
                keys.append(k)
    conv = list(reg.conversion._registry.keys())
    for (s, d) in conv:
        for f in (s, d):
            if f not in forms:
                forms.append(f)
    return reg, items, forms, keys, conv


class Recorder:
    """wraps the building blocks the conversion wrappers call; records what one conversion does"""

    def __init__(self):
        self.calls = []

    def install(self):
        from hiten.algorithms.hamiltonian import transforms as TR, wrappers as W
        self._saved = [(TR, "_substitute_linear", TR._substitute_linear),
                       (W, "_lie_transform_partial", W._lie_transform_partial),
                       (W, "_lie_transform_full", W._lie_transform_full),
                       (W, "_restrict_poly_to_center_manifold", W._restrict_poly_to_center_manifold)]
        rec = self

        def mk(tag, fn):
            def wrapped(*a, **k):
                if tag == "lin":
                    rec.calls.append(("lin", np.array(a[1], dtype=np.complex128)))
                else:
                    rec.calls.append((tag,))
                return fn(*a, **k)
            return wrapped

        for (mod, name, fn), tag in zip(self._saved, ["lin", "liePartial", "lieFull", "restrictCM"]):
            setattr(mod, name, mk(tag, fn))

    def restore(self):
        for mod, name, fn in self._saved:
            setattr(mod, name, fn)


def classify_matrix(A, point):
    from hiten.algorithms.hamiltonian import transforms as TR
    cands = [("M12", TR._M((1, 2))), ("Minv12", TR._M_inv((1, 2))), ("M012", TR._M((0, 1, 2))), ("Minv012", TR._M_inv((0, 1, 2)))]
    C, Cinv = point.normal_form_transform
    cands += [("C", np.asarray(C, dtype=np.complex128)), ("Cinv", np.asarray(Cinv, dtype=np.complex128))]
    for name, B in cands:
        if A.shape == B.shape and np.array_equal(A, B):
            return name
    return "other"


_SYS = {}


def system(name="earth-moon"):
    from hiten import System
    if name not in _SYS:
        a, b = name.split("-")
        _SYS[name] = System.from_bodies(a, b)
    return _SYS[name]


_PIPES = {}


def pipeline(sysname, idx, deg):
    from hiten.algorithms.hamiltonian.pipeline import HamiltonianPipeline
    key = (sysname, idx, deg)
    if key not in _PIPES:
        _PIPES[key] = HamiltonianPipeline(system(sysname).get_libration_point(idx), deg)
    return _PIPES[key]


def record_edge_ops(ctx, items, idx):
    """Execute every registry edge on a degree-3 pipeline of libration point `idx`; return [(op string, detail)]."""
    from hiten.algorithms.types.services import get_hamiltonian_services
    from hiten.system.hamiltonian import Hamiltonian
    reg = get_hamiltonian_services()
    pipe = pipeline("earth-moon", idx, 3)
    point = pipe.point
    ops = []
    for (s, d), (fn, ctxl, defaults) in items:
        rec = Recorder()
        op = "unknown"
        try:
            src = pipe.get_hamiltonian(s)
            rec.install()
            try:
                res = reg.conversion.convert(src, d, point=point)
            finally:
                rec.restore()
            ham = res[0] if isinstance(res, tuple) else res
            if not isinstance(ham, Hamiltonian) or ham.name != d:
                _viol(ctx, "edge-lands-elsewhere:%s->%s" % (s, d),
                              "conversion %s -> %s returns %r (name %r)" % (s, d, type(ham).__name__, getattr(ham, "name", None)),
                              {"edge": [s, d], "point": "earth-moon L%d" % idx, "degree": 3})
            kinds = [c[0] for c in rec.calls]
            if kinds == ["lin"]:
                op = "lin " + classify_matrix(rec.calls[0][1], point)
            elif kinds in (["liePartial"], ["lieFull"], ["restrictCM"]):
                op = kinds[0]
            else:
                op = "unknown"
                ctx.log("edge %s->%s on L%d: unrecognised call pattern %r" % (s, d, idx, kinds))
        except Exception as ex:  # executability is checked (and reported with a replay) in run_edges
            ctx.log("edge %s->%s on L%d raised %r while recording" % (s, d, idx, ex))
        ops.append(op)
    return ops


def lean_op(op):
    if op.startswith("lin "):
        return "Op.lin MatId.%s" % op.split()[1]
    return "Op." + op


def gen(ctx):
    from hiten.algorithms.hamiltonian import transforms as TR
    reg, items, forms, keys, conv = registry_tables()
    fid = {f: i for i, f in enumerate(forms)}
    kid = {k: i for i, k in enumerate(keys)}
    txt = E.header("C18", imports=("HitenModel.Core.RE", "HitenModel.Core.C18"),
                   note="registry tables, complexification matrices, traced local<->synodic maps, recorded edge operations")
    txt += "open HitenModel.C18 RE\n\n"
    txt += "/-- %s -/\ndef formNames : List String := [%s]\n" % (FORMS_DOC, ", ".join('"%s"' % f for f in forms))
    txt += "def ctxKeys : List String := [%s]\n" % ", ".join('"%s"' % k for k in keys)
    txt += "def physical : Nat := %d\n" % fid.get("physical", len(forms))
    txt += "def nForms : Nat := %d\n" % len(forms)
    txt += "/-- `_CONVERSION_REGISTRY.items()` in insertion order -/\ndef registry : List Edge := [\n  %s]\n" % ",\n  ".join(
        "⟨%d, %d, [%s]⟩" % (fid[s], fid[d], ", ".join(str(kid[k]) for k in (c or []))) for (s, d), (_, c, _) in items)
    txt += "/-- keys of the conversion service's own table (`registry.conversion._registry`) -/\n"
    txt += "def convService : List (Nat × Nat) := [%s]\n" % ", ".join("(%d, %d)" % (fid[s], fid[d]) for (s, d) in conv)
    txt += "def edgeFunctions : List String := [%s]\n" % ", ".join('"%s"' % fn.__name__ for _, (fn, _, _) in items)
    txt += "def edgeDefaults : List String := [%s]\n" % ", ".join(
        '"%s"' % ",".join("%s=%r" % kv for kv in sorted((dflt or {}).items())) for _, (_, _, dflt) in items)
    # recorded operations
    ops_col = record_edge_ops(ctx, items, 1)
    ops_tri = record_edge_ops(ctx, items, 4)
    txt += "/-- what each edge did on a collinear point (EM L1, degree 3), in registry order -/\n"
    txt += "def opsCollinear : List Op := [%s]\n" % ", ".join(lean_op(o) for o in ops_col)
    txt += "/-- what each edge did on a triangular point (EM L4, degree 3), in registry order -/\n"
    txt += "def opsTriangular : List Op := [%s]\n" % ", ".join(lean_op(o) for o in ops_tri)
    ctx.extra["edge_ops"] = {"%s->%s" % k: [a, b] for (k, _), a, b in zip(items, ops_col, ops_tri)}
    # complexification matrices
    recog = True
    for tag, mp in MIXES.items():
        for nm, fn in (("M", TR._M), ("Minv", TR._M_inv)):
            t, ok = emit_qmat("%s%s" % (nm, tag), np.asarray(fn(mp), dtype=np.complex128))
            recog = recog and ok
            txt += t
    ctx.extra["M_entries_recognised_exactly"] = recog
    # traced point maps
    tr = trace_local_synodic()
    vidx = {n: i for i, n in enumerate(LS_VARS)}
    for lname, _ in LS_FUNS:
        txt += E.re_fun(lname, tr[lname], vidx)
    ctx.extra["local_synodic_path_conditions"] = [(op, T.show(a, 60), T.show(b, 60), o) for op, a, b, o in tr["_path"]][:10]
    txt += E.footer("C18")
    ctx.write_gen("HitenModel.Gen.C18", txt)
    return {"items": items, "forms": forms, "keys": keys, "conv": conv, "trace": tr, "ops": (ops_col, ops_tri)}


def _viol(ctx, key, what, replay):
    """one violation per key (the first input that shows it)"""
    seen = ctx.__dict__.setdefault("_c18_seen", set())
    if key in seen:
        return
    seen.add(key)
    ctx.violation(key, what, replay)


def replay(ctx, rec):
    """re-run the part of the search that produced the recorded violation (same system / point / degree when recorded)"""
    g = gen(ctx)
    ctx.lean_build(PROP_MODS)
    r = rec.get("replay", {})
    if "system" in r and "degree" in r and "edge" in r:
        run_edges(ctx, g, plan=[(r["system"], int(str(r["point"]).lstrip("L")), int(r["degree"]))])
    else:
        for phase in (lambda c: run_edges(c, g), random_polys, pointwise_maps):
            phase(ctx)


def run(ctx):
    g = ctx.guard("regenerate", gen, ctx)
    ok = ctx.lean_build(PROP_MODS)
    if ok:
        ctx.lean_audit(PROP_MODS, SRC_MODS)
        if ctx.thorough():
            ctx.leanchecker(PROP_MODS)
    for phase in (corr_substitute, lambda c: corr_pipeline(c, g), lambda c: validate_traces(c, g), lambda c: run_edges(c, g),
                  lambda c: option_history(c, g), random_polys, pointwise_maps):
        ctx.guard(getattr(phase, "__name__", "g-phase"), phase, ctx)
        ctx.log("phase done: %s" % getattr(phase, "__name__", "g-phase"))
    ctx.rule = ("substitution correspondence: seeded sparse Gaussian-integer 6x6 matrices x integer/Gaussian polynomials of degree <= 4 "
                "(non-trivial: >= 2 terms and a matrix row with >= 2 entries); pipeline histories: seeded get_hamiltonian sequences on the live "
                "registry and on random registries (non-trivial: a multi-step path or an error); real pipelines: all registry edges x "
                "(system, libration point, degree) (non-trivial: the conversion changes the polynomial); random polynomials x the four "
                "linear changes x degrees 2..8; point maps at random coordinates for L1..L5 of several systems; distinct by rounded input")


# ---------------------------------------------------------------------------------------------------------------
# helpers: packed polynomials <-> dicts
# ---------------------------------------------------------------------------------------------------------------

def poly_to_dict(poly, deg_max=None):
    from hiten.algorithms.polynomial.base import _decode_multiindex
    import polyutil
    out = {}
    n = len(poly) - 1
    psi, clmo, enc = polyutil.tables(n)
    for deg, block in enumerate(poly):
        blk = np.asarray(block)
        for pos in np.nonzero(blk)[0]:
            k = tuple(int(v) for v in _decode_multiindex(int(pos), deg, clmo))
            out[k] = complex(blk[pos])
    return out


def poly_eval(poly, x):
    from hiten.algorithms.polynomial.operations import _polynomial_evaluate
    import polyutil
    psi, clmo, enc = polyutil.tables(len(poly) - 1)
    return complex(_polynomial_evaluate(poly, np.asarray(x, dtype=np.complex128), clmo))


def poly_maxabs(poly):
    return max([float(np.max(np.abs(b))) for b in poly if len(b)] + [0.0])


def poly_diff(p, q):
    return max([float(np.max(np.abs(np.asarray(a) - np.asarray(b)))) for a, b in zip(p, q) if len(a)] + [0.0])


def fr(x):
    q = Fraction(x)
    return "%d" % q.numerator if q.denominator == 1 else "%d/%d" % (q.numerator, q.denominator)


def q4s(z):
    z = complex(z)
    return "%s,0,%s,0" % (fr(z.real), fr(z.imag))


def parse_q4(s):
    a, b, c, d = [Fraction(v) for v in s.split(",")]
    return a, b, c, d


def q4_float(q):
    h = 1.0 / math.sqrt(2.0)
    a, b, c, d = q
    return complex(float(a) + float(b) * h, float(c) + float(d) * h)


def parse_poly_line(line):
    assert line.startswith("poly"), line
    out = {}
    for w in line.split()[1:]:
        c, k = w.split(":")
        out[tuple(int(v) for v in k.split("."))] = parse_q4(c)
    return out


# ---------------------------------------------------------------------------------------------------------------
# correspondence 1: substitution / coordinates / evaluation, model over Q(1/sqrt2)[i] vs the real kernels
# ---------------------------------------------------------------------------------------------------------------

def _rand_gauss(rng, p_im=0.3, lo=-2, hi=2):
    re = rng.randint(lo, hi)
    im = rng.randint(-1, 1) if rng.random() < p_im else 0
    return complex(re, im)


def _rand_matrix(rng):
    A = np.zeros((6, 6), dtype=np.complex128)
    for i in range(6):
        nz = rng.choice([0, 1, 1, 2, 2, 3])
        for j in rng.sample(range(6), nz):
            v = 0
            while v == 0:
                v = _rand_gauss(rng)
            A[i, j] = v
    return A


def _rand_poly_dict(rng, max_deg, nterms, gaussian=True, lo=-3, hi=3):
    d = {}
    for _ in range(nterms):
        deg = rng.randint(0, max_deg)
        k = [0] * 6
        for _ in range(deg):
            k[rng.randrange(6)] += 1
        c = 0
        while c == 0:
            c = _rand_gauss(rng, 0.3 if gaussian else 0.0, lo, hi)
        d[tuple(k)] = d.get(tuple(k), 0) + c
    return {k: c for k, c in d.items() if c != 0}


def _poly_line(name, d):
    return "poly %s %s" % (name, " ".join("%s:%s" % (q4s(c), ".".join(str(v) for v in k)) for k, c in d.items()))


def _mat_line(name, A):
    return "mat %s %s" % (name, " ".join(q4s(A[i, j]) for i in range(6) for j in range(6)))


def _cmp_poly(model, real, exact, tol=1e-13):
    """model: {k: q4}; real: {k: complex}. Returns None or a message."""
    keys = set(model) | set(real)
    for k in sorted(keys):
        m = model.get(k, (0, 0, 0, 0))
        r = real.get(k, 0j)
        if exact:
            if m[1] != 0 or m[3] != 0 or Fraction(r.real) != m[0] or Fraction(r.imag) != m[2]:
                return "coefficient of x^%s: model %s, implementation %r" % (list(k), [str(v) for v in m], r)
        else:
            if abs(q4_float(m) - r) > tol * (1 + abs(r)):
                return "coefficient of x^%s: model %r, implementation %r" % (list(k), q4_float(m), r)
    return None


def corr_substitute(ctx):
    import polyutil
    from hiten.algorithms.polynomial.operations import _polynomial_clean, _substitute_linear
    from hiten.algorithms.polynomial.coordinates import _substitute_coordinates
    from hiten.algorithms.hamiltonian import transforms as TR
    rng = ctx.rng
    n = 200 if ctx.thorough() else 30
    lines, checks = [], []
    name = "correspondence:substitute-linear"
    for c in range(n):
        max_deg = rng.choice([2, 3, 3, 4])
        A = _rand_matrix(rng)
        d = _rand_poly_dict(rng, max_deg, rng.randint(1, 4))
        if not d:
            continue
        psi, clmo, enc = polyutil.tables(max_deg)
        P = polyutil.poly_from_dict(d, max_deg)
        real = poly_to_dict(_substitute_linear(P, A, max_deg, psi, clmo, enc))
        lines += [_mat_line("A", A), _poly_line("p", d), "subst p A"]
        checks.append(("poly", real, True, {"matrix": [[str(v) for v in r] for r in A.tolist()], "poly": {str(k): str(v) for k, v in d.items()}, "max_deg": max_deg}))
        nontriv = len(d) >= 2 and any(np.count_nonzero(A[i]) >= 2 for i in range(6))
        ctx.case(("subst", c, max_deg, len(d)), nontrivial=nontriv, kind="subst-linear:deg%d" % max_deg)
        # second substitution (composition) with another matrix
        if c % 3 == 0:
            B = _rand_matrix(rng)
            real2 = poly_to_dict(_substitute_linear(_substitute_linear(P, A, max_deg, psi, clmo, enc), B, max_deg, psi, clmo, enc))
            lines += [_mat_line("B", B), "subst2 p A B"]
            checks.append(("poly", real2, True, {"composition": True}))
        # the whole linear conversion: substitute, clean with a tolerance that bites (ties |c| == tol included)
        tolc = rng.choice([1, 1, 2, 2, Fraction(5, 2), 4])
        realc = poly_to_dict(_polynomial_clean(_substitute_linear(P, A, max_deg, psi, clmo, enc), float(tolc)))
        lines.append("convert p A %s" % fr(tolc))
        checks.append(("poly", realc, True, {"convert_tol": str(tolc), "matrix": [[str(v) for v in r] for r in A.tolist()],
                                             "poly": {str(k): str(v) for k, v in d.items()}}))
        ctx.hist["convert:cleaned-something"] = ctx.hist.get("convert:cleaned-something", 0) + (1 if len(realc) < len(real) else 0)
        # coordinates and evaluation at a Gaussian-integer point
        x = np.array([_rand_gauss(rng, 0.4) for _ in range(6)], dtype=np.complex128)
        lines.append("apply A " + " ".join(q4s(v) for v in x))
        checks.append(("vec", _substitute_coordinates(x, A), True, {}))
        lines.append("eval p " + " ".join(q4s(v) for v in x))
        checks.append(("val", poly_eval(P, x), True, {}))
        # the live complexification matrices (irrational entries: compared to 1e-13)
        if c % 2 == 0:
            tag = rng.choice(["12", "012"])
            mp = MIXES[tag]
            dr = _rand_poly_dict(rng, max_deg, rng.randint(1, 3), gaussian=False)
            if dr:
                Pr = polyutil.poly_from_dict(dr, max_deg)
                rc = TR._substitute_complex(Pr, max_deg, psi, clmo, tol=1e-14, mix_pairs=mp)
                lines += ["gmat M M" + tag, "gmat N Minv" + tag, _poly_line("r", dr), "subst r M", "subst2 r M N"]
                checks.append(("poly", poly_to_dict(rc), False, {"fn": "_substitute_complex", "mix": tag}))
                back = TR._substitute_real(rc, max_deg, psi, clmo, tol=1e-14, mix_pairs=mp)
                checks.append(("poly", poly_to_dict(back), False, {"fn": "_substitute_real o _substitute_complex", "mix": tag}))
                raw = poly_to_dict(rc)
                tolm = rng.choice([0.3, 0.75, 1.2])
                if raw and min(abs(abs(v) - tolm) for v in raw.values()) > 1e-6:
                    rcl = TR._substitute_complex(Pr, max_deg, psi, clmo, tol=tolm, mix_pairs=mp)
                    lines.append("convert r M %s" % fr(tolm))
                    checks.append(("poly", poly_to_dict(rcl), False, {"fn": "_substitute_complex", "tol": tolm, "mix": tag}))
                xr = np.array([_rand_gauss(rng, 0.5) for _ in range(6)], dtype=np.complex128)
                lines.append("apply N " + " ".join(q4s(v) for v in xr))
                checks.append(("vec", TR._solve_complex(xr, mix_pairs=mp), False, {"fn": "_solve_complex"}))
                lines.append("apply M " + " ".join(q4s(v) for v in xr))
                checks.append(("vec", TR._solve_real(xr, mix_pairs=mp), False, {"fn": "_solve_real"}))
                ctx.case(("substM", c, tag), kind="subst-M" + tag)
    out = [l for l in ctx.lean_run("Drivers/C18.lean", "\n".join(lines) + "\n") if l.strip()]
    bad = 0
    if len(out) != len(checks):
        ctx.broken.append((name, "driver returned %d lines for %d requests: %r" % (len(out), len(checks), out[:3])))
        ctx.obligations[name] = False
        return
    for line, (kind, real, exact, info) in zip(out, checks):
        msg = None
        if kind == "poly":
            msg = _cmp_poly(parse_poly_line(line), real, exact)
        elif kind == "vec":
            mv = [parse_q4(w) for w in line.split()[1:]]
            for i, (m, r) in enumerate(zip(mv, np.asarray(real))):
                r = complex(r)
                okv = (m[1] == 0 and m[3] == 0 and Fraction(r.real) == m[0] and Fraction(r.imag) == m[2]) if exact else abs(q4_float(m) - r) <= 1e-13 * (1 + abs(r))
                if not okv:
                    msg = "component %d: model %s implementation %r" % (i, [str(v) for v in m], r)
                    break
        else:
            m = parse_q4(line.split()[1])
            r = complex(real)
            if not (m[1] == 0 and m[3] == 0 and Fraction(r.real) == m[0] and Fraction(r.imag) == m[2]):
                msg = "value: model %s implementation %r" % ([str(v) for v in m], r)
        ctx.corr_cases += 1
        if msg:
            bad += 1
            if bad <= 3:
                ctx.broken.append((name, "model and implementation differ (%s): %s; input %r" % (kind, msg, info)))
            ctx.obligations[name] = False
    if not bad:
        ctx.obligations[name] = True
    ctx.extra["substitute_correspondence_checks"] = len(checks)


# ---------------------------------------------------------------------------------------------------------------
# correspondence 2: HamiltonianPipeline.get_hamiltonian histories (path search, cache, errors) vs `getHam`
# ---------------------------------------------------------------------------------------------------------------

class _FakeHam:
    """stands for a Hamiltonian in the pipeline-control-flow correspondence (only `name`/`to_state` are used)"""

    def __init__(self, name):
        self.name = name

    def to_state(self, target, **kw):
        from hiten.algorithms.types.services import get_hamiltonian_services
        return get_hamiltonian_services().conversion.convert(self, target, **kw)


class _StubRegistry:
    """temporarily replaces the contents of both registry tables by recording stub converters"""

    def __init__(self, edges, log):
        self.edges = edges    # [(src, dst, ctx list)]
        self.log = log

    def __enter__(self):
        from hiten.algorithms.types.services import get_hamiltonian_services
        reg = get_hamiltonian_services()
        self.reg = reg
        conv = reg.conversion
        self.saved = (dict(reg._CONVERSION_REGISTRY), dict(conv._registry))
        reg._CONVERSION_REGISTRY.clear()
        conv._registry.clear()
        for (s, d, c) in self.edges:
            def mk(s=s, d=d):
                def stub(ham, **kw):
                    self.log.append((s, d))
                    return _FakeHam(d)
                return stub
            fn = mk()
            reg._CONVERSION_REGISTRY[(s, d)] = (fn, list(c), {})
            conv._registry[(s, d)] = (fn, list(c), {})
        return self

    def __exit__(self, *a):
        reg = self.reg
        reg._CONVERSION_REGISTRY.clear()
        reg._CONVERSION_REGISTRY.update(self.saved[0])
        reg.conversion._registry.clear()
        reg.conversion._registry.update(self.saved[1])


def _history_cases(ctx, g):
    rng = ctx.rng
    forms = list(g["forms"])
    live = [(s, d, list(c or [])) for (s, d), (_, c, _) in g["items"]]
    cases = []
    # the live registry: every single target from a fresh pipeline, and random histories
    for t in forms:
        cases.append((forms, live, [t]))
    for _ in range(150 if ctx.thorough() else 20):
        cases.append((forms, live, [rng.choice(forms) for _ in range(rng.randint(2, 5))]))
    # random registries (other graphs, odd context lists)
    for _ in range(300 if ctx.thorough() else 40):
        n = rng.randint(3, 7)
        fs = ["physical"] + ["f%d" % i for i in range(1, n)]
        if rng.random() < 0.15:
            fs = fs[1:] + ["physical"]
        edges = []
        for _ in range(rng.randint(n - 1, 2 * n)):
            s, d = rng.sample(fs, 2)
            if any(e[0] == s and e[1] == d for e in edges):
                continue
            r = rng.random()
            c = ["point"] if r < 0.6 else [] if r < 0.75 else ["point", "_pipeline"] if r < 0.85 else ["extra"] if r < 0.93 else ["point", "extra"]
            edges.append((s, d, c))
        cases.append((fs, edges, [rng.choice(fs) for _ in range(rng.randint(1, 4))]))
    return cases


def live_path_search(ctx, g, point):
    """failing-input search for the path-search clause, independent of the Lean model: on the live registry the path
    `_follow_conversion_path` executes must be a chain of registered edges from source to target of minimal length, and
    it may give up only when the target is unreachable (plain Python BFS as the oracle)."""
    from hiten.algorithms.hamiltonian.pipeline import HamiltonianPipeline
    forms = list(g["forms"])
    live = [(s, d, list(c or [])) for (s, d), (_, c, _) in g["items"]]
    usable = {(s, d) for s, d, c in live if (not c or "point" in c)}

    def dist(s):
        dd = {s: 0}
        frontier = [s]
        while frontier:
            nxt = []
            for a in frontier:
                for (x, y) in usable:
                    if x == a and y not in dd:
                        dd[y] = dd[a] + 1
                        nxt.append(y)
            frontier = nxt
        return dd

    log = []
    with _StubRegistry(live, log):
        for s in forms:
            dd = dist(s)
            for t in forms:
                if s == t:
                    continue
                del log[:]
                p2 = HamiltonianPipeline(point, 2)
                p2._hamiltonian_cache[s] = _FakeHam(s)
                try:
                    p2._follow_conversion_path(s, t)
                    got = list(log)
                except NotImplementedError:
                    got = None
                except Exception as ex:
                    got = repr(ex)
                ctx.case(("livepath", s, t), nontrivial=got is not None and len(got) >= 2, kind="live-path")
                bad = None
                if got is None:
                    if t in dd:
                        bad = "gives up (NotImplementedError) although %s is reachable in %d steps" % (t, dd[t])
                elif isinstance(got, str):
                    bad = "raises " + got
                else:
                    chain = all(e in usable for e in got) and got[0][0] == s and got[-1][1] == t and all(a[1] == b[0] for a, b in zip(got, got[1:]))
                    if not chain:
                        bad = "executes %r, not a chain of registered conversions from %s to %s" % (got, s, t)
                    elif len(got) != dd.get(t):
                        bad = "executes %d conversions %r, the shortest path has %r" % (len(got), got, dd.get(t))
                if bad:
                    _viol(ctx, "path-search:%s->%s" % (s, t), "_follow_conversion_path(%r, %r) %s" % (s, t, bad),
                          {"start": s, "target": t, "executed": got, "registry": [[a, b, c] for a, b, c in live]})
                    return


def corr_pipeline(ctx, g):
    from hiten.algorithms.hamiltonian.pipeline import HamiltonianPipeline
    name = "correspondence:pipeline-path-search"
    point = system().get_libration_point(1)
    keyid = {"point": 0, "_pipeline": 1, "extra": 2}
    lines, expect, infos = [], [], []
    for forms, edges, hist in _history_cases(ctx, g):
        fid = {f: i for i, f in enumerate(forms)}
        for f in {x for e in edges for x in e[:2]}:
            fid.setdefault(f, len(fid))
        lines.append("reg " + " ".join("%d,%d,%s" % (fid[s], fid[d], ".".join(str(keyid.get(k, 2)) for k in c)) for s, d, c in edges))
        log = []
        with _StubRegistry(edges, log):
            pipe = HamiltonianPipeline(point, 2)
            pipe._build_physical_hamiltonian = lambda: _FakeHam("physical")
            multi = False
            for t in hist:
                cache_before = list(pipe._hamiltonian_cache.keys())
                del log[:]
                try:
                    h = pipe.get_hamiltonian(t)
                    if h.name != t:
                        res = "wrongname %s" % h.name
                    else:
                        res = "ok %s|%s" % (" ".join(str(fid[f]) for f in pipe._hamiltonian_cache.keys()),
                                            " ".join("%d>%d" % (fid[a], fid[b]) for a, b in log))
                except NotImplementedError:
                    res = "notimpl"
                except ValueError as ex:
                    res = "missingctx" if "Missing required context" in str(ex) else "valueerror %s" % ex
                lines.append("get %d %d %s" % (fid["physical"], fid[t], " ".join(str(fid[f]) for f in cache_before)))
                expect.append(res)
                rk = "get:" + (res.split()[0] if not res.startswith("ok") else "ok-%s" % ("cached" if not log and t in cache_before else "multi-step" if len(log) >= 2 else "one-step"))
                ctx.hist[rk] = ctx.hist.get(rk, 0) + 1
                infos.append({"forms": forms, "edges": edges, "history": hist, "target": t, "cache_before": cache_before})
                multi = multi or len(log) >= 2 or not res.startswith("ok")
                if not res.startswith("ok"):
                    break
            # the BFS itself, for every ordered pair (NotImplementedError <-> none, executed path)
            if len(forms) <= 9 and ctx.rng.random() < 0.5:
                for s in forms:
                    for t in forms:
                        if s == t:
                            continue
                        del log[:]
                        p2 = HamiltonianPipeline(point, 2)
                        p2._hamiltonian_cache[s] = _FakeHam(s)
                        try:
                            p2._follow_conversion_path(s, t)
                            res = "path " + " ".join([str(fid[s])] + [str(fid[b]) for a, b in log])
                        except NotImplementedError:
                            res = "path none"
                        except ValueError:
                            res = None  # an edge with an unsatisfiable context on the path: covered by the get histories
                        if res is not None:
                            lines.append("path %d %d" % (fid[s], fid[t]))
                            expect.append(res)
                            infos.append({"forms": forms, "edges": edges, "follow_conversion_path": [s, t]})
            ctx.case(("hist", tuple(forms), tuple((s, d, tuple(c)) for s, d, c in edges), tuple(hist)), nontrivial=multi,
                     kind="history:live" if "real_modal" in forms else "history:random-registry",
                     sample={"edges": edges, "history": hist} if len(ctx.samples) < 4 else None)
    live_path_search(ctx, g, point)
    out = [l for l in ctx.lean_run("Drivers/C18.lean", "\n".join(lines) + "\n") if l.strip()]
    if len(out) != len(expect):
        ctx.broken.append((name, "driver returned %d lines for %d requests" % (len(out), len(expect))))
        ctx.obligations[name] = False
        return
    bad = 0
    for m, e, info in zip(out, expect, infos):
        ctx.corr_cases += 1
        mm = m.strip()
        if mm.startswith("missingctx"):
            mm = "missingctx"
        if mm != e.strip():
            bad += 1
            if bad <= 3:
                ctx.broken.append((name, "model %r, implementation %r on %r" % (m, e, info)))
            ctx.obligations[name] = False
    if not bad:
        ctx.obligations[name] = True
    ctx.extra["pipeline_correspondence_checks"] = len(expect)


# ---------------------------------------------------------------------------------------------------------------
# translation validation of the traced point maps
# ---------------------------------------------------------------------------------------------------------------

POINT_SETS_QUICK = [("earth-moon", i) for i in (1, 2, 3, 4, 5)] + [("sun-earth", 1), ("sun-earth", 2)]
POINT_SETS_THOROUGH = POINT_SETS_QUICK + [("sun-jupiter", i) for i in (1, 2, 3, 4, 5)] + [("sun-earth", 3), ("sun-earth", 5)]


def _point_env(point):
    d = point.dynamics
    env = {"mu": float(point.mu), "sgn": float(d.sign), "a": float(d.a)}
    try:
        env["gamma"] = float(d.gamma)
    except Exception:
        env["gamma"] = 1.0
    return env


def validate_traces(ctx, g):
    from hiten.algorithms.hamiltonian import transforms as TR
    from hiten.system.libration.collinear import CollinearPoint
    tr = g["trace"]
    worst = 0.0
    for sysname, idx in (POINT_SETS_THOROUGH if ctx.thorough() else POINT_SETS_QUICK):
        point = system(sysname).get_libration_point(idx)
        col = isinstance(point, CollinearPoint)
        env0 = _point_env(point)
        for rep in range(12):
            x = np.array([ctx.rng.uniform(-1, 1) for _ in range(6)])
            env = dict(env0)
            env.update({"c%d" % i: float(x[i]) for i in range(6)})
            for lname, pname in LS_FUNS:
                if ("Col" in lname) != col:
                    continue
                real = getattr(TR, pname)(point, x)
                model = np.array([T.evalf(e, env) for e in tr[lname]])
                err = float(np.max(np.abs(model - real) / (1.0 + np.abs(real))))
                worst = max(worst, err)
                ctx.traces_validated += 1
                if not err <= 1e-12:
                    ctx.broken.append(("trace-validation:" + pname, "traced map and real function differ by %g at %s L%d, coords %r" % (err, sysname, idx, x.tolist())))
                    ctx.obligations["trace-validation:" + pname] = False
                    return
    ctx.obligations["trace-validation:local-synodic"] = True
    ctx.extra["trace_validation_worst_rel_err"] = worst
    # the exported matrices mean what the model says: h*h = 1/2 up to one rounding, exported == live
    h = half_float()
    if not abs(h * h - 0.5) <= 2.3e-16:
        ctx.broken.append(("table-validation:half", "1/np.sqrt(2.0) = %r is not 1/sqrt 2" % h))
        ctx.obligations["table-validation:half"] = False


# ---------------------------------------------------------------------------------------------------------------
# real pipelines: every edge runs, two-way edges are inverse, polynomial change == coordinate change
# ---------------------------------------------------------------------------------------------------------------

def _coord_map(op, point, mix):
    """the library's own point-wise map that corresponds to the polynomial operation `op` (new coords -> old coords)"""
    from hiten.algorithms.hamiltonian import transforms as TR
    if op == "lin C":
        return lambda x: TR._coordrealmodal2local(point, x)
    if op == "lin Cinv":
        return lambda x: TR._coordlocal2realmodal(point, x)
    if op in ("lin M12", "lin M012"):
        return lambda x: TR._solve_real(x, mix_pairs=mix)
    if op in ("lin Minv12", "lin Minv012"):
        return lambda x: TR._solve_complex(x, mix_pairs=mix)
    return None


def _abs_scale(poly, x):
    """sum |c_k| |x^k| : the natural scale of rounding / cleaning errors of an evaluation"""
    ax = np.abs(np.asarray(x)).astype(np.complex128)
    absp = _abs_poly(poly)
    return abs(poly_eval(absp, ax))


def _abs_poly(poly):
    from numba.typed import List
    out = List()
    for b in poly:
        out.append(np.abs(np.asarray(b)).astype(np.complex128))
    return out


def _rand_point(rng, complex_=True, r=0.4):
    if complex_:
        return np.array([complex(rng.uniform(-r, r), rng.uniform(-r, r)) for _ in range(6)])
    return np.array([complex(rng.uniform(-r, r), 0.0) for _ in range(6)])


def option_history(ctx, g):
    """A conversion called once with an explicit option must not change what later default calls of the same edge do: the
    registry's per-edge defaults are shared state of the session.  For every edge that registers a default `tol`, on one pipeline:
    default call, call with tol=1e-2, default call again -> the two default results are bitwise equal and the registered defaults
    are what they were."""
    import copy
    from hiten.algorithms.types.services import get_hamiltonian_services
    reg = get_hamiltonian_services()
    items = g["items"]
    for sysname, idx, deg in (("earth-moon", 1, 5), ("earth-moon", 4, 4)):
        pipe = pipeline(sysname, idx, deg)
        point = pipe.point
        where = {"system": sysname, "point": "L%d" % idx, "degree": deg}
        for (s, d), (fn, ctxl, dflt) in items:
            if "tol" not in (dflt or {}):
                continue
            ekey = "%s->%s" % (s, d)
            before = copy.deepcopy({k: v[2] for k, v in reg._CONVERSION_REGISTRY.items()})
            try:
                src = pipe.get_hamiltonian(s)
                first = src.to_state(d, point=point)
                loose = src.to_state(d, point=point, tol=1e-2)
                again = src.to_state(d, point=point)
            except Exception as ex:
                continue   # executability is reported by run_edges
            first, loose, again = [(r[0] if isinstance(r, tuple) else r) for r in (first, loose, again)]
            after = {k: v[2] for k, v in reg._CONVERSION_REGISTRY.items()}
            dev = poly_diff(again.poly_H, first.poly_H)
            ctx.case(("option-history", sysname, idx, deg, ekey), nontrivial=poly_diff(loose.poly_H, first.poly_H) > 0, kind="option-history")
            if dev > 0 or after != before:
                changed = sorted("%s->%s" % k for k in before if before[k] != after.get(k))
                _viol(ctx, "option-history:" + ekey,
                      "after one call of %s with tol=1e-2 the same call without options returns a different polynomial (max coefficient change %g); "
                      "registered defaults changed for %s" % (ekey, dev, changed or "no edge"),
                      dict(where, edge=[s, d], history=["to_state(%r, point=point)" % d, "to_state(%r, point=point, tol=1e-2)" % d, "to_state(%r, point=point)" % d],
                           max_coefficient_change=dev, defaults_before={("%s->%s" % k): repr(v) for k, v in before.items() if before[k] != after.get(k)},
                           defaults_after={("%s->%s" % k): repr(after.get(k)) for k in before if before[k] != after.get(k)}))
                # restore the session's defaults so that the remaining phases examine the code, not this history
                for k, v in before.items():
                    if k in reg._CONVERSION_REGISTRY:
                        e = reg._CONVERSION_REGISTRY[k]
                        e[2].clear()
                        e[2].update(v)


def run_edges(ctx, g, plan=None):
    from hiten.system.libration.collinear import CollinearPoint
    items = g["items"]
    ops_col, ops_tri = g["ops"]
    keys = [k for k, _ in items]
    if plan is not None:
        pass
    elif ctx.thorough():
        plan = [(s, i, d) for (s, i) in POINT_SETS_THOROUGH for d in (2, 3, 4, 5, 6)] + [("earth-moon", i, 8) for i in (1, 2, 3, 4)] + [("earth-moon", 1, 7), ("earth-moon", 5, 7), ("sun-earth", 1, 8)]
    else:
        plan = [("earth-moon", 1, 4), ("earth-moon", 2, 5), ("earth-moon", 1, 6), ("earth-moon", 3, 4), ("earth-moon", 4, 4),
                ("earth-moon", 5, 3), ("sun-earth", 2, 4), ("sun-earth", 1, 2)]
    worst_rt, worst_ag = 0.0, 0.0
    stop = False
    for sysname, idx, deg in plan:
        if stop:
            break
        pipe = pipeline(sysname, idx, deg)
        point = pipe.point
        col = isinstance(point, CollinearPoint)
        ops = ops_col if col else ops_tri
        mix = pipe._mix_pairs
        where = {"system": sysname, "point": "L%d" % idx, "degree": deg}
        for ei, ((s, d), (fn, ctxl, dflt)) in enumerate(items):
            ekey = "%s->%s" % (s, d)
            try:
                src = pipe.get_hamiltonian(s)
            except Exception as ex:
                _viol(ctx, "form-not-computable:%s" % s, "pipeline.get_hamiltonian(%r) raises %r" % (s, ex), dict(where, form=s, error=repr(ex)))
                stop = True
                break
            # --- executability through the public API
            try:
                res = src.to_state(d, point=point)
            except Exception as ex:
                _viol(ctx, "edge-cannot-run:" + ekey, "registered conversion %s cannot be executed: %r" % (ekey, ex),
                              dict(where, edge=[s, d], call="pipeline.get_hamiltonian(%r).to_state(%r, point=point)" % (s, d), error=repr(ex)))
                continue
            ham = res[0] if isinstance(res, tuple) else res
            if getattr(ham, "name", None) != d or ham.degree != deg:
                _viol(ctx, "edge-lands-elsewhere:" + ekey, "conversion %s returns form %r degree %r" % (ekey, getattr(ham, "name", None), getattr(ham, "degree", None)),
                              dict(where, edge=[s, d]))
                continue
            changed = poly_diff(ham.poly_H, src.poly_H) > 0
            ctx.case(("edge", sysname, idx, deg, ekey), nontrivial=changed, kind="edge:" + ("two-way" if (d, s) in keys else "one-way"),
                     sample=dict(where, edge=ekey) if ei == 3 and deg == 4 else None)
            # --- polynomial change == coordinate change (the library's own point-wise map)
            cmap = _coord_map(ops[ei], point, mix)
            if cmap is not None:
                for rep in range(3):
                    x = _rand_point(ctx.rng, complex_=True)
                    y = np.asarray(cmap(x), dtype=np.complex128)
                    new = poly_eval(ham.poly_H, x)
                    old = poly_eval(src.poly_H, y)
                    scale = max(_abs_scale(src.poly_H, y), _abs_scale(ham.poly_H, x)) + 1e-300
                    ratio = abs(new - old) / scale
                    worst_ag = max(worst_ag, ratio)
                    if not ratio <= 1e-9:
                        _viol(ctx, "poly-vs-coords:" + ekey, "H_%s(x) differs from H_%s(coordinate change of x) by %g (relative to the term-wise scale)" % (d, s, ratio),
                                      dict(where, edge=[s, d], x=[[v.real, v.imag] for v in x], new_value=[new.real, new.imag], old_at_transformed=[old.real, old.imag],
                                           coordinate_map=ops[ei]))
                        break
            # --- two-way edges: round trip
            if (d, s) in keys:
                try:
                    back = ham.to_state(s, point=point)
                except Exception as ex:
                    continue   # reported when that edge is visited
                tol = max(float((dflt or {}).get("tol", 1e-12)), float((items[keys.index((d, s))][1][2] or {}).get("tol", 1e-12)))
                scale = max(poly_maxabs(src.poly_H), poly_maxabs(ham.poly_H))
                err = poly_diff(back.poly_H, src.poly_H)
                # what the forward step loses (<= tol per cleaned coefficient, ~50 eps relative to the largest intermediate
                # coefficient by rounding) is spread by the reverse substitution: growth <= (row sum)^deg x #terms
                growth = _growth(ops[keys.index((d, s))], point, deg)
                allowed = 1e3 * (tol + 50 * 2.3e-16 * scale) * growth
                worst_rt = max(worst_rt, err / allowed)
                if not err <= allowed:
                    kbad = _worst_coeff(back.poly_H, src.poly_H)
                    _viol(ctx, "round-trip:" + ekey, "%s -> %s -> %s changes a coefficient by %g (allowed %g = 1e3*(tol + 50 eps*scale)*growth)" % (s, d, s, err, allowed),
                                  dict(where, edge=[s, d], max_coefficient_change=err, allowed=allowed, tol=tol, growth=growth, worst=kbad))
    ctx.extra["round_trip_worst_over_allowed"] = worst_rt
    ctx.extra["poly_vs_coords_worst_ratio"] = worst_ag


def _growth(op, point, deg):
    """how much a coefficient perturbation can grow under the substitution `op`: (max row sum)^deg x #terms"""
    C, Cinv = point.normal_form_transform
    if op == "lin C":
        r = float(np.abs(C).sum(axis=1).max())
    elif op == "lin Cinv":
        r = float(np.abs(Cinv).sum(axis=1).max())
    elif op.startswith("lin M"):
        r = math.sqrt(2.0)
    else:
        r = max(float(np.abs(C).sum(axis=1).max()), float(np.abs(Cinv).sum(axis=1).max()), math.sqrt(2.0))
    r = max(r, 1.0)
    return float(r) ** deg * 500.0   # 500 ~ number of terms that can feed one coefficient


def _worst_coeff(p, q):
    best = (0.0, None)
    dp, dq = poly_to_dict(p), poly_to_dict(q)
    for k in set(dp) | set(dq):
        e = abs(dp.get(k, 0) - dq.get(k, 0))
        if e > best[0]:
            best = (e, {"exponents": list(k), "after_round_trip": str(dp.get(k, 0)), "before": str(dq.get(k, 0))})
    return best[1]


# ---------------------------------------------------------------------------------------------------------------
# all polynomials, not only Hamiltonians: random polynomials x the four linear changes
# ---------------------------------------------------------------------------------------------------------------

def _random_poly(rng, deg, nterms):
    import polyutil
    d = {}
    for _ in range(nterms):
        dg = rng.randint(0, deg)
        k = [0] * 6
        for _ in range(dg):
            k[rng.randrange(6)] += 1
        d[tuple(k)] = complex(rng.uniform(-1, 1), rng.uniform(-1, 1))
    return polyutil.poly_from_dict(d, deg)


def random_polys(ctx):
    import polyutil
    from hiten.algorithms.hamiltonian import transforms as TR
    degs = [2, 3, 4, 5, 6, 7, 8] if ctx.thorough() else [2, 3, 5, 8]
    points = [("earth-moon", 1), ("earth-moon", 4)] + ([("sun-earth", 2), ("earth-moon", 3)] if ctx.thorough() else [])
    worst = 0.0
    for deg in degs:
        psi, clmo, enc = polyutil.tables(deg)
        for sysname, idx in points:
            point = system(sysname).get_libration_point(idx)
            mix = (1, 2) if idx <= 3 else (0, 1, 2)
            nterms = 12 if deg >= 7 else 25
            P = _random_poly(ctx.rng, deg, nterms)
            changes = [
                ("_substitute_complex", lambda p: TR._substitute_complex(p, deg, psi, clmo, tol=1e-14, mix_pairs=mix), lambda x: TR._solve_real(x, mix_pairs=mix),
                 "_substitute_real", lambda p: TR._substitute_real(p, deg, psi, clmo, tol=1e-14, mix_pairs=mix)),
                ("_substitute_real", lambda p: TR._substitute_real(p, deg, psi, clmo, tol=1e-14, mix_pairs=mix), lambda x: TR._solve_complex(x, mix_pairs=mix),
                 "_substitute_complex", lambda p: TR._substitute_complex(p, deg, psi, clmo, tol=1e-14, mix_pairs=mix)),
                ("_polylocal2realmodal", lambda p: TR._polylocal2realmodal(point, p, deg, psi, clmo, tol=1e-14), lambda x: TR._coordrealmodal2local(point, x),
                 "_polyrealmodal2local", lambda p: TR._polyrealmodal2local(point, p, deg, psi, clmo, tol=1e-14)),
                ("_polyrealmodal2local", lambda p: TR._polyrealmodal2local(point, p, deg, psi, clmo, tol=1e-14), lambda x: TR._coordlocal2realmodal(point, x),
                 "_polylocal2realmodal", lambda p: TR._polylocal2realmodal(point, p, deg, psi, clmo, tol=1e-14)),
            ]
            for name, f, cmap, iname, finv in changes:
                Q = f(P)
                ctx.case(("randpoly", deg, sysname, idx, name), kind="random-poly:deg%d" % deg)
                for rep in range(3):
                    x = _rand_point(ctx.rng, True, 0.6)
                    y = np.asarray(cmap(x), dtype=np.complex128)
                    new, old = poly_eval(Q, x), poly_eval(P, y)
                    ratio = abs(new - old) / (max(_abs_scale(P, y), _abs_scale(Q, x)) + 1e-300)
                    worst = max(worst, ratio)
                    if not ratio <= 1e-9:
                        _viol(ctx, "poly-vs-coords:" + name, "%s(p)(x) differs from p(coordinate change of x) by %g relative to the term-wise scale" % (name, ratio),
                                      {"function": name, "degree": deg, "system": sysname, "point": "L%d" % idx, "poly": {str(k): str(v) for k, v in poly_to_dict(P).items()},
                                       "x": [[v.real, v.imag] for v in x], "new_value": str(new), "old_at_transformed": str(old)})
                        return
                R = finv(Q)
                err = poly_diff(R, P)
                back_op = {"_substitute_complex": "lin M12", "_substitute_real": "lin M12", "_polylocal2realmodal": "lin C",
                           "_polyrealmodal2local": "lin Cinv"}[iname]
                growth = _growth(back_op, point, deg)
                allowed = 1e3 * (1e-14 + 50 * 2.3e-16 * max(poly_maxabs(P), poly_maxabs(Q))) * growth
                ctx.extra["random_poly_round_trip_worst_over_allowed"] = max(ctx.extra.get("random_poly_round_trip_worst_over_allowed", 0.0), err / allowed)
                if not err <= allowed:
                    _viol(ctx, "round-trip:" + name, "%s then %s changes a coefficient of a random polynomial by %g (allowed %g)" % (name, iname, err, allowed),
                                  {"function": name, "inverse": iname, "degree": deg, "system": sysname, "point": "L%d" % idx,
                                   "poly": {str(k): str(v) for k, v in poly_to_dict(P).items()}, "worst": _worst_coeff(R, P)})
                    return
    ctx.extra["random_poly_worst_ratio"] = worst


# ---------------------------------------------------------------------------------------------------------------
# point-wise maps synodic <-> local <-> real modal <-> complex
# ---------------------------------------------------------------------------------------------------------------

def pointwise_maps(ctx):
    from hiten.algorithms.hamiltonian import transforms as TR
    from hiten.system.libration.collinear import CollinearPoint
    worst = 0.0
    n = 40 if ctx.thorough() else 12
    for sysname, idx in (POINT_SETS_THOROUGH if ctx.thorough() else POINT_SETS_QUICK):
        point = system(sysname).get_libration_point(idx)
        col = isinstance(point, CollinearPoint)
        l2s = TR._local2synodic_collinear if col else TR._local2synodic_triangular
        s2l = TR._synodic2local_collinear if col else TR._synodic2local_triangular
        mix = (1, 2) if col else (0, 1, 2)
        C, Cinv = point.normal_form_transform
        cond = float(np.linalg.cond(C))
        pairs = [
            ("local->synodic->local", lambda v: s2l(point, l2s(point, v)), False, 1.0),
            ("synodic->local->synodic", lambda v: l2s(point, s2l(point, v)), False, 1.0),
            ("local->real_modal->local", lambda v: TR._coordrealmodal2local(point, TR._coordlocal2realmodal(point, v)), False, cond),
            ("real_modal->local->real_modal", lambda v: TR._coordlocal2realmodal(point, TR._coordrealmodal2local(point, v)), False, cond),
            ("real->complex->real", lambda v: TR._solve_real(TR._solve_complex(v, mix_pairs=mix), mix_pairs=mix), True, 1.0),
            ("complex->real->complex", lambda v: TR._solve_complex(TR._solve_real(v, mix_pairs=mix), mix_pairs=mix), True, 1.0),
            ("synodic->local->modal->complex->modal->local->synodic",
             lambda v: l2s(point, np.real(TR._coordrealmodal2local(point, TR._solve_real(TR._solve_complex(TR._coordlocal2realmodal(point, s2l(point, v)), mix_pairs=mix), mix_pairs=mix)))),
             False, cond),
        ]
        for rep in range(n):
            for name, f, cplx, amp in pairs:
                v = _rand_point(ctx.rng, cplx, 1.0)
                if not cplx:
                    v = v.real.copy()
                w = np.asarray(f(v))
                # local coordinates are synodic offsets divided by gamma: errors scale with the intermediate magnitude
                scale = 1.0 + float(np.max(np.abs(v)))
                if col:
                    scale = scale * max(1.0, 1.0) + (abs(point.mu) + 1.0)
                err = float(np.max(np.abs(w - v))) / (scale * amp)
                worst = max(worst, err)
                ctx.case(("pt", sysname, idx, name, rep), kind="point-map:" + name.split("->")[0], nontrivial=True)
                if not err <= 1e-11:
                    _viol(ctx, "point-maps:" + name + (":collinear" if col else ":triangular"),
                                  "%s is not the identity at %s L%d: error %g (relative to magnitude x cond)" % (name, sysname, idx, err),
                                  {"system": sysname, "point": "L%d" % idx, "chain": name, "input": [str(t) for t in v], "output": [str(t) for t in w]})
                    return
    ctx.extra["point_maps_worst_rel_err"] = worst
