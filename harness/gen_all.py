"""Regenerate every Gen/*.lean from /repo's current working tree (used by setup.sh)."""
import importlib
import os
import sys
import traceback

HERE = os.path.dirname(os.path.abspath(__file__))
sys.path.insert(0, HERE)
sys.path.insert(0, os.path.join(os.path.dirname(HERE), "translator"))
import common  # noqa: E402

os.chdir(common.VERIF)
for f in sorted(os.listdir(os.path.join(HERE, "props"))):
    if f.startswith("c") and f.endswith(".py"):
        mod = importlib.import_module("props." + f[:-3])
        if hasattr(mod, "gen"):
            try:
                mod.gen(common.Ctx(f[:-3].upper(), "quick", 0))
            except Exception:
                traceback.print_exc()
