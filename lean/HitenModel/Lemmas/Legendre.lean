/-
  Lemmas/Legendre.lean — the generating identity of the Legendre-type recurrence of `_build_T_polynomials`
  (`Core/Legendre.lean`), for EVERY degree, in Mathlib terms.

  The code's recurrence is `T_0 = 1, T_1 = x, T_n = (2n−1)/n · x · T_{n−1} − (n−1)/n · s · T_{n−2}` (n ≥ 2, `s = ρ²`).
  Multiplied by `n` and shifted (`n ↦ n+2`) it is the division-free form used here:
      `(n+2) · T (n+2) = (2n+3) · (x · T (n+1)) − (n+1) · (s · T n)`.
  §1  power-series form:  `(1 − 2x·t + s·t²) · (Σ T_n tⁿ)² = 1` in `R⟦t⟧`, `R` any additively torsion-free commutative ring
      (in particular any ℚ-algebra).
  §2  truncated form: for every N, the coefficients of `t^r`, `r ≤ N`, of `(1 − 2x·t + s·t²) · (Σ_{n≤N} T_n tⁿ)²` are `1, 0, …, 0`.
  §3  homogeneous form in `ℚ[x,y,z]`: `T_n` (`Tpoly`, defined by the code's recurrence) is homogeneous of degree n and
      `(Σ_{n≤N} T_n)² · (1 − 2x + ρ²) ≡ 1` modulo degree > N, for every N (set `t = 1`: the `t^r` coefficient is the degree-r component).
  `Props/C07.legendre_generating_identity` (kernel computation on `Core/Legendre.lean`, N ≤ 10) is the instance N ≤ 10 of §3.
-/
import Mathlib.RingTheory.PowerSeries.Derivative
import Mathlib.Algebra.Module.Rat
import Mathlib.Tactic.Ring
import Mathlib.Tactic.LinearCombination
import Mathlib.Tactic.FieldSimp
import Mathlib.Tactic.Positivity
import Mathlib.RingTheory.MvPolynomial.Homogeneous
import Mathlib.Algebra.Polynomial.Eval.Degree

namespace HitenModel.LegendreGen
open PowerSeries

/-! ### §1 power-series form -/

section series
variable {R : Type*} [CommRing R]

/-- the quadratic `1 − 2x·t + s·t²` (`= |t·r − e₁|²` for `x = r·e₁`, `s = |r|²`) as a power series in the grading variable `t` -/
noncomputable def quad (x s : R) : R⟦X⟧ := 1 - C (2 * x) * X + C s * X ^ 2

/-- a power series whose derivative vanishes is its constant coefficient (torsion-free coefficients) -/
theorem eq_C_of_derivative_eq_zero [IsAddTorsionFree R] (F : R⟦X⟧) (h : d⁄dX R F = 0) :
    F = C (constantCoeff F) := by
  apply derivative.ext
  · rw [h, derivative_C]
  · simp

/-- the recurrence is, coefficient by coefficient, the ODE `(1 − 2xt + st²) G' = (x − st) G` -/
theorem ode_of_recurrence (x s : R) (T : ℕ → R) (h0 : T 0 = 1) (h1 : T 1 = x)
    (hrec : ∀ n : ℕ, ((n : R) + 2) * T (n + 2) = (2 * (n : R) + 3) * (x * T (n + 1)) - ((n : R) + 1) * (s * T n)) :
    d⁄dX R (mk T) - C (2 * x) * (d⁄dX R (mk T) * X) + C s * (d⁄dX R (mk T) * X * X)
      = C x * mk T - C s * (mk T * X) := by
  ext n
  rcases n with _ | _ | n
  · simp only [map_add, map_sub, coeff_C_mul, coeff_zero_mul_X, coeff_derivative, coeff_mk, zero_add, Nat.cast_zero, h0, h1]
    ring
  · have := hrec 0
    simp only [Nat.cast_zero, zero_add, mul_zero] at this
    simp only [map_add, map_sub, coeff_C_mul, coeff_succ_mul_X, coeff_zero_mul_X, coeff_derivative, coeff_mk, zero_add,
      Nat.cast_zero, Nat.cast_one, mul_zero]
    linear_combination this
  · have := hrec (n + 1)
    simp only [map_add, map_sub, coeff_C_mul, coeff_succ_mul_X, coeff_derivative, coeff_mk, Nat.cast_add, Nat.cast_one]
    simp only [Nat.cast_add, Nat.cast_one] at this
    linear_combination this

/-- **generating identity, power-series form, every degree**: if `T 0 = 1`, `T 1 = x` and `T` satisfies the recurrence of
`_build_T_polynomials` in division-free form (the code's recurrence for index `n+2`, multiplied by `n+2`), then
`(1 − 2x·t + s·t²) · (Σ_n T_n tⁿ)² = 1` in `R⟦t⟧`. -/
theorem quad_mul_sq_eq_one [IsAddTorsionFree R] (x s : R) (T : ℕ → R) (h0 : T 0 = 1) (h1 : T 1 = x)
    (hrec : ∀ n : ℕ, ((n : R) + 2) * T (n + 2) = (2 * (n : R) + 3) * (x * T (n + 1)) - ((n : R) + 1) * (s * T n)) :
    quad x s * mk T ^ 2 = 1 := by
  have hode := ode_of_recurrence x s T h0 h1 hrec
  set G : R⟦X⟧ := mk T with hG
  have hD : d⁄dX R (quad x s * G ^ 2) = 0 := by
    have hq : d⁄dX R (quad x s) = -C (2 * x) + C s * (2 * X) := by
      simp only [quad, map_add, map_sub, Derivation.leibniz, Derivation.leibniz_pow, derivative_C, derivative_X,
        Derivation.map_one_eq_zero, smul_eq_mul]
      simp
    rw [Derivation.leibniz, Derivation.leibniz_pow, hq]
    simp only [smul_eq_mul, quad]
    have h2 : (C (2 * x) : R⟦X⟧) = 2 * C x := by rw [map_mul, map_ofNat]
    rw [h2] at hode ⊢
    linear_combination (2 * G) * hode
  have := eq_C_of_derivative_eq_zero _ hD
  rw [this]
  simp [quad, hG, h0]

/-- the identity in the literal form `(1 − 2·C x·X + C s·X²) · G² = 1` -/
theorem generating_identity [IsAddTorsionFree R] (x s : R) (T : ℕ → R) (h0 : T 0 = 1) (h1 : T 1 = x)
    (hrec : ∀ n : ℕ, ((n : R) + 2) * T (n + 2) = (2 * (n : R) + 3) * (x * T (n + 1)) - ((n : R) + 1) * (s * T n)) :
    (1 - 2 * C x * X + C s * X ^ 2) * mk T ^ 2 = 1 := by
  have h := quad_mul_sq_eq_one x s T h0 h1 hrec
  rwa [quad, map_mul, map_ofNat] at h

/-- the same over a ℚ-algebra, with the recurrence written with rational scalars: this is the code's
`T_m = (2m−1)/m · x · T_{m−1} − (m−1)/m · s · T_{m−2}` at `m = n+2`, multiplied by `m` -/
theorem generating_identity_rat [Algebra ℚ R] (x s : R) (T : ℕ → R) (h0 : T 0 = 1) (h1 : T 1 = x)
    (hrec : ∀ n : ℕ, ((n : ℚ) + 2) • T (n + 2) = (2 * (n : ℚ) + 3) • (x * T (n + 1)) - ((n : ℚ) + 1) • (s * T n)) :
    (1 - 2 * C x * X + C s * X ^ 2) * mk T ^ 2 = 1 := by
  have : IsAddTorsionFree R := IsAddTorsionFree.of_module_rat R
  refine generating_identity x s T h0 h1 fun n => ?_
  have := hrec n
  simp only [Algebra.smul_def, map_add, map_mul, map_natCast, map_ofNat, map_one] at this
  exact this

/-! ### §2 truncated form (every N) -/

/-- the partial sum `g_N = Σ_{n ≤ N} T_n tⁿ` as a polynomial in the grading variable -/
noncomputable def partialSum (T : ℕ → R) (N : ℕ) : Polynomial R :=
  ∑ n ∈ Finset.range (N + 1), Polynomial.monomial n (T n)

/-- `1 − 2x·t + s·t²` as a polynomial -/
noncomputable def quadPoly (x s : R) : Polynomial R :=
  1 - Polynomial.C (2 * x) * Polynomial.X + Polynomial.C s * Polynomial.X ^ 2

theorem partialSum_eq_trunc (T : ℕ → R) (N : ℕ) : partialSum T N = trunc (N + 1) (mk T) := by
  simp only [partialSum, trunc_apply, Nat.Ico_zero_eq_range, coeff_mk]

theorem coe_quadPoly (x s : R) : ((quadPoly x s : Polynomial R) : R⟦X⟧) = quad x s := by
  simp [quadPoly, quad]

/-- coefficients `≤ N` of `q · g²` only depend on the coefficients `≤ N` of `g` -/
theorem trunc_mul_trunc_sq (q G : R⟦X⟧) (n : ℕ) :
    trunc n (q * ((trunc n G : Polynomial R) : R⟦X⟧) ^ 2) = trunc n (q * G ^ 2) := by
  rw [← trunc_mul_trunc, trunc_trunc_pow, trunc_mul_trunc]

/-- **generating identity, truncated form, every N**: for every `N` and every `r ≤ N` the coefficient of `t^r` in
`(1 − 2x·t + s·t²) · (Σ_{n≤N} T_n tⁿ)²` is `1` for `r = 0` and `0` otherwise. -/
theorem truncated_identity [IsAddTorsionFree R] (x s : R) (T : ℕ → R) (h0 : T 0 = 1) (h1 : T 1 = x)
    (hrec : ∀ n : ℕ, ((n : R) + 2) * T (n + 2) = (2 * (n : R) + 3) * (x * T (n + 1)) - ((n : R) + 1) * (s * T n))
    (N r : ℕ) (hr : r ≤ N) :
    (quadPoly x s * partialSum T N ^ 2).coeff r = if r = 0 then 1 else 0 := by
  have hlt : r < N + 1 := Nat.lt_succ_of_le hr
  rw [← Polynomial.coeff_coe, Polynomial.coe_mul, Polynomial.coe_pow, coe_quadPoly, partialSum_eq_trunc,
    ← coeff_coe_trunc_of_lt hlt, trunc_mul_trunc_sq, quad_mul_sq_eq_one x s T h0 h1 hrec,
    coeff_coe_trunc_of_lt hlt, coeff_one]

end series

end HitenModel.LegendreGen

/-! ### §3 homogeneous form in `ℚ[x, y, z]` -/

namespace HitenModel.LegendreGen
open MvPolynomial

/-- `ℚ[x, y, z]` -/
abbrev A := MvPolynomial (Fin 3) ℚ

/-- `x = r·e₁` -/
noncomputable def xv : A := X 0
/-- `s = ρ² = x² + y² + z²` -/
noncomputable def sv : A := X 0 ^ 2 + X 1 ^ 2 + X 2 ^ 2

/-- the polynomials of `_build_T_polynomials`, by the code's recurrence (index `m = n+2`: `(2m−1)/m = (2n+3)/(n+2)`,
`(m−1)/m = (n+1)/(n+2)`) -/
noncomputable def Tpoly : ℕ → A
  | 0 => 1
  | 1 => xv
  | (n + 2) => C ((2 * (n : ℚ) + 3) / ((n : ℚ) + 2)) * (xv * Tpoly (n + 1))
      - C (((n : ℚ) + 1) / ((n : ℚ) + 2)) * (sv * Tpoly n)

theorem xv_isHomogeneous : xv.IsHomogeneous 1 := isHomogeneous_X _ _
theorem sv_isHomogeneous : sv.IsHomogeneous 2 :=
  ((isHomogeneous_X_pow 0 2).add (isHomogeneous_X_pow 1 2)).add (isHomogeneous_X_pow 2 2)

/-- every `T_n` is homogeneous of degree `n` -/
theorem Tpoly_isHomogeneous (n : ℕ) : (Tpoly n).IsHomogeneous n := by
  suffices h : ∀ n, (Tpoly n).IsHomogeneous n ∧ (Tpoly (n + 1)).IsHomogeneous (n + 1) from (h n).1
  intro n
  induction n with
  | zero => exact ⟨by simpa [Tpoly] using isHomogeneous_one (Fin 3) ℚ, by simpa [Tpoly] using xv_isHomogeneous⟩
  | succ n ih =>
    refine ⟨ih.2, ?_⟩
    rw [Tpoly]
    refine IsHomogeneous.sub (IsHomogeneous.C_mul ?_ _) (IsHomogeneous.C_mul ?_ _)
    · have := xv_isHomogeneous.mul ih.2
      rwa [show 1 + (n + 1) = n + 1 + 1 by omega] at this
    · have := sv_isHomogeneous.mul ih.1
      rwa [show 2 + n = n + 1 + 1 by omega] at this

theorem Tpoly_zero : Tpoly 0 = 1 := by rw [Tpoly]
theorem Tpoly_one : Tpoly 1 = xv := by rw [Tpoly]

/-- `Tpoly` satisfies the division-free recurrence of §1 -/
theorem Tpoly_rec (n : ℕ) :
    ((n : A) + 2) * Tpoly (n + 2) = (2 * (n : A) + 3) * (xv * Tpoly (n + 1)) - ((n : A) + 1) * (sv * Tpoly n) := by
  have hne : ((n : ℚ) + 2) ≠ 0 := by positivity
  have e1 : ((n : A) + 2) = C ((n : ℚ) + 2) := by rw [map_add, map_natCast, map_ofNat]
  have e2 : (2 * (n : A) + 3) = C (2 * (n : ℚ) + 3) := by rw [map_add, map_mul, map_natCast, map_ofNat, map_ofNat]
  have e3 : ((n : A) + 1) = C ((n : ℚ) + 1) := by rw [map_add, map_natCast, map_one]
  have c1 : ((n : ℚ) + 2) * ((2 * (n : ℚ) + 3) / ((n : ℚ) + 2)) = 2 * (n : ℚ) + 3 := by field_simp
  have c2 : ((n : ℚ) + 2) * (((n : ℚ) + 1) / ((n : ℚ) + 2)) = (n : ℚ) + 1 := by field_simp
  rw [e1, e2, e3, Tpoly]
  simp only [mul_sub, ← mul_assoc, ← C_mul, c1, c2]

/-- a polynomial in the grading variable `t` whose `t^k` coefficient is homogeneous of degree `k` -/
def GradedHom (p : Polynomial A) : Prop := ∀ k, (p.coeff k).IsHomogeneous k

theorem GradedHom.mul {p q : Polynomial A} (hp : GradedHom p) (hq : GradedHom q) : GradedHom (p * q) := by
  intro k
  rw [Polynomial.coeff_mul]
  refine IsHomogeneous.sum _ _ _ fun ij hij => ?_
  rw [← Finset.mem_antidiagonal.mp hij]
  exact (hp _).mul (hq _)

theorem GradedHom.add {p q : Polynomial A} (hp : GradedHom p) (hq : GradedHom q) : GradedHom (p + q) := by
  intro k; rw [Polynomial.coeff_add]; exact (hp k).add (hq k)

theorem GradedHom.sub {p q : Polynomial A} (hp : GradedHom p) (hq : GradedHom q) : GradedHom (p - q) := by
  intro k; rw [Polynomial.coeff_sub]; exact (hp k).sub (hq k)

theorem GradedHom.monomial {n : ℕ} {a : A} (ha : a.IsHomogeneous n) : GradedHom (Polynomial.monomial n a) := by
  intro k
  rw [Polynomial.coeff_monomial]
  split_ifs with h
  · exact h ▸ ha
  · exact isHomogeneous_zero _ _ _

theorem gradedHom_quadPoly : GradedHom (quadPoly xv sv) := by
  have : quadPoly xv sv = Polynomial.monomial 0 1 - Polynomial.monomial 1 (2 * xv) + Polynomial.monomial 2 sv := by
    rw [quadPoly, Polynomial.C_mul_X_eq_monomial, Polynomial.C_mul_X_pow_eq_monomial, Polynomial.monomial_zero_one]
  rw [this]
  refine ((GradedHom.monomial (isHomogeneous_one _ _)).sub (GradedHom.monomial ?_)).add (GradedHom.monomial sv_isHomogeneous)
  have := (isHomogeneous_C (Fin 3) (2 : ℚ)).mul xv_isHomogeneous
  rwa [map_ofNat, zero_add] at this

theorem gradedHom_partialSum (N : ℕ) : GradedHom (partialSum Tpoly N) := by
  intro k
  rw [partialSum_eq_trunc, PowerSeries.coeff_trunc]
  split_ifs
  · rw [PowerSeries.coeff_mk]; exact Tpoly_isHomogeneous k
  · exact isHomogeneous_zero _ _ _

/-- setting `t = 1` in a graded-homogeneous polynomial: the degree-`r` homogeneous component is the `t^r` coefficient -/
theorem GradedHom.homogeneousComponent_eval_one {p : Polynomial A} (hp : GradedHom p) (r : ℕ) :
    homogeneousComponent r (p.eval 1) = p.coeff r := by
  rw [Polynomial.eval_eq_sum_range, map_sum]
  simp only [one_pow, mul_one]
  rw [Finset.sum_congr rfl fun i _ => homogeneousComponent_of_mem (m := r) (hp i), Finset.sum_ite_eq]
  split_ifs with h
  · rfl
  · rw [Finset.mem_range, not_lt] at h
    exact (Polynomial.coeff_eq_zero_of_natDegree_lt (Nat.lt_of_succ_le h)).symm

theorem eval_one_quad_mul_sq (N : ℕ) :
    (quadPoly xv sv * partialSum Tpoly N ^ 2).eval 1 = (∑ n ∈ Finset.range (N + 1), Tpoly n) ^ 2 * (1 - 2 * xv + sv) := by
  simp [quadPoly, partialSum, Polynomial.eval_finsetSum]
  ring

/-- **generating identity, homogeneous form, every N**: in `ℚ[x,y,z]`, with `T_n` the polynomials of the code's recurrence,
`(Σ_{n≤N} T_n)² · (1 − 2x + ρ²)` has homogeneous component `1` in degree 0 and `0` in every degree `1..N`, i.e. it is `≡ 1`
modulo terms of degree `> N`. -/
theorem homogeneous_identity (N r : ℕ) (hr : r ≤ N) :
    homogeneousComponent r ((∑ n ∈ Finset.range (N + 1), Tpoly n) ^ 2 * (1 - 2 * xv + sv)) = if r = 0 then 1 else 0 := by
  have : IsAddTorsionFree A := IsAddTorsionFree.of_module_rat A
  rw [← eval_one_quad_mul_sq,
    ((gradedHom_quadPoly).mul (by rw [pow_two]; exact (gradedHom_partialSum N).mul (gradedHom_partialSum N))).homogeneousComponent_eval_one,
    truncated_identity xv sv Tpoly Tpoly_zero Tpoly_one Tpoly_rec N r hr]

/-! ### non-vacuity -/

/-- the hypotheses of §1 are satisfiable: over `ℚ` with `x = s = 1`, `T n = 1` (then `G = 1/(1−t)`, `(1−t)²·G² = 1`) -/
example : ∃ T : ℕ → ℚ, T 0 = 1 ∧ T 1 = 1 ∧
    ∀ n : ℕ, ((n : ℚ) + 2) * T (n + 2) = (2 * (n : ℚ) + 3) * (1 * T (n + 1)) - ((n : ℚ) + 1) * (1 * T n) :=
  ⟨fun _ => 1, rfl, rfl, fun n => by ring⟩

/-- … and by `Tpoly` in general; the first computed instance is `T_2 = (3x² − ρ²)/2` -/
example : Tpoly 2 = C (3 / 2) * xv ^ 2 - C (1 / 2) * sv := by
  rw [Tpoly, Tpoly, Tpoly]
  norm_num
  ring

end HitenModel.LegendreGen
