"""child process of the C14 check: computes one centre-manifold map with the numba thread count fixed by the ENVIRONMENT
(NUMBA_NUM_THREADS), which -- unlike numba.set_num_threads, a thread-local setting -- also governs the engine's worker threads.
usage: c14_child.py <section> <n_workers> <out.json>"""
import json
import os
import sys

HERE = os.path.dirname(os.path.abspath(__file__))
sys.path.insert(0, os.path.dirname(HERE))
sys.path.insert(0, os.path.join(os.path.dirname(os.path.dirname(HERE)), "translator"))


class _Ctx:
    def log(self, *a):
        pass


def main():
    sec, nw, out = sys.argv[1], int(sys.argv[2]), sys.argv[3]
    import logging
    logging.disable(logging.INFO)
    import numba
    from props import c14
    C = c14.get_cm(_Ctx(), 6)
    r = c14._compute_map(C, 0.6, sec, dt=0.01, order=4, n_iter=3, n_workers=nw)
    json.dump({"threads": int(numba.config.NUMBA_NUM_THREADS), "states": r["states"].tolist(), "times": r["times"].tolist()}, open(out, "w"))


if __name__ == "__main__":
    main()
