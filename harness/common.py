"""Shared machinery of the checks: Lean build + audit, evidence, verdicts, known findings, driver."""
from __future__ import annotations

import fcntl
import hashlib
import json
import os
import random
import re
import subprocess
import sys
import time
import traceback

VERIF = os.path.dirname(os.path.dirname(os.path.abspath(__file__)))
LEAN = os.path.join(VERIF, "lean")
REPO = os.environ.get("HITEN_REPO", "/repo")
ALLOWED_AXIOMS = {"propext", "Classical.choice", "Quot.sound"}
FORBIDDEN = re.compile(r"\bsorry\b|\badmit\b|^\s*axiom\s|native_decide|bv_decide|implemented_by|\bunsafe\s|maxHeartbeats\s+0\b",
                       re.M)

TRUSTED_BASE = [
    "Lean 4.33 kernel; Mathlib v4.33 as installed under /opt/veriftools/mathlib4",
    "axioms allowed per theorem: propext, Classical.choice, Quot.sound (audited on every run with #print axioms)",
    "translator (/verif/translator: concolic tracer + numpy shim, exact float->dyadic export), validated per run against the compiled functions",
    "correspondence harness and its generators (/verif/harness)",
    "IEEE-754 rounding, numba compilation/prange runtime, LAPACK/SciPy are modelled or sampled, not verified",
]


def sh(cmd, cwd=None, timeout=None, env=None, input=None):
    e = dict(os.environ)
    if env:
        e.update(env)
    p = subprocess.run(cmd, cwd=cwd, shell=isinstance(cmd, str), stdout=subprocess.PIPE, stderr=subprocess.STDOUT,
                       timeout=timeout, env=e, input=input, text=True)
    out = "\n".join(l for l in p.stdout.splitlines() if "WARNING" not in l or "conda" not in l.lower())
    return p.returncode, out


class _Lock:
    def __init__(self, path):
        self.path = path

    def __enter__(self):
        os.makedirs(os.path.dirname(self.path), exist_ok=True)
        self.f = open(self.path, "w")
        fcntl.flock(self.f, fcntl.LOCK_EX)

    def __exit__(self, *a):
        fcntl.flock(self.f, fcntl.LOCK_UN)
        self.f.close()


def lake_lock():
    return _Lock(os.path.join(LEAN, ".lake", "verif.lock"))


def strip_comments(src: str) -> str:
    # remove /- ... -/ (nested not handled beyond one level) and -- comments
    out = []
    i, n, depth = 0, len(src), 0
    while i < n:
        if src.startswith("/-", i):
            depth += 1
            i += 2
        elif src.startswith("-/", i) and depth > 0:
            depth -= 1
            i += 2
        elif depth > 0:
            if src[i] == "\n":
                out.append("\n")
            i += 1
        elif src.startswith("--", i):
            while i < n and src[i] != "\n":
                i += 1
        else:
            out.append(src[i])
            i += 1
    return "".join(out)


THM_RE = re.compile(r"^\s*(?:@\[[^\]]*\]\s*)?(?:private\s+|protected\s+)?(?:theorem|lemma)\s+([A-Za-z_][A-Za-z0-9_.'!?]*)", re.M)


def theorems_in(path):
    """[(name, line)] of theorems declared in a Lean file (comments stripped), with namespaces resolved."""
    src = strip_comments(open(path).read())
    res = []
    ns = []
    for ln, line in enumerate(src.split("\n"), 1):
        m = re.match(r"^\s*namespace\s+(\S+)", line)
        if m:
            ns.append(m.group(1))
            continue
        m = re.match(r"^\s*end\s+(\S+)", line)
        if m and ns and ns[-1] == m.group(1):
            ns.pop()
            continue
        m = THM_RE.match(line)
        if m:
            res.append((".".join(ns + [m.group(1)]), ln))
    return res


def module_path(mod):
    return os.path.join(LEAN, *mod.split(".")) + ".lean"


class Ctx:
    def __init__(self, prop, tier, seed):
        self.prop = prop
        self.tier = tier
        self.seed = seed
        self.rng = random.Random(seed)
        self.t0 = time.time()
        self.obligations = {}      # name -> True/False (discharged)
        self.broken = []           # [(name, message)]
        self.axioms_seen = set()
        self.violations = []       # dicts
        self.known = []
        self.evaluations = 0
        self.nontrivial = set()
        self.samples = []
        self.hist = {}
        self.traces_validated = 0
        self.corr_cases = 0
        self.notes = []
        self.assumptions = []
        self.checker_cmds = []
        self.extra = {}
        self.level = "proof"
        self.rule = ""
        self.search_ran = False
        kf = os.path.join(VERIF, "known_findings.json")
        self.known_findings = json.load(open(kf)) if os.path.exists(kf) else {"findings": [], "fixed": []}

    # ------------------------------------------------------------------ logging
    def log(self, *a):
        print("[%s %6.1fs]" % (self.prop, time.time() - self.t0), *a, flush=True)

    def thorough(self):
        return self.tier == "thorough"

    # ------------------------------------------------------------------ phases
    def guard(self, name, fn, *a, **k):
        """run one tie phase (trace validation, correspondence, ...): an exception inside it -- typically because the code changed shape
        under the harness -- breaks the obligation `phase:<name>` but does NOT end the run: the failing-input search on the real code must
        still be carried out (a broken tie is not a verdict)."""
        try:
            return fn(*a, **k)
        except Exception:
            tb = traceback.format_exc()
            self.log("PHASE %s RAISED\n%s" % (name, tb[-1500:]))
            self.broken.append(("phase:" + name, tb[-1200:]))
            self.obligations["phase:" + name] = False
            return None

    # ------------------------------------------------------------------ lean
    def _hold_genbuild(self):
        """Checks may run concurrently (and several regenerate the same Gen module): the phase regenerate -> build -> audit of one
        check is made atomic with respect to other checks by one inter-process lock, released after the audit / at the end."""
        if getattr(self, "_gb", None) is None:
            os.makedirs(os.path.join(LEAN, ".lake"), exist_ok=True)
            self._gb = open(os.path.join(LEAN, ".lake", "genbuild.lock"), "w")
            fcntl.flock(self._gb, fcntl.LOCK_EX)

    def release_genbuild(self):
        if getattr(self, "_gb", None) is not None:
            fcntl.flock(self._gb, fcntl.LOCK_UN)
            self._gb.close()
            self._gb = None

    def write_gen(self, mod, text):
        """Write a generated Lean module only if its content changed (keeps lake's cache valid)."""
        self._hold_genbuild()
        p = module_path(mod)
        os.makedirs(os.path.dirname(p), exist_ok=True)
        if not hasattr(self, "_gen_written"):
            self._gen_written = {}
        self._gen_written[mod] = text
        old = open(p).read() if os.path.exists(p) else None
        if old != text:
            with open(p, "w") as f:
                f.write(text)
            self.log("regenerated", mod, "(changed)" if old is not None else "(new)")
            return True
        self.log("regenerated", mod, "(identical to previous run)")
        return False

    def lean_build(self, modules, prop_modules=None, timeout=3000):
        """Build modules; record every theorem of `prop_modules` (default: the same) as an obligation.
        Returns True iff the build succeeded."""
        prop_modules = prop_modules or modules
        self._hold_genbuild()
        with lake_lock():
            t = time.time()
            rc, out = sh(["lake", "build"] + list(modules), cwd=LEAN, timeout=timeout)
            self.log("lake build %s -> rc=%d (%.1fs)" % (" ".join(modules), rc, time.time() - t))
        self.checker_cmds.append("cd lean && lake build " + " ".join(modules))
        errs = {}   # path -> [(line, msg)]
        for m in re.finditer(r"error: ([^\s:]+\.lean):(\d+):(\d+): (.*)", out):
            errs.setdefault(os.path.normpath(os.path.join(LEAN, m.group(1))), []).append((int(m.group(2)), m.group(4)))
        failed_files = set(errs)
        # obligations
        for mod in prop_modules:
            p = module_path(mod)
            if not os.path.exists(p):
                self.broken.append((mod, "module file missing"))
                self.obligations[mod] = False
                continue
            thms = theorems_in(p)
            lines = [ln for _, ln in thms] + [10 ** 9]
            bad = {}
            for (ln, msg) in errs.get(os.path.normpath(p), []):
                # attribute the error to the last theorem starting at or before its line
                owner = None
                for (name, l0), l1 in zip(thms, lines[1:]):
                    if l0 <= ln < l1:
                        owner = name
                if owner is None:
                    owner = mod + ":<toplevel>"
                bad.setdefault(owner, msg)
            for name, _ in thms:
                ok = (rc == 0) or (name not in bad and os.path.normpath(p) in failed_files)
                if rc != 0 and os.path.normpath(p) not in failed_files:
                    ok = False  # could not be checked (a dependency failed)
                    bad.setdefault(name, "not checked: a dependency failed to build")
                self.obligations[name] = ok and name not in bad
            for name, msg in bad.items():
                self.broken.append((name, msg))
                if name not in self.obligations:
                    self.obligations[name] = False
        if rc != 0 and not self.broken:
            self.broken.append(("lake build " + " ".join(modules), out[-2000:]))
            self.obligations["build"] = False
        if rc != 0:
            self.log("BUILD OUTPUT (tail):\n" + out[-3000:])
            # a failed build is followed by the failing-input search, not by an audit: do not keep other checks waiting
            self.release_genbuild()
        return rc == 0

    def lean_audit(self, prop_modules, src_modules=None):
        """#print axioms for every theorem of prop_modules; forbidden-token grep over src_modules."""
        names = []
        for mod in prop_modules:
            names += [n for n, _ in theorems_in(module_path(mod))]
        os.makedirs(os.path.join(LEAN, ".lake", "audit"), exist_ok=True)
        f = os.path.join(LEAN, ".lake", "audit", self.prop + ".lean")
        with open(f, "w") as fh:
            for mod in prop_modules:
                fh.write("import %s\n" % mod)
            for n in names:
                fh.write("#print axioms %s\n" % n)
        with lake_lock():
            rc, out = sh(["lake", "env", "lean", f], cwd=LEAN, timeout=1200)
        self.checker_cmds.append("lake env lean <#print axioms of %d theorems>" % len(names))
        seen = {}
        for m in re.finditer(r"'(\S+)' depends on axioms: \[([^\]]*)\]", out.replace("\n", " ")):
            seen[m.group(1)] = {a.strip() for a in m.group(2).split(",") if a.strip()}
        for m in re.finditer(r"'(\S+)' does not depend on any axioms", out):
            seen[m.group(1)] = set()
        ok = rc == 0
        for n in names:
            ax = seen.get(n)
            if ax is None:
                # name may be reported without namespace prefix differences
                cand = [k for k in seen if k.endswith(n) or n.endswith(k)]
                ax = seen[cand[0]] if cand else None
            if ax is None:
                self.broken.append((n, "axiom audit: no #print axioms output"))
                self.obligations[n] = False
                ok = False
                continue
            self.axioms_seen |= ax
            if not ax <= ALLOWED_AXIOMS:
                self.broken.append((n, "axiom audit: depends on %s" % sorted(ax - ALLOWED_AXIOMS)))
                self.obligations[n] = False
                ok = False
        for mod in (src_modules or prop_modules):
            src = strip_comments(open(module_path(mod)).read())
            m = FORBIDDEN.search(src)
            if m:
                self.broken.append((mod, "forbidden token %r" % m.group(0)))
                self.obligations[mod + ":tokens"] = False
                ok = False
        if rc != 0:
            self.log("AUDIT OUTPUT:\n" + out[-2000:])
        self.release_genbuild()
        return ok

    def leanchecker(self, modules):
        with lake_lock():
            t = time.time()
            rc, out = sh(["lake", "env", "leanchecker"] + list(modules), cwd=LEAN, timeout=3000)
        self.log("leanchecker rc=%d (%.1fs)" % (rc, time.time() - t))
        self.checker_cmds.append("lake env leanchecker " + " ".join(modules))
        if rc != 0:
            self.broken.append(("leanchecker", out[-1500:]))
            self.obligations["leanchecker"] = False
        else:
            self.obligations["leanchecker"] = True
        return rc == 0

    def lean_run(self, main_file, input_text, timeout=1200):
        """Run a Lean driver (`lake env lean --run`) on stdin lines; returns output lines."""
        # A driver imports the generated modules.  Another check running at the same time (possibly against ANOTHER tree, HITEN_REPO) may
        # have regenerated and rebuilt them since this run's build: under the inter-process lock, restore what THIS run generated (and
        # rebuild) if the files on disk differ, then run the driver before anybody else can touch them.
        held = getattr(self, "_gb", None) is not None
        self._hold_genbuild()
        try:
            stale = []
            for mod, text in getattr(self, "_gen_written", {}).items():
                p = module_path(mod)
                cur = open(p).read() if os.path.exists(p) else None
                if cur != text:
                    with open(p, "w") as f:
                        f.write(text)
                    stale.append(mod)
            with lake_lock():
                if stale:
                    self.log("generated modules were changed by a concurrent run; restored and rebuilt:", " ".join(stale))
                    sh(["lake", "build"] + stale, cwd=LEAN, timeout=3000)
            rc, out = sh(["lake", "env", "lean", "--run", main_file], cwd=LEAN, timeout=timeout, input=input_text)
        finally:
            if not held:
                self.release_genbuild()
        if rc != 0:
            raise RuntimeError("lean driver failed rc=%d: %s" % (rc, out[-2000:]))
        return out.split("\n")

    # ------------------------------------------------------------------ coverage
    def case(self, key=None, nontrivial=True, kind=None, sample=None):
        self.evaluations += 1
        if nontrivial and key is not None:
            self.nontrivial.add(key if isinstance(key, (str, int, tuple)) else json.dumps(key, sort_keys=True, default=str))
        if kind is not None:
            self.hist[kind] = self.hist.get(kind, 0) + 1
        if sample is not None and len(self.samples) < 12:
            self.samples.append(sample)

    # ------------------------------------------------------------------ verdicts
    def violation(self, key, what, replay, found_input=True):
        """Report a concrete violation (failing input found on the real code) unless it is a listed known finding."""
        for kf in self.known_findings.get("findings", []):
            if kf.get("property") == self.prop and kf.get("key") == key:
                if key not in [k["key"] for k in self.known]:
                    self.known.append({"key": key, "what": kf.get("what", what)})
                return
        rec = {"property": self.prop, "key": key, "what": what, "replay": replay, "found_input": found_input,
               "seed": self.seed, "tier": self.tier}
        self.violations.append(rec)

    def finish(self):
        self.release_genbuild()
        wall = time.time() - self.t0
        n_ob = len(self.obligations)
        n_ok = sum(1 for v in self.obligations.values() if v)
        concrete = [v for v in self.violations if v["found_input"]]
        # broken obligations without any concrete failing input -> still a violation
        if self.broken and not concrete:
            self.violations.append({
                "property": self.prop, "key": "broken-obligation", "found_input": False,
                "what": "proof obligation / correspondence no longer checks; failing-input search found nothing",
                "replay": {"broken": [{"theorem_or_correspondence": n, "message": m[:600]} for n, m in self.broken]},
                "seed": self.seed, "tier": self.tier})
        # evidence/ describes runs against /repo itself; a run against another tree (HITEN_REPO, used for seeded changes) writes elsewhere
        evdir = "evidence" if os.path.realpath(REPO) == os.path.realpath("/repo") else "evidence_alt"
        os.makedirs(os.path.join(VERIF, evdir), exist_ok=True)
        os.makedirs(os.path.join(VERIF, "replays"), exist_ok=True)
        for k in self.known:
            print("KNOWN-FINDING: property=%s %s" % (self.prop, k["what"]), flush=True)
        vlines = []
        for v in self.violations:
            if self.broken:
                v["replay"] = dict(v["replay"]) if isinstance(v["replay"], dict) else {"replay": v["replay"]}
                v["replay"].setdefault("broken_obligations", [{"name": n, "message": m[:400]} for n, m in self.broken])
            h = hashlib.sha1(json.dumps(v, sort_keys=True, default=str).encode()).hexdigest()[:10]
            path = os.path.join("replays", "%s-%s.json" % (self.prop, h))
            v["replay_cmd"] = "./check %s --replay %s" % (self.prop, path)
            with open(os.path.join(VERIF, path), "w") as f:
                json.dump(v, f, indent=1, default=str)
            vlines.append("VIOLATION property=%s replay=%s%s" % (
                self.prop, path, "" if v["found_input"] else " no-failing-input-found"))
        cov = {
            "obligations": n_ob, "discharged": n_ok,
            "checker_cmd": "; ".join(dict.fromkeys(self.checker_cmds)) or "none",
            "trusted_base": TRUSTED_BASE + ["axioms seen this run: " + ", ".join(sorted(self.axioms_seen))],
            "evaluations": self.evaluations,
            "distinct_nontrivial": len(self.nontrivial),
            "rule": self.rule,
            "samples": self.samples or [{"obligation": n} for n in list(self.obligations)[:5]],
            "traces_validated_against_impl": self.traces_validated,
            "input_histogram": self.hist,
            "obligation_names": sorted(self.obligations),
            "broken": [{"name": n, "message": m[:300]} for n, m in self.broken],
            "known_findings_rediscovered": self.known,
            "notes": self.notes,
        }
        cov.update(self.extra)
        ev = {"property_id": self.prop, "tier": self.tier, "seed": self.seed, "level": self.level,
              "coverage": cov, "assumptions": self.assumptions, "wall_s": round(wall, 2),
              "violations": len(self.violations)}
        with open(os.path.join(VERIF, evdir, self.prop + ".json"), "w") as f:
            json.dump(ev, f, indent=1, default=str)
        self.log("obligations %d/%d, evaluations %d (distinct nontrivial %d), traces validated %d, wall %.1fs" % (
            n_ok, n_ob, self.evaluations, len(self.nontrivial), self.traces_validated, wall))
        for l in vlines:
            print(l, flush=True)
        return 1 if vlines else 0


def rel_err(a, b, floor=1e-300):
    import numpy as np
    a = np.asarray(a, dtype=float)
    b = np.asarray(b, dtype=float)
    return float(np.max(np.abs(a - b) / (np.maximum(np.abs(a), np.abs(b)) + 1.0)))
