"""C02 — integrators deliver their declared order and requested tolerance.

T-table + T-trace: for every entry of the order->class factory maps the *effective* Butcher tableau is extracted by
running the current stepping kernels on symbolic data with a recording (uninterpreted) vector field; the live
coefficient arrays are exported as exact dyadics.  Lean decides (decide +kernel) every rooted-tree order condition
on the effective tableaux, the embedded-pair and dense-output conditions, and that trace and table agree.
Numerics: convergence-order fits and tolerance-proportionality of the real integrators (failing-input search)."""
from __future__ import annotations

import math
from fractions import Fraction

import numpy as np

import lean_emit as E
import tracer as T

DIM = 2
MODEL = {}


class RecF:
    """Recording vector field: returns fresh symbolic stage variables k{j}_{d}; identical arguments -> same stage."""

    def __init__(self, dim=DIM, with_t=True):
        self.calls = []
        self.memo = {}
        self.dim = dim
        self.with_t = with_t

    def __call__(self, *args):
        if self.with_t:
            t, y = args[0], args[1]
        else:
            t, y = T.Sym.const(0), args[0]
        t = T.Sym.lift(t)
        ys = [T.Sym.lift(v) for v in y]
        key = (id(t),) + tuple(id(v) for v in ys)
        if key in self.memo:
            return self.memo[key].copy()
        j = len(self.calls)
        out = T.symarray([T.Sym.var("k%d_%d" % (j, d), math.sin(1.0 + 3 * j + d)) for d in range(self.dim)])
        self.calls.append((t, ys))
        self.memo[key] = out
        return out.copy()


class ExtractError(Exception):
    pass


def lin_in_stages(sym, d, scale_vars, nstages, base="y"):
    """sym must be  base_d + Σ_j coef_j * (Π scale_vars) * k_j_d ; returns {j: coef} (exact Fractions)."""
    nf = T.polynf(sym)
    if nf is None:
        raise ExtractError("non-polynomial stage expression")
    coefs = {}
    seen_base = Fraction(0)
    for mono, c in nf.items():
        md = dict(mono)
        if md == {"%s%d" % (base, d): 1}:
            seen_base = c
            continue
        ks = [v for v in md if v.startswith("k")]
        if len(ks) != 1 or md[ks[0]] != 1:
            raise ExtractError("monomial %r is not linear in one stage" % (mono,))
        j, dd = ks[0][1:].split("_")
        if int(dd) != d:
            raise ExtractError("component %d uses stage value of component %s" % (d, dd))
        rest = {v: e for v, e in md.items() if v != ks[0]}
        if rest != {v: 1 for v in scale_vars}:
            raise ExtractError("monomial %r: unexpected step-size factor" % (mono,))
        coefs[int(j)] = coefs.get(int(j), 0) + c
    if seen_base != 1:
        raise ExtractError("state coefficient is %r, expected 1" % (seen_base,))
    return coefs


def time_coef(tsym):
    nf = T.polynf(tsym)
    if nf is None:
        raise ExtractError("non-polynomial time argument")
    c = Fraction(0)
    for mono, co in nf.items():
        md = dict(mono)
        if md == {"t": 1}:
            if co != 1:
                raise ExtractError("time coefficient %r" % co)
        elif md == {"h": 1}:
            c = co
        elif md == {}:
            raise ExtractError("constant in time argument")
        else:
            raise ExtractError("time argument monomial %r" % (mono,))
    return c


def effective_tableau(rec, outputs, nst=None):
    """From recorded calls build (A, C) and for each named output vector its weight row."""
    n = len(rec.calls) if nst is None else nst
    A = [[Fraction(0)] * n for _ in range(n)]
    C = [Fraction(0)] * n
    for i, (tsym, ys) in enumerate(rec.calls[:n]):
        if rec.with_t:
            C[i] = time_coef(tsym)
        rows = []
        for d, ysym in enumerate(ys):
            co = lin_in_stages(ysym, d, ["h"], n)
            if any(j >= i for j in co):
                raise ExtractError("stage %d depends on stage >= itself" % i)
            rows.append(co)
        if any(r != rows[0] for r in rows):
            raise ExtractError("stage %d: components use different coefficients" % i)
        for j, c in rows[0].items():
            A[i][j] = c
    outs = {}
    for name, (vec, has_base) in outputs.items():
        rows = []
        for d, s in enumerate(vec):
            s = T.Sym.lift(s)
            if has_base:
                co = lin_in_stages(s, d, ["h"], n)
            else:
                co = lin_in_stages(s + T.Sym.var("y%d" % d, 0.0), d, ["h"], n)
            rows.append(co)
        if any(r != rows[0] for r in rows):
            raise ExtractError("output %s: components differ" % name)
        outs[name] = [rows[0].get(j, Fraction(0)) for j in range(n)]
    return A, C, outs


def sym_inputs():
    t = T.Sym.var("t", 0.3)
    h = T.Sym.var("h", 0.125)
    y = T.symarray([T.Sym.var("y%d" % d, 0.7 + 0.2 * d) for d in range(DIM)])
    return t, y, h


def fq(x):
    return Fraction(float(x))


def trace_generic_kernel(kernel, A, B, C):
    T.reset()
    t, y, h = sym_inputs()
    rec = RecF()
    yh, yl, err = T.retarget(kernel)(rec, t, y, h, A, B, np.empty(0), C, False)
    return effective_tableau(rec, {"b": (yh, True)})


def trace_ham_kernel(kernel, A, B, C):
    T.reset()
    t, y, h = sym_inputs()
    rec = RecF(with_t=False)
    f = T.retarget(kernel, {"_hamiltonian_rhs": lambda yy, jac, clmo, ndof: rec(yy)})
    yh, yl, err = f(t, y, h, A, B, np.empty(0), C, False, None, None, 1)
    return effective_tableau(rec, {"b": (yh, True)})


def dmat(name, M):
    return "def %s : List (List Dy) := [\n  %s]\n" % (name, ",\n  ".join("[" + ",".join(dyq(x) for x in r) + "]" for r in M))


def dvec(name, v):
    return "def %s : List Dy := [%s]\n" % (name, ",".join(dyq(x) for x in v))


def dyq(q):
    q = Fraction(q)
    d = q.denominator
    e = d.bit_length() - 1
    if d != 1 << e:
        raise ExtractError("non-dyadic coefficient %r" % (q,))
    return "⟨%d,%d⟩" % (q.numerator, e)


def pad(A, n):
    A = np.asarray(A, dtype=float)
    out = np.zeros((n, n))
    out[:A.shape[0], :A.shape[1]] = A
    return out


def gen(ctx):
    from hiten.algorithms.integrators import rk
    txt = E.header("C02", imports=("HitenModel.Core.Dy", "HitenModel.Core.RE"), note="live tableaux + effective tableaux traced from rk.py kernels")
    info = {}
    # ---- fixed-step methods through the factory map ------------------------------------------------
    fixed_orders = sorted(rk.FixedRK._map)
    txt += "def fixedOrders : List Nat := %s\n" % fixed_orders
    for p in fixed_orders:
        integ = rk.FixedRK(p)
        A, B, C = integ._A, integ._B_HIGH, integ._C
        s = len(B)
        txt += "-- fixed order %d: class %s, declared order %d, %d stages\n" % (p, type(integ).__name__, integ._p, s)
        txt += "def fixed%d_declared : Nat := %d\n" % (p, integ._p)
        txt += dmat("fixed%d_tabA" % p, [[fq(x) for x in r] for r in pad(A, s)])
        txt += dvec("fixed%d_tabB" % p, [fq(x) for x in B])
        txt += dvec("fixed%d_tabC" % p, [fq(x) for x in C])
        for tag, kern, tracer_fn in (("eff", rk.rk_embedded_step_jit_kernel, trace_generic_kernel),
                                     ("ham", rk.rk_embedded_step_ham_jit_kernel, trace_ham_kernel)):
            try:
                Ae, Ce, outs = tracer_fn(kern, A, B, C)
                MODEL["fixed%d_%s" % (p, tag)] = (Ae, outs["b"], Ce)
                txt += dmat("fixed%d_%sA" % (p, tag), Ae)
                txt += dvec("fixed%d_%sB" % (p, tag), outs["b"])
                if tag == "eff":
                    txt += dvec("fixed%d_effC" % p, Ce)
                info["fixed%d_%s_stages" % (p, tag)] = len(Ae)
            except ExtractError as ex:
                ctx.broken.append(("trace:fixed%d_%s" % (p, tag), "stepping kernel is not a Runge-Kutta step over the table: %s" % ex))
                ctx.obligations["trace:fixed%d_%s" % (p, tag)] = False
                txt += "-- extraction failed: %s\n" % ex
    # ---- RK45 ------------------------------------------------------------------------------------------
    adaptive_orders = sorted(rk.AdaptiveRK._map)
    txt += "def adaptiveOrders : List Nat := %s\n" % adaptive_orders
    txt += "def rungeKuttaMap : List (Nat × String) := [%s]\n" % ", ".join(
        '(%d, "%s")' % (k, v.__name__) for k, v in sorted(rk.RungeKutta._map.items()))
    from hiten.algorithms.integrators.coefficients import rk45 as c45, dop853 as c8
    i45 = rk.AdaptiveRK(5)
    txt += "def rk45_declared : Nat := %d\n" % i45._p
    txt += "def rk45_errExpInv : Nat := %d\n" % round(1.0 / i45._err_exp)
    for tag in ("eff", "ham"):
        try:
            T.reset()
            t, y, h = sym_inputs()
            if tag == "eff":
                rec = RecF()
                yh, yl, err, k = T.retarget(rk.rk45_step_jit_kernel)(rec, t, y, h, i45._A, i45._B_HIGH, i45._C, i45._E)
            else:
                rec = RecF(with_t=False)
                f = T.retarget(rk.rk45_step_ham_jit_kernel, {"_hamiltonian_rhs": lambda yy, jac, clmo, ndof: rec(yy)})
                yh, yl, err, k = f(t, y, h, i45._A, i45._B_HIGH, i45._C, i45._E, None, None, 1)
            Ae, Ce, outs = effective_tableau(rec, {"b": (yh, True), "e": (err, False), "blow": (yl, True)})
            MODEL["rk45_" + tag] = (Ae, outs, Ce)
            txt += dmat("rk45_%sA" % tag, Ae) + dvec("rk45_%sB" % tag, outs["b"]) + dvec("rk45_%sE" % tag, outs["e"])
            txt += dvec("rk45_%sBlow" % tag, outs["blow"])
            if tag == "eff":
                txt += dvec("rk45_effC", Ce)
                # dense output: Q-cache + evaluator on the recorded stages
                x = T.Sym.var("x", 0.37)
                P = c45.P
                Kseg = np.empty((len(rec.calls), DIM), dtype=object)
                for j in range(len(rec.calls)):
                    for d in range(DIM):
                        Kseg[j, d] = T.Sym.var("k%d_%d" % (j, d), math.sin(1.0 + 3 * j + d))
                Q = T.retarget(rk._rk45_build_Q_cache)(Kseg, P, DIM)
                yx = T.retarget(rk._rk45_eval_dense)(y, Q, P, x, h)
                Pe = dense_poly(yx, len(rec.calls), P.shape[1])
                MODEL["rk45_P"] = Pe
                txt += dmat("rk45_effP", Pe)
                txt += "def rk45_Pcols : Nat := %d\n" % P.shape[1]
        except ExtractError as ex:
            ctx.broken.append(("trace:rk45_" + tag, str(ex)))
            ctx.obligations["trace:rk45_" + tag] = False
            txt += "-- extraction failed: %s\n" % ex
    A45 = pad(c45.A, 7)
    A45[6, :6] = c45.B_HIGH      # FSAL stage k[6] = f(t+h, y_high)
    txt += dmat("rk45_tabA", [[fq(x) for x in r] for r in A45])
    txt += dvec("rk45_tabB", [fq(x) for x in c45.B_HIGH] + [Fraction(0)])
    txt += dvec("rk45_tabE", [fq(x) for x in c45.E])
    # ---- DOP853 -----------------------------------------------------------------------------------------
    i8 = rk.AdaptiveRK(8)
    txt += "def dop853_declared : Nat := %d\n" % i8._p
    txt += "def dop853_errExpInv : Nat := %d\n" % round(1.0 / i8._err_exp)
    for tag in ("eff", "ham"):
        try:
            T.reset()
            t, y, h = sym_inputs()
            if tag == "eff":
                rec = RecF()
                res = T.retarget(rk.dop853_step_jit_kernel)(rec, t, y, h, i8._A, i8._B_HIGH, i8._C, i8._E5, i8._E3)
            else:
                rec = RecF(with_t=False)
                f = T.retarget(rk.dop853_step_ham_jit_kernel, {"_hamiltonian_rhs": lambda yy, jac, clmo, ndof: rec(yy)})
                res = f(t, y, h, i8._A, i8._B_HIGH, i8._C, i8._E5, i8._E3, None, None, 1)
            yh, yl, errv, e5, e3, k = res
            nst_step = len(rec.calls)
            if tag == "eff":
                f0 = rec(t, y)
                fnew = rec(t + h, yh)
                x = T.Sym.var("x", 0.37)
                Fc = T.retarget(rk._dop853_build_dense_cache)(rec, t, y, f0, yh, fnew, h, k, c8.A, c8.C, c8.D,
                                                               c8.N_STAGES_EXTENDED, c8.INTERPOLATOR_POWER)
                yx = T.retarget(rk._dop853_eval_dense)(y, Fc, c8.INTERPOLATOR_POWER, x)
            Ae, Ce, outs = effective_tableau(rec, {"b": (yh, True), "e5": (e5, False), "e3": (e3, False)})
            n = len(Ae)
            MODEL["dop853_" + tag] = (Ae, outs, Ce)
            txt += dmat("dop853_%sA" % tag, Ae) + dvec("dop853_%sB" % tag, outs["b"])
            txt += dvec("dop853_%sE5" % tag, outs["e5"]) + dvec("dop853_%sE3" % tag, outs["e3"])
            txt += "def dop853_%sStepStages : Nat := %d\n" % (tag, nst_step)
            if tag == "eff":
                txt += dvec("dop853_effC", Ce)
                Pe = dense_poly(yx, n, c8.INTERPOLATOR_POWER)
                MODEL["dop853_P"] = Pe
                txt += dmat("dop853_effP", Pe)
                txt += "def dop853_Pcols : Nat := %d\n" % c8.INTERPOLATOR_POWER
        except ExtractError as ex:
            ctx.broken.append(("trace:dop853_" + tag, str(ex)))
            ctx.obligations["trace:dop853_" + tag] = False
            txt += "-- extraction failed: %s\n" % ex
    ns = c8.N_STAGES
    A8 = np.zeros((ns + 1, ns + 1))
    A8[:ns, :ns] = c8.A[:ns, :ns]
    A8[ns, :ns] = c8.B[:ns]
    txt += dmat("dop853_tabA", [[fq(x) for x in r] for r in A8])
    txt += dvec("dop853_tabB", [fq(x) for x in c8.B[:ns]] + [Fraction(0)])
    txt += dvec("dop853_tabE5", [fq(x) for x in c8.E5]) + dvec("dop853_tabE3", [fq(x) for x in c8.E3])
    # ---- cubic Hermite dense output of the fixed-step family (as RE over x) -------------------------
    T.reset()
    names = ["x", "h", "y0", "f0", "y1", "f1"]
    sv = {n: T.Sym.var(n, 0.3 + 0.1 * i) for i, n in enumerate(names)}
    yv = T.retarget(rk._hermite_eval_dense)(T.symarray([sv["y0"]]), T.symarray([sv["f0"]]), T.symarray([sv["y1"]]),
                                            T.symarray([sv["f1"]]), sv["x"], sv["h"])
    txt += "open RE\n" + E.re_def("hermite", yv[0], {n: i for i, n in enumerate(names)})
    txt += E.footer("C02")
    ctx.write_gen("HitenModel.Gen.C02", txt)
    ctx.extra["tableaux"] = info
    return info


def dense_poly(yx, nst, ncols):
    """y(x)_d = y_d + h Σ_j Σ_c P[j][c] x^(c+1) k_j_d ; returns P (nst x ncols) of exact Fractions."""
    rows = []
    for d, s in enumerate(yx):
        nf = T.polynf(T.Sym.lift(s))
        if nf is None:
            raise ExtractError("dense output not polynomial")
        P = [[Fraction(0)] * ncols for _ in range(nst)]
        base = Fraction(0)
        for mono, c in nf.items():
            md = dict(mono)
            if md == {"y%d" % d: 1}:
                base = c
                continue
            ks = [v for v in md if v.startswith("k")]
            if len(ks) != 1 or md[ks[0]] != 1 or md.get("h") != 1:
                raise ExtractError("dense monomial %r" % (mono,))
            j, dd = ks[0][1:].split("_")
            if int(dd) != d:
                raise ExtractError("dense output mixes components")
            px = md.get("x", 0)
            if set(md) - {ks[0], "h", "x"} or not (1 <= px <= ncols):
                raise ExtractError("dense monomial %r" % (mono,))
            P[int(j)][px - 1] += c
        if base != 1:
            raise ExtractError("dense output base coefficient %r" % base)
        rows.append(P)
    if any(r != rows[0] for r in rows):
        raise ExtractError("dense output components differ")
    # coefficients are sums/products of floats -> exact rationals but maybe not dyadic-small: they are dyadic (floats) products
    return rows[0]


def run(ctx):
    ctx.guard("regenerate", gen, ctx)
    ok = ctx.lean_build(["HitenModel.Props.C02", "HitenModel.Props.C02Ctl"])
    if ok:
        ctx.lean_audit(["HitenModel.Props.C02", "HitenModel.Props.C02Ctl"],
                       ["HitenModel.Props.C02", "HitenModel.Props.C02Ctl", "HitenModel.Gen.C02", "HitenModel.Core.Dy", "HitenModel.Core.C02Ctl", "HitenModel.Lemmas.Trees"])
        if ctx.thorough():
            ctx.leanchecker(["HitenModel.Props.C02", "HitenModel.Props.C02Ctl"])
    ctx.guard("controller_corr", controller_corr, ctx)
    ctx.guard("validate_traces", validate_traces, ctx)
    numerics(ctx)
    if not ctx.violations:
        ham_tolerance(ctx)
    if not ctx.violations:
        ham_fixed_orders(ctx)
    if not ctx.violations:
        relative_tolerance(ctx)
    ctx.rule = ("integrator x order x test problem (nonlinear, time-dependent, rational closed-form solutions) x step size / tolerance / "
                "output grid; distinct by that tuple; non-trivial = problem is nonlinear or non-autonomous")


# ---------------------------------------------------------------------------------------------------

def _model_step(A, b, C, f, t, y, h, extra_out=()):
    """textbook explicit RK step with the effective tableau (float)"""
    n = len(A)
    k = []
    for i in range(n):
        yi = y + h * sum((float(A[i][j]) * k[j] for j in range(i) if A[i][j] != 0), np.zeros_like(y))
        k.append(f(t + float(C[i]) * h, yi))
    outs = [y + h * sum((float(b[j]) * k[j] for j in range(n)), np.zeros_like(y))]
    for e in extra_out:
        outs.append(h * sum((float(e[j]) * k[j] for j in range(n)), np.zeros_like(y)))
    return outs, k


def validate_traces(ctx):
    """Translation validation: the compiled kernels on a concrete nonlinear time-dependent field must agree with the
    textbook step over the extracted effective tableau (and the dense evaluators with the extracted polynomials)."""
    import numba
    from hiten.algorithms.integrators import rk
    from hiten.algorithms.integrators.coefficients import rk45 as c45, dop853 as c8

    @numba.njit
    def f(t, y):
        return np.array([np.sin(t) * y[1] - y[0] * y[0], np.cos(y[0]) + 0.3 * t * y[1]])

    fpy = f.py_func
    worst = 0.0

    def cmp(name, a, b):
        nonlocal worst
        err = float(np.max(np.abs(np.asarray(a) - np.asarray(b)) / (1 + np.abs(np.asarray(b)))))
        worst = max(worst, err)
        ctx.traces_validated += 1
        if not err <= 1e-12:
            ctx.broken.append(("trace-validation:" + name, "compiled kernel and extracted tableau differ by %g" % err))
            ctx.obligations["trace-validation:" + name] = False

    n = 200 if ctx.thorough() else 10
    for _ in range(n):
        t = ctx.rng.uniform(-1, 1)
        h = ctx.rng.choice([-1, 1]) * 10 ** ctx.rng.uniform(-3, -0.5)
        y = np.array([ctx.rng.uniform(-1, 1), ctx.rng.uniform(-1, 1)])
        for p in sorted(rk.FixedRK._map):
            if "fixed%d_eff" % p not in MODEL:
                continue
            A, b, C = MODEL["fixed%d_eff" % p]
            integ = rk.FixedRK(p)
            yh, _, _ = rk.rk_embedded_step_jit_kernel(f, t, y, h, integ._A, integ._B_HIGH, np.empty(0), integ._C, False)
            (ym,), _ = _model_step(A, b, C, fpy, t, y, h)
            cmp("fixed%d" % p, yh, ym)
        if "rk45_eff" in MODEL and "rk45_P" in MODEL:
            A, outs, C = MODEL["rk45_eff"]
            i45 = rk.AdaptiveRK(5)
            yh, yl, err, K = rk.rk45_step_jit_kernel(f, t, y, h, i45._A, i45._B_HIGH, i45._C, i45._E)
            (ym, em), k = _model_step(A, outs["b"], C, fpy, t, y, h, (outs["e"],))
            cmp("rk45.y", yh, ym)
            cmp("rk45.err", err / abs(h), em / abs(h))
            x = ctx.rng.uniform(0, 1)
            Q = rk._rk45_build_Q_cache(K, c45.P, 2)
            yd = rk._rk45_eval_dense(y, Q, c45.P, x, h)
            P = MODEL["rk45_P"]
            ymd = y + h * sum(float(P[j][c]) * x ** (c + 1) * k[j] for j in range(len(P)) for c in range(len(P[0])))
            cmp("rk45.dense", yd, ymd)
        if "dop853_eff" in MODEL and "dop853_P" in MODEL:
            A, outs, C = MODEL["dop853_eff"]
            i8 = rk.AdaptiveRK(8)
            yh, yl, errv, e5, e3, K = rk.dop853_step_jit_kernel(f, t, y, h, i8._A, i8._B_HIGH, i8._C, i8._E5, i8._E3)
            (ym, e5m, e3m), k = _model_step(A, outs["b"], C, fpy, t, y, h, (outs["e5"], outs["e3"]))
            cmp("dop853.y", yh, ym)
            cmp("dop853.err5", e5 / abs(h), e5m / abs(h))
            cmp("dop853.err3", e3 / abs(h), e3m / abs(h))
            x = ctx.rng.uniform(0, 1)
            Fc = rk._dop853_build_dense_cache(f, t, y, f(t, y), yh, f(t + h, yh), h, K, c8.A, c8.C, c8.D, c8.N_STAGES_EXTENDED, c8.INTERPOLATOR_POWER)
            yd = rk._dop853_eval_dense(y, Fc, c8.INTERPOLATOR_POWER, x)
            P = MODEL["dop853_P"]
            ymd = y + h * sum(float(P[j][c]) * x ** (c + 1) * k[j] for j in range(len(P)) for c in range(len(P[0])))
            err = float(np.max(np.abs(yd - ymd) / (1 + np.abs(ymd))))
            ctx.traces_validated += 1
            worst = max(worst, err)
            if not err <= 1e-9:   # the nested 7th-degree form with O(1e3) coefficients loses ~4 digits when expanded
                ctx.broken.append(("trace-validation:dop853.dense", "dense evaluator and extracted polynomial differ by %g" % err))
                ctx.obligations["trace-validation:dop853.dense"] = False
    ctx.obligations.setdefault("trace-validation", True)
    ctx.extra["trace_validation_worst_rel_err"] = worst


def _make_system(kind):
    """Test ODEs with closed-form solutions, as real hiten dynamical systems (numba-compiled rhs)."""
    import numba
    from hiten.algorithms.dynamics.base import _DynamicalSystem

    if kind == "riccati":      # y' = -y^2 (autonomous, nonlinear): y = 1/(t+1/y0)
        @numba.njit
        def rhs(t, y):
            return np.array([-y[0] * y[0], -2.0 * y[1] * y[1]])
        exact = lambda t, y0: np.array([1.0 / (t + 1.0 / y0[0]), 1.0 / (2.0 * t + 1.0 / y0[1])])
        y0 = np.array([1.0, 0.5])
    elif kind == "nonauto":    # y' = -2 t y^2, z' = cos(t) z  (time-dependent): y = 1/(t^2+1/y0), z = z0 exp(sin t)
        @numba.njit
        def rhs(t, y):
            return np.array([-2.0 * t * y[0] * y[0], np.cos(t) * y[1]])
        exact = lambda t, y0: np.array([1.0 / (t * t + 1.0 / y0[0]), y0[1] * np.exp(np.sin(t))])
        y0 = np.array([1.0, 0.7])
    elif kind == "rotation":   # linear rotation
        @numba.njit
        def rhs(t, y):
            return np.array([y[1], -y[0]])
        exact = lambda t, y0: np.array([y0[0] * np.cos(t) + y0[1] * np.sin(t), -y0[0] * np.sin(t) + y0[1] * np.cos(t)])
        y0 = np.array([1.0, 0.25])
    elif kind == "decay":      # slowly damped rotation: |y| falls from 1 to e^-14 ~ 8e-7 over t in [0, 14] (the step is accuracy-limited throughout)
        @numba.njit
        def rhs(t, y):
            return np.array([-y[0] + 3.0 * y[1], -3.0 * y[0] - y[1]])
        exact = lambda t, y0: np.exp(-t) * np.array([y0[0] * np.cos(3.0 * t) + y0[1] * np.sin(3.0 * t), -y0[0] * np.sin(3.0 * t) + y0[1] * np.cos(3.0 * t)])
        y0 = np.array([0.8, 0.6])
    else:
        raise ValueError(kind)

    class S(_DynamicalSystem):
        def __init__(self):
            super().__init__(2)

        def _build_rhs_impl(self):
            return rhs

    return S(), exact, y0


def numerics(ctx):
    from hiten.algorithms.integrators import rk
    probs = ["nonauto", "riccati"] + (["rotation"] if ctx.thorough() else [])
    T_end = 2.0
    # ---- fixed-step convergence order ------------------------------------------------------------
    for p in sorted(rk.FixedRK._map):
        for kind in probs:
            sysm, exact, y0 = _make_system(kind)
            errs = []
            Ns = {4: [40, 80, 160], 6: [16, 32, 64], 8: [8, 16, 32]}.get(p, [16, 32, 64])
            for N in Ns:
                tv = np.linspace(0.0, T_end, N + 1)
                sol = rk.RungeKutta(p).integrate(sysm, y0, tv) if p in rk.RungeKutta._map else rk.FixedRK(p).integrate(sysm, y0, tv)
                err = float(np.abs(sol.states[-1] - exact(T_end, y0)).max())
                errs.append(max(err, 1e-17))
                ctx.case(("fixed", p, kind, N), kind="fixed-order-fit", sample={"order": p, "problem": kind, "N": N, "err": err} if N == Ns[0] else None)
            rates = [math.log2(errs[i] / errs[i + 1]) for i in range(len(errs) - 1)]
            # an order-p method shows rate ~p until round-off; accept p-0.5 on the cleanest pair above the round-off floor
            usable = [r for r, e in zip(rates, errs[1:]) if e > 2e-14]
            best = max(usable) if usable else None
            ctx.extra.setdefault("fixed_rates", {})["%d:%s" % (p, kind)] = [round(r, 2) for r in rates]
            if best is not None and best < p - 0.6:
                ctx.violation("fixed-order:%d" % p, "fixed-step order %d converges at rate %.2f on problem %s" % (p, best, kind),
                              {"order": p, "problem": kind, "N": Ns, "errors": errs, "rates": rates, "t_end": T_end})
                return
    # ---- adaptive: error proportional to tolerance at every output time (dense output included) -----
    for p in sorted(rk.AdaptiveRK._map):
        for kind in probs:
            sysm, exact, y0 = _make_system(kind)
            grids = [np.linspace(0, T_end, 23), np.array([0.0, 0.013, 0.5, 0.50001, 1.37, T_end])]
            for gi, tv in enumerate(grids):
                prev = None
                for tol in ([1e-6, 1e-9, 1e-12] if ctx.thorough() else [1e-6, 1e-10]):
                    sol = rk.AdaptiveRK(p, rtol=tol, atol=tol).integrate(sysm, y0, tv)
                    ex = np.array([exact(t, y0) for t in tv])
                    errv = np.abs(sol.states - ex).max(axis=1)
                    err = float(errv.max())
                    ctx.case(("adaptive", p, kind, gi, tol), kind="adaptive-tol", sample={"order": p, "problem": kind, "tol": tol, "err": err} if gi == 0 and tol == 1e-6 else None)
                    if not np.array_equal(sol.times, tv):
                        ctx.violation("adaptive-times:%d" % p, "output times differ from the requested grid", {"order": p, "grid": tv.tolist(), "times": sol.times.tolist()})
                        return
                    # modest multiple of tolerance: these problems have |y|~1 and Lipschitz constants ~2; allow 200x (+ round-off floor)
                    if not err <= 200 * tol + 5e-13:
                        i = int(np.argmax(errv))
                        ctx.violation("adaptive-tol:%d" % p, "adaptive order %d error %.3g at t=%.5g exceeds 200*tol (tol=%g) on %s" % (p, err, tv[i], tol, kind),
                                      {"order": p, "problem": kind, "tol": tol, "grid": tv.tolist(), "errors": errv.tolist()})
                        return
                    if prev is not None and not err <= max(prev, 5e-13):
                        pass  # shrinking is checked through the bound above at each tolerance
                    prev = err


def ham_tolerance(ctx):
    """Polynomial Hamiltonian systems (fast path) with rtol != atol and |y| << 1: delivered error vs requested tolerance."""
    import polyutil as PU
    from hiten.algorithms.integrators import rk
    hd = {(0, 0, 0, 2, 0, 0): 0.5, (2, 0, 0, 0, 0, 0): 0.5, (0, 0, 0, 0, 2, 0): 0.6, (0, 2, 0, 0, 0, 0): 0.4, (0, 0, 0, 0, 0, 2): 0.5,
          (0, 0, 2, 0, 0, 0): 0.8, (1, 0, 0, 1, 1, 0): 0.3, (0, 1, 1, 0, 0, 1): -0.2, (1, 1, 0, 1, 1, 0): 0.25, (3, 0, 0, 0, 0, 0): 0.4}
    sysm, H = PU.ham_system(hd, 4)
    y0 = 1e-3 * np.array([1.0, -0.7, 0.5, 0.3, 0.8, -0.4])
    tv = np.linspace(0.0, 5.0, 41)
    ref = rk.AdaptiveRK(8, rtol=1e-13, atol=1e-17).integrate(sysm, y0, tv).states
    for p in sorted(rk.AdaptiveRK._map):
        for (rtol, atol) in ((1e-8, 1e-14), (1e-10, 1e-16)):
            sol = rk.AdaptiveRK(p, rtol=rtol, atol=atol).integrate(sysm, y0, tv)
            err = float(np.abs(sol.states - ref).max())
            allowed = atol + rtol * float(np.abs(ref).max())
            ratio = err / allowed
            ctx.case(("ham-tol", p, rtol, atol), kind="adaptive-tol-hamiltonian", sample={"order": p, "rtol": rtol, "atol": atol, "err_over_tol": ratio} if rtol == 1e-8 else None)
            ctx.extra.setdefault("ham_err_over_tol", {})["%d:%g:%g" % (p, rtol, atol)] = round(ratio, 3)
            if not ratio <= 200:
                ctx.violation("adaptive-tol-hamiltonian:%d" % p,
                              "adaptive order %d on a polynomial Hamiltonian system: error %.3g = %.0f x (atol + rtol*|y|) with rtol=%g, atol=%g" % (p, err, ratio, rtol, atol),
                              {"order": p, "rtol": rtol, "atol": atol, "hamiltonian": {str(k): v for k, v in hd.items()}, "y0": y0.tolist(), "t_end": 5.0, "error": err})
                return


def relative_tolerance(ctx):
    """A solution that decays by six orders of magnitude with rtol >> atol: the error is controlled RELATIVE TO THE CURRENT state at every
    output time (a controller scaling the error with a stale state would deliver rtol*|y0|)."""
    from hiten.algorithms.integrators import rk
    sysm, exact, y0 = _make_system("decay")
    tv = np.linspace(0.0, 14.0, 57)
    ex = np.array([exact(t, y0) for t in tv])
    for p in sorted(rk.AdaptiveRK._map):
        for rtol in ((1e-6, 1e-9) if not ctx.thorough() else (1e-6, 1e-8, 1e-10)):
            atol = 1e-18
            sol = rk.AdaptiveRK(p, rtol=rtol, atol=atol).integrate(sysm, y0, tv)
            ratio = np.abs(np.asarray(sol.states) - ex).max(axis=1) / (atol + rtol * np.abs(ex).max(axis=1))
            worst = float(ratio.max())
            ctx.case(("relative-tol", p, rtol), nontrivial=True, kind="adaptive-relative-tol", sample={"order": p, "rtol": rtol, "atol": atol, "worst_err_over_tol": worst} if rtol == 1e-6 else None)
            ctx.extra.setdefault("relative_tol_ratio", {})["%d:%g" % (p, rtol)] = round(worst, 2)
            if not worst <= 500:
                i = int(np.argmax(ratio))
                ctx.violation("adaptive-relative-tol:%d" % p,
                              "adaptive order %d on a decaying solution (|y| from 1 to 8e-7): error at t=%.3g is %.0f x (atol + rtol*|y(t)|) with rtol=%g, atol=%g" % (
                                  p, tv[i], worst, rtol, atol),
                              {"order": p, "problem": "y' = [[-1,3],[-3,-1]] y, y0 = (0.8,0.6), t in [0,14]", "rtol": rtol, "atol": atol, "grid": tv.tolist(),
                               "err_over_tol": ratio.tolist(), "states": np.asarray(sol.states).tolist()})
                return


def ham_fixed_orders(ctx):
    """Fixed-step RK on a polynomial Hamiltonian system (the `_ham` kernel twins), on a GRADED time grid (every interval has its own step) and
    on a uniform one: the global error must shrink at the declared order when the grid is refined."""
    import polyutil as PU
    from hiten.algorithms.integrators import rk
    hd = {(0, 0, 0, 2, 0, 0): 0.5, (2, 0, 0, 0, 0, 0): 0.5, (0, 0, 0, 0, 2, 0): 0.6, (0, 2, 0, 0, 0, 0): 0.4, (0, 0, 0, 0, 0, 2): 0.5,
          (0, 0, 2, 0, 0, 0): 0.8, (1, 0, 0, 1, 1, 0): 0.3, (0, 1, 1, 0, 0, 1): -0.2, (1, 1, 0, 1, 1, 0): 0.25, (3, 0, 0, 0, 0, 0): 0.4}
    sysm, H = PU.ham_system(hd, 4)
    y0 = 0.3 * np.array([1.0, -0.7, 0.5, 0.3, 0.8, -0.4])
    T_end = 2.0
    refint = rk.AdaptiveRK(8, rtol=1e-13, atol=1e-15)
    for kind in ("graded", "uniform"):
        for p in (4, 6, 8):
            Ns = {4: (40, 80, 160), 6: (20, 40, 80), 8: (10, 20, 40)}[p]
            errs = []
            for N in Ns:
                u = np.linspace(0.0, 1.0, N + 1)
                tv = T_end * (u ** 1.5 if kind == "graded" else u)
                sol = rk.FixedRK(p).integrate(sysm, y0.copy(), tv)
                # EVERY returned sample is compared (a driver that steps uniformly and only labels the samples with the requested
                # times still ends at the right state): reference = tight adaptive run sampled at the same times
                ref = np.asarray(refint.integrate(sysm, y0.copy(), tv).states)
                errs.append(float(np.abs(np.asarray(sol.states) - ref).max()))
            rates = [math.log(errs[i] / errs[i + 1], 2) if errs[i + 1] > 0 and errs[i] > 0 else float("inf") for i in range(len(errs) - 1)]
            ctx.case(("ham-fixed-order", kind, p), nontrivial=True, kind="fixed-order-hamiltonian:%s" % kind,
                     sample={"order": p, "grid": kind, "errors": errs, "rates": rates} if kind == "graded" else None)
            ctx.extra.setdefault("ham_fixed_rates", {})["%s:%d" % (kind, p)] = [round(r, 2) for r in rates]
            floor = 5e-13
            ok = all(r >= p - 1.0 for r, e in zip(rates, errs[1:]) if e > floor) and errs[-1] < 1e-3
            if not ok:
                ctx.violation("fixed-order-hamiltonian:%d" % p,
                              "fixed-step order %d on a polynomial Hamiltonian system, %s grid: errors %r (observed rates %r) do not shrink at order %d" % (
                                  p, kind, ["%.3g" % e for e in errs], ["%.2f" % r for r in rates], p),
                              {"order": p, "grid": kind + (": t_i = T*(i/N)^1.5" if kind == "graded" else ""), "N": list(Ns), "errors": errs, "rates": rates,
                               "hamiltonian": {str(k): v for k, v in hd.items()}, "y0": y0.tolist(), "t_end": T_end})
                return


def controller_corr(ctx):
    """exact correspondence of the controller helpers of integrators/utils.py with the Lean model (Core/C02Ctl.lean).
    Powers are exact on the chosen grid: order in {1,3,7} (beta = 1/2, 1/4, 1/8), err_norm = 2^(8k), err_prev in {-1, 1}."""
    from fractions import Fraction
    from hiten.algorithms.integrators import utils as U
    rng = ctx.rng

    def fr(x):
        q = Fraction(float(x))
        return str(q.numerator) if q.denominator == 1 else "%d/%d" % (q.numerator, q.denominator)

    lines, expect = ["ctl %s %s %s" % (fr(U._SAFETY), fr(U._MIN_FACTOR), fr(U._MAX_FACTOR))], []
    # accept / reject factors
    for order in (1.0, 3.0, 7.0):
        for k in (-3, -2, -1, 0, 1, 2, 3):
            err = 2.0 ** (8 * k)
            for prev in (-1.0, 1.0):
                beta = 1.0 / (order + 1.0)
                u = err ** (-beta)                        # exact: 2^(-8k/(order+1))
                lines.append("accept 0 %s" % fr(u))
                expect.append(fr(U._pi_accept_factor(err, prev, order)))
            if order in (1.0, 3.0):                       # reject uses exponent 1/order: exact for order 1 (and 2,4,8)
                pass
        for prev in (-1.0, 1.0, 0.5):
            lines.append("accept 1 1")
            expect.append(fr(U._pi_accept_factor(0.0, prev, order)))
        lines.append("accept 0 nan")
        expect.append(fr(U._pi_accept_factor(float("nan"), -1.0, order)))
    for order in (1.0, 2.0, 4.0, 8.0):
        for k in (-2, -1, 0, 1, 2, 3):
            err = 2.0 ** (8 * k)
            u = err ** (-(1.0 / order))
            lines.append("reject 0 %s" % fr(u))
            expect.append(fr(U._pi_reject_factor(err, order)))
        for e in (0.0, -1.0):
            lines.append("reject 1 1")
            expect.append(fr(U._pi_reject_factor(e, order)))
        lines.append("reject 0 nan")
        expect.append(fr(U._pi_reject_factor(float("nan"), order)))
    # clamp / adjust / initial step on random dyadic data (incl. min > max and negative spans)
    dy = lambda: rng.choice([-1, 1]) * rng.randint(0, 64) / 2.0 ** rng.randint(0, 8)
    for _ in range(4000 if ctx.thorough() else 120):
        h, mx, mn = dy(), abs(dy()), abs(dy())
        lines.append("clamp %s %s %s" % (fr(h), fr(mx), fr(mn)))
        expect.append(fr(U._clamp_step(h, mx, mn)))
        t, te = dy(), dy()
        lines.append("adjust %s %s %s" % (fr(t), fr(h), fr(te)))
        expect.append(fr(U._adjust_step_to_endpoint(t, h, te)))
        d0, d1 = abs(dy()), abs(dy())
        small = d0 < 1.0e-5 or d1 < 1.0e-5
        q = 0.0 if small else 0.01 * d0 / d1
        lines.append("init %d %s %s %s %s" % (1 if small else 0, fr(1.0e-6), fr(q), fr(mn), fr(mx)))
        expect.append(fr(U._select_initial_step(d0, d1, mn, mx)))
    out = [l.strip() for l in ctx.lean_run("Drivers/C02Ctl.lean", "\n".join(lines) + "\n") if l.strip()]
    bad = [(l, e, o) for l, e, o in zip(lines[1:], expect, out) if e != o]
    ctx.extra["controller_corr_cases"] = len(expect)
    for _ in expect:
        ctx.case(None, nontrivial=False, kind="controller-corr")
    if len(out) != len(expect) or bad:
        ctx.broken.append(("correspondence:step-controller", "controller helpers and model differ: %r" % (bad[:3] or [len(out), len(expect)],)))
        ctx.obligations["correspondence:step-controller"] = False
        # failing-input search: the clauses themselves on the real functions
        for l, e, o in bad[:50]:
            w = l.split()
            if w[0] in ("accept", "reject"):
                f = float(Fraction(e))
                if not (U._MIN_FACTOR <= f <= U._MAX_FACTOR):
                    ctx.violation("controller-factor-out-of-range", "step factor %r outside [MIN_FACTOR, MAX_FACTOR]" % f, {"call": l, "factor": f})
            if w[0] == "adjust":
                t, h, te = [float(Fraction(x)) for x in w[1:]]
                r = float(Fraction(e))
                if t <= te and t + r > te:
                    ctx.violation("controller-overshoot", "adjusted step passes the end point", {"t": t, "h": h, "t_end": te, "adjusted": r})
    else:
        ctx.obligations["correspondence:step-controller"] = True
