import Mathlib.Data.List.Basic
import HitenModel.Core.C06
namespace HitenModel.C06
end HitenModel.C06
