/- Drivers/C06.lean — line-protocol driver of the packed-polynomial model over exact Gaussian rationals
   (see harness/props/c06.py).  One operation per input line, one output line per operation.

   fields of a line are separated by `|`; a coefficient block is `len idx:re:im idx:re:im …` (sparse, exact rationals),
   a graded polynomial is blocks separated by `;`, a schedule is `i,i,i;i,i;…` (one group per thread, `-` = idle thread),
   a scheduler for nested kernels is `c<nT>` (contiguous chunks) / `r<nT>` (round robin, each thread backwards). -/
import HitenModel.Core.C06
import HitenModel.Core.Drv
open HitenModel.C06 Drv

namespace D06

/-- Gaussian rationals -/
structure GQ where
  re : Rat
  im : Rat
deriving DecidableEq

instance : Add GQ := ⟨fun a b => ⟨a.re + b.re, a.im + b.im⟩⟩
instance : Sub GQ := ⟨fun a b => ⟨a.re - b.re, a.im - b.im⟩⟩
instance : Neg GQ := ⟨fun a => ⟨-a.re, -a.im⟩⟩
instance : Mul GQ := ⟨fun a b => ⟨a.re * b.re - a.im * b.im, a.re * b.im + a.im * b.re⟩⟩
instance : Div GQ := ⟨fun a b =>
  let n := b.re * b.re + b.im * b.im
  ⟨(a.re * b.re + a.im * b.im) / n, (a.im * b.re - a.re * b.im) / n⟩⟩
instance : OfNat GQ 0 := ⟨⟨0, 0⟩⟩
instance : OfNat GQ 1 := ⟨⟨1, 0⟩⟩
instance : NatCast GQ := ⟨fun n => ⟨(n : Rat), 0⟩⟩

def showGQ (c : GQ) : String := s!"{showRat c.re}:{showRat c.im}"

def strip (s : String) : String := " ".intercalate (words s)

def fields (line : String) : List String := (line.splitOn "|").map strip

def parseGQ? (re im : String) : Option GQ := do
  let a ← parseRat? re
  let b ← parseRat? im
  return ⟨a, b⟩

/-- `len idx:re:im …` → dense block -/
def parseBlock? (s : String) : Option (List GQ) :=
  match words s with
  | [] => some []
  | n :: ents => do
      let len ← n.toNat?
      let mut arr : Array GQ := Array.replicate len (0 : GQ)
      for e in ents do
        match e.splitOn ":" with
        | [i, re, im] =>
            let idx ← i.toNat?
            let c ← parseGQ? re im
            if idx < len then arr := arr.set! idx c else none
        | _ => none
      return arr.toList

def parseG? (s : String) : Option (GPoly GQ) := (s.splitOn ";").mapM fun b => parseBlock? b

def showBlock (b : List GQ) : String :=
  let ents := (List.range b.length).filterMap fun i =>
    let c := b.getD i 0
    if c = 0 then none else some s!"{i}:{showGQ c}"
  " ".intercalate (toString b.length :: ents)

def showG (P : GPoly GQ) : String := ";".intercalate (P.map showBlock)

def parseSched? (s : String) : Option (List (List Nat)) :=
  (s.splitOn ";").mapM fun g =>
    let g := strip g
    if g = "-" || g = "" then some [] else (g.splitOn ",").mapM fun w => (strip w).toNat?

/-- contiguous chunks of `0..n-1` over `nT` threads (the first `n % nT` threads get one more) -/
def chunks (nT n : Nat) : List (List Nat) :=
  let q := n / nT
  let r := n % nT
  (List.range nT).map fun t =>
    let start := t * q + min t r
    let len := q + (if t < r then 1 else 0)
    (List.range len).map (· + start)

/-- round robin, each thread runs its iterations backwards -/
def roundRobin (nT n : Nat) : List (List Nat) :=
  (List.range nT).map fun t => ((List.range n).filter fun i => i % nT = t).reverse

def parseSigma (s : String) : Nat → List (List Nat) :=
  let nT := ((s.drop 1).toNat?.getD 1).max 1
  if s.startsWith "r" then roundRobin nT else chunks nT

def parseMat? (s : String) : Option (List (List GQ)) :=
  (s.splitOn ";").mapM fun row => do
    let ws := words row
    ws.mapM fun w => match w.splitOn ":" with
      | [re, im] => parseGQ? re im
      | _ => none

def parseVec? (s : String) : Option (List GQ) :=
  (words s).mapM fun w => match w.splitOn ":" with
    | [re, im] => parseGQ? re im
    | _ => none

structure Sess where
  clmo : List (List Nat) := []

def firstDiff : List Nat → List Nat → Nat → Option (Nat × Nat × Nat)
  | a :: as, b :: bs, i => if a = b then firstDiff as bs (i + 1) else some (i, a, b)
  | _, _, _ => none

def cmpTable (tag : String) (d : Nat) (given : List Nat) : String :=
  let model := clmoModel d
  if model.length ≠ given.length then s!"{tag} {d} len {model.length} {given.length}" else
  match firstDiff model given 0 with
  | some (i, a, b) => s!"{tag} {d} diff {i} {a} {b}"
  | none => s!"{tag} {d} ok {model.length}"

def small0 (c : GQ) : Bool := c = 0

def handle (s : Sess) (line : String) : IO Sess := do
  let bad : IO Sess := do IO.println "bad-op"; return s
  match fields line with
  | [] => return s
  | hd :: rest =>
  match words hd, rest with
  | [], _ => return s
  | ["psi", D], [] =>
      let D := D.toNat?.getD 0
      let rows := (List.range 7).map fun i => " ".intercalate ((List.range (D + 1)).map fun d => toString (psi i d))
      IO.println ("psi " ++ ";".intercalate rows); return s
  | "clmo" :: d :: vs, [] =>
      match d.toNat?, parseNats vs with
      | some d, some v => IO.println (cmpTable "clmo" d v); return s
      | _, _ => bad
  | "enc" :: d :: vs, [] =>
      match d.toNat?, parseNats vs with
      | some d, some v => IO.println (cmpTable "enc" d v); return s
      | _, _ => bad
  | ["tables", D], [] =>
      let D := D.toNat?.getD 0
      let t := mkTables D
      IO.println s!"tables {D} {t.foldl (fun a l => a + l.length) 0}"
      return { s with clmo := t }
  | ["decall", d], [] =>
      match d.toNat? with
      | some d =>
          let n := (s.clmo.getD d []).length
          let ks := (List.range n).flatMap fun i => decode s.clmo i d
          IO.println (" ".intercalate ("decall" :: toString d :: ks.map toString)); return s
      | none => bad
  | "pack" :: ks, [] =>
      match parseNats ks with
      | some k => IO.println s!"pack {pack k}"; return s
      | none => bad
  | "encode" :: d :: ks, [] =>
      match d.toNat?, parseNats ks with
      | some d, some k =>
          IO.println (match encode s.clmo k d with | some i => s!"encode {i}" | none => "encode -1"); return s
      | _, _ => bad
  | ["decode", d, pos], [] =>
      match d.toNat?, pos.toNat? with
      | some d, some pos => IO.println ("decode " ++ " ".intercalate ((decode s.clmo pos d).map toString)); return s
      | _, _ => bad
  | ["add"], [p, q] =>
      match parseBlock? p, parseBlock? q with
      | some p, some q => IO.println ("add " ++ showBlock (polyAdd p q)); return s
      | _, _ => bad
  | ["scale", re, im], [p] =>
      match parseGQ? re im, parseBlock? p with
      | some a, some p => IO.println ("scale " ++ showBlock (polyScale a p)); return s
      | _, _ => bad
  | ["mul", dp, dq], [sch, p, q] =>
      match dp.toNat?, dq.toNat?, parseSched? sch, parseBlock? p, parseBlock? q with
      | some dp, some dq, some sch, some p, some q =>
          IO.println ("mul " ++ showBlock (polyMulSched s.clmo p dp q dq sch)); return s
      | _, _, _, _, _ => bad
  | ["diff", var, d], [sch, p] =>
      match var.toNat?, d.toNat?, parseSched? sch, parseBlock? p with
      | some var, some d, some sch, some p =>
          IO.println ("diff " ++ showBlock (polyDiffSched s.clmo p var d sch)); return s
      | _, _, _, _ => bad
  | ["integ", var, d], [p] =>
      match var.toNat?, d.toNat?, parseBlock? p with
      | some var, some d, some p => IO.println ("integ " ++ showBlock (polyIntegrate s.clmo p var d)); return s
      | _, _, _ => bad
  | ["poisson", dp, dq, sg], [p, q] =>
      match dp.toNat?, dq.toNat?, parseBlock? p, parseBlock? q with
      | some dp, some dq, some p, some q =>
          IO.println ("poisson " ++ showBlock (polyPoisson s.clmo (parseSigma sg) p dp q dq)); return s
      | _, _, _, _ => bad
  | ["eval", d], [p, pt] =>
      match d.toNat?, parseBlock? p, parseVec? pt with
      | some d, some p, some pt => IO.println ("eval " ++ showGQ (polyEvaluate s.clmo p d pt)); return s
      | _, _, _ => bad
  | ["gvar", idx, md], [] =>
      match idx.toNat?, md.toNat? with
      | some idx, some md => IO.println ("gvar " ++ showG (polynomialVariable (K := GQ) s.clmo idx md)); return s
      | _, _ => bad
  | ["gadd", re, im, md], [p, q] =>
      match parseGQ? re im, md.toNat?, parseG? p, parseG? q with
      | some a, some md, some p, some q => IO.println ("gadd " ++ showG (polynomialAddInplace p q a md)); return s
      | _, _, _, _ => bad
  | ["gmul", md, sg], [p, q] =>
      match md.toNat?, parseG? p, parseG? q with
      | some md, some p, some q => IO.println ("gmul " ++ showG (polynomialMultiply s.clmo (parseSigma sg) p q md)); return s
      | _, _, _ => bad
  | ["gpow", k, md, sg], [p] =>
      match k.toNat?, md.toNat?, parseG? p with
      | some k, some md, some p => IO.println ("gpow " ++ showG (polynomialPower s.clmo (parseSigma sg) p k md)); return s
      | _, _, _ => bad
  | ["gpoisson", md, sg], [p, q] =>
      match md.toNat?, parseG? p, parseG? q with
      | some md, some p, some q =>
          IO.println ("gpoisson " ++ showG (polynomialPoissonBracket s.clmo (parseSigma sg) p q md)); return s
      | _, _, _ => bad
  | ["gdiff", var, md, sg], [p] =>
      match var.toNat?, md.toNat?, parseG? p with
      | some var, some md, some p =>
          IO.println ("gdiff " ++ showG (polynomialDifferentiate s.clmo (parseSigma sg) p var md)); return s
      | _, _, _ => bad
  | ["ginteg", var, md], [p] =>
      match var.toNat?, md.toNat?, parseG? p with
      | some var, some md, some p => IO.println ("ginteg " ++ showG (polynomialIntegrate s.clmo p var md)); return s
      | _, _, _ => bad
  | ["geval"], [p, pt] =>
      match parseG? p, parseVec? pt with
      | some p, some pt => IO.println ("geval " ++ showGQ (polynomialEvaluate s.clmo p pt)); return s
      | _, _ => bad
  | ["gjac", md, sg], [p] =>
      match md.toNat?, parseG? p with
      | some md, some p =>
          IO.println ("gjac " ++ " @ ".intercalate ((polynomialJacobian s.clmo (parseSigma sg) p md).map showG)); return s
      | _, _ => bad
  | ["gdeg"], [p] =>
      match parseG? p with
      | some p => IO.println s!"gdeg {polynomialDegree p} {polynomialTotalDegree 30 p}"; return s
      | _ => bad
  | ["sublin", md, sg], [p, C] =>
      match md.toNat?, parseG? p, parseMat? C with
      | some md, some p, some C =>
          IO.println ("sublin " ++ showG (substituteLinear s.clmo (parseSigma sg) small0 p C md)); return s
      | _, _, _ => bad
  | ["subaff", md, sg], [p, C, sh] =>
      match md.toNat?, parseG? p, parseMat? C, parseVec? sh with
      | some md, some p, some C, some sh =>
          IO.println ("subaff " ++ showG (substituteAffine s.clmo (parseSigma sg) small0 p C sh md)); return s
      | _, _, _, _ => bad
  | _, _ => bad

end D06

def main : IO Unit := do
  let _ ← forLines (← IO.getStdin) D06.Sess {} D06.handle
  return ()
