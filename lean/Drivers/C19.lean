/- Drivers/C19.lean — line-protocol driver of the connections model over exact rationals
   (see harness/props/c19.py).  The closest-point routine plugged into the pipeline is the one *generated from the
   current source* (`Gen.C19.closestGen`); `closestCore` is printed next to it by the `closest` operation. -/
import HitenModel.Core.C19
import HitenModel.Gen.C19
open HitenModel.C19

namespace D19

def parseInt? (s : String) : Option Int :=
  if s.startsWith "-" then (s.drop 1).toNat?.map fun n => -(Int.ofNat n) else s.toNat?.map Int.ofNat

def parseRat? (s : String) : Option Rat :=
  match s.splitOn "/" with
  | [n] => (parseInt? n).map fun i => (i : Rat)
  | [n, d] => do
      let i ← parseInt? n
      let k ← d.toNat?
      if k = 0 then none else some ((i : Rat) / (k : Rat))
  | _ => none

def showRat (r : Rat) : String := if r.den = 1 then toString r.num else s!"{r.num}/{r.den}"
def showRats (v : List Rat) : String := " ".intercalate (v.map showRat)
def words (line : String) : List String := (line.splitOn " ").filter (· ≠ "")

def toPts : List Rat → List (Pt Rat)
  | x :: y :: t => (x, y) :: toPts t
  | _ => []

def chunk6 : List Rat → List (List Rat)
  | a :: b :: c :: d :: e :: f :: t => [a, b, c, d, e, f] :: chunk6 t
  | _ => []

def toPairs : List Nat → List (Nat × Nat)
  | i :: j :: t => (i, j) :: toPairs t
  | _ => []

structure Sess where
  inp : Input Rat := { pu := [], ps := [], Xu := [], Xs := [], tu := none, ts := none, eps := 0, dvTol := 0, balTol := 0 }
  maxLen : Rat := 1000000000

def cl : ClosestFn Rat := HitenModel.Gen.C19.closestGen

def showOptPair (o : Option (Nat × Nat)) : String :=
  match o with
  | none => "none"
  | some (i, j) => s!"{i},{j}"

def showOptNat (o : Option Nat) : String :=
  match o with
  | none => "-1"
  | some i => toString i

def showConn (c : Conn Rat) : String :=
  let seg := match c.seg with
    | none => "none"
    | some (u1, s1, s, t) => s!"{u1} {s1} {showRat s} {showRat t}"
  s!"conn {if c.ballistic then 1 else 0} {showRat c.dv2} {showRat c.point.1} {showRat c.point.2} {c.iu} {c.is} {c.tu} {c.ts} | {showRats c.stateU} | {showRats c.stateS} | {seg}"

def showRefined (r : Refined Rat) : String :=
  s!"{showRat r.point.1} {showRat r.point.2} {r.u0} {r.u1} {r.s0} {r.s1} {showRat r.s} {showRat r.t} {if r.valid then 1 else 0}"

def show6 (r : Rat × Rat × Rat × Rat × Rat × Rat) : String :=
  showRats [r.1, r.2.1, r.2.2.1, r.2.2.2.1, r.2.2.2.2.1, r.2.2.2.2.2]

def rats (ws : List String) : Option (List Rat) := ws.mapM parseRat?
def nats (ws : List String) : Option (List Nat) := ws.mapM String.toNat?

def handle (s : Sess) (line : String) : IO Sess := do
  match words line with
  | "pu" :: ws => match rats ws with
      | some v => return { s with inp := { s.inp with pu := toPts v } }
      | none => IO.println "bad-op"; return s
  | "ps" :: ws => match rats ws with
      | some v => return { s with inp := { s.inp with ps := toPts v } }
      | none => IO.println "bad-op"; return s
  | "xu" :: ws => match rats ws with
      | some v => return { s with inp := { s.inp with Xu := chunk6 v } }
      | none => IO.println "bad-op"; return s
  | "xs" :: ws => match rats ws with
      | some v => return { s with inp := { s.inp with Xs := chunk6 v } }
      | none => IO.println "bad-op"; return s
  | ["tu", "none"] => return { s with inp := { s.inp with tu := none } }
  | "tu" :: ws => match nats ws with
      | some v => return { s with inp := { s.inp with tu := some v } }
      | none => IO.println "bad-op"; return s
  | ["ts", "none"] => return { s with inp := { s.inp with ts := none } }
  | "ts" :: ws => match nats ws with
      | some v => return { s with inp := { s.inp with ts := some v } }
      | none => IO.println "bad-op"; return s
  | ["par", e, dv, bal, ml] =>
      match parseRat? e, parseRat? dv, parseRat? bal, parseRat? ml with
      | some a, some b, some c, some d => return { inp := { s.inp with eps := a, dvTol := b, balTol := c }, maxLen := d }
      | _, _, _, _ => IO.println "bad-op"; return s
  | ["run"] =>
      let rs := run cl s.maxLen s.inp
      IO.println s!"n {rs.length} considered {(pairsArr s.inp).length}"
      for c in rs do IO.println (showConn c)
      return s
  | ["radpair"] =>
      let r2 := s.inp.eps * s.inp.eps
      let counts := pairCounts r2 s.inp.pu s.inp.ps
      IO.println ("counts " ++ " ".intercalate (counts.map toString))
      IO.println ("offs " ++ " ".intercalate ((exclPrefix counts).map toString))
      IO.println ("pairs " ++ " ".intercalate ((radpair s.inp.pu s.inp.ps s.inp.eps).map showOptPair))
      return s
  | ["mutual"] =>
      IO.println ("mutual " ++ " ".intercalate ((mutualPairs s.inp.pu s.inp.ps (pairsArr s.inp)).map fun p => s!"{p.1},{p.2}"))
      return s
  | ["nn", "u"] => IO.println ("nn " ++ " ".intercalate ((nnAll s.inp.pu).map showOptNat)); return s
  | ["nn", "s"] => IO.println ("nn " ++ " ".intercalate ((nnAll s.inp.ps).map showOptNat)); return s
  | "refine" :: ws => match nats ws with
      | some v =>
          let nnu := nnAll s.inp.pu
          let nns := nnAll s.inp.ps
          let rs := (toPairs v).map (refineOne cl s.maxLen s.inp.pu s.inp.ps nnu nns)
          IO.println ("refine " ++ " ; ".intercalate (rs.map showRefined))
          return s
      | none => IO.println "bad-op"; return s
  | "closest" :: ws => match rats ws with
      | some [a, b, c, d, e, f, g, h] =>
          IO.println s!"closest {show6 (cl a b c d e f g h)} | {show6 (closestCore a b c d e f g h)}"
          return s
      | _ => IO.println "bad-op"; return s
  | [] => return s
  | _ => IO.println "bad-op"; return s

partial def loop (h : IO.FS.Stream) (s : Sess) : IO Unit := do
  let line ← h.getLine
  if line.isEmpty then return ()
  let s' ← handle s ((line.replace "\n" "").replace "\r" "")
  loop h s'

end D19

def main : IO Unit := do
  D19.loop (← IO.getStdin) {}
