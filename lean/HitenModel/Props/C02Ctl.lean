/-
  Props/C02Ctl.lean — property C02, step-size controller facts (model `Core/C02Ctl.lean`, tied to `integrators/utils.py` by the
  exact correspondence in harness/props/c02.py): for EVERY value the floating-point power may produce (NaN included).
-/
import HitenModel.Core.C02Ctl
import Mathlib.Tactic.Linarith
import Mathlib.Algebra.Order.Field.Rat
import Mathlib.Data.Rat.Defs
import Mathlib.Tactic.SplitIfs

namespace HitenModel.Props.C02Ctl
open HitenModel.C02Ctl

theorem clampF_bounds (c : Ctl) (h : c.minF ≤ c.maxF) (f : Rat) : c.minF ≤ clampF c f ∧ clampF c f ≤ c.maxF := by
  simp only [clampF, atMost, atLeast]
  constructor <;> split_ifs <;> linarith

/-- **factors_bounded**: both controller factors lie in `[MIN_FACTOR, MAX_FACTOR]` for every error norm, including zero, negative
and NaN powers — the step can never collapse to 0, blow up, or become NaN through the controller -/
theorem factors_bounded (c : Ctl) (h : c.minF ≤ c.maxF) (z : Bool) (p : Pw) :
    (c.minF ≤ acceptFactor c z p ∧ acceptFactor c z p ≤ c.maxF) ∧ (c.minF ≤ rejectFactor c z p ∧ rejectFactor c z p ≤ c.maxF) := by
  constructor
  · unfold acceptFactor; split
    · exact clampF_bounds c h _
    · cases p <;> exact clampF_bounds c h _
  · unfold rejectFactor; split
    · exact clampF_bounds c h _
    · cases p <;> exact clampF_bounds c h _

/-- **reject_shrinks**: after a rejected step (`err_norm > 1`, so the power `err^(−1/p)` lies in `[0,1]`) the factor is at most
`max(SAFETY, MIN_FACTOR) < 1`: the step strictly shrinks, so only finitely many rejections can occur before `min_step` -/
theorem reject_shrinks (c : Ctl) (hs : c.safety < 1) (hs0 : 0 ≤ c.safety) (hm : c.minF < 1) (hM : c.minF ≤ c.maxF)
    (u : Rat) (hu0 : 0 ≤ u) (hu1 : u ≤ 1) : rejectFactor c false (.val u) < 1 := by
  have hsu : c.safety * u ≤ c.safety := by nlinarith
  simp only [rejectFactor, Bool.false_eq_true, if_false, clampF, atMost, atLeast]
  split_ifs <;> linarith

/-- a NaN or non-positive error never enlarges the step on rejection, and a NaN on acceptance gives the maximal growth -/
theorem nan_paths (c : Ctl) (h : c.minF ≤ c.maxF) :
    rejectFactor c false .nan = c.minF ∧ rejectFactor c true .nan = c.minF ∧ acceptFactor c false .nan = c.maxF ∧
    acceptFactor c true .nan = c.maxF := by
  simp only [rejectFactor, acceptFactor, clampF, atMost, atLeast, if_true, Bool.false_eq_true, if_false]
  refine ⟨?_, ?_, ?_, ?_⟩ <;> split_ifs <;> linarith

/-- **step_in_bounds**: `_clamp_step` returns a value in `[min_step, max_step]` whenever `min_step ≤ max_step` -/
theorem step_in_bounds (h maxS minS : Rat) (hmM : minS ≤ maxS) : minS ≤ clampStep h maxS minS ∧ clampStep h maxS minS ≤ maxS := by
  simp only [clampStep, atMost, atLeast]
  constructor <;> split_ifs <;> linarith

/-- **never_overshoots / lands_exactly**: with `t ≤ t_end` and `h > 0`, the adjusted step satisfies `t + h' ≤ t_end`, and when the
raw step would pass the end the adjusted one lands on it exactly -/
theorem never_overshoots (t h tEnd : Rat) (ht : t ≤ tEnd) :
    t + adjustToEndpoint t h tEnd ≤ tEnd ∧ (t + h > tEnd → t + adjustToEndpoint t h tEnd = tEnd) := by
  unfold adjustToEndpoint
  constructor
  · split
    · split <;> linarith
    · linarith
  · intro hgt
    rw [if_pos hgt]
    split <;> linarith

/-- the initial step is within the configured bounds as well -/
theorem initial_step_in_bounds (small : Bool) (tiny q minS maxS : Rat) (hmM : minS ≤ maxS) :
    minS ≤ selectInitialStep small tiny q minS maxS ∧ selectInitialStep small tiny q minS maxS ≤ maxS := by
  simp only [selectInitialStep, atMost, atLeast]
  constructor <;> split_ifs <;> linarith

/-- non-vacuity with the shipped constants -/
example : let c : Ctl := { safety := 9/10, minF := 1/5, maxF := 10 }
    c.minF ≤ c.maxF ∧ c.safety < 1 ∧ acceptFactor c false (.val 3) = 27/10 ∧ rejectFactor c false (.val (1/2)) = 9/20 := by
  decide +kernel

end HitenModel.Props.C02Ctl
