/-
  Core/C17.lean — executable model of the polynomial-Hamiltonian right-hand side of hiten
  (`dynamics/hamiltonian.py:_hamiltonian_rhs`, `integrators/symplectic.py:_eval_dH_dQ/_eval_dH_dP/
  _construct_6d_eval_point/_eval_hamiltonian_derivative`, `polynomial/operations.py:_polynomial_jacobian,
  _polynomial_evaluate` with `algebra.py:_poly_diff/_poly_evaluate` and the packed layout of `base.py:_init_index_tables`),
  and of deterministic *oracle programs* (a driver that only sees the vector field through its values).

  No Mathlib.  Polynomials are lists of monomials `(coefficient, exponent list)` over any type with `+ * - 0 1` and a
  cast from `Nat`; the same definitions are run over `Rat` by `Drivers/C17.lean` and reasoned about over an arbitrary
  commutative ring in `Props/C17.lean`.  The *wiring* (which Jacobian entry feeds which output component with which
  sign, which coordinate of the evaluation point is read from where) is a parameter: `Gen/C17.lean` supplies the one
  traced from the current source.
-/
namespace HitenModel.C17

universe u

/-! ## polynomials as monomial lists -/

structure Mono (R : Type u) where
  c : R
  e : List Nat
deriving Repr

abbrev Poly (R : Type u) := List (Mono R)

section Model
variable {R : Type u} [Add R] [Mul R] [Neg R] [OfNat R 0] [OfNat R 1] [NatCast R]

/-- repeated multiplication exactly as `_poly_evaluate`'s `pow_table[v, e] = pow_table[v, e-1] * base` -/
def pw (x : R) : Nat → R
  | 0 => 1
  | n + 1 => pw x n * x

/-- `∏_j z_{j0+j} ^ e_j` for the exponent list `e` whose first entry belongs to variable `j0` -/
def monoVal (z : Nat → R) : Nat → List Nat → R
  | _, [] => 1
  | j, k :: ks => pw (z j) k * monoVal z (j + 1) ks

def Mono.eval (z : Nat → R) (m : Mono R) : R := m.c * monoVal z 0 m.e

/-- `_polynomial_evaluate` -/
def Poly.eval (z : Nat → R) : Poly R → R
  | [] => 0
  | m :: p => m.eval z + Poly.eval z p

/-- decrement the exponent at position `i`; `none` when it is `0` (the `if exp == 0: continue` of `_poly_diff`)
    or when the position does not exist; returns the old exponent too -/
def decAt : Nat → List Nat → Option (Nat × List Nat)
  | _, [] => none
  | 0, k :: ks => if k = 0 then none else some (k, (k - 1) :: ks)
  | i + 1, k :: ks => (decAt i ks).map fun r => (r.1, k :: r.2)

/-- one term of `_poly_diff`: `scratch[idx(k - e_i)] += coeff * exp` -/
def Mono.diff (i : Nat) (m : Mono R) : Option (Mono R) :=
  (decAt i m.e).map fun r => ⟨m.c * (r.1 : R), r.2⟩

/-- `_polynomial_differentiate` -/
def Poly.diff (i : Nat) (p : Poly R) : Poly R := p.filterMap (Mono.diff i)

/-- `_polynomial_jacobian`: the list of all partial derivatives -/
def jacobian (nvars : Nat) (p : Poly R) : List (Poly R) := (List.range nvars).map fun i => Poly.diff i p

/-! ## the right-hand side and the separate gradient evaluators, parameterised by the traced wiring -/

/-- a wiring row `(negated?, jacobian index)` -/
abbrev Wire := Bool × Nat

def applySign (neg : Bool) (v : R) : R := if neg then -v else v

/-- `_hamiltonian_rhs` (also `_eval_hamiltonian_derivative`): output component `r` is
    `± evaluate(jac[idx_r], point)` where coordinate `j` of `point` is read from state coordinate `src_j`. -/
def rhsBy (wiring : List Wire) (src : List Nat) (jac : List (Poly R)) (z : Nat → R) : List R :=
  wiring.map fun w => applySign w.1 ((jac.getD w.2 []).eval fun j => z (src.getD j j))

/-- `_construct_6d_eval_point`: coordinate `j` of the evaluation point is entry `i` of block `b` (0 = Q, 1 = P) -/
def pointBy (wiring : List (Nat × Nat)) (Q P : List R) (j : Nat) : R :=
  match wiring[j]? with
  | some (0, i) => Q.getD i 0
  | some (_, i) => P.getD i 0
  | none => 0

/-- `_eval_dH_dQ` / `_eval_dH_dP`: entries `idx` of the Jacobian evaluated at the constructed point -/
def gradBy (idx : List Nat) (point : List (Nat × Nat)) (jac : List (Poly R)) (Q P : List R) : List R :=
  idx.map fun j => (jac.getD j []).eval (pointBy point Q P)

/-- `_eval_hamiltonian_derivative` (used by the symplectic event path): signed Jacobian entries at the constructed point -/
def hderBy (wiring : List Wire) (point : List (Nat × Nat)) (jac : List (Poly R)) (Q P : List R) : List R :=
  wiring.map fun w => applySign w.1 ((jac.getD w.2 []).eval (pointBy point Q P))

end Model

/-! ## the packed layout: `_init_index_tables` enumerates the exponent vectors of each degree in this order -/

/-- all exponent lists of length `n` and total degree `d`, first exponent descending (the nested `range(d, -1, -1)`
    loops of `_init_index_tables`; the position in this list is the index into the coefficient block of degree `d`) -/
def enumExps : Nat → Nat → List (List Nat)
  | 0, d => if d = 0 then [[]] else []
  | n + 1, d => ((List.range (d + 1)).reverse).flatMap fun k => (enumExps n (d - k)).map (k :: ·)

/-- unpack graded coefficient blocks (block `d` = coefficients of degree `d` in `enumExps` order) into a monomial list,
    dropping zero coefficients -/
def unpack {R : Type u} [BEq R] [OfNat R 0] (nvars : Nat) (blocks : List (List R)) : Poly R :=
  (blocks.zipIdx).flatMap fun (blk, d) =>
    ((enumExps nvars d).zip blk).filterMap fun (e, c) => if c == 0 then none else some ⟨c, e⟩

/-! ## canonical form of a traced value: a polynomial normal form over named atoms (step sizes, state entries,
    recorded answers of the vector field / event function); exact rational coefficients -/

/-- one term: monomial as `(atom id, exponent)` pairs, numerator, denominator -/
abbrev NFTerm := List (Nat × Nat) × Int × Nat
abbrev NF := List NFTerm
/-- a trace: every vector-field query (its arguments) in call order, then the outputs, all as normal forms -/
abbrev Trace := List NF
/-- typed constructors (keep the elaboration of the generated literals cheap) -/
@[reducible] def NF.a (v e : Nat) : Nat × Nat := (v, e)
@[reducible] def NF.t (m : List (Nat × Nat)) (n : Int) (d : Nat) : NFTerm := (m, n, d)

/-! ## oracle programs: a deterministic driver sees the vector field only through its values -/

/-- a program that may query an oracle `S → A` finitely often before returning an `O` -/
inductive Prog (S A O : Type u) where
  | ret : O → Prog S A O
  | ask : S → (A → Prog S A O) → Prog S A O

namespace Prog
variable {S A O : Type u}

def run (f : S → A) : Prog S A O → O
  | ret o => o
  | ask q k => run f (k (f q))

/-- the list of (query, answer) pairs of a run -/
def transcript (f : S → A) : Prog S A O → List (S × A)
  | ret _ => []
  | ask q k => (q, f q) :: transcript f (k (f q))

/-- sequential composition -/
def bind {O' : Type u} : Prog S A O → (O → Prog S A O') → Prog S A O'
  | ret o, g => g o
  | ask q k, g => ask q fun a => bind (k a) g

end Prog

/-- explicit Runge–Kutta stage loop as an oracle program over vectors `List R`: the shape shared by
    `rk_embedded_step_jit_kernel` and `rk_embedded_step_ham_jit_kernel` (rows of `A`, weights `B`) -/
def axpy {R : Type u} [Add R] [Mul R] (a : R) (x y : List R) : List R := List.zipWith (fun xi yi => yi + a * xi) x y

def stageArg {R : Type u} [Add R] [Mul R] (h : R) (y : List R) : List R → List (List R) → List R
  | a :: as, k :: ks => stageArg h (axpy (h * a) k y) as ks
  | _, _ => y

/-- stages computed so far are kept in evaluation order -/
def rkStages {R : Type u} [Add R] [Mul R] (h : R) (y : List R) :
    List (List R) → List (List R) → Prog (List R) (List R) (List (List R))
  | [], ks => .ret ks
  | row :: rows, ks => .ask (stageArg h y row ks) fun k => rkStages h y rows (ks ++ [k])

def rkStep {R : Type u} [Add R] [Mul R] (A : List (List R)) (B : List R) (h : R) (y : List R) :
    Prog (List R) (List R) (List R) :=
  (rkStages h y A []).bind fun ks => .ret (stageArg h y B ks)

/-- fixed-grid driver `_integrate_fixed_rk(_ham)`: states and derivatives at every node -/
def fixedDriver {R : Type u} [Add R] [Mul R] (A : List (List R)) (B : List R) :
    List R → List R → Prog (List R) (List R) (List (List R × List R))
  | [], y => .ask y fun d => .ret [(y, d)]
  | h :: hs, y => .ask y fun d => (rkStep A B h y).bind fun y' =>
      (fixedDriver A B hs y').bind fun rest => .ret ((y, d) :: rest)

end HitenModel.C17
