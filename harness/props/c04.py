"""C04 — libration points are equilibria with correct linear dynamics for every mu.

T-trace of the collinear service formulas (`_dOmega_dx`, the three quintics, `_compute_cn`, `_J_hess_H2`, `_compute_scale_factor`,
`_build_normal_form`) and T-table of the body catalogue with the live search brackets -> Gen/C04.lean.  Props/C04.lean: a root of dOmega/dx
is an equilibrium of the traced CR3BP field (Gen/C01), the quintics are dOmega/dx up to a positive factor (so gamma agrees with the
position), c2 is the curvature of the potential, the planar block of `_J_hess_H2` has the characteristic polynomial whose roots are the
reported exponent/frequency, the normal-form matrix is symplectic and diagonalises H2 (polynomial certificates), every catalogue pair's
brackets contain a sign change (decide).  Numerics: all catalogue pairs and log-uniform mu down to 1e-9."""
from __future__ import annotations

import math
import types
from fractions import Fraction

import numpy as np

import lean_emit as E
import tracer as T


class _ShimInv(T.ShimNP):
    class _LA:
        @staticmethod
        def inv(M):
            # a diagonal matrix is inverted entry by entry (the triangular builder divides the eigenvector columns by the scale factors
            # this way); the inverse of a full matrix (`Cinv = inv(C)`) stays opaque — the model has its own inverse
            n = len(M)
            ent = [[T.Sym.lift(M[i][j]) for j in range(n)] for i in range(n)]
            if all(ent[i][j].is_const() and ent[i][j].val == 0 for i in range(n) for j in range(n) if i != j):
                out = T._obj_full((n, n), 0)
                for i in range(n):
                    out[i, i] = T.Sym.const(1) / ent[i][i]
                return out
            return M

        @staticmethod
        def norm(v):
            raise NotImplementedError

    linalg = _LA()


TR = {}


def rat(q):
    q = Fraction(q)
    return "(%d, %d)" % (q.numerator, q.denominator)


def gen(ctx):
    from hiten.algorithms.types.services import libration as lib
    txt = E.header("C04", imports=("HitenModel.Core.RE",), note="traced from types/services/libration.py; catalogue from utils/constants.py")
    txt += "open RE\n"
    classes = {1: lib._L1DynamicsService, 2: lib._L2DynamicsService, 3: lib._L3DynamicsService}
    # ---- dOmega/dx (variables: 0 = x, 1 = mu) --------------------------------------------------------------
    try:
        T.reset()
        x, mu = T.Sym.var("x", 0.83), T.Sym.var("mu", 0.0121505856)
        T.Sym.ABS_AS_SQRT = True        # |dx| is traced as sqrt(dx^2): the same term whether the code writes r_sq**1.5 or r_sq*abs(dx)
        try:
            d = T.retarget(lib._CollinearDynamicsService._dOmega_dx)(T.Proxy(lib._CollinearDynamicsService, dict(mu=mu)), x)
        finally:
            T.Sym.ABS_AS_SQRT = False
        named, defs = T.canonical_sqrt_names([d], "dq")
        for name, rep in defs:
            txt += E.re_def(name, rep, {"x": 0, "mu": 1})
        txt += "def dOmegaSqrtArgs : List RE := [%s]\n" % ", ".join(n for n, _ in defs)
        txt += E.re_def("dOmega", d, {"x": 0, "mu": 1}, named)
        TR["dOmega"] = d
    except Exception as ex:
        ctx.broken.append(("trace:dOmega", repr(ex)))
        ctx.obligations["trace:dOmega"] = False
    # ---- quintics: coefficient lists as polynomials in mu (variable 0 = mu), highest power first ---------
    for k, cls in classes.items():
        try:
            T.reset()
            mu = T.Sym.var("mu", 0.0121505856)
            coeffs, rng = T.retarget(cls._gamma_poly_def.fget)(T.Proxy(cls, dict(mu=mu)))
            txt += E.re_fun("quintic%d" % k, [T.Sym.lift(c) for c in coeffs], {"mu": 0})
            txt += "def quintic%d_range : (Int × Nat) × (Int × Nat) := (%s, %s)\n" % (k, rat(Fraction(rng[0])), rat(Fraction(rng[1])))
            # cn(n) for n = 2,3,4 (variables: 0 = gamma, 1 = mu)
            for n in (2, 3, 4):
                T.reset()
                g, mu2 = T.Sym.var("gamma", 0.15), T.Sym.var("mu", 0.0121505856)
                c = T.retarget(cls._compute_cn)(T.Proxy(cls, dict(mu=mu2, gamma=g)), n)
                txt += E.re_def("cn%d_%d" % (k, n), c, {"gamma": 0, "mu": 1})
                TR["cn%d_%d" % (k, n)] = c
            # sign, a, position of the secondary-side reference (won) as numbers / expressions
            T.reset()
            g, mu3 = T.Sym.var("gamma", 0.15), T.Sym.var("mu", 0.0121505856)
            fake = T.Proxy(cls, dict(mu=mu3, gamma=g))
            sgn = cls.sign.fget(fake)
            txt += "def sign%d : Int := %d\n" % (k, int(sgn))
            txt += E.re_def("a%d" % k, T.Sym.lift(T.retarget(cls.a.fget)(fake)), {"gamma": 0, "mu": 1})
        except Exception as ex:
            ctx.broken.append(("trace:collinear-L%d" % k, repr(ex)))
            ctx.obligations["trace:collinear-L%d" % k] = False
    # ---- J*Hess(H2), scale factors, normal form (variables: 0 lambda1, 1 omega1, 2 omega2, 3 c2, 4 s1, 5 s2) -------
    nfvars = {"lam": 0, "om1": 1, "om2": 2, "c2": 3, "s1": 4, "s2": 5}
    try:
        T.reset()
        c2 = T.Sym.var("c2", 5.1)
        J = T.retarget(lib._CollinearDynamicsService._J_hess_H2, shim=_ShimInv())(T.Proxy(lib._CollinearDynamicsService, dict(cn=lambda n: c2 if n == 2 else None), shim=_ShimInv()))
        txt += E.re_fun("jhess", [T.Sym.lift(J[i, j]) for i in range(6) for j in range(6)], nfvars)
        T.reset()
        lam, om1, c2 = T.Sym.var("lam", 2.9), T.Sym.var("om1", 2.3), T.Sym.var("c2", 5.1)
        e = T.retarget(lib._CollinearDynamicsService._compute_scale_factor)(T.Proxy(lib._CollinearDynamicsService, dict(cn=lambda n: c2)), lam, om1)
        s1, s2 = T.Sym.lift(e[0]), T.Sym.lift(e[1])
        if s1.op != "sqrt" or s2.op != "sqrt":
            raise ValueError("scale factors are not square roots")
        txt += E.re_def("s1sq", s1.args[0], nfvars) + E.re_def("s2sq", s2.args[0], nfvars)
        T.reset()
        lam, om1, om2, c2 = T.Sym.var("lam", 2.9), T.Sym.var("om1", 2.3), T.Sym.var("om2", 2.27), T.Sym.var("c2", 5.1)
        s1v, s2v = T.Sym.var("s1", 20.0), T.Sym.var("s2", 9.0)
        fake = T.Proxy(lib._CollinearDynamicsService, dict(linear_modes=(lam, om1, om2), cn=lambda n: c2, scale_factor=lambda a, b: (s1v, s2v)), shim=_ShimInv())
        C, Cinv = T.retarget(lib._CollinearDynamicsService._build_normal_form, shim=_ShimInv())(fake)
        ent = [T.Sym.lift(C[i, j]) for i in range(6) for j in range(6)]
        named, defs = T.canonical_sqrt_names(ent, "wq")
        for name, rep in defs:
            txt += E.re_def(name, rep, nfvars)
        txt += "def nfSqrtArgs : List RE := [%s]\n" % ", ".join(n for n, _ in defs)
        txt += E.re_fun("nfC", ent, nfvars, named)
        TR["nfC"] = ent
        TR["s1sq"], TR["s2sq"] = s1.args[0], s2.args[0]
        ctx.extra["nf_path_conditions"] = [(op, T.show(a, 60), T.show(b, 30), o) for op, a, b, o in T.CTX.path][:6]
    except Exception as ex:
        ctx.broken.append(("trace:normal-form", repr(ex)))
        ctx.obligations["trace:normal-form"] = False
    # ---- triangular points: J*Hess(H2), d_omega, scale factors, eigenvector matrix and normal form
    #      (variables: 0 a, 1 omega1, 2 omega2, 3 omega_z, 4 s1, 5 s2, 6 s3; `a` itself as a function of mu, variable 0 = mu)
    trivars = {"a": 0, "w1": 1, "w2": 2, "wz": 3, "s1": 4, "s2": 5, "s3": 6}
    try:
        tcls = lib._TriangularDynamicsService
        T.reset()
        a = T.Sym.var("a", -1.2674)
        J = T.retarget(tcls._J_hess_H2, shim=_ShimInv())(T.Proxy(tcls, dict(a=a), shim=_ShimInv()))
        txt += E.re_fun("triJhess", [T.Sym.lift(J[i, j]) for i in range(6) for j in range(6)], trivars)
        T.reset()
        a, w1, w2, wz = T.Sym.var("a", -1.2674), T.Sym.var("w1", 0.9545), T.Sym.var("w2", -0.2982), T.Sym.var("wz", 1.0)
        fake = T.Proxy(tcls, dict(a=a, linear_modes=(w1, w2, wz)), shim=_ShimInv())
        sq = []
        for idx in (0, 1):
            e = T.Sym.lift(T.retarget(tcls._compute_scale_factor)(fake, idx))
            if e.op != "sqrt":
                raise ValueError("triangular scale factor %d is not a square root" % idx)
            sq.append(e.args[0])
            txt += E.re_def("triS%dsq" % (idx + 1), e.args[0], trivars)
        s3 = T.Sym.lift(T.retarget(tcls._compute_scale_factor)(fake, 2))
        if not s3.is_const():
            raise ValueError("vertical scale factor is not a constant")
        txt += "def triS3 : Int × Nat := %s\n" % rat(Fraction(float(s3.val)))
        if T.CTX.path:
            raise ValueError("triangular scale factors branch on their data")
        T.reset()
        a, w1, w2, wz = T.Sym.var("a", -1.2674), T.Sym.var("w1", 0.9545), T.Sym.var("w2", -0.2982), T.Sym.var("wz", 1.0)
        sv = [T.Sym.var("s1", 1.1), T.Sym.var("s2", 0.7), T.Sym.var("s3", 1.0)]
        fake = T.Proxy(tcls, dict(a=a, linear_modes=(w1, w2, wz), scale_factor=lambda i: sv[i]), shim=_ShimInv())
        Ct, _ = T.retarget(tcls._build_normal_form, shim=_ShimInv())(fake)
        tent = [T.Sym.lift(Ct[i, j]) for i in range(6) for j in range(6)]
        txt += E.re_fun("triC", tent, trivars)
        # the only data-dependent decision allowed: abs(omega_z) with omega_z > 0
        extra_paths = [(op, T.show(x, 40), T.show(y, 20), o) for op, x, y, o in T.CTX.path if T.show(x, 40) != "wz"]
        if extra_paths:
            raise ValueError("triangular normal form branches on its data: %r" % (extra_paths,))
        TR["triC"], TR["triS1sq"], TR["triS2sq"] = tent, sq[0], sq[1]
        for k, tc in ((4, lib._L4DynamicsService), (5, lib._L5DynamicsService)):
            T.reset()
            mu4 = T.Sym.var("mu", 0.0121505856)
            fk = T.Proxy(tc, dict(mu=mu4))
            txt += "def sign%d : Int := %d\n" % (k, int(tc.sign.fget(fk)))
            av = T.Sym.lift(T.retarget(tc.a.fget)(fk))
            named4, defs4 = T.canonical_sqrt_names([av], "tq%d_" % k)
            for name, rep in defs4:
                txt += E.re_def(name, rep, {"mu": 0})
            txt += E.re_def("a%d" % k, av, {"mu": 0}, named4)
            TR["a%d" % k] = av
    except Exception as ex:
        ctx.broken.append(("trace:triangular-normal-form", repr(ex)))
        ctx.obligations["trace:triangular-normal-form"] = False
    # ---- the search brackets as functions of mu (variables: 0 = mu, 1 = h with h^3 = mu/3), both branches of the min() -----
    try:
        for k, cls in classes.items():
            for tag, muv in (("small", 1e-10), ("large", 0.0121505856)):
                T.reset()
                mu = T.Sym.var("mu", muv)
                a, b = T.retarget(cls._position_search_interval.fget)(T.Proxy(cls, dict(mu=mu)))
                a, b = T.Sym.lift(a), T.Sym.lift(b)
                atoms = []

                def walk(x):
                    if isinstance(x, T.Sym):
                        if x.op == "cbrt" and x not in atoms:
                            atoms.append(x)
                        for y in x.args:
                            walk(y)
                walk(a)
                walk(b)
                for _op, _x, _y, _o in T.CTX.path:
                    walk(_x)
                    walk(_y)
                if len(atoms) > 1:
                    raise ValueError("more than one cube-root atom in a bracket")
                vi = {"mu": 0}
                for at in atoms:
                    vi[("cbrt", id(at))] = 1
                txt += "def bracket%d_%s : List RE := [%s, %s]\n" % (k, tag, E.re_term(a, vi), E.re_term(b, vi))
                if atoms:
                    txt += "def bracket%d_%s_cube : RE := %s   -- (var 1)^3 equals this\n" % (k, tag, E.re_term(atoms[0].args[0], vi))
                conds = [(op, E.re_term(x, vi), E.re_term(y, vi), o) for op, x, y, o in T.CTX.path]
                txt += "def bracket%d_%s_path : List (String × RE × RE × Bool) := [%s]\n" % (
                    k, tag, ", ".join('("%s", %s, %s, %s)' % (op, x, y, str(o).lower()) for op, x, y, o in conds))
    except Exception as ex:
        ctx.broken.append(("trace:brackets", repr(ex)))
        ctx.obligations["trace:brackets"] = False
    # ---- catalogue: every primary/secondary pair with its live brackets ------------------------------------
    try:
        rows = catalogue_rows()
        txt += "-- (pair, mu, L1 bracket a b, L2 bracket a b, L3 bracket a b) as exact rationals of the float64 values in use\n"
        txt += "def catalogue : List (String × (Int × Nat) × List ((Int × Nat) × (Int × Nat))) := [\n  %s]\n" % ",\n  ".join(
            '("%s", %s, [%s])' % (nm, rat(Fraction(mu)), ", ".join("(%s, %s)" % (rat(Fraction(a)), rat(Fraction(b))) for a, b in br)) for nm, mu, br in rows)
        ctx.extra["catalogue_pairs"] = len(rows)
    except Exception as ex:
        ctx.broken.append(("table:catalogue", repr(ex)))
        ctx.obligations["table:catalogue"] = False
    txt += E.footer("C04")
    ctx.write_gen("HitenModel.Gen.C04", txt)
    from props import c01
    c01.gen(ctx)


def catalogue_pairs():
    """(name, mu) for every primary/secondary pair of the built-in catalogue (orbital_distances keys)."""
    from hiten.utils.constants import Constants
    out = []
    for prim, secs in Constants.orbital_distances.items():
        for sec in secs:
            m1 = Constants.get_mass(prim)
            m2 = Constants.get_mass(sec)
            out.append(("%s-%s" % (prim, sec), m2 / (m1 + m2)))
    return out


def catalogue_rows():
    from hiten.algorithms.types.services import libration as lib
    classes = {1: lib._L1DynamicsService, 2: lib._L2DynamicsService, 3: lib._L3DynamicsService}
    rows = []
    for nm, mu in catalogue_pairs():
        br = []
        for k, cls in classes.items():
            a, b = cls._position_search_interval.fget(types.SimpleNamespace(mu=float(mu)))
            br.append((float(a), float(b)))
        rows.append((nm, float(mu), br))
    return rows


def run(ctx):
    ctx.guard("regenerate", gen, ctx)
    ok = ctx.lean_build(["HitenModel.Props.C04"])
    if ok:
        ctx.lean_audit(["HitenModel.Props.C04"], ["HitenModel.Props.C04", "HitenModel.Gen.C04", "HitenModel.Lemmas.C04Tri"])
        if ctx.thorough():
            ctx.leanchecker(["HitenModel.Props.C04"])
    ctx.guard("validate_traces", validate_traces, ctx)
    numerics(ctx)
    ctx.rule = ("every catalogue pair + log-uniform mu in [1e-9, 0.5] x points L1..L5; distinct by (mu, point); non-trivial = every case "
                "(position, equilibrium residual, gamma, linear modes vs finite-difference Jacobian, normal-form residuals)")


def numerics(ctx):
    from hiten import System
    from hiten.algorithms.dynamics import rtbp
    rng = ctx.rng
    mus = [(nm, mu) for nm, mu in catalogue_pairs()]
    n_rand = 80 if ctx.thorough() else 4
    mus += [("random", 10 ** rng.uniform(-9, math.log10(0.5))) for _ in range(n_rand)] + [("half", 0.5)]
    Jm = np.block([[np.zeros((3, 3)), np.eye(3)], [-np.eye(3), np.zeros((3, 3))]])
    for nm, mu in mus:
        try:
            sysm = System.from_mu(mu)
        except Exception as ex:
            ctx.violation("system-not-created", "System.from_mu(%r) failed: %r" % (mu, ex), {"pair": nm, "mu": mu})
            return
        for k in (1, 2, 3, 4, 5):
            key = (round(mu, 15), k)
            try:
                L = sysm.get_libration_point(k)
                pos = np.asarray(L.position, dtype=float)
            except Exception as ex:
                ctx.violation("point-not-returned:L%d" % k, "libration point L%d is not returned for mu=%r (%s): %r" % (k, mu, nm, ex)[:300],
                              {"pair": nm, "mu": mu, "point": k, "error": repr(ex)[:300]})
                return
            ctx.case(key, nontrivial=True, kind="L%d" % k, sample={"pair": nm, "mu": mu, "point": k, "position": pos.tolist()} if nm in ("earth-moon", "mars-deimos") and k <= 2 else None)
            st = np.concatenate([pos, np.zeros(3)])
            acc = rtbp._crtbp_accel(st, mu)
            # scale: the terms of the acceleration near the secondary are O(mu/gamma^2) ~ O(mu^(1/3)); root tolerance 1e-12 in x
            # times the curvature (<= 9 + ...) gives residuals ~1e-10 at worst
            if not np.abs(acc).max() <= 1e-8:
                ctx.violation("not-equilibrium:L%d" % k, "L%d of mu=%r is not an equilibrium: |acceleration| = %g" % (k, mu, np.abs(acc).max()),
                              {"pair": nm, "mu": mu, "point": k, "position": pos.tolist(), "acceleration": acc.tolist()})
                return
            if k <= 3:
                gamma = float(L.dynamics.gamma) if hasattr(L, "dynamics") else float(L.gamma)
                ref = {1: 1 - mu - pos[0], 2: pos[0] - (1 - mu), 3: -mu - pos[0]}[k]
                if not abs(gamma - ref) <= 1e-8 * max(1.0, abs(ref)) + 1e-9 * abs(ref) / max(abs(ref), 1e-300) * 0 + 1e-10:
                    ctx.violation("gamma-vs-position:L%d" % k, "distance ratio gamma=%r of L%d disagrees with its position (%r)" % (gamma, k, ref),
                                  {"pair": nm, "mu": mu, "point": k, "gamma": gamma, "from_position": ref})
                    return
            # beyond Routh's critical mass ratio the triangular points have complex exponents: the service documents three
            # frequencies only for the linearly stable case and raises otherwise (not a violation of the property)
            if k >= 4 and mu >= 0.0385:
                continue
            # linear modes vs eigenvalues of the Jacobian of the field at the point
            F = rtbp._jacobian_crtbp(pos[0], pos[1], pos[2], mu)
            ev = np.linalg.eigvals(F)
            try:
                modes = L.linear_modes
            except Exception as ex:
                ctx.violation("linear-modes-missing:L%d" % k, "linear_modes raises for L%d, mu=%r: %r" % (k, mu, ex), {"pair": nm, "mu": mu, "point": k})
                return
            if k >= 4:
                # triangular: (omega1, omega2, omega_z) magnitudes are the three frequencies of the linearised equations
                want = sorted(abs(float(m)) for m in modes)
                got = sorted(float(z.imag) for z in ev if z.imag > 0)
                if not (len(got) == 3 and np.allclose(want, got, rtol=1e-6, atol=1e-8)):
                    ctx.violation("linear-modes:L%d" % k, "triangular frequencies %r are not the eigenfrequencies %r of the linearised equations" % (want, got),
                                  {"pair": nm, "mu": mu, "point": k, "linear_modes": [float(m) for m in modes], "eigenvalues_of_jacobian": [complex(z).__repr__() for z in ev]})
                    return
            if k <= 3:
                gamma = abs({1: 1 - mu - pos[0], 2: pos[0] - (1 - mu), 3: -mu - pos[0]}[k])
                lam, om1, om2 = [float(m) for m in modes]
                # the service works in time-unscaled local coordinates: exponents are the same as the synodic ones
                want = sorted([lam, om1, om2])
                # the two centre pairs +-i*omega: positive imaginary parts of the eigenvalues with (numerically) zero real part -- NOT a
                # set: at L3 with tiny mu the planar and vertical frequencies agree to more than 9 digits
                got = sorted([float(np.max(ev.real))] + sorted(float(z.imag) for z in ev if abs(z.real) < 1e-6 * (1 + np.abs(ev).max()) and z.imag > 0)[-2:])
                if not np.allclose(want, got, rtol=1e-6, atol=1e-8):
                    ctx.violation("linear-modes:L%d" % k, "linear exponent/frequencies %r are not the eigenvalues %r of the linearised equations" % (want, got),
                                  {"pair": nm, "mu": mu, "point": k, "linear_modes": [lam, om1, om2], "eigenvalues_of_jacobian": [complex(z).__repr__() for z in ev]})
                    return
            # normal-form transform: symplectic, and diagonalises H2
            try:
                C, Cinv = L.normal_form_transform
            except Exception as ex:
                ctx.violation("normal-form-missing:L%d" % k, "normal_form_transform failed: %r" % (ex,), {"pair": nm, "mu": mu, "point": k})
                return
            C = np.asarray(C, dtype=float)
            res = float(np.abs(C.T @ Jm @ C - Jm).max())
            cond = float(np.abs(C).max() * np.abs(np.linalg.inv(C)).max())
            if not res <= 1e-9 * max(1.0, cond):
                ctx.violation("normal-form-not-symplectic:L%d" % k, "C^T J C - J = %g for L%d, mu=%r" % (res, k, mu),
                              {"pair": nm, "mu": mu, "point": k, "residual": res, "C": C.tolist()})
                return
            # the change of variables must bring the TRUE linearised canonical vector field at the point (Jacobian of the CR3BP field,
            # rotated by pi into the local frame and written with momenta p_x = v_x - y, p_y = v_y + x) to the normal form
            Rz = np.diag([-1.0, -1.0, 1.0])
            R6 = np.block([[Rz, np.zeros((3, 3))], [np.zeros((3, 3)), Rz]])
            Kp = np.array([[0.0, -1.0, 0.0], [1.0, 0.0, 0.0], [0.0, 0.0, 0.0]])
            Pm = np.block([[np.eye(3), np.zeros((3, 3))], [Kp, np.eye(3)]])
            JH = Pm @ R6 @ F @ R6 @ np.linalg.inv(Pm)
            Mnf = np.linalg.inv(C) @ JH @ C
            Mexp = np.zeros((6, 6))
            if k <= 3:
                lam_, om1_, om2_ = [float(m) for m in modes]
                Mexp[0, 0], Mexp[3, 3] = lam_, -lam_
                Mexp[1, 4], Mexp[4, 1] = om1_, -om1_
                Mexp[2, 5], Mexp[5, 2] = om2_, -om2_
            else:
                for i_, w_ in enumerate([float(m) for m in modes]):
                    Mexp[i_, i_ + 3], Mexp[i_ + 3, i_] = w_, -w_
            res3 = float(np.abs(Mnf - Mexp).max() / (1 + np.abs(Mexp).max()))
            if not res3 <= 1e-8 * max(1.0, cond):
                ctx.violation("normal-form-vs-linearisation:L%d" % k,
                              "C^-1 (linearised canonical field at the point) C is not the normal form of the reported modes (residual %g)" % res3,
                              {"pair": nm, "mu": mu, "point": k, "residual": res3, "modes": [float(m) for m in modes], "C": C.tolist()})
                return
            # the public bundle `point.linear_data` hands out the SAME modes, C and C^-1 (in that order)
            try:
                ld = L.linear_data
                ld_modes = [m for m in tuple(ld)[:4] if m is not None]
                ld_C, ld_Cinv = np.asarray(tuple(ld)[4], dtype=float), np.asarray(tuple(ld)[5], dtype=float)
            except Exception as ex:
                ctx.violation("linear-data-missing:L%d" % k, "linear_data raises for L%d, mu=%r: %r" % (k, mu, ex), {"pair": nm, "mu": mu, "point": k})
                return
            if not (np.array_equal(ld_C, C) and np.array_equal(ld_Cinv, np.asarray(Cinv, dtype=float))
                    and sorted(float(m) for m in ld_modes) == sorted(float(m) for m in modes)):
                ctx.violation("linear-data-inconsistent:L%d" % k,
                              "point.linear_data does not carry (modes, C, C^-1) of linear_modes / normal_form_transform (C equal: %s, C^-1 equal: %s)" % (
                                  bool(np.array_equal(ld_C, C)), bool(np.array_equal(ld_Cinv, np.asarray(Cinv, dtype=float)))),
                              {"pair": nm, "mu": mu, "point": k, "linear_data_C": ld_C.tolist(), "normal_form_transform_C": C.tolist(),
                               "linear_data_modes": [float(m) for m in ld_modes], "linear_modes": [float(m) for m in modes]})
                return
            if k <= 3:
                c2 = float(L.dynamics.cn(2))
                lam, om1, om2 = [float(m) for m in modes]
                S = np.zeros((6, 6))
                S[3, 3] = S[4, 4] = S[5, 5] = 1.0
                S[1, 3] = S[3, 1] = 1.0
                S[0, 4] = S[4, 0] = -1.0
                S[0, 0] = -2 * c2
                S[1, 1] = c2
                S[2, 2] = c2
                Tm = np.zeros((6, 6))
                Tm[0, 3] = Tm[3, 0] = lam
                Tm[1, 1] = Tm[4, 4] = om1
                Tm[2, 2] = Tm[5, 5] = om2
                res2 = float(np.abs(C.T @ S @ C - Tm).max() / (1 + np.abs(Tm).max()))
                if not res2 <= 1e-9 * max(1.0, cond):
                    ctx.violation("normal-form-not-diagonalising:L%d" % k, "H2 o C is not lambda q1 p1 + om1/2 (q2^2+p2^2) + om2/2 (q3^2+p3^2) (residual %g)" % res2,
                                  {"pair": nm, "mu": mu, "point": k, "residual": res2, "modes": [lam, om1, om2], "c2": c2})
                    return


def validate_traces(ctx):
    """translation validation: traced formulas evaluated in floats vs the live service objects"""
    from hiten import System
    worst = 0.0
    for mu in (0.0121505856, 3.0034e-6, 0.2):
        sysm = System.from_mu(mu)
        for k in (1, 2, 3):
            dyn = sysm.get_libration_point(k).dynamics
            g = float(dyn.gamma)
            checks = []
            if "dOmega" in TR:
                for x in (float(sysm.get_libration_point(k).position[0]) + 0.013, 0.37, -0.8, 1.3):
                    if abs(x + mu) > 1e-3 and abs(x - 1 + mu) > 1e-3:
                        checks.append(("dOmega", T.evalf(TR["dOmega"], {"x": x, "mu": mu}), float(dyn._dOmega_dx(x))))
            for n in (2, 3, 4):
                if "cn%d_%d" % (k, n) in TR:
                    checks.append(("cn%d_%d" % (k, n), T.evalf(TR["cn%d_%d" % (k, n)], {"gamma": g, "mu": mu}), float(dyn.cn(n))))
            if "nfC" in TR:
                lam, om1, om2 = [float(v) for v in dyn.linear_modes]
                c2 = float(dyn.cn(2))
                s1, s2 = [float(v) for v in dyn.scale_factor(lam, om1)]
                env = {"lam": lam, "om1": om1, "om2": om2, "c2": c2, "s1": s1, "s2": s2}
                C = np.asarray(dyn.normal_form_transform[0], dtype=float)
                for i in range(6):
                    for j in range(6):
                        checks.append(("nfC[%d,%d]" % (i, j), T.evalf(TR["nfC"][6 * i + j], env), float(C[i, j])))
                checks.append(("s1sq", T.evalf(TR["s1sq"], env), s1 * s1))
                checks.append(("s2sq", T.evalf(TR["s2sq"], env), s2 * s2))
            for nm, a, b in checks:
                err = abs(a - b) / (1 + abs(b))
                worst = max(worst, err)
                ctx.traces_validated += 1
                if not err <= 1e-11:
                    ctx.broken.append(("trace-validation:" + nm, "traced formula %r differs from the live object (mu=%r, L%d): %r vs %r" % (nm, mu, k, a, b)))
                    ctx.obligations["trace-validation:" + nm] = False
                    return
    if "triC" in TR:
        for mu in (0.0121505856, 3.0034e-6, 0.03):
            sysm = System.from_mu(mu)
            for k in (4, 5):
                dyn = sysm.get_libration_point(k).dynamics
                w1, w2, wz = [float(v) for v in dyn.linear_modes]
                s = [float(dyn.scale_factor(i)) for i in range(3)]
                av = float(dyn.a)
                env = {"a": av, "w1": w1, "w2": w2, "wz": wz, "s1": s[0], "s2": s[1], "s3": s[2]}
                C = np.asarray(dyn.normal_form_transform[0], dtype=float)
                checks = [("triC[%d,%d]" % (i, j), T.evalf(TR["triC"][6 * i + j], env), float(C[i, j])) for i in range(6) for j in range(6)]
                checks += [("triS1sq", T.evalf(TR["triS1sq"], env), s[0] ** 2), ("triS2sq", T.evalf(TR["triS2sq"], env), s[1] ** 2),
                           ("a%d" % k, T.evalf(TR["a%d" % k], {"mu": mu}), av)]
                for nm, x, y in checks:
                    err = abs(x - y) / (1 + abs(y))
                    worst = max(worst, err)
                    ctx.traces_validated += 1
                    if not err <= 1e-11:
                        ctx.broken.append(("trace-validation:" + nm, "traced formula %r differs from the live object (mu=%r, L%d): %r vs %r" % (nm, mu, k, x, y)))
                        ctx.obligations["trace-validation:" + nm] = False
                        return
    ctx.obligations["trace-validation"] = True
    ctx.extra["trace_validation_worst_rel_err"] = worst
