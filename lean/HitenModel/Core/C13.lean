/-
  Core/C13.lean — executable model of the predictor–corrector continuation backend
  (`continuation/backends/pc.py::_PredictorCorrectorContinuationBackend.run`), its steppers
  (`stepping/base.py`, `np/base.py`, `sc/base.py`), the secant support (`stepping/support.py`) and the interface's
  predictor / period assignment (`continuation/interfaces.py`).

  The corrector is an *oracle*: one `Outcome` per call.  Vectors are `List Rat`; the Euclidean norm (irrational in
  general) is a parameter `norm` of the model — only `norm v = 0` and the value itself are used.
  Import-free (runs under `lean --run`); everything a theorem mentions is structurally recursive.
-/
namespace HitenModel.C13

abbrev Vec := List Rat

def vadd : Vec → Vec → Vec
  | a :: as, b :: bs => (a + b) :: vadd as bs
  | _, _ => []
def vsub : Vec → Vec → Vec
  | a :: as, b :: bs => (a - b) :: vsub as bs
  | _, _ => []
def vscale (c : Rat) (v : Vec) : Vec := v.map (c * ·)

def rabs (x : Rat) : Rat := if x < 0 then -x else x
def rsign (x : Rat) : Rat := if x < 0 then -1 else if x = 0 then 0 else 1
/-- `np.sign(v) * np.clip(np.abs(v), lo, hi)` for one component (`np.clip` = min(max(x,lo),hi)) -/
def clampComp (lo hi x : Rat) : Rat := rsign x * min (max (rabs x) lo) hi
def clampStep (lo hi : Rat) (v : Vec) : Vec := v.map (clampComp lo hi)

/-- result of one corrector call; `fail` covers `converged = False` and a raised exception -/
inductive Outcome where
  | ok (corrected : Vec) (period : Option Rat)
  | fail
deriving Repr, Inhabited

structure Cfg where
  maxMembers : Nat
  maxRetries : Nat
  stepMin : Rat
  stepMax : Rat
  tmin : Vec
  tmax : Vec
  secant : Bool
  /-- `state_indices` of the interface predictor (`none`: add the whole step vector) -/
  idx : Option (List Nat)
  /-- components returned by the parameter getter -/
  pidx : List Nat
  /-- factor of the shrink policy applied on a rejection (`None` in the code = halving; a policy that raises falls back to halving) -/
  shrink : Rat := 1/2
deriving Repr, Inhabited

/-- interface predictor `_predictor_from_problem`: `last[idx_k] += step_k` (in order, duplicates accumulate) -/
def addAt (v : Vec) (i : Nat) (d : Rat) : Vec := v.modify i (· + d)
def predictNatural (idx : Option (List Nat)) (last step : Vec) : Vec :=
  match idx with
  | none => vadd last step
  | some is => (List.zip is step).foldl (fun acc (p : Nat × Rat) => addAt acc p.1 p.2) last

def getParams (pidx : List Nat) (v : Vec) : Vec := pidx.map fun i => v.getD i 0

def outside : Vec → Vec → Vec → Bool
  | p :: ps, lo :: los, hi :: his => p < lo || p > hi || outside ps los his
  | _, _, _ => false

/-- secant support `on_accept`: unit vector through the last two members, `none` when they coincide -/
def tangentOf (norm : Vec → Rat) (prev curr : Vec) : Option Vec :=
  let d := vsub curr prev
  let n := norm d
  if n = 0 then none else some (vscale (1 / n) d)

/-- secant stepper `predict` -/
def predictSecant (norm : Vec → Rat) (tan : Option Vec) (last step : Vec) : Vec :=
  let ds := norm step
  match tan with
  | none => match last with
            | [] => []
            | x :: xs => (x + ds) :: xs
  | some t => vadd last (vscale ds t)

structure St where
  family : List Vec            -- oldest first
  params : List Vec
  periods : List (Option Rat)  -- aux history: one entry per accepted member after the seed
  step : Vec
  accepted : Nat
  rejected : Nat
  iterations : Nat
  attempt : Nat
  tangent : Option Vec
  failed : Bool
  leftTarget : Bool
  preds : List Vec             -- every prediction handed to the corrector, in order
  steps : List Vec             -- step vector after every event
deriving Repr, Inhabited

def init (cfg : Cfg) (norm : Vec → Rat) (seed step0 : Vec) : St :=
  { family := [seed], params := [getParams cfg.pidx seed], periods := [], step := step0,
    accepted := 1, rejected := 0, iterations := 0, attempt := 0,
    tangent := if cfg.secant then tangentOf norm seed (predictNatural cfg.idx seed step0) else none,
    failed := false, leftTarget := false, preds := [], steps := [] }

def finished (cfg : Cfg) (s : St) : Bool :=
  decide (s.accepted ≥ cfg.maxMembers) || s.failed || s.leftTarget

def lastMember (s : St) : Vec := s.family.getLastD []

def prediction (cfg : Cfg) (norm : Vec → Rat) (s : St) : Vec :=
  if cfg.secant then predictSecant norm s.tangent (lastMember s) s.step
  else predictNatural cfg.idx (lastMember s) s.step

/-- one corrector call (one pass through the inner loop of `run`) -/
def step (cfg : Cfg) (norm : Vec → Rat) (s : St) (o : Outcome) : St :=
  let pred := prediction cfg norm s
  match o with
  | .ok corrected period =>
      let p := getParams cfg.pidx corrected
      let st' := clampStep cfg.stepMin cfg.stepMax s.step
      { s with
        family := s.family ++ [corrected], params := s.params ++ [p], periods := s.periods ++ [period],
        accepted := s.accepted + 1, iterations := s.iterations + 1, attempt := 0,
        tangent := if cfg.secant then tangentOf norm (lastMember s) corrected else s.tangent,
        step := st', leftTarget := outside p cfg.tmin cfg.tmax,
        preds := s.preds ++ [pred], steps := s.steps ++ [st'] }
  | .fail =>
      let st' := clampStep cfg.stepMin cfg.stepMax (vscale cfg.shrink s.step)
      { s with
        rejected := s.rejected + 1, iterations := s.iterations + 1, attempt := s.attempt + 1,
        step := st', failed := decide (s.attempt + 1 > cfg.maxRetries),
        preds := s.preds ++ [pred], steps := s.steps ++ [st'] }

/-- the whole run against a (long enough) list of oracle answers; answers after termination are not consumed -/
def run (cfg : Cfg) (norm : Vec → Rat) : St → List Outcome → St
  | s, [] => s
  | s, o :: os => if finished cfg s then s else run cfg norm (step cfg norm s o) os

/-- number of oracle answers consumed -/
def consumed (cfg : Cfg) (norm : Vec → Rat) : St → List Outcome → Nat
  | _, [] => 0
  | s, o :: os => if finished cfg s then 0 else consumed cfg norm (step cfg norm s o) os + 1

/-- interface `to_domain`: member i ≥ 1 receives the period of aux entry i-1 when present and finite, else keeps the
seed period; the seed keeps its own -/
def assignPeriods (seedPeriod : Option Rat) (n : Nat) (aux : List (Option Rat)) : List (Option Rat) :=
  seedPeriod :: (List.range (n - 1)).map fun i =>
    match aux.getD i none with
    | some p => some p
    | none => seedPeriod

end HitenModel.C13
