/- Core/C18.lean — hand model for property C18 (conversions and coordinate changes); import-free, executable.

Python object                                            model
-------------------------------------------------------  ------------------------------------------------------------
entries of `_M(mix)`, `_M_inv(mix)` (complex128)          `Q4` = ℚ(r)[i] with r = 1/√2 (r² = 1/2): (a + b·r) + (c + d·r)·i
`_substitute_coordinates(coords, matrix)`                 `applyMat`   (zero entries skipped, as the code does)
`_linear_variable_polys(C, …)` row i                      `varPoly C i` (zero entries skipped)
`_polynomial_multiply`                                    `pmul`  (sparse term lists instead of graded dense arrays)
`_polynomial_power` (binary exponentiation loop)          `powLoop` / `ppow`
`_substitute_linear(poly, C, …)` (before the final clean) `substLinear C`
`_polynomial_evaluate`                                    `evalPoly`
`_CONVERSION_REGISTRY` items (insertion order)            `List Edge` (forms and context keys numbered by Gen/C18.lean)
BFS of `_follow_conversion_path`/`_find_conversion_source` `scan` / `bfs` / `findPath`
`HamiltonianPipeline.get_hamiltonian` + cache             `getHam`

Polynomials are finite lists of terms `(coefficient, exponent list)`; the list is *not* normalised (like terms may
repeat), `normalize` merges like terms for printing.  Everything is polymorphic in the scalar type and uses only the
notation classes, so the same definitions are executed over `Q4` by `Drivers/C18.lean` and reasoned about over an
arbitrary commutative ring in `Props/C18.lean`.
-/
namespace HitenModel.C18

/-! ### scalars: ℚ(1/√2) and ℚ(1/√2)[i] -/

/-- `a + b·r` with `r = 1/√2`, i.e. `r² = 1/2` -/
structure QR where
  a : Rat
  b : Rat
deriving DecidableEq, Repr, Inhabited

namespace QR
instance : OfNat QR 0 := ⟨⟨0, 0⟩⟩
instance : OfNat QR 1 := ⟨⟨1, 0⟩⟩
instance : Add QR := ⟨fun x y => ⟨x.a + y.a, x.b + y.b⟩⟩
instance : Sub QR := ⟨fun x y => ⟨x.a - y.a, x.b - y.b⟩⟩
instance : Neg QR := ⟨fun x => ⟨-x.a, -x.b⟩⟩
instance : Mul QR := ⟨fun x y => ⟨x.a * y.a + x.b * y.b / 2, x.a * y.b + x.b * y.a⟩⟩
end QR

/-- `0 ≤ a + b·r` decided exactly (r = 1/√2 > 0, r² = 1/2) -/
def QR.nonneg (x : QR) : Bool :=
  if 0 ≤ x.a && 0 ≤ x.b then true
  else if x.a ≤ 0 && x.b ≤ 0 then x.a == 0 && x.b == 0
  else if 0 ≤ x.a then decide (x.b * x.b / 2 ≤ x.a * x.a)      -- a ≥ 0 > b :  a ≥ |b| r
  else decide (x.a * x.a ≤ x.b * x.b / 2)                       -- b > 0 > a :  b r ≥ |a|

/-- `re + im·i` with `re, im ∈ ℚ(r)` -/
structure Q4 where
  re : QR
  im : QR
deriving DecidableEq, Repr, Inhabited

namespace Q4
instance : OfNat Q4 0 := ⟨⟨0, 0⟩⟩
instance : OfNat Q4 1 := ⟨⟨1, 0⟩⟩
instance : Add Q4 := ⟨fun z w => ⟨z.re + w.re, z.im + w.im⟩⟩
instance : Sub Q4 := ⟨fun z w => ⟨z.re - w.re, z.im - w.im⟩⟩
instance : Neg Q4 := ⟨fun z => ⟨-z.re, -z.im⟩⟩
instance : Mul Q4 := ⟨fun z w => ⟨z.re * w.re - z.im * w.im, z.re * w.im + z.im * w.re⟩⟩
/-- complex conjugate -/
def conj (z : Q4) : Q4 := ⟨z.re, -z.im⟩
/-- `|z| ≤ t` for a rational `t ≥ 0`, decided exactly as `t² − |z|² ≥ 0` in ℚ(r) -/
def absLe (z : Q4) (t : Rat) : Bool :=
  decide (0 ≤ t) && QR.nonneg ((⟨t * t, 0⟩ : QR) - (z.re * z.re + z.im * z.im))
/-- `(a + b r) + (c + d r) i` -/
def mk4 (a b c d : Rat) : Q4 := ⟨⟨a, b⟩, ⟨c, d⟩⟩
/-- integer components -/
def q (a b c d : Int) : Q4 := mk4 a b c d
end Q4

/-! ### 6×6 matrices over `Q4` as lists of rows -/

abbrev QMat := List (List Q4)

def QMat.entry (M : QMat) (i j : Nat) : Q4 := (M.getD i []).getD j 0

def dot6 (f g : Nat → Q4) : Q4 := f 0 * g 0 + f 1 * g 1 + f 2 * g 2 + f 3 * g 3 + f 4 * g 4 + f 5 * g 5

def range6 : List Nat := [0, 1, 2, 3, 4, 5]

/-- matrix product (6×6) -/
def QMat.mul (A B : QMat) : QMat :=
  range6.map fun i => range6.map fun j => dot6 (fun k => A.entry i k) (fun k => B.entry k j)

/-- conjugate transpose (6×6) -/
def QMat.conjT (A : QMat) : QMat := range6.map fun i => range6.map fun j => (A.entry j i).conj

/-- the 6×6 block of a table (equal to the table iff it is exactly 6×6) -/
def QMat.norm6 (A : QMat) : QMat := range6.map fun i => range6.map fun j => A.entry i j

def QMat.ident : QMat := range6.map fun i => range6.map fun j => if i = j then 1 else 0

/-! ### sparse polynomials in the variables x₀, x₁, … -/

abbrev Mono := List Nat
abbrev Poly (K : Type) := List (K × Mono)

/-- exponent vectors add componentwise; the shorter one is padded with zeros -/
def monoMul : Mono → Mono → Mono
  | [], b => b
  | a :: as, [] => a :: as
  | a :: as, b :: bs => (a + b) :: monoMul as bs

/-- exponent vector of the variable `x_j` -/
def unitMono : Nat → Mono
  | 0 => [1]
  | j + 1 => 0 :: unitMono j

section
variable {K : Type} [Add K] [Mul K] [OfNat K 0] [OfNat K 1] [DecidableEq K]

def kpow (x : K) : Nat → K
  | 0 => 1
  | n + 1 => kpow x n * x

def evalMonoFrom (x : Nat → K) : Nat → Mono → K
  | _, [] => 1
  | i, e :: es => kpow (x i) e * evalMonoFrom x (i + 1) es

/-- value of the monomial `x^k` at the point `x` -/
def evalMono (x : Nat → K) (k : Mono) : K := evalMonoFrom x 0 k

/-- `_polynomial_evaluate` -/
def evalPoly (x : Nat → K) : Poly K → K
  | [] => 0
  | (c, k) :: p => c * evalMono x k + evalPoly x p

def scaleMono (a : K) (ka : Mono) : Poly K → Poly K
  | [] => []
  | (b, kb) :: q => (a * b, monoMul ka kb) :: scaleMono a ka q

/-- `_polynomial_multiply` (no truncation: a linear substitution never raises the degree) -/
def pmul : Poly K → Poly K → Poly K
  | [], _ => []
  | (a, ka) :: p, q => scaleMono a ka q ++ pmul p q

/-- the `while exponent > 0` loop of `_polynomial_power` -/
def powLoop : Nat → Poly K → Poly K → Nat → Poly K
  | 0, res, _, _ => res
  | fuel + 1, res, base, e =>
    if e = 0 then res
    else
      powLoop fuel (if e % 2 = 1 then pmul res base else res) (if 1 < e then pmul base base else base) (e / 2)

/-- `_polynomial_power(p, k)`: result starts as the constant 1 -/
def ppow (p : Poly K) (k : Nat) : Poly K := powLoop k [(1, [])] p k

/-- row `i` of `_linear_variable_polys`: `Σ_j C[i,j]·x_j`, zero entries skipped -/
def linFormFrom : Nat → List K → Poly K
  | _, [] => []
  | j, c :: cs => if c = 0 then linFormFrom (j + 1) cs else (c, unitMono j) :: linFormFrom (j + 1) cs

def varPoly (C : List (List K)) (i : Nat) : Poly K := linFormFrom 0 (C.getD i [])

/-- the `for i_var in range(6)` loop of `_substitute_linear`: `term *= var_polys[i] ** k[i]` -/
def substTermFrom (C : List (List K)) : Nat → Mono → Poly K → Poly K
  | _, [], term => term
  | i, e :: es, term =>
    if e = 0 then substTermFrom C (i + 1) es term
    else substTermFrom C (i + 1) es (pmul term (ppow (varPoly C i) e))

/-- `_substitute_linear(poly, C)` before cleaning: every term `c·x^k` becomes `c·Π_i (Σ_j C[i,j] x_j)^{k_i}` -/
def substLinear (C : List (List K)) : Poly K → Poly K
  | [] => []
  | (c, k) :: p => (if c = 0 then [] else substTermFrom C 0 k [(c, [])]) ++ substLinear C p

/-- inner loop of `_substitute_coordinates` -/
def dotFrom (x : Nat → K) : Nat → List K → K
  | _, [] => 0
  | j, c :: cs => if c = 0 then dotFrom x (j + 1) cs else c * x j + dotFrom x (j + 1) cs

/-- `_substitute_coordinates(coords, matrix)`: `out[i] = Σ_j matrix[i,j]·coords[j]` -/
def applyMat (C : List (List K)) (x : Nat → K) : Nat → K := fun i => dotFrom x 0 (C.getD i [])

/-- `_polynomial_clean(p, tol)`: coefficients that are `small` (|c| ≤ tol) become 0, all others are kept -/
def cleanTerms (small : K → Bool) : Poly K → Poly K
  | [] => []
  | (c, k) :: p => ((if small c then 0 else c), k) :: cleanTerms small p

/-! normal form of a term list: like terms merged (this is what the dense coefficient arrays of the code hold) -/

/-- drop trailing zero exponents -/
def trimMono : Mono → Mono
  | [] => []
  | e :: es =>
    match trimMono es with
    | [] => if e = 0 then [] else [e]
    | t :: ts => e :: t :: ts

def insertTerm (c : K) (k : Mono) : Poly K → Poly K
  | [] => [(c, k)]
  | (d, k') :: p => if k = k' then (d + c, k') :: p else (d, k') :: insertTerm c k p

def normalize (p : Poly K) : Poly K :=
  (p.foldl (fun acc t => insertTerm t.1 (trimMono t.2) acc) []).filter fun t => t.1 ≠ 0

/-- a linear conversion as the wrappers perform it: substitute, (dense arrays = merged like terms), clean.
`_substitute_linear` cleans with its own default 1e-14 before the wrapper cleans with `tol`; two successive cleans are
one clean with the larger tolerance, which is what `small` stands for. -/
def convertLin (small : K → Bool) (C : List (List K)) (p : Poly K) : Poly K :=
  cleanTerms small (normalize (substLinear C p))

end

/-! ### the conversion registry and the pipeline's path search -/

/-- one `_CONVERSION_REGISTRY` item: forms and required-context keys are numbered by the generated tables;
context key 0 is always `"point"` -/
structure Edge where
  src : Nat
  dst : Nat
  ctx : List Nat
deriving DecidableEq, Repr, Inhabited

/-- the filter both BFS loops apply: `not required_context or "point" in required_context` -/
def Edge.usable (e : Edge) : Bool := e.ctx.isEmpty || e.ctx.contains 0

inductive ScanRes where
  | found (path : List Nat)
  | cont (visited : List Nat) (queue : List (Nat × List Nat))
deriving Repr

/-- the `for (src, dst), … in registry.items()` loop for one popped `(cur, path)` -/
def scan (target cur : Nat) (path : List Nat) :
    List Edge → List Nat → List (Nat × List Nat) → ScanRes
  | [], vis, q => .cont vis q
  | e :: es, vis, q =>
    if e.src = cur && !vis.contains e.dst && e.usable then
      if e.dst = target then .found (path ++ [e.dst])
      else scan target cur path es (e.dst :: vis) (q ++ [(e.dst, path ++ [e.dst])])
    else scan target cur path es vis q

/-- the `while queue` loop (fuel = an upper bound on the number of pops) -/
def bfs (edges : List Edge) (target : Nat) : Nat → List Nat → List (Nat × List Nat) → Option (List Nat)
  | 0, _, _ => none
  | _ + 1, _, [] => none
  | fuel + 1, vis, (cur, path) :: q =>
    match scan target cur path edges vis q with
    | .found p => some p
    | .cont vis' q' => bfs edges target fuel vis' q'

/-- `_follow_conversion_path(start, target)`: the path it executes, `none` = `NotImplementedError`.
Every pop takes a distinct visited node, and every visited node other than `start` is the target of an edge,
so `edges.length + 1` pops suffice. -/
def findPath (edges : List Edge) (start target : Nat) : Option (List Nat) :=
  bfs edges target (edges.length + 1) [start] [(start, [start])]

def hasEdge (edges : List Edge) (s t : Nat) : Bool := edges.any fun e => e.src = s && e.dst = t

def edgeCtx (edges : List Edge) (s t : Nat) : List Nat :=
  match edges.find? (fun e => e.src = s && e.dst = t) with
  | some e => e.ctx
  | none => []

/-- `_find_conversion_source(target)`; `cache` in insertion order, `phys` = the form "physical" -/
def findSource (edges : List Edge) (phys : Nat) (cache : List Nat) (target : Nat) : Option Nat :=
  match cache.find? (fun s => hasEdge edges s target) with
  | some s => some s
  | none =>
    if hasEdge edges phys target then some phys
    else match findPath edges phys target with
      | some _ => some phys
      | none => none

/-- context keys the pipeline passes to `to_state`: `point` (0) and `_pipeline` (1) -/
def pipelineCtx : List Nat := [0, 1]

inductive GetRes where
  | ok (cache : List Nat) (steps : List (Nat × Nat))     -- new cache (insertion order), conversions executed
  | notImplemented                                       -- `NotImplementedError`
  | missingCtx (s t : Nat)                               -- `ValueError: Missing required context`
deriving Repr, DecidableEq

def addCache (cache : List Nat) (f : Nat) : List Nat := if cache.contains f then cache else cache ++ [f]

/-- `_execute_conversion_path`: walk the path, every step is a registry conversion with the pipeline's context -/
def execPath (edges : List Edge) : List Nat → List Nat → List (Nat × Nat) → GetRes
  | a :: b :: rest, cache, steps =>
    if (edgeCtx edges a b).all (pipelineCtx.contains ·) then
      execPath edges (b :: rest) (addCache cache b) (steps ++ [(a, b)])
    else .missingCtx a b
  | _, cache, steps => .ok cache steps

/-- `HamiltonianPipeline.get_hamiltonian(form)` on a pipeline whose cache holds `cache` -/
def getHam (edges : List Edge) (phys : Nat) (cache : List Nat) (form : Nat) : GetRes :=
  if cache.contains form then .ok cache []
  else if form = phys then .ok (cache ++ [phys]) []
  else match findSource edges phys cache form with
    | none => .notImplemented
    | some src =>
      let cache1 := addCache cache src
      if hasEdge edges src form then
        execPath edges [src, form] cache1 []
      else match findPath edges src form with
        | none => .notImplemented
        | some path => execPath edges path cache1 []

/-! ### what a registered conversion does (recorded by executing it) -/

/-- matrices a conversion may substitute: the complexification matrices for the two mix sets, and the
symplectic normal-form matrices `C`, `C⁻¹` of the libration point -/
inductive MatId where
  | M12 | Minv12 | M012 | Minv012 | C | Cinv | other
deriving DecidableEq, Repr, Inhabited

inductive Op where
  | lin (m : MatId)       -- `_substitute_linear` with that matrix, then `_polynomial_clean`
  | liePartial            -- `_lie_transform` of hamiltonian/center
  | lieFull               -- `_lie_transform` of hamiltonian/normal
  | restrictCM            -- `_restrict_poly_to_center_manifold`
  | unknown
deriving DecidableEq, Repr, Inhabited

def MatId.inverse : MatId → MatId
  | .M12 => .Minv12 | .Minv12 => .M12 | .M012 => .Minv012 | .Minv012 => .M012
  | .C => .Cinv | .Cinv => .C | .other => .other

/-- two recorded operations undo each other (as exact maps; the final `clean` is the numerical shell) -/
def Op.inverseOf : Op → Op → Bool
  | .lin a, .lin b => a ≠ .other && b = a.inverse
  | _, _ => false

end HitenModel.C18
