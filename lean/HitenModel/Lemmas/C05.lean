/-
  Lemmas/C05.lean — helper lemmas for property C05: the model's vector operations over a linearly ordered field
  (`absK = |·|`, `normInf` is the max-abs norm, the step cap bounds the infinity norm, `axpy` displaces by `α·δ`).
-/
import HitenModel.Core.C05
import Mathlib.Algebra.Order.Field.Basic
import Mathlib.Algebra.Order.AbsoluteValue.Basic
import Mathlib.Tactic.Linarith
import Mathlib.Tactic.Ring
import Mathlib.Tactic.Positivity
import Mathlib.Tactic.FieldSimp

namespace HitenModel.Lemmas.C05
open HitenModel.C05

set_option linter.unusedSectionVars false

variable {K : Type} [Field K] [LinearOrder K] [IsStrictOrderedRing K]

theorem absK_eq (a : K) : absK a = |a| := by
  unfold absK
  split
  · rename_i h; rw [abs_of_neg h]
  · rename_i h; rw [abs_of_nonneg (not_lt.mp h)]

theorem maxK_eq (a b : K) : maxK a b = max a b := by
  unfold maxK
  split
  · rename_i h; rw [max_eq_right h.le]
  · rename_i h; rw [max_eq_left (not_lt.mp h)]

theorem normInf_nil : normInf ([] : List K) = 0 := rfl
theorem normInf_cons (a : K) (l : List K) : normInf (a :: l) = max |a| (normInf l) := by
  simp only [normInf, maxK_eq, absK_eq]

theorem normInf_nonneg (l : List K) : 0 ≤ normInf l := by
  induction l with
  | nil => simp [normInf_nil]
  | cons a l ih => rw [normInf_cons]; exact le_max_of_le_right ih

/-- the model's infinity norm is the least upper bound of the absolute values (and 0) -/
theorem normInf_le_iff {m : K} (hm : 0 ≤ m) (l : List K) : normInf l ≤ m ↔ ∀ a ∈ l, |a| ≤ m := by
  induction l with
  | nil => simp [normInf_nil, hm]
  | cons a l ih => rw [normInf_cons, max_le_iff, ih]; simp

theorem abs_le_normInf {l : List K} {a : K} (h : a ∈ l) : |a| ≤ normInf l :=
  (normInf_le_iff (normInf_nonneg l) l).mp le_rfl a h

/-- **cap lemma**: after `capDelta (some m)` the infinity norm is at most `m` -/
theorem normInf_capDelta_le {m : K} (hm : 0 ≤ m) (δ : List K) : normInf (capDelta (some m) δ) ≤ m := by
  unfold capDelta
  simp only
  split
  · rename_i h
    have hn : 0 < normInf δ := lt_of_le_of_lt hm h
    rw [normInf_le_iff hm]
    intro a ha
    rw [List.mem_map] at ha
    obtain ⟨d, hd, rfl⟩ := ha
    have h1 : |d| ≤ normInf δ := abs_le_normInf hd
    rw [abs_mul, abs_div, abs_of_nonneg hm, abs_of_pos hn]
    calc |d| * (m / normInf δ) ≤ normInf δ * (m / normInf δ) :=
          mul_le_mul_of_nonneg_right h1 (div_nonneg hm hn.le)
      _ = m := by field_simp
  · rename_i h; exact not_lt.mp h

/-- without a cap the direction is untouched -/
theorem capDelta_none (δ : List K) : capDelta (none : Option K) δ = δ := rfl

/-- a trial point `x + α·δ` is displaced from `x` by at most `|α|·|δ|∞` in the infinity norm -/
theorem normInf_vsub_axpy_le (α : K) (x δ : List K) :
    normInf (vsub (axpy α x δ) x) ≤ |α| * normInf δ := by
  induction x generalizing δ with
  | nil =>
    cases δ <;> (show (0 : K) ≤ _) <;> exact mul_nonneg (abs_nonneg _) (normInf_nonneg _)
  | cons a x ih =>
    cases δ with
    | nil => show (0 : K) ≤ _; exact mul_nonneg (abs_nonneg _) (normInf_nonneg _)
    | cons d δ =>
      simp only [axpy, vsub]
      rw [normInf_cons, normInf_cons, max_le_iff]
      constructor
      · have : a + α * d - a = α * d := by ring
        rw [this, abs_mul]
        exact mul_le_mul_of_nonneg_left (le_max_left _ _) (abs_nonneg _)
      · exact (ih δ).trans (mul_le_mul_of_nonneg_left (le_max_right _ _) (abs_nonneg _))

theorem pow_mem_unit {ρ : K} (h0 : 0 ≤ ρ) (h1 : ρ ≤ 1) (j : ℕ) : 0 ≤ ρ ^ j ∧ ρ ^ j ≤ 1 :=
  ⟨pow_nonneg h0 j, pow_le_one₀ h0 h1⟩

end HitenModel.Lemmas.C05
