/- Lemmas/C09.lean — the bracket-expansion loop of `solve_missing_coord` over an arbitrary linearly ordered field. -/
import HitenModel.Core.C09
import Mathlib.Algebra.Order.Field.Basic
import Mathlib.Tactic.Linarith
import Mathlib.Tactic.Ring
import Mathlib.Tactic.SplitIfs

namespace HitenModel.C09
set_option linter.unusedSectionVars false

variable {K : Type} [Field K] [LinearOrder K] [IsStrictOrderedRing K]

/-- `k` is the first exponent at which the residual is positive along `g, g·f, g·f², …` -/
def FirstPos (res : K → K) (g f : K) (k : Nat) : Prop :=
  0 < res (g * f ^ k) ∧ ∀ j, j < k → res (g * f ^ j) ≤ 0

/-- no sign change up to and including exponent `n` -/
def NoPos (res : K → K) (g f : K) (n : Nat) : Prop :=
  ∀ j, j ≤ n → res (g * f ^ j) ≤ 0

theorem FirstPos.unique {res : K → K} {g f : K} {k k' : Nat}
    (h : FirstPos res g f k) (h' : FirstPos res g f k') : k = k' := by
  rcases Nat.lt_trichotomy k k' with hlt | heq | hgt
  · exact absurd h.1 (not_lt.mpr (h'.2 k hlt))
  · exact heq
  · exact absurd h'.1 (not_lt.mpr (h.2 k' hgt))

theorem firstPos_or_noPos (res : K → K) (g f : K) (n : Nat) :
    (∃ k, k ≤ n ∧ FirstPos res g f k) ∨ NoPos res g f n := by
  induction n with
  | zero =>
      by_cases h : 0 < res (g * f ^ 0)
      · exact Or.inl ⟨0, le_refl _, h, fun j hj => absurd hj (Nat.not_lt_zero j)⟩
      · refine Or.inr fun j hj => ?_
        have : j = 0 := Nat.le_zero.mp hj
        subst this
        exact not_lt.mp h
  | succ n ih =>
      rcases ih with ⟨k, hk, hf⟩ | hno
      · exact Or.inl ⟨k, Nat.le_succ_of_le hk, hf⟩
      · by_cases h : 0 < res (g * f ^ (n + 1))
        · exact Or.inl ⟨n + 1, le_refl _, h, fun j hj => hno j (Nat.lt_succ_iff.mp hj)⟩
        · refine Or.inr fun j hj => ?_
          rcases Nat.lt_or_ge j (n + 1) with hlt | hge
          · exact hno j (Nat.lt_succ_iff.mp hlt)
          · have : j = n + 1 := le_antisymm hj hge
            subst this
            exact not_lt.mp h

/-- the loop stops at the first positive residual … -/
theorem expandTo_of_firstPos (res : K → K) (f : K) :
    ∀ (n : Nat) (g : K) (k : Nat), k ≤ n → FirstPos res g f k → expandTo res f n g = g * f ^ k := by
  intro n
  induction n with
  | zero =>
      intro g k hk _
      have : k = 0 := Nat.le_zero.mp hk
      subst this
      simp [expandTo]
  | succ n ih =>
      intro g k hk hf
      cases k with
      | zero =>
          have h0 : ¬ res g ≤ 0 := by
            have := hf.1
            simp only [pow_zero, mul_one] at this
            exact not_le.mpr this
          simp [expandTo, h0]
      | succ k =>
          have h0 : res g ≤ 0 := by
            have := hf.2 0 (Nat.succ_pos k)
            simpa using this
          have hf' : FirstPos res (g * f) f k := by
            refine ⟨?_, fun j hj => ?_⟩
            · have := hf.1
              rwa [pow_succ', ← mul_assoc] at this
            · have := hf.2 (j + 1) (Nat.succ_lt_succ hj)
              rwa [pow_succ', ← mul_assoc] at this
          rw [expandTo, if_pos h0, ih (g * f) k (Nat.le_of_succ_le_succ hk) hf', pow_succ', mul_assoc]

/-- … and after `n` expansions otherwise -/
theorem expandTo_of_noPos (res : K → K) (f : K) :
    ∀ (n : Nat) (g : K), NoPos res g f n → expandTo res f n g = g * f ^ n := by
  intro n
  induction n with
  | zero => intro g _; simp [expandTo]
  | succ n ih =>
      intro g hno
      have h0 : res g ≤ 0 := by simpa using hno 0 (Nat.zero_le _)
      have hno' : NoPos res (g * f) f n := by
        intro j hj
        have := hno (j + 1) (Nat.succ_le_succ hj)
        rwa [pow_succ', ← mul_assoc] at this
      rw [expandTo, if_pos h0, ih (g * f) hno', pow_succ', mul_assoc]

/-- the evaluation points of the loop are `g, g·f, …, g·f^k` up to the stopping exponent -/
theorem expandQueries_of_firstPos (res : K → K) (f : K) :
    ∀ (n : Nat) (g : K) (k : Nat), k ≤ n → FirstPos res g f k →
      expandQueries res f n g = (List.range (k + 1)).map fun j => g * f ^ j := by
  intro n
  induction n with
  | zero =>
      intro g k hk _
      have : k = 0 := Nat.le_zero.mp hk
      subst this
      simp [expandQueries]
  | succ n ih =>
      intro g k hk hf
      cases k with
      | zero =>
          have h0 : ¬ res g ≤ 0 := by
            have := hf.1
            simp only [pow_zero, mul_one] at this
            exact not_le.mpr this
          simp [expandQueries, h0]
      | succ k =>
          have h0 : res g ≤ 0 := by
            have := hf.2 0 (Nat.succ_pos k)
            simpa using this
          have hf' : FirstPos res (g * f) f k := by
            refine ⟨?_, fun j hj => ?_⟩
            · have := hf.1
              rwa [pow_succ', ← mul_assoc] at this
            · have := hf.2 (j + 1) (Nat.succ_lt_succ hj)
              rwa [pow_succ', ← mul_assoc] at this
          rw [expandQueries, if_pos h0, ih (g * f) k (Nat.le_of_succ_le_succ hk) hf',
            show List.range (k + 1 + 1) = 0 :: List.map Nat.succ (List.range (k + 1)) from List.range_succ_eq_map, List.map_cons, List.map_map]
          simp only [pow_zero, mul_one, List.cons.injEq, true_and]
          apply List.map_congr_left
          intro j _
          simp only [Function.comp, pow_succ']
          ring

theorem expandQueries_of_noPos (res : K → K) (f : K) :
    ∀ (n : Nat) (g : K), NoPos res g f n →
      expandQueries res f n g = (List.range (n + 1)).map fun j => g * f ^ j := by
  intro n
  induction n with
  | zero => intro g _; simp [expandQueries]
  | succ n ih =>
      intro g hno
      have h0 : res g ≤ 0 := by simpa using hno 0 (Nat.zero_le _)
      have hno' : NoPos res (g * f) f n := by
        intro j hj
        have := hno (j + 1) (Nat.succ_le_succ hj)
        rwa [pow_succ', ← mul_assoc] at this
      rw [expandQueries, if_pos h0, ih (g * f) hno',
        show List.range (n + 1 + 1) = 0 :: List.map Nat.succ (List.range (n + 1)) from List.range_succ_eq_map, List.map_cons, List.map_map]
      simp only [pow_zero, mul_one, List.cons.injEq, true_and]
      apply List.map_congr_left
      intro j _
      simp only [Function.comp, pow_succ']
      ring

/-- normal form of the loop: either the residual first becomes positive at `g·f^k` (`k ≤ n`) and the loop stops
there, or it is non-positive at all `g·f^j`, `j ≤ n`, and the loop stops at `g·f^n` -/
theorem expandTo_cases (res : K → K) (f : K) (n : Nat) (g : K) :
    (∃ k, k ≤ n ∧ FirstPos res g f k ∧ expandTo res f n g = g * f ^ k) ∨
    (NoPos res g f n ∧ expandTo res f n g = g * f ^ n) := by
  rcases firstPos_or_noPos res g f n with ⟨k, hk, hf⟩ | hno
  · exact Or.inl ⟨k, hk, hf, expandTo_of_firstPos res f n g k hk hf⟩
  · exact Or.inr ⟨hno, expandTo_of_noPos res f n g hno⟩

/-- `solveCore` without its local definitions -/
theorem solveCore_eq (res : K → K) (brent : K → K → Option K) (P : Params K) :
    solveCore res brent P =
      if res 0 > 0 then Res.none
      else if res (expandTo res P.factor P.maxExpand P.guess) > 0 then
        Res.ofOption (brent 0 (expandTo res P.factor P.maxExpand P.guess))
      else if P.symmetric = true then
        if res (expandTo res P.factor P.maxExpand (-P.guess)) > 0 then
          Res.ofOption (brent (expandTo res P.factor P.maxExpand (-P.guess)) 0)
        else Res.none
      else Res.none := rfl

theorem ofOption_ne_error {α : Type} (o : Option α) : Res.ofOption o ≠ Res.error := by
  cases o <;> (intro h; cases h)

theorem ofOption_eq_ok {α : Type} (o : Option α) (x : α) : Res.ofOption o = Res.ok x ↔ o = some x := by
  cases o with
  | none => exact ⟨fun h => (by cases h), fun h => (by cases h)⟩
  | some y => exact ⟨fun h => (by cases h; rfl), fun h => (by cases h; rfl)⟩

theorem ofOption_eq_none {α : Type} (o : Option α) : Res.ofOption o = Res.none ↔ o = none := by
  cases o with
  | none => exact ⟨fun _ => rfl, fun _ => rfl⟩
  | some y => exact ⟨fun h => (by cases h), fun h => (by cases h)⟩


end HitenModel.C09
