/- Lemmas/C06.lean — index tables of the packed polynomial layout: enumeration, counting, 6-bit packing, encode/decode. -/
import Mathlib.Data.List.Basic
import Mathlib.Data.List.Nodup
import Mathlib.Data.List.Range
import Mathlib.Data.List.GetD
import Mathlib.Data.Nat.Bitwise
import Mathlib.Data.Nat.Choose.Basic
import Mathlib.Tactic.Ring
import Mathlib.Tactic.Linarith
import HitenModel.Core.C06

namespace HitenModel.C06

/-! ### the nested-loop enumeration lists every multi-index of degree `d` exactly once -/

theorem mem_enum : ∀ (n d : Nat) (v : List Nat), v ∈ enum n d ↔ (v.length = n ∧ v.sum = d)
  | 0, d, v => by
    unfold enum; split
    · subst_vars
      constructor
      · intro h; rw [List.mem_singleton] at h; subst h; exact ⟨rfl, rfl⟩
      · rintro ⟨h, _⟩; rw [List.length_eq_zero_iff.mp h]; exact List.mem_singleton.mpr rfl
    · rename_i h
      constructor
      · intro hv; cases hv
      · rintro ⟨hl, hs⟩
        rw [List.length_eq_zero_iff.mp hl] at hs; exact absurd hs.symm h
  | 1, d, v => by
    unfold enum; simp; constructor
    · rintro rfl; simp
    · rintro ⟨hl, hs⟩
      obtain ⟨a, rfl⟩ := List.length_eq_one_iff.mp hl
      simp at hs; simp [hs]
  | (n+2), d, v => by
    unfold enum
    simp only [List.mem_flatMap, List.mem_reverse, List.mem_range, List.mem_map]
    constructor
    · rintro ⟨k, hk, w, hw, rfl⟩
      have := (mem_enum (n+1) (d-k) w).mp hw
      simp [this.1, this.2]; omega
    · rintro ⟨hl, hs⟩
      match v, hl with
      | k :: w, hl =>
        simp at hs hl
        refine ⟨k, by omega, w, ?_, rfl⟩
        exact (mem_enum (n+1) (d-k) w).mpr ⟨hl, by omega⟩

theorem nodup_enum : ∀ (n d : Nat), (enum n d).Nodup
  | 0, d => by unfold enum; split <;> simp
  | 1, d => by unfold enum; simp
  | (n+2), d => by
    unfold enum
    rw [List.nodup_flatMap]
    constructor
    · intro k _
      exact (nodup_enum (n+1) (d-k)).map (fun a b h => by simpa using h)
    · have hnd : ((List.range (d+1)).reverse).Nodup := List.nodup_reverse.mpr List.nodup_range
      refine hnd.pairwise_of_forall_ne ?_
      intro a _ b _ hab
      simp only [Function.onFun, List.disjoint_left, List.mem_map]
      rintro v ⟨w, _, rfl⟩ ⟨w', _, h⟩
      simp at h; exact hab h.1.symm

/-! ### counting: `psi[6,d] = C(d+5,5)` = number of slots -/

theorem length_enum_step (n d : Nat) :
    (enum (n+2) (d+1)).length = (enum (n+2) d).length + (enum (n+1) (d+1)).length := by
  conv_lhs => unfold enum
  rw [List.range_succ_eq_map, List.reverse_cons, List.flatMap_append, List.length_append]
  congr 1
  · conv_rhs => unfold enum
    rw [← List.map_reverse, List.flatMap_map]
    simp only [List.length_flatMap, List.length_map]
    congr 1
    apply List.map_congr_left
    intro k _
    simp
  · simp

theorem length_enum : ∀ (n d : Nat), (enum (n+1) d).length = Nat.choose (d+n) n
  | 0, d => by simp [enum]
  | n+1, 0 => by
    have ih := length_enum n 0
    unfold enum
    simp at ih ⊢
    exact ih
  | n+1, d+1 => by
    rw [length_enum_step, length_enum (n+1) d, length_enum n (d+1)]
    have : d + 1 + (n + 1) = (d + n + 1) + 1 := by omega
    rw [this, Nat.choose_succ_succ (d+n+1) n]
    have e1 : d + (n+1) = d + n + 1 := by omega
    have e2 : d + 1 + n = d + n + 1 := by omega
    rw [e1, e2, Nat.succ_eq_add_one]; omega

theorem combGo_choose (n : Nat) : ∀ (s j : Nat), j + s ≤ n → combGo n s (j+1) (Nat.choose n j) = Nat.choose n (j+s)
  | 0, j, _ => rfl
  | s+1, j, h => by
    unfold combGo
    have : Nat.choose n j * (n - (j+1) + 1) / (j+1) = Nat.choose n (j+1) := by
      have h1 : n - (j+1) + 1 = n - j := by omega
      rw [h1, ← Nat.choose_succ_right_eq, Nat.mul_div_cancel _ (Nat.succ_pos j)]
    rw [this, combGo_choose n s (j+1) (by omega)]; congr 1; omega

theorem comb_eq_choose (n k : Nat) : comb n k = Nat.choose n k := by
  unfold comb
  split
  · rename_i h; exact (Nat.choose_eq_zero_of_lt h).symm
  · rename_i h
    split
    · rename_i h2; rcases h2 with rfl | rfl <;> simp
    · rename_i h2
      simp only
      split
      · rename_i h3
        split
        · omega
        · have := combGo_choose n (n-k) 0 (by omega)
          simp at this; rw [this]; exact Nat.choose_symm (by omega)
      · split
        · omega
        · have := combGo_choose n k 0 (by omega)
          simpa using this

theorem psi_succ (i d : Nat) : psi (i+1) d = Nat.choose (d+i) i := by
  unfold psi; simp [comb_eq_choose]

theorem psi6_eq_length (d : Nat) : psi 6 d = (clmoModel d).length := by
  rw [psi_succ 5 d]; unfold clmoModel; rw [List.length_map, length_enum 5 d]


/-! ### 6-bit packing -/

theorem or_shift_add (a b : Nat) (i : Nat) (h : a < 2 ^ i) : a ||| (b <<< i) = a + b * 2 ^ i := by
  rw [Nat.shiftLeft_eq, Nat.or_comm, Nat.mul_comm, ← Nat.two_pow_add_eq_or_of_lt h, Nat.add_comm]

theorem and63 (x : Nat) : x &&& 0x3F = x % 64 := by
  have := Nat.and_two_pow_sub_one_eq_mod x 6
  simpa using this

theorem pack_arith (k0 k1 k2 k3 k4 k5 : Nat) (h1 : k1 < 64) (h2 : k2 < 64) (h3 : k3 < 64) (h4 : k4 < 64) (h5 : k5 < 64) :
    pack [k0, k1, k2, k3, k4, k5] = k1 + k2 * 64 + k3 * 4096 + k4 * 262144 + k5 * 16777216 := by
  unfold pack
  simp only [List.getD_cons_succ, List.getD_cons_zero, and63]
  rw [Nat.mod_eq_of_lt h1, Nat.mod_eq_of_lt h2, Nat.mod_eq_of_lt h3, Nat.mod_eq_of_lt h4, Nat.mod_eq_of_lt h5]
  rw [or_shift_add _ _ 6 (by omega), or_shift_add _ _ 12 (by omega), or_shift_add _ _ 18 (by omega), or_shift_add _ _ 24 (by omega)]
  omega

theorem decodePacked_arith (d p : Nat) :
    decodePacked d p = [d - (p % 64 + p / 64 % 64 + p / 4096 % 64 + p / 262144 % 64 + p / 16777216 % 64),
      p % 64, p / 64 % 64, p / 4096 % 64, p / 262144 % 64, p / 16777216 % 64] := by
  unfold decodePacked
  simp only [and63, Nat.shiftRight_eq_div_pow]

theorem decodePacked_of_arith (d k0 k1 k2 k3 k4 k5 : Nat) (h1 : k1 < 64) (h2 : k2 < 64) (h3 : k3 < 64) (h4 : k4 < 64) (h5 : k5 < 64)
    (hs : k0 + k1 + k2 + k3 + k4 + k5 = d) :
    decodePacked d (k1 + k2 * 64 + k3 * 4096 + k4 * 262144 + k5 * 16777216) = [k0, k1, k2, k3, k4, k5] := by
  rw [decodePacked_arith]
  have e1 : (k1 + k2 * 64 + k3 * 4096 + k4 * 262144 + k5 * 16777216) % 64 = k1 := by omega
  have e2 : (k1 + k2 * 64 + k3 * 4096 + k4 * 262144 + k5 * 16777216) / 64 % 64 = k2 := by omega
  have e3 : (k1 + k2 * 64 + k3 * 4096 + k4 * 262144 + k5 * 16777216) / 4096 % 64 = k3 := by omega
  have e4 : (k1 + k2 * 64 + k3 * 4096 + k4 * 262144 + k5 * 16777216) / 262144 % 64 = k4 := by omega
  have e5 : (k1 + k2 * 64 + k3 * 4096 + k4 * 262144 + k5 * 16777216) / 16777216 % 64 = k5 := by omega
  rw [e1, e2, e3, e4, e5]
  congr 1
  omega

/-- a list of length 6 is `[k0,…,k5]` -/
theorem length_six {k : List Nat} (h : k.length = 6) : ∃ k0 k1 k2 k3 k4 k5, k = [k0, k1, k2, k3, k4, k5] := by
  match k, h with
  | [k0, k1, k2, k3, k4, k5], _ => exact ⟨k0, k1, k2, k3, k4, k5, rfl⟩

/-- `unpack ∘ pack = id` for exponents ≤ 63 (the degree argument being the true total degree) -/
theorem decodePacked_pack {k : List Nat} (hl : k.length = 6) (hb : ∀ x ∈ k.tail, x ≤ 63) :
    decodePacked k.sum (pack k) = k := by
  obtain ⟨k0, k1, k2, k3, k4, k5, rfl⟩ := length_six hl
  simp only [List.tail_cons, List.mem_cons, List.not_mem_nil, or_false, forall_eq_or_imp, forall_eq] at hb
  obtain ⟨h1, h2, h3, h4, h5⟩ := hb
  rw [pack_arith k0 k1 k2 k3 k4 k5 (by omega) (by omega) (by omega) (by omega) (by omega)]
  apply decodePacked_of_arith <;> first | omega | (simp; omega)

theorem le_sum_of_mem : ∀ {l : List Nat} {x : Nat}, x ∈ l → x ≤ l.sum
  | [], _, h => by cases h
  | y :: ys, x, h => by
    rcases List.mem_cons.mp h with rfl | h
    · simp
    · have := le_sum_of_mem h; simp; omega

/-- members of the enumeration of degree `d ≤ 63` have all exponents ≤ 63 -/
theorem enum_bound {d : Nat} {k : List Nat} (hk : k ∈ enum 6 d) : ∀ x ∈ k, x ≤ d := by
  intro x hx
  have := ((mem_enum 6 d k).mp hk).2
  have := le_sum_of_mem hx
  omega

theorem decodePacked_pack_enum {d : Nat} (hd : d ≤ 63) {k : List Nat} (hk : k ∈ enum 6 d) :
    decodePacked d (pack k) = k := by
  have h := (mem_enum 6 d k).mp hk
  have := decodePacked_pack h.1 (fun x hx => by
    have := enum_bound hk x (List.mem_of_mem_tail hx); omega)
  rwa [h.2] at this

theorem pack_injOn_enum {d : Nat} (hd : d ≤ 63) {a b : List Nat} (ha : a ∈ enum 6 d) (hb : b ∈ enum 6 d)
    (h : pack a = pack b) : a = b := by
  rw [← decodePacked_pack_enum hd ha, ← decodePacked_pack_enum hd hb, h]

theorem clmoModel_nodup {d : Nat} (hd : d ≤ 63) : (clmoModel d).Nodup := by
  unfold clmoModel
  exact List.Nodup.map_on (fun a ha b hb h => pack_injOn_enum hd ha hb h) (nodup_enum 6 d)

/-! ### findPos -/

theorem findPos_ge {x : Nat} : ∀ {l : List Nat} {s i : Nat}, findPos x l s = some i → s ≤ i
  | [], _, _, h => by simp [findPos] at h
  | y :: ys, s, i, h => by
    unfold findPos at h
    split at h
    · simp at h; omega
    · have := findPos_ge h; omega

theorem findPos_some {x : Nat} : ∀ {l : List Nat} {s i : Nat}, findPos x l s = some i → l[i - s]? = some x
  | [], _, _, h => by simp [findPos] at h
  | y :: ys, s, i, h => by
    unfold findPos at h
    split at h
    · rename_i hy; simp at h; subst h; simp [hy]
    · have h1 := findPos_ge h
      have h2 := findPos_some h
      have : i - s = (i - (s + 1)) + 1 := by omega
      rw [this]; simpa using h2

theorem findPos_none {x : Nat} : ∀ {l : List Nat} {s : Nat}, findPos x l s = none ↔ x ∉ l
  | [], _ => by simp [findPos]
  | y :: ys, s => by
    unfold findPos
    split
    · rename_i hy; simp [hy]
    · rename_i hy
      rw [findPos_none]; simp; intro _; exact fun h => hy h.symm

theorem findPos_nodup : ∀ {l : List Nat} (_ : l.Nodup) {i : Nat} (hi : i < l.length) (s : Nat), findPos l[i] l s = some (s + i)
  | [], _, i, hi, _ => by simp at hi
  | y :: ys, hn, 0, _, s => by simp [findPos]
  | y :: ys, hn, i + 1, hi, s => by
    have hn' := List.nodup_cons.mp hn
    unfold findPos
    have : y ≠ (y :: ys)[i + 1] := by
      intro h; apply hn'.1; rw [h]; simp
    rw [if_neg this]
    simp only [List.getElem_cons_succ]
    rw [findPos_nodup hn'.2 (by simpa using hi) (s + 1)]
    congr 1; omega

/-! ### the tables: `decode`/`encode` are mutually inverse -/

theorem mkTables_length (D : Nat) : (mkTables D).length = D + 1 := by simp [mkTables]

theorem mkTables_getD {D d : Nat} (h : d ≤ D) : (mkTables D).getD d [] = clmoModel d := by
  unfold mkTables
  rw [List.getD_eq_getElem?_getD, List.getElem?_map, List.getElem?_range (by omega)]
  rfl

theorem clmoModel_getD {d i : Nat} (hi : i < (enum 6 d).length) : (clmoModel d).getD i 0 = pack ((enum 6 d)[i]) := by
  unfold clmoModel
  rw [List.getD_eq_getElem?_getD, List.getElem?_map, List.getElem?_eq_getElem hi]
  rfl

/-- `decode` reads back the `i`-th multi-index of the enumeration -/
theorem decode_table {D d i : Nat} (hD : D ≤ 63) (hd : d ≤ D) (hi : i < (enum 6 d).length) :
    decode (mkTables D) i d = (enum 6 d)[i] := by
  unfold decode
  rw [mkTables_getD hd, clmoModel_getD hi]
  exact decodePacked_pack_enum (by omega) (List.getElem_mem hi)

/-- `encode` of the `i`-th multi-index of the enumeration is `i` -/
theorem encode_table {D d i : Nat} (hD : D ≤ 63) (hd : d ≤ D) (hi : i < (enum 6 d).length) :
    encode (mkTables D) ((enum 6 d)[i]) d = some i := by
  unfold encode
  rw [mkTables_length, if_pos (by omega), mkTables_getD hd]
  have hn := clmoModel_nodup (d := d) (by omega)
  have hi' : i < (clmoModel d).length := by unfold clmoModel; simpa using hi
  have := findPos_nodup hn hi' 0
  have e : (clmoModel d)[i] = pack ((enum 6 d)[i]) := by
    have := clmoModel_getD hi
    rw [List.getD_eq_getElem?_getD, List.getElem?_eq_getElem hi'] at this
    simpa using this
  rw [e] at this; simpa using this

theorem tail_decodePacked (d d' p : Nat) : (decodePacked d p).tail = (decodePacked d' p).tail := by
  simp [decodePacked]

/-- `pack` determines the five stored exponents (when they are ≤ 63) -/
theorem pack_tail_inj {a b : List Nat} (ha : a.length = 6) (hb : b.length = 6) (ha' : ∀ x ∈ a.tail, x ≤ 63)
    (hb' : ∀ x ∈ b.tail, x ≤ 63) (h : pack a = pack b) : a.tail = b.tail := by
  have h1 := decodePacked_pack ha ha'
  have h2 := decodePacked_pack hb hb'
  rw [← h1, ← h2, h]
  exact tail_decodePacked _ _ _

theorem pack_head_irrelevant (x y : Nat) (t : List Nat) : pack (x :: t) = pack (y :: t) := by
  simp [pack]

/-- every multi-index of degree `d` (six exponents summing to `d`) has a slot, `encode` finds it and `decode` returns
the multi-index -/
theorem encode_of_degree {D d : Nat} (hD : D ≤ 63) (hd : d ≤ D) {k : List Nat} (hl : k.length = 6) (hs : k.sum = d) :
    ∃ i, i < psi 6 d ∧ encode (mkTables D) k d = some i ∧ decode (mkTables D) i d = k := by
  have hk : k ∈ enum 6 d := (mem_enum 6 d k).mpr ⟨hl, hs⟩
  obtain ⟨i, hi, rfl⟩ := List.getElem_of_mem hk
  refine ⟨i, ?_, encode_table hD hd hi, decode_table hD hd hi⟩
  rw [psi6_eq_length]; unfold clmoModel; simpa using hi

/-- what `encode` returns in general: it ignores `k[0]`, so the slot it finds is the one of `(degree − Σ tail) :: tail` -/
theorem encode_some_decode {D d : Nat} (hD : D ≤ 63) (hd : d ≤ D) {k : List Nat} (hl : k.length = 6)
    (hb : ∀ x ∈ k.tail, x ≤ 63) {i : Nat} (h : encode (mkTables D) k d = some i) :
    i < psi 6 d ∧ decode (mkTables D) i d = (d - k.tail.sum) :: k.tail := by
  unfold encode at h
  rw [mkTables_length, if_pos (by omega), mkTables_getD hd] at h
  have h1 := findPos_some h
  simp only [Nat.sub_zero] at h1
  have hi : i < (clmoModel d).length := by
    by_contra hc
    rw [List.getElem?_eq_none (by omega)] at h1; cases h1
  have hi' : i < (enum 6 d).length := by unfold clmoModel at hi; simpa using hi
  have e : (clmoModel d)[i]? = some (pack ((enum 6 d)[i])) := by unfold clmoModel; simp [hi']
  rw [e] at h1
  have hp : pack ((enum 6 d)[i]) = pack k := by simpa using h1
  have hm := List.getElem_mem hi'
  have hmm := (mem_enum 6 d _).mp hm
  have ht := pack_tail_inj hmm.1 hl (fun x hx => by
    have := enum_bound hm x (List.mem_of_mem_tail hx); omega) hb hp
  refine ⟨by rw [psi6_eq_length]; exact hi, ?_⟩
  rw [decode_table hD hd hi']
  obtain ⟨a0, a1, a2, a3, a4, a5, ha⟩ := length_six hmm.1
  rw [ha] at ht hmm ⊢
  simp only [List.tail_cons] at ht
  rw [← ht]
  simp only [List.sum_cons, List.sum_nil] at hmm ⊢
  congr 1; omega

/-- `encode` answers `-1` exactly when the five stored exponents alone already exceed the degree argument -/
theorem encode_none_iff {D d : Nat} (hD : D ≤ 63) (hd : d ≤ D) {k : List Nat} (hl : k.length = 6)
    (hb : ∀ x ∈ k.tail, x ≤ 63) : encode (mkTables D) k d = none ↔ d < k.tail.sum := by
  constructor
  · intro h
    by_contra hc
    obtain ⟨k0, k1, k2, k3, k4, k5, rfl⟩ := length_six hl
    simp only [List.tail_cons] at hc hb
    have hl' : ((d - [k1, k2, k3, k4, k5].sum) :: [k1, k2, k3, k4, k5]).length = 6 := rfl
    obtain ⟨i, _, hi, _⟩ := encode_of_degree hD hd hl' (by rw [List.sum_cons]; omega)
    unfold encode at h hi
    rw [pack_head_irrelevant _ k0] at hi
    rw [hi] at h; cases h
  · intro h
    cases he : encode (mkTables D) k d with
    | none => rfl
    | some i =>
      have := (encode_some_decode hD hd hl hb he).2
      have hm : decode (mkTables D) i d ∈ enum 6 d := by
        have hi := (encode_some_decode hD hd hl hb he).1
        rw [psi6_eq_length] at hi
        have hi' : i < (enum 6 d).length := by unfold clmoModel at hi; simpa using hi
        rw [decode_table hD hd hi']; exact List.getElem_mem hi'
      rw [this] at hm
      have := ((mem_enum 6 d _).mp hm).2
      simp only [List.sum_cons] at this
      omega

/-- out-of-range degree argument: `-1` -/
theorem encode_degree_out_of_range {D d : Nat} (h : D < d) (k : List Nat) : encode (mkTables D) k d = none := by
  unfold encode; rw [mkTables_length, if_neg (by omega)]


end HitenModel.C06
