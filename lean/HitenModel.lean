-- This module serves as the root of the `HitenModel` library.
-- Import modules here that should be built as part of the library.
import HitenModel.Basic
