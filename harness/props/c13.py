"""C13 — continuation produces valid members, respects bounds and reports what happened.

Hand model `lean/HitenModel/Core/C13.lean` (backend loop, steppers, secant support, interface predictor, period assignment)
with the corrector as an oracle; theorems in `Props/C13.lean` hold for every oracle behaviour and configuration.
T-corr: the REAL backend (built by the real pipeline factory, driven through the real interface's `to_backend_inputs`)
is run with scripted correctors on dyadic data; the recorded oracle answers are replayed on the Lean model
(`Drivers/C13.lean`) and complete traces (family, parameters, counts, every prediction, every step vector) are compared
for equality.  The property clauses are additionally evaluated directly on every real trace (failing-input search)."""
from __future__ import annotations

import itertools
import types
from fractions import Fraction

import numpy as np


def fr(x):
    q = Fraction(float(x))
    return str(q.numerator) if q.denominator == 1 else "%d/%d" % (q.numerator, q.denominator)


def vec(v):
    return " ".join(fr(x) for x in np.asarray(v, dtype=float).ravel())


def vecs(vs):
    return ";".join(vec(v) for v in vs)


class Case:
    def __init__(self, **kw):
        self.__dict__.update(kw)

    def act(self, i):
        a = self.script[i] if i < len(self.script) else "R"
        return a

    def key(self):
        return (self.stepper, "".join(self.script), self.max_members, self.max_retries, tuple(self.step), self.step_min,
                self.step_max, tuple(self.tmin), tuple(self.tmax), tuple(self.seed), self.idx, tuple(map(tuple, self.deltas)))

    def to_json(self):
        d = dict(self.__dict__)
        d["deltas"] = [list(map(float, x)) for x in self.deltas]
        return {k: (list(v) if isinstance(v, (tuple, np.ndarray)) else v) for k, v in d.items()}


def run_real(case):
    """Run the real backend on the scripted corrector; returns (trace dict, recorded oracle answers)."""
    from hiten.algorithms.continuation.base import ContinuationPipeline
    from hiten.algorithms.continuation.types import _ContinuationProblem
    cfg = types.SimpleNamespace(stepper=case.stepper)
    pipe = ContinuationPipeline.with_default_engine(config=cfg)
    intf = pipe._interface
    recorded = []
    preds = []
    k = [0]

    def corrector(pred):
        i = k[0]
        k[0] += 1
        preds.append(np.asarray(pred, dtype=float).copy())
        act = case.script[i] if i < len(case.script) else "R"
        if act == "A":
            corrected = np.asarray(pred, dtype=float) + np.asarray(case.deltas[i % len(case.deltas)], dtype=float)
            per = case.periods[i % len(case.periods)]
            recorded.append(("ok", corrected.copy(), per))
            aux = {"period": per} if per is not None else {}
            return corrected, 0.0, True, aux
        if act == "X":
            recorded.append(("fail",))
            raise RuntimeError("scripted corrector failure")
        recorded.append(("fail",))
        return np.asarray(pred, dtype=float), 1.0, False

    intf._build_corrector = lambda problem: corrector
    pidx = list(case.pidx)
    prob = _ContinuationProblem(
        initial_solution=np.asarray(case.seed, dtype=float),
        parameter_getter=lambda v: np.asarray(v, dtype=float)[pidx],
        target=np.array([list(case.tmin), list(case.tmax)], dtype=float),
        step=np.asarray(case.step, dtype=float),
        max_members=case.max_members, max_retries_per_step=case.max_retries,
        representation_of=lambda v: np.asarray(v, dtype=float),
        step_min=case.step_min, step_max=case.step_max, stepper=case.stepper,
        state_indices=None if case.idx is None else np.asarray(case.idx, dtype=int),
        shrink_policy=shrink_policy_of(case))
    call = intf.to_backend_inputs(prob)
    resp = pipe._backend.run(request=call.request)
    info = resp.info
    tr = {
        "family": [np.asarray(v, dtype=float) for v in resp.family_repr],
        "params": [np.asarray(v, dtype=float) for v in info["parameter_values"]],
        "counts": (int(info["accepted_count"]), int(info["rejected_count"]), int(info["iterations"])),
        "step": np.asarray(info["final_step"], dtype=float),
        "preds": preds,
        "aux": [a.get("period") for a in info["aux"]],
        "consumed": k[0],
    }
    return tr, recorded, (intf, prob, resp)


def shrink_policy_of(case):
    """None (library default: halving), a dyadic factor (custom policy `step -> factor*step`) or "raise" (a policy that raises: the stepper
    falls back to halving)"""
    sh = getattr(case, "shrink", None)
    if sh is None:
        return None
    if sh == "raise":
        def bad(step):
            raise ValueError("scripted shrink policy failure")
        return bad
    return lambda step: np.asarray(step, dtype=float) * float(sh)


def shrink_factor(case):
    sh = getattr(case, "shrink", None)
    return 0.5 if sh in (None, "raise") else float(sh)


def _rat_norm_ok(v):
    import math
    q = sum(Fraction(float(x)) ** 2 for x in np.asarray(v, dtype=float).ravel())
    n, d = q.numerator, q.denominator
    return math.isqrt(n) ** 2 == n and math.isqrt(d) ** 2 == d


def exact_comparable(case, tr):
    """secant cases are compared exactly only when every Euclidean length the run needs is rational"""
    if case.stepper != "secant":
        return True
    fam = tr["family"]
    vs = [fam[i + 1] - fam[i] for i in range(len(fam) - 1)] + [p - fam[0] for p in tr["preds"][:1]]
    cur = np.asarray(case.step, dtype=float)
    vs.append(cur)
    for i in range(tr["consumed"]):
        cur = np.sign(cur) * np.clip(np.abs(cur if case.act(i) == "A" else cur * shrink_factor(case)), case.step_min, case.step_max)
        vs.append(cur)
    if not all(_rat_norm_ok(v) for v in vs):
        return False
    # the unit tangent must be exactly representable too (e.g. (3,4)/5 is not dyadic): require axis-aligned or 1-D secants
    for v in vs[:len(fam)]:
        if np.count_nonzero(v) > 1:
            return False
    return True


def driver_text(case, recorded):
    L = ["cfg %d %d %s %s %d" % (case.max_members, case.max_retries, fr(case.step_min), fr(case.step_max), 1 if case.stepper == "secant" else 0),
         "tmin " + vec(case.tmin), "tmax " + vec(case.tmax),
         "idx none" if case.idx is None else "idx " + " ".join(str(i) for i in case.idx),
         "pidx " + " ".join(str(i) for i in case.pidx),
         "shrink " + fr(shrink_factor(case)),
         "seed " + vec(case.seed), "step " + vec(case.step)]
    for r in recorded:
        if r[0] == "ok":
            L.append("o ok %s %s" % ("none" if r[2] is None else fr(r[2]), vec(r[1])))
        else:
            L.append("o fail")
    L += ["o fail"] * 3          # surplus answers: a model that wants to go on would consume them
    L.append("run")
    return L


def real_lines(case, tr):
    return ["family " + vecs(tr["family"]), "params " + vecs(tr["params"]), "counts %d %d %d" % tr["counts"],
            "step " + vec(tr["step"]), "preds " + vecs(tr["preds"]), "consumed %d" % tr["consumed"]]


def property_clauses(ctx, case, tr):
    """The property evaluated directly on a real trace; returns (key, message) of the first failing clause."""
    fam, par = tr["family"], tr["params"]
    acc, rej, it = tr["counts"]
    nA = sum(1 for i in range(tr["consumed"]) if case.act(i) == "A")
    nR = tr["consumed"] - nA
    if len(fam) > max(case.max_members, 1):
        return "member-limit", "family has %d members > max_members=%d" % (len(fam), case.max_members)
    if acc != len(fam) or rej != nR or it != tr["consumed"] or acc != nA + 1:
        return "counts", "reported accepted/rejected/iterations %r do not match the events (accepts=%d, rejects=%d, calls=%d)" % (
            (acc, rej, it), nA, nR, tr["consumed"])
    tmin, tmax = np.asarray(case.tmin), np.asarray(case.tmax)
    for i in range(1, len(par) - 1):
        if np.any(par[i] < tmin) or np.any(par[i] > tmax):
            return "target-stop", "member %d (not the last of %d) lies outside the target interval" % (i, len(par))
    # step discipline and retry limit, replaying the script
    cur = np.asarray(case.step, dtype=float)
    consec = 0
    mem = 0
    for i in range(tr["consumed"]):
        last = fam[mem]
        pred = tr["preds"][i]
        if case.stepper == "natural":
            exp = last.copy()
            if case.idx is None:
                exp = exp + cur
            else:
                for j, d in zip(case.idx, cur):
                    exp[j] += d
            if not np.array_equal(pred, exp):
                return "prediction-offset", "prediction %d is not last member + current step (natural)" % i
        else:
            ds = float(np.linalg.norm(cur))
            off = pred - last
            if abs(float(np.linalg.norm(off)) - ds) > 1e-12 * (1 + ds) + 8e-16 * (1 + float(np.linalg.norm(fam[mem]))):
                return "prediction-offset", "secant prediction %d is offset by %g, current step length %g" % (i, np.linalg.norm(off), ds)
            if mem >= 1:
                sec = fam[mem] - fam[mem - 1]
                ns = float(np.linalg.norm(sec))
                # the offset is a difference of O(1) numbers: its direction is known to ~eps*|member|/|offset| (tiny steps after many shrinks)
                if ns > 0 and float(np.linalg.norm(off / ds - sec / ns)) > 1e-12 + 8e-16 * (1 + float(np.linalg.norm(fam[mem]))) * (1 / ds + 1 / ns):
                    return "prediction-offset", "secant prediction %d is not along the secant through the last two members" % i
        if case.act(i) == "A":
            mem += 1
            consec = 0
            new = np.sign(cur) * np.clip(np.abs(cur), case.step_min, case.step_max)
        else:
            consec += 1
            sf = shrink_factor(case)
            new = np.sign(cur * sf) * np.clip(np.abs(cur * sf), case.step_min, case.step_max)
            nz = cur != 0
            if sf <= 1 and np.any(np.abs(new[nz]) > np.abs(cur[nz])) and np.all(np.abs(cur[nz]) >= case.step_min):
                return "step-shrink", "step grew after a failed correction"
        cur = new
        nzn = cur != 0
        if np.any(np.abs(cur[nzn]) < case.step_min) or np.any(np.abs(cur[nzn]) > case.step_max):
            return "step-bounds", "step magnitude left [step_min, step_max]"
        if consec > case.max_retries + 1:
            return "retry-limit", "more than max_retries+1 consecutive failed corrections at one member"
    if not np.array_equal(cur, tr["step"]):
        return "step-bounds", "final step %r differs from the shrink/clamp discipline %r" % (tr["step"].tolist(), cur.tolist())
    # termination reason
    ended_fail = consec == case.max_retries + 1 and tr["consumed"] > 0 and case.act(tr["consumed"] - 1) != "A"
    left = len(par) >= 2 and (np.any(par[-1] < tmin) or np.any(par[-1] > tmax))
    full = len(fam) >= case.max_members
    if not (ended_fail or left or full):
        return "early-stop", "run stopped although member limit, retry limit and target interval all allow another member"
    return None


def gen_cases(ctx):
    rng = ctx.rng
    cases = []
    L = 6 if ctx.thorough() else 5
    dirs2 = [np.array([3.0, 4.0]) / 8, np.array([1.0, 0.0]), np.array([0.0, -1.0])]
    # exhaustive scripts over {A,R,X} up to length L for a few configurations
    cfgs = []
    for stepper in ("natural", "secant"):
        for mm, mr in ((3, 1), (4, 0), (2, 2), (4, 2)):
            cfgs.append((stepper, mm, mr))
    for stepper, mm, mr in cfgs:
        for n in range(0, L + 1):
            for script in itertools.product("ARX", repeat=n):
                if script.count("X") > 1 or (n >= 4 and rng.random() < (0.6 if not ctx.thorough() else 0.3)):
                    continue
                cases.append(make_case(rng, stepper, mm, mr, list(script), dirs2))
    # random long histories
    for _ in range(3000 if ctx.thorough() else 80):
        stepper = rng.choice(["natural", "secant"])
        n = rng.randint(6, 40)
        script = [rng.choice("AAARRX") for _ in range(n)]
        cases.append(make_case(rng, stepper, rng.randint(1, 12), rng.randint(0, 4), script, dirs2))
    return cases


def make_case(rng, stepper, mm, mr, script, dirs2):
    dim = rng.choice([1, 2, 3]) if stepper == "natural" else rng.choice([1, 2])
    if stepper == "natural":
        seed = [rng.randint(-4, 4) / 4 for _ in range(dim)]
        nidx = rng.choice([None, 1, dim])
        if nidx is None:
            idx, step = None, [rng.choice([-1, 1]) * rng.choice([0.5, 0.25, 1.0, 2.0, 0.0]) for _ in range(dim)]
        else:
            idx = rng.sample(range(dim), nidx)
            step = [rng.choice([-1, 1]) * rng.choice([0.5, 0.25, 1.0, 2.0]) for _ in range(nidx)]
        deltas = [[rng.choice([0, 0, 1, -1, 2]) / 64 for _ in range(dim)] for _ in range(5)]
    else:
        seed = [rng.randint(-4, 4) / 4 for _ in range(dim)]
        idx = list(range(dim))
        if dim == 1:
            step = [rng.choice([-1, 1]) * rng.choice([0.5, 0.25, 1.0])]
            deltas = [[rng.choice([0, 1, -1, 2]) / 64] for _ in range(5)]
        else:
            d = dirs2[rng.randrange(len(dirs2))] * rng.choice([-1, 1])
            step = list(d * rng.choice([1.0, 0.5, 2.0]))
            # corrections move along the same line so that every secant has a rational length
            deltas = [list(d * rng.choice([0, 1, -1, 2]) / 16) for _ in range(5)]
    pidx = [rng.randrange(dim)]
    lo = rng.choice([-8.0, -1.0, -0.5])
    hi = rng.choice([8.0, 1.0, 0.5, 0.75])
    smin = rng.choice([2.0 ** -10, 0.125, 0.25])
    smax = rng.choice([1.0, 0.5, 4.0])
    if stepper == "secant" and dim == 2:
        # component-wise clamping of an oblique step would make its Euclidean length irrational: keep the bounds
        # loose for oblique 2-D secant cases (1-D secant cases exercise the clamping)
        smin, smax = 2.0 ** -20, 64.0
    periods = [rng.choice([None, 2.0, 2.5, 3.25]) for _ in range(4)]
    # shrink policy: mostly the library default (None = halving); custom dyadic factors (aggressive 1/8, 1/4; growing 2: the clamp must
    # hold for every policy) and a policy that raises
    shrink = rng.choice([None, None, None, 0.125, 0.25, 0.75, 2.0, "raise"])
    if stepper == "secant" and dim == 2 and shrink not in (None, "raise"):
        shrink = rng.choice([0.25, 2.0])
    return Case(shrink=shrink, stepper=stepper, max_members=mm, max_retries=mr, script=script, seed=seed, step=step, idx=None if idx is None else tuple(idx),
                pidx=pidx, tmin=[lo], tmax=[hi], step_min=smin, step_max=smax, deltas=deltas, periods=periods)


def run(ctx):
    ok = ctx.lean_build(["HitenModel.Props.C13"])
    if ok:
        ctx.lean_audit(["HitenModel.Props.C13"], ["HitenModel.Props.C13", "HitenModel.Core.C13"])
        if ctx.thorough():
            ctx.leanchecker(["HitenModel.Props.C13"])
    cases = gen_cases(ctx)
    text, expected, owners = [], [], []
    for ci, case in enumerate(cases):
        tr, recorded, extra = run_real(case)
        ctx.case(case.key(), nontrivial=len(case.script) >= 2 and "A" in case.script, kind=case.stepper + ":len%d" % min(len(case.script), 8),
                 sample={"stepper": case.stepper, "script": "".join(case.script), "max_members": case.max_members,
                         "max_retries": case.max_retries, "step": case.step, "family_size": len(tr["family"])} if ci % 400 == 7 else None)
        bad = property_clauses(ctx, case, tr)
        if bad is not None:
            ctx.violation("clause:" + bad[0], bad[1], {"case": case.to_json(), "family": [v.tolist() for v in tr["family"]],
                                                       "params": [v.tolist() for v in tr["params"]], "counts": tr["counts"],
                                                       "final_step": tr["step"].tolist(), "predictions": [p.tolist() for p in tr["preds"]]})
            if len(ctx.violations) >= 3:
                break
        if not exact_comparable(case, tr):
            ctx.hist["secant:inexact-skipped"] = ctx.hist.get("secant:inexact-skipped", 0) + 1
            continue
        lines = driver_text(case, recorded)
        text += lines
        expected.append(real_lines(case, tr))
        owners.append(case)
        # period assignment through the real interface.to_domain
        intf, prob, resp = extra
        intf._instantiate = lambda dom, rep: types.SimpleNamespace(period=5.5, rep=np.asarray(rep))
        payload = intf.to_domain(resp, problem=prob)
        got = [getattr(o, "period", None) for o in payload.family[1:]]
        # the model is told the periods the CORRECTOR reported for the accepted members, in order (the oracle record) -- not the backend's own
        # bookkeeping of them, which is part of what is being checked
        oks = [r[2] for r in recorded if r[0] == "ok"][:max(0, len(resp.family_repr) - 1)]
        text.append("periods 11/2 %d %s" % (len(resp.family_repr), " ".join("none" if a is None else fr(a) for a in oks)))
        expected[-1].append("periods 11/2 " + " ".join(fr(p) for p in got) if got else "periods 11/2")
    out = [l for l in ctx.lean_run("Drivers/C13.lean", "\n".join(text) + "\n") if l.strip()]
    # model prints 9 lines per run + 1 for periods; compare the lines we also have from the real run
    pos = 0
    mism = 0
    for case, exp in zip(owners, expected):
        block = out[pos:pos + 10]
        pos += 10
        model = {l.split(" ", 1)[0]: l for l in block}
        for e in exp:
            tag = e.split(" ", 1)[0]
            m = model.get(tag, "<missing>")
            if tag == "periods":
                # real family[0] is the seed object itself; compare members >= 1
                m_rest = " ".join(m.split(" ")[2:])
                e_rest = " ".join(e.split(" ")[2:])
                okl = m_rest == e_rest
            else:
                okl = m.strip() == e.strip()
            if not okl:
                mism += 1
                if mism <= 3:
                    ctx.broken.append(("correspondence:continuation-backend", "model and implementation differ on %s: impl %r model %r (case %s)" % (
                        tag, e[:200], m[:200], case.to_json())))
                ctx.obligations["correspondence:continuation-backend"] = False
                # member period clause: a wrong period assignment is a property violation in itself
                if tag == "periods":
                    ctx.violation("clause:member-period", "a family member does not carry the period of its own correction",
                                  {"case": case.to_json(), "periods_from_interface": e, "expected(model)": m})
                break
    ctx.obligations.setdefault("correspondence:continuation-backend", True)
    ctx.corr_cases = len(owners)
    ctx.extra["correspondence_cases"] = len(owners)
    ctx.extra["correspondence_mismatches"] = mism
    corrector_glue(ctx)
    if not ctx.violations:
        public_plumbing(ctx)
    if ctx.thorough() and not ctx.violations:
        end_to_end(ctx)
    ctx.rule = ("scripted corrector outcome sequences over {Accept, Reject, raise}: exhaustive up to length 5 (6 thorough, thinned) for 8 "
                "configurations + random long histories, natural and secant steppers, random dyadic steps/bounds/targets; distinct by full "
                "configuration; non-trivial = at least 2 calls and one accept")


def corrector_glue(ctx):
    """the interface's own corrector wrapper (`_build_corrector`): a member is the corrected state of ITS prediction, carries
    period = 2*half_period of ITS correction, and an unconverged correction is reported as such"""
    from hiten.algorithms.continuation.interfaces import _OrbitContinuationInterface
    from hiten.algorithms.continuation.types import _ContinuationProblem
    rng = ctx.rng
    calls = []

    class FakeOrbit:
        def __init__(self, libration_point=None, initial_state=None):
            self.libration_point = libration_point
            self.initial_state = np.asarray(initial_state, dtype=float)
            self.period = None

        def correct(self, options=None, **kw):
            k = len(calls)
            delta = np.array([((k + 1) % 3) / 64.0, 0.0, -(k % 2) / 32.0, 0.0, 1.0 / 128.0, 0.0])
            half = 1.25 + k / 16.0
            conv = (k % 4 != 3)
            calls.append((self.initial_state.copy(), delta, half, conv))
            return types.SimpleNamespace(x_corrected=self.initial_state + delta, half_period=half, converged=conv,
                                         iterations=3, residual_norm=0.0)

    seed = FakeOrbit("LP", [0.5, 0.0, 0.25, 0.0, 1.0, 0.0])
    seed.period = 7.0
    prob = _ContinuationProblem(initial_solution=seed, parameter_getter=lambda v: np.asarray(v)[[0]], target=np.array([[0.0], [9.0]]),
                                step=np.array([0.125]), max_members=4, max_retries_per_step=1,
                                representation_of=lambda o: np.asarray(getattr(o, "initial_state", o), dtype=float),
                                state_indices=np.array([0]))
    intf = _OrbitContinuationInterface()
    corr = intf._build_corrector(prob)
    for i in range(8):
        pred = np.array([0.5 + i / 8.0, 0.0, 0.25, 0.0, 1.0 - i / 16.0, 0.0])
        out = corr(pred)
        start, delta, half, conv = calls[-1]
        x, res, ok = out[0], out[1], out[2]
        aux = out[3] if len(out) > 3 else {}
        ctx.case(("corrector-glue", i), nontrivial=True, kind="corrector-glue")
        prob_txt = None
        if not np.array_equal(start, pred):
            prob_txt = "the correction was not started from the prediction"
        elif not np.array_equal(np.asarray(x, dtype=float), pred + delta):
            prob_txt = "the member is not the corrected state of its prediction"
        elif bool(ok) != conv:
            prob_txt = "convergence flag %r reported for a correction that %s" % (ok, "converged" if conv else "did not converge")
        elif not isinstance(aux, dict) or aux.get("period") != 2.0 * half:
            prob_txt = "member period %r is not 2*half_period = %r of its own correction" % (aux.get("period") if isinstance(aux, dict) else aux, 2.0 * half)
        if prob_txt:
            ctx.violation("clause:corrector-glue", prob_txt, {"prediction": pred.tolist(), "corrected": np.asarray(x).tolist(), "half_period": half,
                                                               "converged": conv, "returned_flag": bool(ok), "aux": repr(aux)})
            return


def public_plumbing(ctx):
    """the public ContinuationPipeline / OrbitContinuationConfig / OrbitContinuationOptions path with several continuation components in the
    USER'S order (also non-ascending, e.g. state=(Z, X)): column k of step / target / parameter_values belongs to state[k].  Real interface,
    backend and natural stepper; only the orbit correction accepts every prediction unchanged, so members == predictions (dyadic data)."""
    from hiten.algorithms.continuation.base import ContinuationPipeline
    from hiten.algorithms.continuation.config import OrbitContinuationConfig
    from hiten.algorithms.continuation.interfaces import _OrbitContinuationInterface
    from hiten.algorithms.continuation.options import OrbitContinuationOptions
    from hiten.algorithms.types.states import SynodicState
    rng = ctx.rng

    class AcceptAll(_OrbitContinuationInterface):
        def __init__(self):
            super().__init__()
            self.predictions = []

        def _build_corrector(self, problem):
            def _correct(prediction):
                pred = np.asarray(prediction, dtype=float).copy()
                self.predictions.append(pred)
                return pred, 0.0, True, {"period": 2.5}
            return _correct

    class Orb:
        def __init__(self, libration_point=None, initial_state=None):
            self.libration_point = libration_point
            self.initial_state = np.asarray(initial_state, dtype=float)
            self.period = 2.5

    comps = [SynodicState.X, SynodicState.Y, SynodicState.Z, SynodicState.VX, SynodicState.VY, SynodicState.VZ]
    for trial in range(6):
        k = rng.choice([2, 2, 3])
        state = tuple(rng.sample(comps, k))
        if trial == 0:
            state = (SynodicState.Z, SynodicState.X)
        idx = [int(c) for c in state]
        step = tuple(rng.choice([-1, 1]) * rng.choice([2.0 ** -4, 2.0 ** -3, 2.0 ** -5, 2.0 ** -2]) for _ in idx)
        seed = Orb("LP", [0.5, 0.25, -0.125, 0.0, 1.0, 0.75])
        s0 = seed.initial_state
        lo = [float(s0[i] - 0.3) for i in idx]
        hi = [float(s0[i] + 0.3) for i in idx]
        spec = state if rng.random() < 0.5 else tuple(int(c) for c in state)     # enums or plain ints
        try:
            cfg = OrbitContinuationConfig(state=spec, stepper="natural")
            opts = OrbitContinuationOptions(target=(lo, hi), step=step, max_members=12, max_retries_per_step=2, step_min=2.0 ** -20, step_max=1.0)
            iface = AcceptAll()
            res = ContinuationPipeline.with_default_engine(config=cfg, interface=iface).generate(seed, opts)
            members = [np.asarray(o.initial_state, dtype=float) for o in res.family]
            params = [np.asarray(p, dtype=float).ravel() for p in res.parameter_values]
        except Exception as ex:
            ctx.notes.append("public_plumbing: pipeline raised %r for state=%r" % (ex, spec))
            ctx.broken.append(("correspondence:public-plumbing", "public pipeline raised %r" % (ex,)))
            ctx.obligations["correspondence:public-plumbing"] = False
            return
        ctx.case(("public-plumbing", tuple(idx), step), nontrivial=idx != sorted(idx), kind="public-plumbing:%s" % ("ascending" if idx == sorted(idx) else "user-order"))
        names = tuple(SynodicState(i).name for i in idx)
        bad = None
        for j, pred in enumerate(iface.predictions):
            if j >= len(members):
                break
            d = pred - members[j]
            if not (np.array_equal(d[idx], np.asarray(step)) and not np.any(np.delete(d, idx))):
                bad = ("prediction-offset", "prediction %d is offset by %r in %r, the configured step is %r" % (j, d[idx].tolist(), names, list(step)))
                break
        if bad is None:
            for j, (m, pv) in enumerate(zip(members, params)):
                if not np.array_equal(pv, m[idx]):
                    bad = ("parameter-values", "member %d: reported parameter %r is not its %r = %r" % (j, pv.tolist(), names, m[idx].tolist()))
                    break
        if bad is None:
            outside = [bool(np.any(m[idx] < np.asarray(lo)) or np.any(m[idx] > np.asarray(hi))) for m in members]
            if any(outside[:-1]):
                bad = ("stops-outside-target", "member %d (not the last) lies outside the target box" % outside.index(True))
            elif len(members) < 12 and not outside[-1]:
                bad = ("stops-outside-target", "generation stopped after %d members although no member left the target box" % len(members))
        if bad:
            ctx.violation("clause:" + bad[0], "public pipeline, state=%r: %s" % (names, bad[1]),
                          {"state": list(names), "state_indices": idx, "step": list(step), "target": [lo, hi], "seed": s0.tolist(),
                           "members": [m.tolist() for m in members], "parameter_values": [p.tolist() for p in params]})
            return


def end_to_end(ctx):
    """thorough: a real Earth-Moon L1 halo family; each member re-closed with SciPy; period of its own correction."""
    from scipy.integrate import solve_ivp
    from hiten import System
    from hiten.algorithms.dynamics.rtbp import _crtbp_accel
    try:
        from hiten.algorithms.continuation.options import OrbitContinuationOptions
        from hiten.algorithms.continuation.config import OrbitContinuationConfig
        from hiten.algorithms.continuation.base import ContinuationPipeline
        from hiten.algorithms.types.states import SynodicState
        sysm = System.from_bodies("earth", "moon")
        L1 = sysm.get_libration_point(1)
        halo = L1.create_orbit("halo", amplitude_z=0.02, zenith="northern")
        halo.correct()
        cfg = OrbitContinuationConfig(state=SynodicState.Z, stepper="natural")
        pipe = ContinuationPipeline.with_default_engine(config=cfg)
        z0 = float(halo.initial_state[2])
        opts = OrbitContinuationOptions(target=(z0, z0 + 0.01), step=0.002, max_members=4)
        res = pipe.generate(halo, opts)
    except Exception as ex:   # API shape differs from what this harness expects: report, do not pass silently
        ctx.notes.append("end-to-end family could not be generated: %r" % (ex,))
        return
    mu = sysm.mu
    for i, orb in enumerate(res.family):
        x0 = np.asarray(orb.initial_state, dtype=float)
        T = float(orb.period)
        sol = solve_ivp(lambda t, y: _crtbp_accel(y, mu), (0, T), x0, method="DOP853", rtol=1e-12, atol=1e-12)
        err = float(np.linalg.norm(sol.y[:, -1] - x0))
        ctx.case(("family-member", i), kind="end-to-end", sample={"member": i, "period": T, "closure": err})
        if not err <= 1e-6:
            ctx.violation("clause:member-periodic", "family member %d does not close after its own period (error %g)" % (i, err),
                          {"member": i, "initial_state": x0.tolist(), "period": T, "closure_error": err})
            return
