/- Drivers/C17.lean — line-protocol driver of the polynomial-Hamiltonian model over exact rationals
   (see harness/props/c17.py).  The wiring of the right-hand side and of the evaluators is the one *generated from the
   current source* (`Gen.C17`). -/
import HitenModel.Core.C17
import HitenModel.Gen.C17
open HitenModel.C17

namespace D17

def parseInt? (s : String) : Option Int :=
  if s.startsWith "-" then (s.drop 1).toNat?.map fun n => -(Int.ofNat n) else s.toNat?.map Int.ofNat

def parseRat? (s : String) : Option Rat :=
  match s.splitOn "/" with
  | [n] => (parseInt? n).map fun i => (i : Rat)
  | [n, d] => do
      let i ← parseInt? n
      let k ← d.toNat?
      if k = 0 then none else some ((i : Rat) / (k : Rat))
  | _ => none

def showRat (r : Rat) : String := if r.den = 1 then toString r.num else s!"{r.num}/{r.den}"
def showRats (v : List Rat) : String := " ".intercalate (v.map showRat)
def showNats (v : List Nat) : String := " ".intercalate (v.map toString)
def words (line : String) : List String := (line.splitOn " ").filter (· ≠ "")
def rats (ws : List String) : Option (List Rat) := ws.mapM parseRat?
def nats (ws : List String) : Option (List Nat) := ws.mapM String.toNat?

def showPoly (p : Poly Rat) : String :=
  " ; ".intercalate (p.map fun m => s!"{showRat m.c} {showNats m.e}")

structure Sess where
  poly : Poly Rat := []
  blocks : List (List Rat) := []
  tabA : List (List Rat) := []
  tabB : List Rat := []
  grid : List Rat := []

def nV : Nat := HitenModel.Gen.C17.nVars
def jacOf (p : Poly Rat) : List (Poly Rat) := jacobian nV p
def stateFn (z : List Rat) : Nat → Rat := fun j => z.getD j 0

/-- the model vector field of the current polynomial (traced wiring) -/
def field (p : Poly Rat) (y : List Rat) : List Rat :=
  rhsBy HitenModel.Gen.C17.rhsWiring HitenModel.Gen.C17.rhsSrc (jacOf p) (stateFn y)

def handle (s : Sess) (line : String) : IO Sess := do
  match words line with
  | ["enum", n, d] =>
      match n.toNat?, d.toNat? with
      | some n, some d => IO.println ("enum " ++ " ; ".intercalate ((enumExps n d).map showNats)); return s
      | _, _ => IO.println "bad-op"; return s
  | ["poly"] => return { s with poly := [], blocks := [] }
  | "m" :: c :: es =>
      match parseRat? c, nats es with
      | some c, some e => return { s with poly := s.poly ++ [⟨c, e⟩] }
      | _, _ => IO.println "bad-op"; return s
  | "blk" :: cs =>
      match rats cs with
      | some c => return { s with blocks := s.blocks ++ [c] }
      | none => IO.println "bad-op"; return s
  | ["unpack"] =>
      let p := unpack nV s.blocks
      IO.println ("unpacked " ++ showPoly p)
      return { s with poly := p }
  | ["jac"] =>
      let js := jacOf s.poly
      for (j, i) in js.zipIdx do
        IO.println s!"jac {i} : {showPoly j}"
      return s
  | "at" :: zs =>
      match rats zs with
      | some z =>
          let jac := jacOf s.poly
          let Q := z.take 3
          let P := z.drop 3
          IO.println s!"H {showRat (Poly.eval (stateFn z) s.poly)}"
          IO.println s!"rhs {showRats (field s.poly z)}"
          IO.println s!"dq {showRats (gradBy HitenModel.Gen.C17.dQIdx HitenModel.Gen.C17.dQPoint jac Q P)}"
          IO.println s!"dp {showRats (gradBy HitenModel.Gen.C17.dPIdx HitenModel.Gen.C17.dPPoint jac Q P)}"
          IO.println s!"hder {showRats (hderBy HitenModel.Gen.C17.hderWiring HitenModel.Gen.C17.hderPoint jac Q P)}"
          return s
      | none => IO.println "bad-op"; return s
  | ["tab"] => return { s with tabA := [], tabB := [] }
  | "rowA" :: ws =>
      match rats ws with
      | some r => return { s with tabA := s.tabA ++ [r] }
      | none => IO.println "bad-op"; return s
  | "rowB" :: ws =>
      match rats ws with
      | some r => return { s with tabB := r }
      | none => IO.println "bad-op"; return s
  | "grid" :: ws =>
      match rats ws with
      | some r => return { s with grid := r }
      | none => IO.println "bad-op"; return s
  | "fixed" :: ys =>
      match rats ys with
      | some y0 =>
          let prog := fixedDriver s.tabA s.tabB s.grid y0
          let f := field s.poly
          let res := prog.run f
          let tr := prog.transcript f
          IO.println s!"fixed {res.length} {tr.length}"
          for (y, d) in res do
            IO.println s!"node {showRats y} | {showRats d}"
          for (q, _) in tr do
            IO.println s!"query {showRats q}"
          return s
      | none => IO.println "bad-op"; return s
  | [] => return s
  | _ => IO.println "bad-op"; return s

partial def loop (s : Sess) (h : IO.FS.Stream) : IO Unit := do
  let line ← h.getLine
  if line.isEmpty then return ()
  let s ← handle s ((line.replace "\n" "").replace "\r" "")
  loop s h

end D17

def main : IO Unit := do
  let stdin ← IO.getStdin
  D17.loop {} stdin
