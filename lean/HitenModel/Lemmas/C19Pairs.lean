/-
  Lemmas/C19Pairs.lean — list-level lemmas for the pairing part of the connections model:
  counts / prefix sums / fill layout, membership of the radius pairs, the mutual-best dictionaries,
  nearest neighbours.
-/
import HitenModel.Core.C19
import Mathlib.Order.Basic
import Mathlib.Order.Defs.LinearOrder
import Mathlib.Algebra.Order.Field.Basic
import Mathlib.Data.List.Basic
import Mathlib.Data.List.Nodup
import Mathlib.Data.List.Perm.Basic
import Mathlib.Tactic.Linarith
import Mathlib.Tactic.SplitIfs

namespace HitenModel.C19

section layout
variable {K : Type} [Field K] [LinearOrder K] [IsStrictOrderedRing K]

theorem countRow_eq (r2 : K) (p : Pt K) : ∀ (ref : List (Pt K)) (c j : Nat),
    countRow r2 p ref c = c + (hitsRow r2 p ref j).length := by
  intro ref
  induction ref with
  | nil => intro c j; simp [countRow, hitsRow]
  | cons q qs ih =>
    intro c j
    unfold countRow hitsRow
    split_ifs
    · rw [ih (c + 1) (j + 1)]; simp; omega
    · rw [ih c (j + 1)]

theorem hitsRow_cons (r2 : K) (p q : Pt K) (qs : List (Pt K)) (j : Nat) :
    hitsRow r2 p (q :: qs) j = if d2 p q ≤ r2 then j :: hitsRow r2 p qs (j + 1) else hitsRow r2 p qs (j + 1) := by
  rw [hitsRow]

theorem set_append_length {α : Type} (L R : List α) (a x : α) : (L ++ a :: R).set L.length x = L ++ x :: R := by
  induction L with
  | nil => rfl
  | cons b L ih => simp [ih]

theorem fillRow_spec (r2 : K) (i : Nat) (p : Pt K) : ∀ (qs : List (Pt K)) (j w : Nat) (L : List (Option (Nat × Nat))) (m : Nat),
    L.length = w → (hitsRow r2 p qs j).length ≤ m →
    fillRow r2 i p qs j w (L ++ List.replicate m none)
      = L ++ (hitsRow r2 p qs j).map (fun j => some (i, j)) ++ List.replicate (m - (hitsRow r2 p qs j).length) none := by
  intro qs
  induction qs with
  | nil => intro j w L m _ _; simp [fillRow, hitsRow]
  | cons q qs ih =>
    intro j w L m hL hm
    rw [hitsRow_cons] at hm ⊢
    unfold fillRow
    split_ifs at hm ⊢ with h
    · obtain ⟨m', rfl⟩ : ∃ m', m = m' + 1 := ⟨m - 1, by simp at hm; omega⟩
      rw [List.replicate_succ, ← hL, set_append_length]
      have e : L ++ some (i, j) :: List.replicate m' none = (L ++ [some (i, j)]) ++ List.replicate m' none := by simp
      rw [e, ih (j + 1) (L.length + 1) (L ++ [some (i, j)]) m' (by simp) (by simp at hm; omega)]
      simp
    · exact ih (j + 1) w L m hL hm

theorem prefixGo_getD : ∀ (l : List Nat) (s k : Nat), k < l.length → (prefixGo l s).getD k 0 = s + (l.take (k + 1)).sum := by
  intro l
  induction l with
  | nil => intro s k h; simp at h
  | cons a as ih =>
    intro s k h
    cases k with
    | zero => simp [prefixGo]
    | succ k =>
      simp only [prefixGo, List.getD_cons_succ]
      rw [ih (s + a) k (by simpa using h)]
      simp [List.take_succ_cons]; omega

theorem exclPrefix_getD (l : List Nat) (i : Nat) (h : i ≤ l.length) : (exclPrefix l).getD i 0 = (l.take i).sum := by
  cases i with
  | zero => simp [exclPrefix]
  | succ k =>
    simp only [exclPrefix, List.getD_cons_succ]
    rw [prefixGo_getD l 0 k (by omega)]; simp

theorem prefixGo_getLastD : ∀ (l : List Nat) (s : Nat), (prefixGo l s).getLastD s = s + l.sum := by
  intro l
  induction l with
  | nil => intro s; simp [prefixGo]
  | cons a as ih => intro s; simp only [prefixGo, List.getLastD_cons, ih (s + a)]; simp; omega

theorem exclPrefix_getLastD (l : List Nat) : (exclPrefix l).getLastD 0 = l.sum := by
  simp only [exclPrefix, List.getLastD_cons, prefixGo_getLastD]; simp

/-- number of in-radius reference points of one query point -/
def cnt (r2 : K) (ref : List (Pt K)) (p : Pt K) : Nat := (hitsRow r2 p ref 0).length

theorem fillAll_spec (r2 : K) (ref : List (Pt K)) (offs : List Nat) : ∀ (ps : List (Pt K)) (i : Nat) (done : List (Nat × Nat)) (m : Nat),
    (∀ k, k ≤ ps.length → offs.getD (i + k) 0 = done.length + ((ps.take k).map (cnt r2 ref)).sum) →
    m = (ps.map (cnt r2 ref)).sum →
    fillAll r2 ref offs ps i (done.map some ++ List.replicate m none) = (done ++ allPairsFrom r2 ref ps i).map some := by
  intro ps
  induction ps with
  | nil => intro i done m _ hm; subst hm; simp [fillAll, allPairsFrom]
  | cons p ps ih =>
    intro i done m hoffs hm
    unfold fillAll allPairsFrom
    have h0 := hoffs 0 (by simp)
    simp only [Nat.add_zero, List.take_zero, List.map_nil, List.sum_nil] at h0
    have hm' : m = cnt r2 ref p + (ps.map (cnt r2 ref)).sum := by simpa using hm
    have hcp : cnt r2 ref p = (hitsRow r2 p ref 0).length := rfl
    rw [h0, fillRow_spec r2 i p ref 0 done.length (done.map some) m (by simp) (by omega)]
    have e1 : done.map some ++ (hitsRow r2 p ref 0).map (fun j => some (i, j))
        = (done ++ (hitsRow r2 p ref 0).map (fun j => (i, j))).map some := by simp
    rw [e1]
    have e2 : m - (hitsRow r2 p ref 0).length = (ps.map (cnt r2 ref)).sum := by omega
    rw [e2, ih (i + 1) (done ++ (hitsRow r2 p ref 0).map (fun j => (i, j))) _ ?_ rfl]
    · simp
    · intro k hk
      have := hoffs (k + 1) (by simp; omega)
      simp only [List.take_succ_cons, List.map_cons, List.sum_cons] at this
      simp only [List.length_append, List.length_map]
      rw [show i + 1 + k = i + (k + 1) by omega, this]; omega

/-- **prefix_sum_layout**: counts, exclusive prefix sums and the fill loop fit exactly — every slot of the pairs array
is written (no `none` left), no write falls outside or on a slot of another row, and the array is the row-major list
of all in-radius index pairs -/
theorem radpair_eq (query ref : List (Pt K)) (radius : K) :
    radpair query ref radius = (allPairs (radius * radius) query ref).map some := by
  unfold radpair allPairs
  simp only []
  have hc : pairCounts (radius * radius) query ref = query.map (cnt (radius * radius) ref) := by
    unfold pairCounts cnt
    apply List.map_congr_left
    intro p _
    rw [countRow_eq (radius * radius) p ref 0 0]; simp
  rw [hc, exclPrefix_getLastD]
  have := fillAll_spec (radius * radius) ref (exclPrefix (query.map (cnt (radius * radius) ref))) query 0 [] _ ?_ rfl
  · simpa using this
  · intro k hk
    rw [Nat.zero_add, exclPrefix_getD _ k (by simpa using hk), List.map_take]; simp

theorem ptAt_cons_succ (q : Pt K) (qs : List (Pt K)) (n : Nat) : ptAt (q :: qs) (n + 1) = ptAt qs n := by
  simp [ptAt]

theorem ptAt_cons_zero (q : Pt K) (qs : List (Pt K)) : ptAt (q :: qs) 0 = q := by
  simp [ptAt]

theorem mem_hitsRow (r2 : K) (p : Pt K) : ∀ (ref : List (Pt K)) (j j' : Nat),
    j' ∈ hitsRow r2 p ref j ↔ j ≤ j' ∧ j' - j < ref.length ∧ d2 p (ptAt ref (j' - j)) ≤ r2 := by
  intro ref
  induction ref with
  | nil => intro j j'; simp [hitsRow]
  | cons q qs ih =>
    intro j j'
    unfold hitsRow
    have key : j' ∈ hitsRow r2 p qs (j + 1) ↔ j + 1 ≤ j' ∧ j' - (j + 1) < qs.length ∧ d2 p (ptAt qs (j' - (j + 1))) ≤ r2 := ih (j + 1) j'
    constructor
    · intro h
      have hcases : (j' = j ∧ d2 p q ≤ r2) ∨ j' ∈ hitsRow r2 p qs (j + 1) := by
        split_ifs at h with hq
        · rcases List.mem_cons.mp h with rfl | h
          · exact Or.inl ⟨rfl, hq⟩
          · exact Or.inr h
        · exact Or.inr h
      rcases hcases with ⟨rfl, hq⟩ | h
      · simp [ptAt_cons_zero, hq]
      · obtain ⟨h1, h2, h3⟩ := key.mp h
        have e : j' - j = (j' - (j + 1)) + 1 := by omega
        refine ⟨by omega, by simp; omega, ?_⟩
        rw [e, ptAt_cons_succ]; exact h3
    · rintro ⟨h1, h2, h3⟩
      rcases Nat.eq_or_lt_of_le h1 with rfl | hlt
      · simp [ptAt_cons_zero] at h3
        rw [if_pos h3]; exact List.mem_cons_self
      · have e : j' - j = (j' - (j + 1)) + 1 := by omega
        rw [e, ptAt_cons_succ] at h3
        have : j' ∈ hitsRow r2 p qs (j + 1) := key.mpr ⟨by omega, by simp at h2; omega, h3⟩
        split_ifs
        · exact List.mem_cons_of_mem _ this
        · exact this

theorem mem_allPairsFrom (r2 : K) (ref : List (Pt K)) : ∀ (ps : List (Pt K)) (i a b : Nat),
    (a, b) ∈ allPairsFrom r2 ref ps i ↔
      i ≤ a ∧ a - i < ps.length ∧ b < ref.length ∧ d2 (ptAt ps (a - i)) (ptAt ref b) ≤ r2 := by
  intro ps
  induction ps with
  | nil => intro i a b; simp [allPairsFrom]
  | cons p ps ih =>
    intro i a b
    unfold allPairsFrom
    rw [List.mem_append, ih (i + 1) a b]
    constructor
    · rintro (h | ⟨h1, h2, h3, h4⟩)
      · obtain ⟨j, hj, hEq⟩ := List.mem_map.mp h
        obtain ⟨rfl, rfl⟩ := Prod.mk.inj hEq
        obtain ⟨_, h2, h3⟩ := (mem_hitsRow r2 p ref 0 j).mp hj
        simp only [Nat.sub_zero] at h2 h3
        simp [ptAt_cons_zero, h2, h3]
      · have e : a - i = (a - (i + 1)) + 1 := by omega
        refine ⟨by omega, by simp; omega, h3, ?_⟩
        rw [e, ptAt_cons_succ]; exact h4
    · rintro ⟨h1, h2, h3, h4⟩
      rcases Nat.eq_or_lt_of_le h1 with rfl | hlt
      · left
        simp [ptAt_cons_zero] at h4
        exact List.mem_map.mpr ⟨b, (mem_hitsRow r2 p ref 0 b).mpr ⟨Nat.zero_le _, by simpa using h3, by simpa using h4⟩, rfl⟩
      · right
        have e : a - i = (a - (i + 1)) + 1 := by omega
        rw [e, ptAt_cons_succ] at h4
        exact ⟨by omega, by simp at h2; omega, h3, h4⟩

theorem mem_pairsArr (inp : Input K) (i j : Nat) :
    (i, j) ∈ pairsArr inp ↔
      i < inp.pu.length ∧ j < inp.ps.length ∧ d2 (ptAt inp.pu i) (ptAt inp.ps j) ≤ inp.eps * inp.eps := by
  unfold pairsArr
  rw [radpair_eq]
  have : ((allPairs (inp.eps * inp.eps) inp.pu inp.ps).map some).filterMap id = allPairs (inp.eps * inp.eps) inp.pu inp.ps := by
    rw [List.filterMap_map]; simp
  rw [this]
  unfold allPairs
  rw [mem_allPairsFrom]
  simp

end layout

/-! ### mutual-best dictionaries -/
section best
variable {K : Type} [Field K] [LinearOrder K] [IsStrictOrderedRing K]

def keys (b : Best K) : List Nat := b.map (·.1)

theorem lookupB_upsert_ne (k : Nat) (v : K) (x : Nat) {k' : Nat} (hne : k' ≠ k) : ∀ b : Best K,
    lookupB k' (upsert k v x b) = lookupB k' b := by
  intro b
  induction b with
  | nil => simp [upsert, lookupB, Ne.symm hne]
  | cons e t ih =>
    obtain ⟨ke, ve, xe⟩ := e
    unfold upsert
    split_ifs with h1 h2
    · subst h1; simp [lookupB, Ne.symm hne]
    · rfl
    · simp only [lookupB, ih]

theorem lookupB_upsert_self (k : Nat) (v : K) (x : Nat) : ∀ b : Best K,
    lookupB k (upsert k v x b) =
      match lookupB k b with
      | none => some (v, x)
      | some (v0, x0) => if v < v0 then some (v, x) else some (v0, x0) := by
  intro b
  induction b with
  | nil => simp [upsert, lookupB]
  | cons e t ih =>
    obtain ⟨ke, ve, xe⟩ := e
    unfold upsert
    split_ifs with h1 h2
    · subst h1; simp [lookupB, h2]
    · subst h1; simp [lookupB, h2]
    · simp only [lookupB, if_neg h1, ih]

theorem keys_upsert (k : Nat) (v : K) (x : Nat) : ∀ b : Best K,
    keys (upsert k v x b) = if k ∈ keys b then keys b else keys b ++ [k] := by
  intro b
  induction b with
  | nil => simp [upsert, keys]
  | cons e t ih =>
    obtain ⟨ke, ve, xe⟩ := e
    by_cases h1 : ke = k
    · subst h1
      have : keys (upsert ke v x ((ke, ve, xe) :: t)) = ke :: keys t := by
        simp only [upsert, if_true]
        split_ifs <;> simp [keys]
      rw [this]; simp [keys]
    · have : keys (upsert k v x ((ke, ve, xe) :: t)) = ke :: keys (upsert k v x t) := by
        simp only [upsert, if_neg h1]; simp [keys]
      rw [this, ih]
      have hmem : k ∈ keys ((ke, ve, xe) :: t) ↔ k ∈ keys t := by
        simp only [keys, List.map_cons, List.mem_cons]
        constructor
        · rintro (h | h)
          · exact absurd h.symm h1
          · exact h
        · exact Or.inr
      by_cases hk : k ∈ keys t
      · rw [if_pos hk, if_pos (hmem.mpr hk)]; simp [keys]
      · rw [if_neg hk, if_neg (mt hmem.mp hk)]; simp [keys]

theorem keys_nodup_upsert (k : Nat) (v : K) (x : Nat) (b : Best K) (h : (keys b).Nodup) : (keys (upsert k v x b)).Nodup := by
  rw [keys_upsert]
  split_ifs with hk
  · exact h
  · exact List.Nodup.append h (List.nodup_singleton k) (by simpa using hk)

theorem lookupB_of_mem : ∀ (b : Best K), (keys b).Nodup → ∀ k v x, (k, v, x) ∈ b → lookupB k b = some (v, x) := by
  intro b
  induction b with
  | nil => intro _ k v x h; simp at h
  | cons e t ih =>
    obtain ⟨ke, ve, xe⟩ := e
    intro hn k v x hm
    simp only [keys, List.map_cons, List.nodup_cons] at hn
    rcases List.mem_cons.mp hm with heq | hm
    · obtain ⟨rfl, rfl, rfl⟩ := Prod.mk.inj heq |>.imp id Prod.mk.inj
      simp [lookupB]
    · have hk : ke ≠ k := by
        rintro rfl
        exact hn.1 (List.mem_map.mpr ⟨(ke, v, x), hm, rfl⟩)
      simp only [lookupB, if_neg hk]
      exact ih hn.2 k v x hm

/-- invariant of one dictionary: `seen` = the (key, partner) pairs processed so far, `val` = the squared distance -/
def Spec (val : Nat → Nat → K) (seen : List (Nat × Nat)) (b : Best K) : Prop :=
  (keys b).Nodup ∧
  (∀ k v x, lookupB k b = some (v, x) → (k, x) ∈ seen ∧ v = val k x ∧ ∀ x', (k, x') ∈ seen → v ≤ val k x') ∧
  (∀ k, lookupB k b = none → ∀ x', (k, x') ∉ seen)

theorem Spec_nil (val : Nat → Nat → K) : Spec val [] ([] : Best K) := by
  refine ⟨by simp [keys], ?_, ?_⟩
  · intro k v x h; simp [lookupB] at h
  · intro k _ x'; simp

theorem Spec_upsert {val : Nat → Nat → K} {seen : List (Nat × Nat)} {b : Best K} (h : Spec val seen b) (k0 x0 : Nat) :
    Spec val ((k0, x0) :: seen) (upsert k0 (val k0 x0) x0 b) := by
  obtain ⟨hn, hs, hnone⟩ := h
  refine ⟨keys_nodup_upsert _ _ _ _ hn, ?_, ?_⟩
  · intro k v x hl
    by_cases hk : k = k0
    · subst hk
      rw [lookupB_upsert_self] at hl
      cases hb : lookupB k b with
      | none =>
        rw [hb] at hl
        obtain ⟨rfl, rfl⟩ := Prod.mk.inj (Option.some.inj hl)
        refine ⟨List.mem_cons_self, rfl, ?_⟩
        intro x' hx'
        rcases List.mem_cons.mp hx' with heq | hx'
        · obtain ⟨_, rfl⟩ := Prod.mk.inj heq; exact le_refl _
        · exact absurd hx' (hnone k hb x')
      | some vx =>
        obtain ⟨v0, xb⟩ := vx
        rw [hb] at hl
        obtain ⟨hmem, hv0, hmin⟩ := hs k v0 xb hb
        simp only at hl
        split_ifs at hl with hlt
        · obtain ⟨rfl, rfl⟩ := Prod.mk.inj (Option.some.inj hl)
          refine ⟨List.mem_cons_self, rfl, ?_⟩
          intro x' hx'
          rcases List.mem_cons.mp hx' with heq | hx'
          · obtain ⟨_, rfl⟩ := Prod.mk.inj heq; exact le_refl _
          · exact hlt.le.trans (hmin x' hx')
        · obtain ⟨rfl, rfl⟩ := Prod.mk.inj (Option.some.inj hl)
          refine ⟨List.mem_cons_of_mem _ hmem, hv0, ?_⟩
          intro x' hx'
          rcases List.mem_cons.mp hx' with heq | hx'
          · obtain ⟨_, rfl⟩ := Prod.mk.inj heq; exact not_lt.mp hlt
          · exact hmin x' hx'
    · rw [lookupB_upsert_ne _ _ _ hk] at hl
      obtain ⟨hmem, hv0, hmin⟩ := hs k v x hl
      refine ⟨List.mem_cons_of_mem _ hmem, hv0, ?_⟩
      intro x' hx'
      rcases List.mem_cons.mp hx' with heq | hx'
      · exact absurd (Prod.mk.inj heq).1 hk
      · exact hmin x' hx'
  · intro k hl x' hx'
    by_cases hk : k = k0
    · subst hk
      rw [lookupB_upsert_self] at hl
      cases hb : lookupB k b with
      | none => rw [hb] at hl; simp at hl
      | some vx =>
        obtain ⟨v0, xb⟩ := vx
        rw [hb] at hl
        simp only at hl
        split_ifs at hl
    · rw [lookupB_upsert_ne _ _ _ hk] at hl
      rcases List.mem_cons.mp hx' with heq | hx'
      · exact hk (Prod.mk.inj heq).1
      · exact hnone k hl x' hx'

def valI (pu ps : List (Pt K)) : Nat → Nat → K := fun i j => d2 (ptAt pu i) (ptAt ps j)
def valJ (pu ps : List (Pt K)) : Nat → Nat → K := fun j i => d2 (ptAt pu i) (ptAt ps j)

theorem bestFold_spec (pu ps : List (Pt K)) : ∀ (l : List (Nat × Nat)) (bi bj : Best K) (seen : List (Nat × Nat)),
    Spec (valI pu ps) seen bi → Spec (valJ pu ps) (seen.map Prod.swap) bj →
    Spec (valI pu ps) (l.reverse ++ seen) (bestFold pu ps l (bi, bj)).1 ∧
    Spec (valJ pu ps) ((l.reverse ++ seen).map Prod.swap) (bestFold pu ps l (bi, bj)).2 := by
  intro l
  induction l with
  | nil => intro bi bj seen h1 h2; simpa [bestFold] using ⟨h1, h2⟩
  | cons ij t ih =>
    obtain ⟨i, j⟩ := ij
    intro bi bj seen h1 h2
    unfold bestFold
    have h1' := Spec_upsert h1 i j
    have h2' : Spec (valJ pu ps) (((i, j) :: seen).map Prod.swap) (upsert j (valJ pu ps j i) i bj) := by
      simpa using Spec_upsert h2 j i
    have := ih _ _ _ h1' h2'
    simpa [valI, valJ] using this

theorem mem_mutualFilter (bj : Best K) : ∀ (bi : Best K) (i j : Nat),
    (i, j) ∈ mutualFilter bj bi → ∃ vi, (i, vi, j) ∈ bi ∧ lookupB j bj = some (vi, i) := by
  intro bi
  induction bi with
  | nil => intro i j h; simp [mutualFilter] at h
  | cons e t ih =>
    obtain ⟨ie, ve, je⟩ := e
    intro i j h
    unfold mutualFilter at h
    cases hl : lookupB je bj with
    | none =>
      rw [hl] at h
      obtain ⟨vi, h1, h2⟩ := ih i j h
      exact ⟨vi, List.mem_cons_of_mem _ h1, h2⟩
    | some vx =>
      obtain ⟨vj, ii⟩ := vx
      rw [hl] at h
      simp only at h
      split_ifs at h with hc
      · rcases List.mem_cons.mp h with heq | h
        · obtain ⟨rfl, rfl⟩ := Prod.mk.inj heq
          obtain ⟨rfl, rfl⟩ := hc
          exact ⟨ve, List.mem_cons_self, hl⟩
        · obtain ⟨vi, h1, h2⟩ := ih i j h
          exact ⟨vi, List.mem_cons_of_mem _ h1, h2⟩
      · obtain ⟨vi, h1, h2⟩ := ih i j h
        exact ⟨vi, List.mem_cons_of_mem _ h1, h2⟩

theorem mutualFilter_fst_sublist (bj : Best K) : ∀ (bi : Best K), ((mutualFilter bj bi).map Prod.fst).Sublist (keys bi) := by
  intro bi
  induction bi with
  | nil => simp [mutualFilter, keys]
  | cons e t ih =>
    obtain ⟨ie, ve, je⟩ := e
    unfold mutualFilter
    cases hl : lookupB je bj with
    | none => simpa [keys] using ih.trans (List.sublist_cons_self _ _)
    | some vx =>
      obtain ⟨vj, ii⟩ := vx
      simp only
      split_ifs
      · simpa [keys] using ih
      · simpa [keys] using ih.trans (List.sublist_cons_self _ _)

/-- the pairs kept by the mutual-best filter: in the candidate list, and each is a nearest candidate of the other -/
theorem mutualPairs_spec (pu ps : List (Pt K)) (l : List (Nat × Nat)) (i j : Nat) (h : (i, j) ∈ mutualPairs pu ps l) :
    (i, j) ∈ l ∧
    (∀ j', (i, j') ∈ l → d2 (ptAt pu i) (ptAt ps j) ≤ d2 (ptAt pu i) (ptAt ps j')) ∧
    (∀ i', (i', j) ∈ l → d2 (ptAt pu i) (ptAt ps j) ≤ d2 (ptAt pu i') (ptAt ps j)) := by
  unfold mutualPairs at h
  simp only [] at h
  obtain ⟨hI, hJ⟩ := bestFold_spec pu ps l [] [] [] (Spec_nil _) (by simpa using Spec_nil _)
  simp only [List.append_nil] at hI hJ
  obtain ⟨vi, hmem, hlook⟩ := mem_mutualFilter _ _ i j h
  have hli := lookupB_of_mem _ hI.1 i vi j hmem
  obtain ⟨m1, v1, min1⟩ := hI.2.1 i vi j hli
  obtain ⟨m2, v2, min2⟩ := hJ.2.1 j vi i hlook
  refine ⟨by simpa using m1, ?_, ?_⟩
  · intro j' hj'
    have := min1 j' (by simpa using hj')
    rw [v1] at this; exact this
  · intro i' hi'
    have := min2 i' (by simpa using hi')
    rw [v2] at this; exact this

/-- one-to-one: no unstable index and no stable index occurs in two mutual pairs -/
theorem mutualPairs_nodup (pu ps : List (Pt K)) (l : List (Nat × Nat)) :
    ((mutualPairs pu ps l).map Prod.fst).Nodup ∧ ((mutualPairs pu ps l).map Prod.snd).Nodup := by
  obtain ⟨hI, hJ⟩ := bestFold_spec pu ps l [] [] [] (Spec_nil _) (by simpa using Spec_nil _)
  have h1 : ((mutualPairs pu ps l).map Prod.fst).Nodup := by
    unfold mutualPairs
    exact (mutualFilter_fst_sublist _ _).nodup hI.1
  refine ⟨h1, ?_⟩
  have hnd : (mutualPairs pu ps l).Nodup := List.Nodup.of_map _ h1
  refine List.Nodup.map_on ?_ hnd
  rintro ⟨i, j⟩ hx ⟨i', j'⟩ hy hEq
  simp only at hEq
  subst hEq
  unfold mutualPairs at hx hy
  obtain ⟨_, _, hl1⟩ := mem_mutualFilter _ _ i j hx
  obtain ⟨_, _, hl2⟩ := mem_mutualFilter _ _ i' j hy
  rw [hl1] at hl2
  have := (Prod.mk.inj (Option.some.inj hl2)).2
  rw [this]

end best

/-! ### nearest neighbour inside a cloud -/
section nn
variable {K : Type} [Field K] [LinearOrder K] [IsStrictOrderedRing K]

/-- invariant of the scan of `_nearest_neighbor_2d_numba` after the indices `< N` (of the absolute point map `P`) -/
def NNInv (i : Nat) (pi : Pt K) (P : Nat → Pt K) (N : Nat) : Option (K × Nat) → Prop
  | none => ∀ k, k < N → k = i
  | some (bd, bj) => bj ≠ i ∧ bj < N ∧ bd = d2 pi (P bj) ∧ ∀ k, k < N → k ≠ i → bd ≤ d2 pi (P k)

theorem nnRow_spec (i : Nat) (pi : Pt K) (P : Nat → Pt K) : ∀ (qs : List (Pt K)) (j : Nat) (b : Option (K × Nat)),
    (∀ k, k < qs.length → P (j + k) = ptAt qs k) → NNInv i pi P j b →
    NNInv i pi P (j + qs.length) (nnRow i pi qs j b) := by
  intro qs
  induction qs with
  | nil => intro j b _ h; simpa [nnRow] using h
  | cons q qs ih =>
    intro j b hP h
    have hPq : P j = q := by have := hP 0 (by simp); simpa [ptAt_cons_zero] using this
    have hP' : ∀ k, k < qs.length → P (j + 1 + k) = ptAt qs k := by
      intro k hk
      have := hP (k + 1) (by simp; omega)
      rw [ptAt_cons_succ] at this
      rw [← this]; congr 1; omega
    have e : j + (q :: qs).length = j + 1 + qs.length := by simp; omega
    rw [e]
    unfold nnRow
    split_ifs with hji
    · -- the point itself is skipped
      apply ih (j + 1) b hP'
      cases b with
      | none =>
        intro k hk
        rcases Nat.lt_succ_iff_lt_or_eq.mp hk with hk | hk
        · exact h k hk
        · rw [hk, hji]
      | some bb =>
        obtain ⟨bd, bj⟩ := bb
        obtain ⟨h1, h2, h3, h4⟩ := h
        refine ⟨h1, by omega, h3, ?_⟩
        intro k hk hne
        rcases Nat.lt_succ_iff_lt_or_eq.mp hk with hk | hk
        · exact h4 k hk hne
        · exact absurd (hk.trans hji) hne
    · cases b with
      | none =>
        apply ih (j + 1) _ hP'
        refine ⟨hji, by omega, by rw [hPq], ?_⟩
        intro k hk hne
        rcases Nat.lt_succ_iff_lt_or_eq.mp hk with hk | hk
        · exact absurd (h k hk) hne
        · rw [hk, hPq]
      | some bb =>
        obtain ⟨bd, bj⟩ := bb
        obtain ⟨h1, h2, h3, h4⟩ := h
        simp only
        split_ifs with hlt
        · apply ih (j + 1) _ hP'
          refine ⟨hji, by omega, by rw [hPq], ?_⟩
          intro k hk hne
          rcases Nat.lt_succ_iff_lt_or_eq.mp hk with hk | hk
          · exact hlt.le.trans (h4 k hk hne)
          · rw [hk, hPq]
        · apply ih (j + 1) _ hP'
          refine ⟨h1, by omega, h3, ?_⟩
          intro k hk hne
          rcases Nat.lt_succ_iff_lt_or_eq.mp hk with hk | hk
          · exact h4 k hk hne
          · rw [hk, hPq]; exact not_lt.mp hlt

theorem nnFrom_getD (pts : List (Pt K)) : ∀ (ps : List (Pt K)) (i k : Nat), k < ps.length →
    (nnFrom pts ps i).getD k none = (nnRow (i + k) (ptAt ps k) pts 0 none).map (·.2) := by
  intro ps
  induction ps with
  | nil => intro i k h; simp at h
  | cons p ps ih =>
    intro i k h
    cases k with
    | zero => simp [nnFrom, ptAt_cons_zero]
    | succ k =>
      simp only [nnFrom, List.getD_cons_succ, ptAt_cons_succ]
      rw [ih (i + 1) k (by simpa using h)]
      congr 2; omega

/-- `nnAll` returns, for every point, the first nearest *other* point (or nothing when the cloud has one point) -/
theorem nnAll_spec (pts : List (Pt K)) (i : Nat) (hi : i < pts.length) :
    match (nnAll pts).getD i none with
    | none => pts.length ≤ 1
    | some j => j ≠ i ∧ j < pts.length ∧
        ∀ k, k < pts.length → k ≠ i → d2 (ptAt pts i) (ptAt pts j) ≤ d2 (ptAt pts i) (ptAt pts k) := by
  unfold nnAll
  rw [nnFrom_getD pts pts 0 i hi]
  have h := nnRow_spec (0 + i) (ptAt pts i) (fun k => ptAt pts k) pts 0 none (by intro k _; simp)
    (by intro k hk; omega)
  cases hr : nnRow (0 + i) (ptAt pts i) pts 0 none with
  | none =>
    rw [hr] at h
    simp only [Option.map_none]
    by_contra hlen
    have h0 := h 0 (by omega)
    have h1 := h 1 (by omega)
    omega
  | some bb =>
    obtain ⟨bd, bj⟩ := bb
    rw [hr] at h
    obtain ⟨h1, h2, h3, h4⟩ := h
    simp only [Option.map_some]
    refine ⟨by omega, by omega, ?_⟩
    intro k hk hne
    have := h4 k (by omega) (by omega)
    rw [h3] at this
    exact this

end nn

/-! ### refinement of one pair, and a list lemma for the one-to-one statement -/
section refine
variable {K : Type} [Field K] [LinearOrder K] [IsStrictOrderedRing K]

theorem refineOne_valid {closest : ClosestFn K} {maxLen : K} {pu ps : List (Pt K)} {nnu nns : List (Option Nat)}
    {ij : Nat × Nat} (h : (refineOne closest maxLen pu ps nnu nns ij).valid = true) :
    ∃ iu js, nnu.getD ij.1 none = some iu ∧ nns.getD ij.2 none = some js ∧
      refineOne closest maxLen pu ps nnu nns ij =
        { point := (half * ((closest (ptAt pu ij.1).1 (ptAt pu ij.1).2 (ptAt pu iu).1 (ptAt pu iu).2
                              (ptAt ps ij.2).1 (ptAt ps ij.2).2 (ptAt ps js).1 (ptAt ps js).2).2.2.1
                      + (closest (ptAt pu ij.1).1 (ptAt pu ij.1).2 (ptAt pu iu).1 (ptAt pu iu).2
                              (ptAt ps ij.2).1 (ptAt ps ij.2).2 (ptAt ps js).1 (ptAt ps js).2).2.2.2.2.1),
                    half * ((closest (ptAt pu ij.1).1 (ptAt pu ij.1).2 (ptAt pu iu).1 (ptAt pu iu).2
                              (ptAt ps ij.2).1 (ptAt ps ij.2).2 (ptAt ps js).1 (ptAt ps js).2).2.2.2.1
                      + (closest (ptAt pu ij.1).1 (ptAt pu ij.1).2 (ptAt pu iu).1 (ptAt pu iu).2
                              (ptAt ps ij.2).1 (ptAt ps ij.2).2 (ptAt ps js).1 (ptAt ps js).2).2.2.2.2.2)),
          u0 := ij.1, u1 := iu, s0 := ij.2, s1 := js,
          s := (closest (ptAt pu ij.1).1 (ptAt pu ij.1).2 (ptAt pu iu).1 (ptAt pu iu).2
                  (ptAt ps ij.2).1 (ptAt ps ij.2).2 (ptAt ps js).1 (ptAt ps js).2).1,
          t := (closest (ptAt pu ij.1).1 (ptAt pu ij.1).2 (ptAt pu iu).1 (ptAt pu iu).2
                  (ptAt ps ij.2).1 (ptAt ps ij.2).2 (ptAt ps js).1 (ptAt ps js).2).2.1,
          valid := true } := by
  unfold refineOne at h ⊢
  simp only [] at h ⊢
  generalize nnu.getD ij.1 none = x at h ⊢
  generalize nns.getD ij.2 none = y at h ⊢
  cases x with
  | none => simp [fallback] at h
  | some iu =>
    cases y with
    | none => simp [fallback] at h
    | some js =>
      simp only [] at h ⊢
      split_ifs at h ⊢ with c1 c2
      · simp [fallback] at h
      · simp [fallback] at h
      · exact ⟨iu, js, rfl, rfl, rfl⟩

theorem filterMap_map_sublist {α β γ : Type} {f : α → Option β} {g : β → γ} {h : α → γ}
    (H : ∀ a b, f a = some b → g b = h a) : ∀ l : List α, ((l.filterMap f).map g).Sublist (l.map h) := by
  intro l
  induction l with
  | nil => simp
  | cons a t ih =>
    cases hf : f a with
    | none =>
      rw [List.filterMap_cons_none hf]
      exact ih.trans (by simp)
    | some b =>
      rw [List.filterMap_cons_some hf]
      simp only [List.map_cons, H a b hf]
      exact ih.cons₂ _

end refine

end HitenModel.C19
