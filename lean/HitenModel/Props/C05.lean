/-
  Props/C05.lean — property C05, solver sentences:
    "If the iteration cannot meet the tolerance it raises an error and never hands back an unconverged state; with
     line search enabled the residual norm never increases from one iterate to the next and no update exceeds the
     configured step cap."
  Theorems about the model `Core/C05.lean` of `_NewtonBackend.run`, `_ArmijoLineSearch.__call__` and the plain stepper,
  valid over EVERY linearly ordered field `K`, EVERY residual-norm oracle `N` (values, NaNs, exceptions), EVERY linear-solve
  oracle `solve`, every start point, tolerance, iteration cap and step cap.  The model is tied to the code by the exact
  oracle-replay correspondence of harness/props/c05.py (the driver executes the very same definitions at `K = Rat`);
  the shipped default parameters are regenerated from the live objects into `Gen/C05.lean`.
-/
import HitenModel.Core.C05
import HitenModel.Lemmas.C05
import HitenModel.Gen.C05
import Mathlib.Data.List.Chain
import Mathlib.Algebra.Order.Archimedean.Basic
import Mathlib.Algebra.Order.Field.Rat
import Mathlib.Tactic.NormNum
import HitenModel.Lemmas.REReal
import HitenModel.Lemmas.Mirror
import Mathlib.Tactic.FinCases
import Mathlib.Tactic.Ring
import Mathlib.Tactic.IntervalCases

namespace HitenModel.Props.C05
open HitenModel.C05 HitenModel.Lemmas.C05

set_option linter.unusedSectionVars false

variable {K : Type} [Field K] [LinearOrder K] [IsStrictOrderedRing K]

/-! ### the line search -/

/-- `x'` is a trial point `x0 + ρ^j · δ` of the line search and `n` is the residual norm the oracle reports there -/
def IsTrial (N : List K → NormRes K) (ρ : K) (x0 δ x' : List K) (n α : K) : Prop :=
  N x' = .val n ∧ ∃ j : ℕ, α = ρ ^ j ∧ x' = axpy α x0 δ

/-- what a line-search result guarantees (`δ` is the capped direction) -/
def StepSpec (N : List K → NormRes K) (cfg : ArmijoCfg K) (x0 δ : List K) (cur : Option K) : StepRes K → Prop
  | .armijo x' n α _ => IsTrial N cfg.rho x0 δ x' n α ∧ cfg.minAlpha ≤ α ∧
      ∃ c0, cur = some c0 ∧ n ≤ (1 - cfg.c * α) * c0
  | .fallback x' n α _ => IsTrial N cfg.rho x0 δ x' n α ∧ cfg.minAlpha ≤ α ∧ 0 < α ∧ ∃ c0, cur = some c0 ∧ n < c0
  | .failed _ => True
  | .outOfFuel => True

/-- loop invariant: the remembered best point is a genuine trial point that strictly improves on the current norm -/
def BestOK (N : List K → NormRes K) (cfg : ArmijoCfg K) (x0 δ : List K) (cur : Option K)
    (best : Option (List K × K × K)) : Prop :=
  ∀ bx bn ba, best = some (bx, bn, ba) →
    IsTrial N cfg.rho x0 δ bx bn ba ∧ cfg.minAlpha ≤ ba ∧ ∃ c0, cur = some c0 ∧ bn < c0

theorem armijoFinish_spec (N : List K → NormRes K) (cfg : ArmijoCfg K) (x0 δ : List K) (cur : Option K)
    (best : Option (List K × K × K)) (t : ℕ) (hb : BestOK N cfg x0 δ cur best) :
    StepSpec N cfg x0 δ cur (armijoFinish best t) := by
  unfold armijoFinish
  split
  · rename_i bx bn ba
    obtain ⟨h1, h2, h3⟩ := hb bx bn ba rfl
    split
    · rename_i hpos; exact ⟨h1, h2, hpos, h3⟩
    · trivial
  · trivial

theorem armijoLoop_spec (N : List K → NormRes K) (cfg : ArmijoCfg K) (x0 δ : List K) (cur : Option K) :
    ∀ (fuel : ℕ) (α : K) (best : Option (List K × K × K)) (t j : ℕ), α = cfg.rho ^ j → BestOK N cfg x0 δ cur best →
      StepSpec N cfg x0 δ cur (armijoLoop N cfg x0 δ cur fuel α best t) := by
  intro fuel
  induction fuel with
  | zero =>
    intro α best t j _ hb
    simp only [armijoLoop]
    split
    · trivial
    · exact armijoFinish_spec N cfg x0 δ cur best t hb
  | succ fuel ih =>
    intro α best t j hα hb
    have hα' : α * cfg.rho = cfg.rho ^ (j + 1) := by rw [hα, pow_succ]
    simp only [armijoLoop]
    split
    · rename_i hmin
      split
      · exact ih _ best _ (j + 1) hα' hb
      · exact ih _ best _ (j + 1) hα' hb
      · rename_i n hN
        split
        · rename_i hacc
          refine ⟨⟨hN, j, hα, rfl⟩, hmin, ?_⟩
          unfold armijoAccept at hacc
          cases cur with
          | none => simp at hacc
          | some c0 => exact ⟨c0, rfl, by simpa using hacc⟩
        · refine ih _ _ _ (j + 1) hα' ?_
          split
          · rename_i himp
            intro bx bn ba hbest
            simp only [Option.some.injEq, Prod.mk.injEq] at hbest
            obtain ⟨rfl, rfl, rfl⟩ := hbest
            refine ⟨⟨hN, j, hα, rfl⟩, hmin, ?_⟩
            unfold improves at himp
            cases best with
            | none =>
              cases cur with
              | none => simp at himp
              | some c0 => exact ⟨c0, rfl, by simpa using himp⟩
            | some b =>
              obtain ⟨bx, bn, ba⟩ := b
              obtain ⟨_, _, c0, hc0, hlt⟩ := hb bx bn ba rfl
              exact ⟨c0, hc0, lt_trans (by simpa using himp) hlt⟩
          · exact hb
    · exact armijoFinish_spec N cfg x0 δ cur best t hb

/-- every result of `_ArmijoLineSearch.__call__` is a trial point along the *capped* direction with the reported norm,
and satisfies the Armijo inequality (accept branch) or strictly improves on the current norm (fallback branch) -/
theorem armijo_spec (N : List K → NormRes K) (cfg : ArmijoCfg K) (fuel : ℕ) (x0 δ : List K) (cur : Option K) :
    StepSpec N cfg x0 (capDelta cfg.maxDelta δ) cur (armijo N cfg fuel x0 δ cur) := by
  unfold armijo
  exact armijoLoop_spec N cfg x0 _ cur fuel 1 none 0 0 (by simp) (by intro _ _ _ h; simp at h)

/-- **armijo_monotone** — for every residual-norm oracle, every direction, every configuration with `c ≥ 0`, `ρ ≥ 0`:
a successful line search returns a point whose residual norm (as reported by the oracle *at that point*) does not
exceed the current norm; on the Armijo branch it satisfies the sufficient-decrease inequality, on the best-point
fallback branch the decrease is strict.  A NaN current norm can never produce a step. -/
theorem armijo_monotone (N : List K → NormRes K) (cfg : ArmijoCfg K) (fuel : ℕ) (x0 δ : List K) (cur : Option K)
    (hc : 0 ≤ cfg.c) (hρ : 0 ≤ cfg.rho) (hcur : ∀ c0, cur = some c0 → 0 ≤ c0) (x' : List K) (n α : K) (t : ℕ) :
    (armijo N cfg fuel x0 δ cur = .armijo x' n α t →
        N x' = .val n ∧ ∃ c0, cur = some c0 ∧ n ≤ (1 - cfg.c * α) * c0 ∧ n ≤ c0) ∧
    (armijo N cfg fuel x0 δ cur = .fallback x' n α t →
        N x' = .val n ∧ ∃ c0, cur = some c0 ∧ n < c0) := by
  have h := armijo_spec N cfg fuel x0 δ cur
  constructor
  · intro e
    rw [e] at h
    obtain ⟨⟨hN, j, hα, _⟩, _, c0, hc0, hle⟩ := h
    refine ⟨hN, c0, hc0, hle, hle.trans ?_⟩
    have hα0 : 0 ≤ α := hα ▸ pow_nonneg hρ j
    have : 0 ≤ cfg.c * α * c0 := mul_nonneg (mul_nonneg hc hα0) (hcur c0 hc0)
    nlinarith
  · intro e
    rw [e] at h
    obtain ⟨⟨hN, _⟩, _, _, c0, hc0, hlt⟩ := h
    exact ⟨hN, c0, hc0, hlt⟩

/-- **armijo_step_capped** — with a finite cap `m ≥ 0` and `0 ≤ ρ ≤ 1`, whatever the oracle answers and whichever
branch returns, the update satisfies `‖x⁺ − x‖∞ ≤ max_delta`. -/
theorem armijo_step_capped (N : List K → NormRes K) (cfg : ArmijoCfg K) (fuel : ℕ) (x0 δ : List K) (cur : Option K)
    (m : K) (hm : cfg.maxDelta = some m) (hm0 : 0 ≤ m) (hρ0 : 0 ≤ cfg.rho) (hρ1 : cfg.rho ≤ 1)
    (x' : List K) (n α : K) (t : ℕ)
    (h : armijo N cfg fuel x0 δ cur = .armijo x' n α t ∨ armijo N cfg fuel x0 δ cur = .fallback x' n α t) :
    normInf (vsub x' x0) ≤ m := by
  have hs := armijo_spec N cfg fuel x0 δ cur
  have key : ∀ j : ℕ, normInf (vsub (axpy (cfg.rho ^ j) x0 (capDelta cfg.maxDelta δ)) x0) ≤ m := by
    intro j
    obtain ⟨h0, h1⟩ := pow_mem_unit hρ0 hρ1 j
    refine (normInf_vsub_axpy_le _ _ _).trans ?_
    rw [abs_of_nonneg h0, hm]
    calc cfg.rho ^ j * normInf (capDelta (some m) δ) ≤ 1 * m :=
          mul_le_mul h1 (normInf_capDelta_le hm0 δ) (normInf_nonneg _) zero_le_one
      _ = m := one_mul m
  rcases h with e | e <;> rw [e] at hs
  · obtain ⟨⟨_, j, rfl, rfl⟩, _⟩ := hs; exact key j
  · obtain ⟨⟨_, j, rfl, rfl⟩, _⟩ := hs; exact key j

theorem armijoLoop_terminates (N : List K → NormRes K) (cfg : ArmijoCfg K) (x0 δ : List K) (cur : Option K)
    (hρ0 : 0 ≤ cfg.rho) (hρ1 : cfg.rho ≤ 1) (n : ℕ) (hn : cfg.rho ^ n < cfg.minAlpha) :
    ∀ (fuel : ℕ) (best : Option (List K × K × K)) (t : ℕ), t ≤ n → n ≤ t + fuel →
      armijoLoop N cfg x0 δ cur fuel (cfg.rho ^ t) best t ≠ .outOfFuel ∧
      (armijoLoop N cfg x0 δ cur fuel (cfg.rho ^ t) best t).trials ≤ n := by
  have hlt : ∀ t, cfg.minAlpha ≤ cfg.rho ^ t → t < n := by
    intro t ht
    by_contra hge
    exact absurd (lt_of_le_of_lt (ht.trans (pow_le_pow_of_le_one hρ0 hρ1 (not_lt.mp hge))) hn) (lt_irrefl _)
  have hfin : ∀ (best : Option (List K × K × K)) (t : ℕ), t ≤ n →
      armijoFinish best t ≠ .outOfFuel ∧ (armijoFinish best t).trials ≤ n := by
    intro best t ht
    unfold armijoFinish
    split
    · split <;> exact ⟨by simp, ht⟩
    · exact ⟨by simp, ht⟩
  intro fuel
  induction fuel with
  | zero =>
    intro best t ht hf
    simp only [armijoLoop]
    split
    · rename_i hmin; have := hlt t hmin; omega
    · exact hfin best t ht
  | succ fuel ih =>
    intro best t ht hf
    simp only [armijoLoop]
    split
    · rename_i hmin
      have h1 := hlt t hmin
      have e : cfg.rho ^ t * cfg.rho = cfg.rho ^ (t + 1) := (pow_succ _ _).symm
      rw [e]
      split
      · exact ih best (t + 1) (by omega) (by omega)
      · exact ih best (t + 1) (by omega) (by omega)
      · split
        · exact ⟨by simp, by simp only [StepRes.trials]; omega⟩
        · exact ih _ (t + 1) (by omega) (by omega)
    · exact hfin best t ht

/-- **armijo_terminates** — for `0 ≤ ρ ≤ 1` and any `n` with `ρ^n < min_alpha`, the backtracking loop evaluates at most
`n` trial points and then either returns a step or raises: with fuel `≥ n` the model never runs out of fuel. -/
theorem armijo_terminates (N : List K → NormRes K) (cfg : ArmijoCfg K) (x0 δ : List K) (cur : Option K)
    (hρ0 : 0 ≤ cfg.rho) (hρ1 : cfg.rho ≤ 1) (n fuel : ℕ) (hn : cfg.rho ^ n < cfg.minAlpha) (hf : n ≤ fuel) :
    armijo N cfg fuel x0 δ cur ≠ .outOfFuel ∧ (armijo N cfg fuel x0 δ cur).trials ≤ n := by
  unfold armijo
  have := armijoLoop_terminates N cfg x0 (capDelta cfg.maxDelta δ) cur hρ0 hρ1 n hn fuel none 0 (Nat.zero_le _) (by omega)
  simpa using this

/-- over an Archimedean field (ℝ, ℚ) such an `n` exists whenever `0 ≤ ρ < 1` and `min_alpha > 0`: the loop always ends -/
theorem armijo_terminates_archimedean [Archimedean K] (N : List K → NormRes K) (cfg : ArmijoCfg K) (x0 δ : List K)
    (cur : Option K) (hρ0 : 0 ≤ cfg.rho) (hρ1 : cfg.rho < 1) (hmin : 0 < cfg.minAlpha) :
    ∃ n : ℕ, ∀ fuel, n ≤ fuel →
      armijo N cfg fuel x0 δ cur ≠ .outOfFuel ∧ (armijo N cfg fuel x0 δ cur).trials ≤ n := by
  obtain ⟨n, hn⟩ := exists_pow_lt_of_lt_one hmin hρ1
  exact ⟨n, fun fuel hf => armijo_terminates N cfg x0 δ cur hρ0 hρ1.le n fuel hn hf⟩

/-- the stepper the Newton loop sees fails exactly when the line search raised `BackendError`: the error is an explicit
outcome that carries no point (it is mapped to `ConvergenceError`, see `Outcome.stepFailed`), never a returned state -/
theorem armijoStepper_failed_iff (N : List K → NormRes K) (cfg : ArmijoCfg K) (fuel : ℕ) (x δ : List K) (cur : Option K) :
    armijoStepper N cfg fuel x δ cur = .failed ↔ ∃ t, armijo N cfg fuel x δ cur = .failed t := by
  unfold armijoStepper
  split <;> simp_all

/-- a NaN current norm can never be improved upon: the line search raises (or is still running) -/
theorem armijo_nan_current_fails (N : List K → NormRes K) (cfg : ArmijoCfg K) (fuel : ℕ) (x0 δ : List K) :
    (∃ t, armijo N cfg fuel x0 δ none = .failed t) ∨ armijo N cfg fuel x0 δ none = .outOfFuel := by
  have h := armijo_spec N cfg fuel x0 δ none
  cases e : armijo N cfg fuel x0 δ none with
  | armijo x' n α t => rw [e] at h; obtain ⟨_, _, c0, hc0, _⟩ := h; cases hc0
  | fallback x' n α t => rw [e] at h; obtain ⟨_, _, _, c0, hc0, _⟩ := h; cases hc0
  | failed t => exact Or.inl ⟨t, rfl⟩
  | outOfFuel => exact Or.inr rfl

/-! ### the plain stepper -/

/-- **plain_step_capped** — the plain stepper's update also respects the cap -/
theorem plain_step_capped (N : List K → NormRes K) (m : K) (hm0 : 0 ≤ m) (x δ x' : List K) (r : Option K) (α : K)
    (h : plainStep N (some m) x δ = .ok x' r α) : normInf (vsub x' x) ≤ m := by
  unfold plainStep at h
  have hx : x' = axpy 1 x (capDelta (some m) δ) := by
    revert h; simp only; split <;> intro h <;> simp_all
  rw [hx]
  refine (normInf_vsub_axpy_le _ _ _).trans ?_
  rw [abs_one, one_mul]
  exact normInf_capDelta_le hm0 δ

/-! ### the Newton loop -/

/-- the oracle answer a history entry records -/
def toRes : Option K → NormRes K
  | some r => .val r
  | none => .nan

/-- consecutive history entries are linked by one stepper call on the oracle's Newton direction, and both entries
carry the residual norm the oracle reports at their iterate -/
def Link (N : List K → NormRes K) (solve : List K → Option (List K)) (stepper : Stepper K)
    (p q : List K × Option K) : Prop :=
  N p.1 = toRes p.2 ∧ N q.1 = toRes q.2 ∧ ∃ δ, solve p.1 = some δ ∧ stepper p.1 δ p.2 = .next q.1

theorem newtonLoop_hist (N : List K → NormRes K) (solve : List K → Option (List K)) (stepper : Stepper K) (tol : K) :
    ∀ (n k : ℕ) (x : List K),
      (∀ p ∈ (newtonLoop N solve stepper tol n k x).2.head?, p.1 = x ∧ N x = toRes p.2) ∧
      List.IsChain (Link N solve stepper) (newtonLoop N solve stepper tol n k x).2 := by
  intro n
  induction n with
  | zero =>
    intro k x
    simp only [newtonLoop]
    split
    · simp
    · rename_i h; simp [toRes, h]
    · rename_i r h; split <;> simp [toRes, h]
  | succ n ih =>
    intro k x
    simp only [newtonLoop]
    split
    · simp
    · rename_i hN
      split
      · simp [toRes, hN]
      · rename_i δ hs
        split
        · simp [toRes, hN]
        · simp [toRes, hN]
        · rename_i x' hst
          obtain ⟨ih1, ih2⟩ := ih (k + 1) x'
          refine ⟨by simp [toRes, hN], ?_⟩
          rw [List.isChain_cons]
          refine ⟨?_, ih2⟩
          intro q hq
          obtain ⟨hq1, hq2⟩ := ih1 q hq
          exact ⟨by simp [toRes, hN], by rw [hq1]; exact hq2, δ, hs, by rw [hq1]; exact hst⟩
    · rename_i r hN
      split
      · simp [toRes, hN]
      · split
        · simp [toRes, hN]
        · rename_i δ hs
          split
          · simp [toRes, hN]
          · simp [toRes, hN]
          · rename_i x' hst
            obtain ⟨ih1, ih2⟩ := ih (k + 1) x'
            refine ⟨by simp [toRes, hN], ?_⟩
            rw [List.isChain_cons]
            refine ⟨?_, ih2⟩
            intro q hq
            obtain ⟨hq1, hq2⟩ := ih1 q hq
            exact ⟨by simp [toRes, hN], by rw [hq1]; exact hq2, δ, hs, by rw [hq1]; exact hst⟩

theorem newtonLoop_ok (N : List K → NormRes K) (solve : List K → Option (List K)) (stepper : Stepper K) (tol : K) :
    ∀ (n k : ℕ) (x x' : List K) (k' : ℕ) (r : K),
      (newtonLoop N solve stepper tol n k x).1 = .ok x' k' r →
        N x' = .val r ∧ r < tol ∧ k ≤ k' ∧ k' ≤ k + n ∧
        (newtonLoop N solve stepper tol n k x).2.getLast? = some (x', some r) := by
  intro n
  induction n with
  | zero =>
    intro k x x' k' r
    simp only [newtonLoop]
    split
    · simp
    · simp
    · rename_i r0 hN
      split
      · rename_i hlt
        intro h
        simp only [Outcome.ok.injEq] at h
        obtain ⟨rfl, rfl, rfl⟩ := h
        exact ⟨hN, hlt, le_rfl, by omega, by simp⟩
      · simp
  | succ n ih =>
    intro k x x' k' r
    simp only [newtonLoop]
    split
    · simp
    · split
      · simp
      · split
        · simp
        · simp
        · rename_i x1 _
          intro h
          obtain ⟨h1, h2, h3, h4, h5⟩ := ih (k + 1) x1 x' k' r h
          refine ⟨h1, h2, by omega, by omega, ?_⟩
          rw [List.getLast?_cons, h5]; rfl
    · rename_i r0 hN
      split
      · rename_i hlt
        intro h
        simp only [Outcome.ok.injEq] at h
        obtain ⟨rfl, rfl, rfl⟩ := h
        exact ⟨hN, hlt, le_rfl, by omega, by simp⟩
      · split
        · simp
        · split
          · simp
          · simp
          · rename_i x1 _
            intro h
            obtain ⟨h1, h2, h3, h4, h5⟩ := ih (k + 1) x1 x' k' r h
            refine ⟨h1, h2, by omega, by omega, ?_⟩
            rw [List.getLast?_cons, h5]; rfl

/-- **never_returns_unconverged** — for every residual-norm oracle (including NaNs and exceptions), every linear-solve
oracle, EVERY stepper, every tolerance, iteration cap and start point: if `_NewtonBackend.run` returns
`CorrectorOutput(x, k, r)` then `r` is the oracle's residual norm *at the returned `x`*, it is a number (not NaN),
`r < tol`, `k ≤ max_attempts`, and `(x, r)` is the last iterate of the run.  Every other run ends in one of the error
constructors of `Outcome` (`ConvergenceError` or a propagated exception): there is no way to hand back a state whose
residual norm is not below the tolerance. -/
theorem never_returns_unconverged (N : List K → NormRes K) (solve : List K → Option (List K)) (stepper : Stepper K)
    (tol : K) (maxAttempts : ℕ) (x0 x : List K) (k : ℕ) (r : K)
    (h : (newton N solve stepper tol maxAttempts x0).1 = .ok x k r) :
    N x = .val r ∧ r < tol ∧ k ≤ maxAttempts ∧
      (newton N solve stepper tol maxAttempts x0).2.getLast? = some (x, some r) := by
  obtain ⟨h1, h2, _, h4, h5⟩ := newtonLoop_ok N solve stepper tol maxAttempts 0 x0 x k r h
  exact ⟨h1, h2, by omega, h5⟩

/-- a point whose residual norm is NaN, raises, or is `≥ tol` is never returned as a success -/
theorem unconverged_never_ok (N : List K → NormRes K) (solve : List K → Option (List K)) (stepper : Stepper K)
    (tol : K) (maxAttempts : ℕ) (x0 x : List K) (hx : ∀ r, N x = .val r → tol ≤ r) (k : ℕ) (r : K) :
    (newton N solve stepper tol maxAttempts x0).1 ≠ .ok x k r := by
  intro h
  obtain ⟨h1, h2, _⟩ := never_returns_unconverged N solve stepper tol maxAttempts x0 x k r h
  exact absurd h2 (not_lt.mpr (hx r h1))

/-- the history starts at the initial guess and consecutive iterates are linked by stepper calls -/
theorem newton_hist_chain (N : List K → NormRes K) (solve : List K → Option (List K)) (stepper : Stepper K)
    (tol : K) (maxAttempts : ℕ) (x0 : List K) :
    List.IsChain (Link N solve stepper) (newton N solve stepper tol maxAttempts x0).2 :=
  (newtonLoop_hist N solve stepper tol maxAttempts 0 x0).2

/-- **newton_armijo_monotone** — with the Armijo line search as stepper (`c ≥ 0`, `ρ ≥ 0`) and a non-negative norm
oracle, along the whole run of `_NewtonBackend.run` the residual norm never increases from one iterate to the next, and
no iterate with a NaN norm is ever stepped from or to. -/
theorem newton_armijo_monotone (N : List K → NormRes K) (solve : List K → Option (List K)) (cfg : ArmijoCfg K)
    (fuel : ℕ) (tol : K) (maxAttempts : ℕ) (x0 : List K) (hc : 0 ≤ cfg.c) (hρ : 0 ≤ cfg.rho)
    (hN : ∀ y v, N y = .val v → 0 ≤ v) :
    List.IsChain (fun p q : List K × Option K => ∃ a b, p.2 = some a ∧ q.2 = some b ∧ b ≤ a)
      (newton N solve (armijoStepper N cfg fuel) tol maxAttempts x0).2 := by
  refine List.IsChain.imp ?_ (newton_hist_chain N solve (armijoStepper N cfg fuel) tol maxAttempts x0)
  rintro ⟨px, pr⟩ ⟨qx, qr⟩ ⟨hp, hq, δ, _, hst⟩
  simp only at hp hq hst
  have hcur : ∀ c0, pr = some c0 → 0 ≤ c0 := by
    intro c0 h; subst h; exact hN px c0 hp
  unfold armijoStepper at hst
  split at hst
  · rename_i x' n α t e
    simp only [StepOut.next.injEq] at hst; subst hst
    obtain ⟨hNx, c0, hc0, _, hle⟩ := (armijo_monotone N cfg fuel px δ pr hc hρ hcur x' n α t).1 e
    rw [hNx] at hq
    cases qr with
    | none => simp [toRes] at hq
    | some b => simp only [toRes, NormRes.val.injEq] at hq; exact ⟨c0, b, hc0, rfl, hq ▸ hle⟩
  · rename_i x' n α t e
    simp only [StepOut.next.injEq] at hst; subst hst
    obtain ⟨hNx, c0, hc0, hlt⟩ := (armijo_monotone N cfg fuel px δ pr hc hρ hcur x' n α t).2 e
    rw [hNx] at hq
    cases qr with
    | none => simp [toRes] at hq
    | some b => simp only [toRes, NormRes.val.injEq] at hq; exact ⟨c0, b, hc0, rfl, hq ▸ hlt.le⟩
  · simp at hst
  · simp at hst

/-- **newton_steps_capped** — with a finite step cap `m ≥ 0`, every update of the Newton run (Armijo stepper with
`0 ≤ ρ ≤ 1`) satisfies `‖x_{k+1} − x_k‖∞ ≤ max_delta`. -/
theorem newton_armijo_steps_capped (N : List K → NormRes K) (solve : List K → Option (List K)) (cfg : ArmijoCfg K)
    (fuel : ℕ) (tol : K) (maxAttempts : ℕ) (x0 : List K) (m : K) (hm : cfg.maxDelta = some m) (hm0 : 0 ≤ m)
    (hρ0 : 0 ≤ cfg.rho) (hρ1 : cfg.rho ≤ 1) :
    List.IsChain (fun p q : List K × Option K => normInf (vsub q.1 p.1) ≤ m)
      (newton N solve (armijoStepper N cfg fuel) tol maxAttempts x0).2 := by
  refine List.IsChain.imp ?_ (newton_hist_chain N solve (armijoStepper N cfg fuel) tol maxAttempts x0)
  rintro ⟨px, pr⟩ ⟨qx, qr⟩ ⟨_, _, δ, _, hst⟩
  simp only at hst ⊢
  unfold armijoStepper at hst
  split at hst
  · rename_i x' n α t e
    simp only [StepOut.next.injEq] at hst; subst hst
    exact armijo_step_capped N cfg fuel px δ pr m hm hm0 hρ0 hρ1 x' n α t (Or.inl e)
  · rename_i x' n α t e
    simp only [StepOut.next.injEq] at hst; subst hst
    exact armijo_step_capped N cfg fuel px δ pr m hm hm0 hρ0 hρ1 x' n α t (Or.inr e)
  · simp at hst
  · simp at hst

/-- the same for the plain stepper -/
theorem newton_plain_steps_capped (N : List K → NormRes K) (solve : List K → Option (List K))
    (tol : K) (maxAttempts : ℕ) (x0 : List K) (m : K) (hm0 : 0 ≤ m) :
    List.IsChain (fun p q : List K × Option K => normInf (vsub q.1 p.1) ≤ m)
      (newton N solve (plainStepper N (some m)) tol maxAttempts x0).2 := by
  refine List.IsChain.imp ?_ (newton_hist_chain N solve (plainStepper N (some m)) tol maxAttempts x0)
  rintro ⟨px, pr⟩ ⟨qx, qr⟩ ⟨_, _, δ, _, hst⟩
  simp only at hst ⊢
  unfold plainStepper at hst
  split at hst
  · rename_i x' r α e
    simp only [StepOut.next.injEq] at hst; subst hst
    exact plain_step_capped N m hm0 px δ x' r α e
  · simp at hst

/-! ### the shipped configuration (regenerated from the live objects into `Gen/C05.lean`) -/

open HitenModel.Gen.C05

/-- the default line-search parameters satisfy every hypothesis used above, and the loop evaluates at most
`defaultMaxTrials` trial points -/
theorem default_armijo_admissible :
    (0 : Rat) ≤ armijoDefault.c ∧ 0 ≤ armijoDefault.rho ∧ armijoDefault.rho < 1 ∧ 0 < armijoDefault.minAlpha ∧
    armijoDefault.rho ^ defaultMaxTrials < armijoDefault.minAlpha ∧
    armijoDefault.minAlpha ≤ armijoDefault.rho ^ (defaultMaxTrials - 1) := by
  simp only [armijoDefault, defaultMaxTrials]
  norm_num

/-- every family's default options: positive tolerance, positive finite step cap -/
theorem default_options_admissible :
    ∀ o ∈ familyDefaults, (0 : Rat) < o.2.1 ∧ 0 < o.2.2.1 ∧ 0 < o.2.2.2 := by
  simp only [familyDefaults]
  decide +kernel

/-- every orbit family's correction service installs the Armijo line search with the default parameters, so the
line-search theorems apply to `PeriodicOrbit.correct()` -/
theorem families_use_line_search : ∀ p ∈ familyStepper, p.2 = "armijo" := by
  simp only [familyStepper]
  decide

/-- production corollary: with the shipped line-search parameters, any step cap `m ≥ 0`, any oracle: the run's residual
norms are non-increasing, every update is within the cap, and each line search stops after at most
`defaultMaxTrials` trial points -/
theorem production_newton (N : List Rat → NormRes Rat) (solve : List Rat → Option (List Rat)) (tol m : Rat)
    (hm0 : 0 ≤ m) (maxAttempts : ℕ) (x0 : List Rat) (hN : ∀ y v, N y = .val v → 0 ≤ v) (fuel : ℕ)
    (hf : defaultMaxTrials ≤ fuel) :
    let cfg : ArmijoCfg Rat := { armijoDefault with maxDelta := some m }
    List.IsChain (fun p q : List Rat × Option Rat => ∃ a b, p.2 = some a ∧ q.2 = some b ∧ b ≤ a)
        (newton N solve (armijoStepper N cfg fuel) tol maxAttempts x0).2 ∧
    List.IsChain (fun p q : List Rat × Option Rat => normInf (vsub q.1 p.1) ≤ m)
        (newton N solve (armijoStepper N cfg fuel) tol maxAttempts x0).2 ∧
    (∀ x δ cur, armijo N cfg fuel x δ cur ≠ .outOfFuel ∧ (armijo N cfg fuel x δ cur).trials ≤ defaultMaxTrials) := by
  intro cfg
  obtain ⟨h1, h2, h3, _, h5, _⟩ := default_armijo_admissible
  refine ⟨newton_armijo_monotone N solve cfg fuel tol maxAttempts x0 h1 h2 hN,
    newton_armijo_steps_capped N solve cfg fuel tol maxAttempts x0 m rfl hm0 h2 h3.le, ?_⟩
  intro x δ cur
  exact armijo_terminates N cfg x δ cur h2 h3.le defaultMaxTrials fuel h5 hf

/-! ### reversing symmetries of the integrated field (hypothesis of the mirror theorem)

`period = 2 * half_period` (services/orbits.py) is justified by the mirror theorem: an orbit of a reversible field that
crosses the fixed set of a reversing symmetry perpendicularly at `t = 0` and `t = t_half` is periodic with period
`2 t_half`.  The theorems below prove the hypothesis — `f(S x) = −S f(x)` — for the *traced* field the correctors
integrate, for both symmetries the orbit families use (the mirror theorem itself is textbook background). -/

section reversible
open HitenModel.RE

/-- reflection in the xz-plane with time reversal: `S₁ = diag(1,−1,1,−1,1,−1)` on variables 0..5, `mu` (6) untouched -/
def reflXZ (ρ : ℕ → ℝ) : ℕ → ℝ := fun k => if k = 1 ∨ k = 3 ∨ k = 5 then -ρ k else ρ k
def sgnXZ (i : ℕ) : ℝ := if i = 1 ∨ i = 3 ∨ i = 5 then -1 else 1
/-- rotation by π about the x-axis with time reversal: `S₂ = diag(1,−1,−1,−1,1,1)` -/
def rotX (ρ : ℕ → ℝ) : ℕ → ℝ := fun k => if k = 1 ∨ k = 2 ∨ k = 3 then -ρ k else ρ k
def sgnX (i : ℕ) : ℝ := if i = 1 ∨ i = 2 ∨ i = 3 then -1 else 1

/-- the traced field uses exactly the two squared distances as sqrt arguments -/
theorem sqrtArgs_complete : sqrtArgs = [sq0, sq1] := rfl

/-- **accel_reversible** — `f(S₁ x) = −S₁ f(x)` for every state and mass parameter (halo, Lyapunov and vertical
families: perpendicular crossings of the xz-plane) -/
theorem accel_reversible (ρ : ℕ → ℝ) (i : ℕ) (hi : i < 6) :
    eval (reflXZ ρ) (accel i) = -(sgnXZ i * eval ρ (accel i)) := by
  have h0 : eval (reflXZ ρ) sq0 = eval ρ sq0 := by simp [sq0, eval, reflXZ]
  have h1 : eval (reflXZ ρ) sq1 = eval ρ sq1 := by simp [sq1, eval, reflXZ]
  interval_cases i <;> simp only [accel, eval, h0, h1] <;> simp [reflXZ, sgnXZ] <;> ring

/-- **accel_reversible_xaxis** — `f(S₂ x) = −S₂ f(x)` (vertical family: perpendicular crossing of the x-axis) -/
theorem accel_reversible_xaxis (ρ : ℕ → ℝ) (i : ℕ) (hi : i < 6) :
    eval (rotX ρ) (accel i) = -(sgnX i * eval ρ (accel i)) := by
  have h0 : eval (rotX ρ) sq0 = eval ρ sq0 := by simp [sq0, eval, rotX]
  have h1 : eval (rotX ρ) sq1 = eval ρ sq1 := by simp [sq1, eval, rotX]
  interval_cases i <;> simp only [accel, eval, h0, h1] <;> simp [rotX, sgnX] <;> ring

end reversible

/-! ### the mirror theorem, instantiated on the traced field

`Lemmas/Mirror.lean` proves the mirror theorem for any reversible field (ODE uniqueness on a set where the field is Lipschitz).
With `accel_reversible` its hypothesis holds for the field the correctors integrate: a solution that crosses the xz-plane
perpendicularly (`y = v_x = v_z = 0`) at `t = 0` and at `t = T/2` is `T`-periodic — this is why `period = 2 · half_period` and why a
converged correction (residual = the perpendicularity defect at the half-period event) is a periodic orbit.  The Lipschitz set `U`
(a region away from the primaries in which the solution stays) is a hypothesis. -/

section mirror
open HitenModel.RE

/-- environment of the traced field for a 6-vector state and a mass parameter (variables 0..5 = state, 6.. = `mu`) -/
def envOf (mu : ℝ) (u : Fin 6 → ℝ) : ℕ → ℝ := fun k => if h : k < 6 then u ⟨k, h⟩ else mu

/-- the traced vector field as a map of 6-vectors -/
noncomputable def fieldOf (mu : ℝ) (u : Fin 6 → ℝ) : Fin 6 → ℝ := fun i => eval (envOf mu u) (accel i.val)

/-- the reversing symmetry `S₁ = diag(1,−1,1,−1,1,−1)` as a continuous linear map -/
noncomputable def S1 : (Fin 6 → ℝ) →L[ℝ] (Fin 6 → ℝ) :=
  ContinuousLinearMap.pi fun i => (sgnXZ i.val) • ContinuousLinearMap.proj i

theorem S1_apply (u : Fin 6 → ℝ) (i : Fin 6) : S1 u i = sgnXZ i.val * u i := by
  simp [S1]

theorem envOf_S1 (mu : ℝ) (u : Fin 6 → ℝ) : envOf mu (S1 u) = reflXZ (envOf mu u) := by
  funext k
  by_cases hk : k < 6
  · simp only [envOf, hk, dif_pos, reflXZ, S1_apply, sgnXZ]
    split_ifs <;> simp
  · have h1 : ¬ (k = 1 ∨ k = 3 ∨ k = 5) := by omega
    simp [envOf, hk, reflXZ, h1]

/-- the traced field is reversed by `S₁`: `f(S₁ u) = −S₁ f(u)` -/
theorem field_reversing (mu : ℝ) (u : Fin 6 → ℝ) : fieldOf mu (S1 u) = -(S1 (fieldOf mu u)) := by
  funext i
  simp only [fieldOf, Pi.neg_apply, S1_apply, envOf_S1]
  exact accel_reversible (envOf mu u) i.val i.isLt

/-- a state is fixed by `S₁` iff it is a perpendicular crossing of the xz-plane: `y = v_x = v_z = 0` -/
theorem S1_fixed_of_perpendicular (u : Fin 6 → ℝ) (h : u 1 = 0 ∧ u 3 = 0 ∧ u 5 = 0) : S1 u = u := by
  funext i
  rw [S1_apply]
  fin_cases i <;> simp [sgnXZ, h.1, h.2.1, h.2.2]

/-- **perpendicular_crossings_give_periodic_orbit** (mirror theorem on the traced field): a solution of the traced equations of motion
(constant `mu`) that stays in a region `U` — invariant under the reflection, field Lipschitz on it — and crosses the xz-plane
perpendicularly at `t = 0` and at `t = T/2` is periodic with period `T`. -/
theorem perpendicular_crossings_give_periodic_orbit (mu : ℝ) (U : Set (Fin 6 → ℝ)) (K : NNReal)
    (hL : LipschitzOnWith K (fieldOf mu) U) (hSU : ∀ u ∈ U, S1 u ∈ U)
    (x : ℝ → Fin 6 → ℝ) (hx : ∀ t, HasDerivAt x (fieldOf mu (x t)) t) (hxU : ∀ t, x t ∈ U) (T : ℝ)
    (h0 : x 0 1 = 0 ∧ x 0 3 = 0 ∧ x 0 5 = 0) (hh : x (T / 2) 1 = 0 ∧ x (T / 2) 3 = 0 ∧ x (T / 2) 5 = 0) (t : ℝ) :
    x (t + T) = x t :=
  HitenModel.Mirror.mirror_theorem hL S1 hSU (fun u _ => field_reversing mu u) hx hxU T
    (S1_fixed_of_perpendicular _ h0) (S1_fixed_of_perpendicular _ hh) t

/-- the second reversing symmetry `S₂ = diag(1,−1,−1,−1,1,1)` (rotation by π about the x-axis) as a continuous linear map -/
noncomputable def S2 : (Fin 6 → ℝ) →L[ℝ] (Fin 6 → ℝ) :=
  ContinuousLinearMap.pi fun i => (sgnX i.val) • ContinuousLinearMap.proj i

theorem S2_apply (u : Fin 6 → ℝ) (i : Fin 6) : S2 u i = sgnX i.val * u i := by
  simp [S2]

theorem envOf_S2 (mu : ℝ) (u : Fin 6 → ℝ) : envOf mu (S2 u) = rotX (envOf mu u) := by
  funext k
  by_cases hk : k < 6
  · simp only [envOf, hk, dif_pos, rotX, S2_apply, sgnX]
    split_ifs <;> simp
  · have h1 : ¬ (k = 1 ∨ k = 2 ∨ k = 3) := by omega
    simp [envOf, hk, rotX, h1]

theorem field_reversing_xaxis (mu : ℝ) (u : Fin 6 → ℝ) : fieldOf mu (S2 u) = -(S2 (fieldOf mu u)) := by
  funext i
  simp only [fieldOf, Pi.neg_apply, S2_apply, envOf_S2]
  exact accel_reversible_xaxis (envOf mu u) i.val i.isLt

/-- a state is fixed by `S₂` iff it is a perpendicular crossing of the x-axis: `y = z = v_x = 0` -/
theorem S2_fixed_of_perpendicular (u : Fin 6 → ℝ) (h : u 1 = 0 ∧ u 2 = 0 ∧ u 3 = 0) : S2 u = u := by
  funext i
  rw [S2_apply]
  fin_cases i <;> simp [sgnX, h.1, h.2.1, h.2.2]

theorem S2_S1_involution (u : Fin 6 → ℝ) : S2 (S1 (S2 (S1 u))) = u := by
  funext i
  simp only [S1_apply, S2_apply]
  fin_cases i <;> simp [sgnX, sgnXZ]

/-- **vertical_quarter_period** (the doubly symmetric vertical family, repaired in /repo by e02818a): a solution that starts
perpendicular to the xz-plane (`y = v_x = v_z = 0`) and crosses the x-axis perpendicularly (`y = z = v_x = 0`) at the time `t_q` of its
`z = 0` event is periodic with period `4 t_q` — the event is a quarter period, and after `2 t_q` the state is the mirror image
`S₂ S₁ x₀` (z and v_z flipped), not `x₀`: the defect of reporting `2 t_q`. -/
theorem vertical_quarter_period (mu : ℝ) (U : Set (Fin 6 → ℝ)) (K : NNReal)
    (hL : LipschitzOnWith K (fieldOf mu) U) (hSU₁ : ∀ u ∈ U, S1 u ∈ U) (hSU₂ : ∀ u ∈ U, S2 u ∈ U)
    (x : ℝ → Fin 6 → ℝ) (hx : ∀ t, HasDerivAt x (fieldOf mu (x t)) t) (hxU : ∀ t, x t ∈ U) (tq : ℝ)
    (h0 : x 0 1 = 0 ∧ x 0 3 = 0 ∧ x 0 5 = 0) (hq : x tq 1 = 0 ∧ x tq 2 = 0 ∧ x tq 3 = 0) (t : ℝ) :
    x (t + 2 * tq) = S2 (S1 (x t)) ∧ x (t + 4 * tq) = x t := by
  have hq' : S2 (x (4 * tq / 4)) = x (4 * tq / 4) := by
    rw [show 4 * tq / 4 = tq by ring]; exact S2_fixed_of_perpendicular _ hq
  have := HitenModel.Mirror.mirror_theorem_quarter hL S1 S2 hSU₁ hSU₂ (fun u _ => field_reversing mu u)
    (fun u _ => field_reversing_xaxis mu u) S2_S1_involution hx hxU (4 * tq) (S1_fixed_of_perpendicular _ h0) hq' t
  rw [show 4 * tq / 2 = 2 * tq by ring] at this
  exact this

end mirror

/-! ### the driver executes the model the theorems are about -/

theorem driver_runs_armijo (N : List Rat → NormRes Rat) (cfg : ArmijoCfg Rat) (fuel : ℕ) (x0 δ : List Rat)
    (cur : Option Rat) : armijoRat N cfg fuel x0 δ cur = armijo N cfg fuel x0 δ cur := rfl
theorem driver_runs_plain (N : List Rat → NormRes Rat) (md : Option Rat) (x δ : List Rat) :
    plainStepRat N md x δ = plainStep N md x δ := rfl
theorem driver_runs_newton_armijo (N : List Rat → NormRes Rat) (solve : List Rat → Option (List Rat))
    (cfg : ArmijoCfg Rat) (fuel : ℕ) (tol : Rat) (m : ℕ) (x0 : List Rat) :
    newtonArmijoRat N solve cfg fuel tol m x0 = newton N solve (armijoStepper N cfg fuel) tol m x0 := rfl
theorem driver_runs_newton_plain (N : List Rat → NormRes Rat) (solve : List Rat → Option (List Rat))
    (md : Option Rat) (tol : Rat) (m : ℕ) (x0 : List Rat) :
    newtonPlainRat N solve md tol m x0 = newton N solve (plainStepper N md) tol m x0 := rfl

/-! ### non-vacuity: concrete runs of the model (K = ℚ) exercising each branch -/

/-- residual-norm oracle of the examples: `|x₀|` on 1-vectors, NaN at `7`, exception at `9` -/
def exN : List Rat → NormRes Rat
  | [x] => if x = 7 then .nan else if x = 9 then .exc else .val (if x < 0 then -x else x)
  | _ => .exc

def exCfg : ArmijoCfg Rat := { maxDelta := some (1/4), rho := 1/2, minAlpha := 1/16, c := 1/8 }

/-- Newton direction of the examples: `δ = −x` (exact Newton step for `R(x)=x`) -/
def exSolve : List Rat → Option (List Rat) := fun x => some (x.map (fun a => -a))

-- converging run: capped steps of size 1/4 from x = 1, accepted by Armijo, converged below tol = 1/10
example : (newton exN exSolve (armijoStepper exN exCfg 10) (1/10) 10 [1]).1 = .ok [0] 4 0 := by decide +kernel
example : (newton exN exSolve (armijoStepper exN exCfg 10) (1/10) 10 [1]).2 =
    [([1], some 1), ([3/4], some (3/4)), ([1/2], some (1/2)), ([1/4], some (1/4)), ([0], some 0)] := by decide +kernel
-- iteration cap too small: error, not a state
example : (newton exN exSolve (armijoStepper exN exCfg 10) (1/10) 2 [1]).1 = .notConverged [1/2] (some (1/2)) := by
  decide +kernel
-- NaN start: the line search cannot improve on NaN, ConvergenceError
example : (newton exN exSolve (armijoStepper exN exCfg 10) (1/10) 5 [7]).1 = .stepFailed 0 := by decide +kernel
-- exception of the residual propagates
example : (newton exN exSolve (armijoStepper exN exCfg 10) (1/10) 5 [9]).1 = .raised 0 := by decide +kernel
-- fallback branch: an uphill direction far away that only improves at small alpha … here: direction +x (uphill): fails
example : armijo exN exCfg 10 [1] [1] (some 1) = .failed 5 := by decide +kernel
-- fallback branch proper: norm oracle with a dip that does not meet the Armijo inequality
def exN2 : List Rat → NormRes Rat
  | [x] => .val (if x = 15/16 then 255/256 else 2)
  | _ => .exc
example : armijo exN2 { exCfg with maxDelta := none } 10 [1] [-1/4] (some 1) = .fallback [15/16] (255/256) (1/4) 5 := by
  decide +kernel

end HitenModel.Props.C05
