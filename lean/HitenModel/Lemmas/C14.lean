/-
  Lemmas/C14.lean — helper lemmas about the engine model of `Core/C14.lean`:
  `np.array_split` concatenates back to the input, a worker computes (a permutation of) the per-seed chains,
  membership in a chain, the integrator loop of `_poincare_step`.
-/
import HitenModel.Core.C14
import Mathlib.Data.List.Perm.Basic
import Mathlib.Tactic.Ring
import Mathlib.Tactic.Linarith
import Mathlib.Tactic.FieldSimp

namespace HitenModel.C14
open List

/-! ### `np.array_split` -/

theorem takeChunks_flatten {α : Type} : ∀ (ks : List Nat) (l : List α),
    (takeChunks ks l).flatten = l.take ks.sum
  | [], l => by simp [takeChunks]
  | k :: ks, l => by
    simp only [takeChunks, flatten_cons, takeChunks_flatten ks, sum_cons]
    rw [List.take_add]

theorem sum_map_range_indicator (a r : Nat) : ∀ n : Nat,
    ((List.range n).map fun i => a + (if i < r then 1 else 0)).sum = n * a + min r n
  | 0 => by simp
  | n + 1 => by
    rw [List.range_succ, List.map_append, List.sum_append, sum_map_range_indicator a r n]
    simp only [map_cons, map_nil, sum_cons, sum_nil]
    split <;> simp only [Nat.add_mul] <;> omega

theorem splitSizes_sum (len n : Nat) (hn : 0 < n) : (splitSizes len n).sum = len := by
  unfold splitSizes
  rw [sum_map_range_indicator]
  have h1 : len % n < n := Nat.mod_lt _ hn
  have h2 := Nat.div_add_mod len n
  rw [Nat.min_eq_left h1.le]
  exact h2

theorem splitSizes_length (len n : Nat) : (splitSizes len n).length = n := by simp [splitSizes]

/-- the chunks of `np.array_split` concatenate to the input, for every positive number of chunks -/
theorem arraySplit_flatten {α : Type} (l : List α) (n : Nat) (hn : 0 < n) : (arraySplit l n).flatten = l := by
  unfold arraySplit
  rw [takeChunks_flatten, splitSizes_sum _ _ hn, List.take_length]

theorem takeChunks_length {α : Type} : ∀ (ks : List Nat) (l : List α), (takeChunks ks l).length = ks.length
  | [], _ => rfl
  | _ :: ks, l => by simp [takeChunks, takeChunks_length ks]

/-- exactly `n` chunks are produced -/
theorem arraySplit_length {α : Type} (l : List α) (n : Nat) : (arraySplit l n).length = n := by
  simp [arraySplit, takeChunks_length, splitSizes_length]

/-! ### one worker = the chains of its seeds -/

theorem worker_nil (step : Vec → Option Hit) (enf : Vec → Vec) : ∀ n, worker step enf n [] = []
  | 0 => rfl
  | _ + 1 => by simp [worker, backendRun]

theorem worker_succ (step : Vec → Option Hit) (enf : Vec → Vec) (n : Nat) (seeds : List Vec) :
    worker step enf (n + 1) seeds =
      (backendRun step seeds).map (enfHit enf) ++
        worker step enf n (((backendRun step seeds).map (enfHit enf)).map (·.state)) := by
  simp only [worker]
  split
  · next h =>
    have : map (enfHit enf) (backendRun step seeds) = [] := by simpa using h
    rw [this]; simp [worker_nil]
  · rfl

theorem flatMap_nil_fun {α β : Type} (l : List α) : l.flatMap (fun _ => ([] : List β)) = [] := by
  induction l with
  | nil => rfl
  | cons a l ih => simp

/-- heads followed by the tails of the survivors is a permutation of the seed-by-seed concatenation -/
theorem heads_tails_perm (step : Vec → Option Hit) (enf : Vec → Vec) (g : Vec → List Hit) :
    ∀ seeds : List Vec,
      ((backendRun step seeds).map (enfHit enf) ++
          (((backendRun step seeds).map (enfHit enf)).map (·.state)).flatMap g) ~
        seeds.flatMap (fun s => match step s with
          | none => []
          | some h => enfHit enf h :: g (enf h.state))
  | [] => by simp [backendRun]
  | s :: rest => by
    have ih := heads_tails_perm step enf g rest
    cases hs : step s with
    | none =>
      simpa [backendRun, hs, flatMap_cons] using ih
    | some h =>
      simp only [backendRun, filterMap_cons, hs, map_cons, cons_append, flatMap_cons] at ih ⊢
      refine Perm.cons _ ?_
      -- r ++ (g x ++ B) ~ g x ++ (r ++ B)
      have e : (enfHit enf h).state = enf h.state := rfl
      rw [e]
      calc map (enfHit enf) (filterMap step rest) ++
              (g (enf h.state) ++ flatMap g (map (fun x => x.state) (map (enfHit enf) (filterMap step rest))))
          ~ g (enf h.state) ++ (map (enfHit enf) (filterMap step rest) ++
              flatMap g (map (fun x => x.state) (map (enfHit enf) (filterMap step rest)))) := by
            rw [← append_assoc, ← append_assoc]
            exact Perm.append_right _ perm_append_comm
        _ ~ _ := Perm.append_left _ ih

/-- **worker = chains**: the rows a worker returns for a chunk are a permutation of the concatenated per-seed chains -/
theorem worker_perm_chains (step : Vec → Option Hit) (enf : Vec → Vec) :
    ∀ (n : Nat) (seeds : List Vec), worker step enf n seeds ~ seeds.flatMap (chain step enf n)
  | 0, seeds => by
    have : (fun s => chain step enf 0 s) = fun _ => ([] : List Hit) := by funext s; rfl
    simp only [worker]
    show [] ~ seeds.flatMap (fun s => chain step enf 0 s)
    rw [this, flatMap_nil_fun]
  | n + 1, seeds => by
    rw [worker_succ]
    have ih := worker_perm_chains step enf n (((backendRun step seeds).map (enfHit enf)).map (·.state))
    have h1 := heads_tails_perm step enf (chain step enf n) seeds
    have e : (fun s => chain step enf (n + 1) s) = fun s => match step s with
        | none => []
        | some h => enfHit enf h :: chain step enf n (enf h.state) := by
      funext s; simp only [chain]; cases step s <;> rfl
    show _ ~ seeds.flatMap (fun s => chain step enf (n + 1) s)
    rw [e]
    exact (Perm.append_left _ ih).trans h1

/-! ### gathering -/

theorem flatten_map_worker_perm (step : Vec → Option Hit) (enf : Vec → Vec) (n : Nat) :
    ∀ chunks : List (List Vec),
      (chunks.map (worker step enf n)).flatten ~ chunks.flatten.flatMap (chain step enf n)
  | [] => by simp
  | c :: cs => by
    simp only [map_cons, flatten_cons, flatMap_append]
    exact (worker_perm_chains step enf n c).append (flatten_map_worker_perm step enf n cs)

theorem map_enfHit_flatMap_chain (step : Vec → Option Hit) (enf : Vec → Vec) (hidem : ∀ v, enf (enf v) = enf v) :
    ∀ (n : Nat) (s : Vec), (chain step enf n s).map (enfHit enf) = chain step enf n s
  | 0, _ => rfl
  | n + 1, s => by
    simp only [chain]
    cases step s with
    | none => rfl
    | some h =>
      simp only [map_cons, map_enfHit_flatMap_chain step enf hidem n]
      congr 1
      simp [enfHit, hidem]

/-! ### membership in a chain: every row is the return of a seed or of another row -/

theorem mem_chain (step : Vec → Option Hit) (enf : Vec → Vec) :
    ∀ (n : Nat) (s : Vec) (h : Hit), h ∈ chain step enf n s →
      ∃ pred raw, (pred = s ∨ ∃ h' ∈ chain step enf n s, h'.state = pred) ∧ step pred = some raw ∧ h = enfHit enf raw
  | 0, _, _, hm => by simp [chain] at hm
  | n + 1, s, h, hm => by
    simp only [chain] at hm ⊢
    cases hs : step s with
    | none => simp [hs] at hm
    | some r =>
      simp only [hs, mem_cons] at hm ⊢
      rcases hm with rfl | hm
      · exact ⟨s, r, Or.inl rfl, hs, rfl⟩
      · obtain ⟨pred, raw, hp, hst, he⟩ := mem_chain step enf n (enf r.state) h hm
        refine ⟨pred, raw, ?_, hst, he⟩
        rcases hp with rfl | ⟨h', hh', rfl⟩
        · exact Or.inr ⟨enfHit enf r, Or.inl rfl, rfl⟩
        · exact Or.inr ⟨h', Or.inr hh', rfl⟩

/-- the chain has at most `n` rows, one per iteration -/
theorem chain_length_le (step : Vec → Option Hit) (enf : Vec → Vec) :
    ∀ (n : Nat) (s : Vec), (chain step enf n s).length ≤ n
  | 0, _ => by simp [chain]
  | n + 1, s => by
    simp only [chain]
    cases step s with
    | none => simp
    | some h => simpa using chain_length_le step enf n (enf h.state)

/-! ### the loop of `_poincare_step` -/

theorem iter_succ' (f : Vec → Vec) : ∀ (n : Nat) (x : Vec), iter f (n + 1) x = f (iter f n x)
  | 0, _ => rfl
  | n + 1, x => by
    show iter f (n + 1) (f x) = f (iter f n (f x))
    exact iter_succ' f n (f x)

/-- characterisation of a successful `_poincare_step` loop started at `old` with elapsed time `el` -/
theorem stepLoop_some (c : StepCfg) : ∀ (fuel : Nat) (old : Vec) (el : Rat) (h : Hit),
    stepLoop c fuel old el = some h →
      ∃ k a, k < fuel ∧
        detect c.sec (iter c.flow k old) (iter c.flow (k + 1) old) (c.rhs (iter c.flow (k + 1) old)) = some a ∧
        (∀ j, j < k → detect c.sec (iter c.flow j old) (iter c.flow (j + 1) old)
            (c.rhs (iter c.flow (j + 1) old)) = none) ∧
        h.state = refine c a (iter c.flow k old) (iter c.flow (k + 1) old) ∧
        h.time = el + k * c.dt + a * c.dt
  | 0, _, _, _, hs => by simp [stepLoop] at hs
  | fuel + 1, old, el, h, hs => by
    simp only [stepLoop] at hs
    cases hd : detect c.sec old (c.flow old) (c.rhs (c.flow old)) with
    | some a =>
      rw [hd] at hs
      simp only [Option.some.injEq] at hs
      refine ⟨0, a, Nat.succ_pos _, by simpa [iter] using hd, by intro j hj; omega, ?_, ?_⟩
      · rw [← hs]; rfl
      · rw [← hs]; simp
    | none =>
      rw [hd] at hs
      obtain ⟨k, a, hk, h1, h2, h3, h4⟩ := stepLoop_some c fuel (c.flow old) (el + c.dt) h hs
      refine ⟨k + 1, a, by omega, h1, ?_, h3, ?_⟩
      · intro j hj
        cases j with
        | zero => simpa [iter] using hd
        | succ j => exact h2 j (by omega)
      · rw [h4]; push_cast; ring

/-- a failed loop saw no crossing in any of its `fuel` steps -/
theorem stepLoop_none (c : StepCfg) : ∀ (fuel : Nat) (old : Vec) (el : Rat),
    stepLoop c fuel old el = none →
      ∀ j, j < fuel → detect c.sec (iter c.flow j old) (iter c.flow (j + 1) old)
        (c.rhs (iter c.flow (j + 1) old)) = none
  | 0, _, _, _, j, hj => by omega
  | fuel + 1, old, el, hs, j, hj => by
    simp only [stepLoop] at hs
    cases hd : detect c.sec old (c.flow old) (c.rhs (c.flow old)) with
    | some a => rw [hd] at hs; simp at hs
    | none =>
      rw [hd] at hs
      cases j with
      | zero => simpa [iter] using hd
      | succ j => exact stepLoop_none c fuel (c.flow old) (el + c.dt) hs j (by omega)

end HitenModel.C14
