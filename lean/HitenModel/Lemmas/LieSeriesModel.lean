/-
  Lemmas/LieSeriesModel.lean — ties `Lemmas/LieSeries.lean` to the executable model of the code (`Core/C08.lean`: `lieSeries`, the model of
  `_apply_poly_transform` and `_apply_coord_transform`): with exact cleaning the model's truncated series is the Lie series modulo degree
  > N (`toMv_lieSeries_cong`), hence `model_lie_series_is_composition`.
-/
import HitenModel.Lemmas.LieSeries
import HitenModel.Lemmas.C08NF
import Mathlib.Tactic.FinCases

set_option linter.unusedSectionVars false

namespace HitenModel.LieSeries
open MvPolynomial Finset HitenModel.C08

variable {K : Type} [Field K] [DecidableEq K] [CharZero K]

theorem fact_eq_factorial (n : ℕ) : fact n = n.factorial := by
  induction n with
  | zero => rfl
  | succ n ih => rw [fact, ih, Nat.factorial_succ]

theorem deg_ofFun (s : Fin 6 →₀ ℕ) : (Mono.ofFun s).deg = s.degree := by
  rw [Finsupp.degree_eq_sum]
  simp [Mono.ofFun, Mono.deg, Fin.sum_univ_six]

theorem toFinsupp_degree (m : Mono) : m.toFinsupp.degree = m.deg := by
  rw [Finsupp.degree_eq_sum]
  simp [Mono.toFinsupp, Mono.deg, Mono.get, Fin.sum_univ_six]

/-- congruence from agreement of the coefficients of degree `≤ N` -/
theorem cong_of_coeff {N : ℕ} {A B : MvPolynomial (Fin 6) K}
    (h : ∀ s : Fin 6 →₀ ℕ, s.degree ≤ N → MvPolynomial.coeff s A = MvPolynomial.coeff s B) : Cong N A B := by
  intro s hs
  by_contra hlt
  have := h s (by omega)
  exact (MvPolynomial.mem_support_iff.mp hs) (by rw [MvPolynomial.coeff_sub, this, sub_self])

theorem Cong.mono {N M : ℕ} {A B : MvPolynomial (Fin 6) K} (h : Cong M A B) (hNM : N ≤ M) : Cong N A B :=
  Ord.mono h (by omega)

theorem Cong.symm {N : ℕ} {A B : MvPolynomial (Fin 6) K} (h : Cong N A B) : Cong N B A := by
  unfold Cong at *
  have := h.neg
  rwa [neg_sub] at this

theorem Cong.smul {N : ℕ} {A B : MvPolynomial (Fin 6) K} (h : Cong N A B) (c : K) : Cong N (c • A) (c • B) := by
  unfold Cong at *
  have := Ord.smul h c
  rwa [smul_sub] at this

/-- the bracket with a generator of order `≥ 3` respects the congruence -/
theorem Cong.ad {N : ℕ} {G A B : MvPolynomial (Fin 6) K} (hG : Ord 3 G) (h : Cong N A B) :
    Cong N (LieSeries.ad G A) (LieSeries.ad G B) := by
  unfold Cong at *
  have := (Ord.of_ad hG h).mono (Nat.le_succ (N + 1))
  rwa [map_sub] at this

/-- exact cleaning and truncation at degree `N` do not change the class modulo degree `> N` -/
theorem cong_clean_trunc {tiny : K → Bool} (htiny : ∀ c, tiny c = true → c = 0) (N : ℕ) (p : Poly K) :
    Cong N (toMv (clean tiny (trunc N p))) (toMv p) := by
  refine cong_of_coeff fun s hs => ?_
  rw [← Mono.toFinsupp_ofFun s, coeff_toMv, coeff_toMv, coeff_clean htiny, coeff_trunc, if_pos (by rw [deg_ofFun]; exact hs)]

theorem toMv_clean {tiny : K → Bool} (htiny : ∀ c, tiny c = true → c = 0) (p : Poly K) : toMv (clean tiny p) = toMv p :=
  toMv_ext fun m => coeff_clean htiny p m

theorem ord_monomial (s : Fin 6 →₀ ℕ) (c : K) (k : ℕ) (h : k ≤ s.degree) : Ord k (monomial s c) := by
  intro m hm
  classical
  have := MvPolynomial.support_monomial_subset hm
  rw [Finset.mem_singleton] at this
  rw [this]; exact h

theorem ord_toMv (k : ℕ) (p : Poly K) (h : ∀ v ∈ p, k ≤ v.1.deg) : Ord k (toMv p) := by
  induction p with
  | nil => intro m hm; simp at hm
  | cons t r ih =>
    rw [toMv_cons]
    refine Ord.add (ord_monomial _ _ _ ?_) (ih fun v hv => h v (List.mem_cons_of_mem _ hv))
    rw [toFinsupp_degree]; exact h t List.mem_cons_self

/-- the brackets of the model's series, modulo degree `> N`, are the iterated brackets -/
theorem toMv_lieTerms_cong {tiny : K → Bool} (htiny : ∀ c, tiny c = true → c = 0) (N : ℕ) (G : Poly K) (hG : Ord 3 (toMv G))
    (X' : MvPolynomial (Fin 6) K) :
    ∀ (Kc k : ℕ) (B : Poly K), Cong N (toMv B) ((LieSeries.ad (toMv G))^[k] X') →
      Cong N (toMv (lieTerms tiny N G Kc k B))
        (∑ j ∈ range Kc, (((k + 1 + j).factorial : K)⁻¹) • (LieSeries.ad (toMv G))^[k + 1 + j] X') := by
  intro Kc
  induction Kc with
  | zero => intro k B _; simp [lieTerms]; exact Cong.refl N _
  | succ Kc ih =>
    intro k B hB
    have hB' : Cong N (toMv (clean tiny (trunc N (poisson B G)))) ((LieSeries.ad (toMv G))^[k + 1] X') := by
      refine (cong_clean_trunc htiny N _).trans ?_
      rw [toMv_poisson, ← ad_apply, Function.iterate_succ_apply']
      exact Cong.ad hG hB
    have hrest := ih (k + 1) _ hB'
    simp only [lieTerms]
    rw [toMv_append, toMv_scale, ← MvPolynomial.smul_eq_C_mul, Finset.sum_range_succ']
    have hterm : Cong N ((1 / ((fact (k + 1) : ℕ) : K)) • toMv (clean tiny (trunc N (poisson B G))))
        ((((k + 1 + 0).factorial : K)⁻¹) • (LieSeries.ad (toMv G))^[k + 1 + 0] X') := by
      rw [fact_eq_factorial, one_div, Nat.add_zero]
      exact hB'.smul _
    have hsum : (∑ j ∈ range Kc, (((k + 1 + 1 + j).factorial : K)⁻¹) • (LieSeries.ad (toMv G))^[k + 1 + 1 + j] X') =
        ∑ j ∈ range Kc, (((k + 1 + (j + 1)).factorial : K)⁻¹) • (LieSeries.ad (toMv G))^[k + 1 + (j + 1)] X' := by
      refine sum_congr rfl fun j _ => ?_
      rw [show k + 1 + 1 + j = k + 1 + (j + 1) by omega]
    rw [hsum] at hrest
    have := hterm.add hrest
    rwa [add_comm ((((k + 1 + 0).factorial : K)⁻¹) • _)] at this

/-- **the model's truncated series is the Lie series modulo degree `> N`** (exact cleaning) -/
theorem toMv_lieSeries_cong {tiny : K → Bool} (htiny : ∀ c, tiny c = true → c = 0) (N Kc : ℕ) (G X : Poly K)
    (hG : ∀ v ∈ G, 3 ≤ v.1.deg) : Cong N (toMv (lieSeries tiny N Kc G X)) (lieSum Kc (toMv G) (toMv X)) := by
  have hG' := ord_toMv 3 G hG
  unfold lieSeries
  rw [toMv_clean htiny, toMv_append, lieSum, Finset.sum_range_succ']
  have h := toMv_lieTerms_cong htiny N G hG' (toMv X) Kc 0 X (by simpa using Cong.refl N (toMv X))
  have hsum : (∑ j ∈ range Kc, (((0 + 1 + j).factorial : K)⁻¹) • (LieSeries.ad (toMv G))^[0 + 1 + j] (toMv X)) =
      ∑ j ∈ range Kc, (((j + 1).factorial : K)⁻¹) • (LieSeries.ad (toMv G))^[j + 1] (toMv X) := by
    refine sum_congr rfl fun j _ => ?_
    rw [show 0 + 1 + j = j + 1 by omega]
  rw [hsum] at h
  have := (Cong.refl N (toMv X)).add h
  simpa [add_comm] using this

theorem Cong.mul_left {N : ℕ} {B B' : MvPolynomial (Fin 6) K} (h : Cong N B B') (A : MvPolynomial (Fin 6) K) : Cong N (A * B) (A * B') := by
  have := h.mul_right A
  rwa [mul_comm B A, mul_comm B' A] at this

theorem Cong.mul {N : ℕ} {A A' B B' : MvPolynomial (Fin 6) K} (h1 : Cong N A A') (h2 : Cong N B B') : Cong N (A * B) (A' * B') :=
  (h1.mul_right B).trans (h2.mul_left A')

/-- substituting congruent polynomials gives congruent results -/
theorem aeval_cong {N : ℕ} {a b : Fin 6 → MvPolynomial (Fin 6) K} (h : ∀ i, Cong N (a i) (b i)) (H : MvPolynomial (Fin 6) K) :
    Cong N (MvPolynomial.aeval a H) (MvPolynomial.aeval b H) := by
  induction H using MvPolynomial.induction_on with
  | C c => rw [MvPolynomial.aeval_C, MvPolynomial.aeval_C]; exact Cong.refl N _
  | add p q hp hq => rw [map_add, map_add]; exact hp.add hq
  | mul_X p i hp => rw [map_mul, map_mul, MvPolynomial.aeval_X, MvPolynomial.aeval_X]; exact hp.mul (h i)

/-- the coordinate polynomial `x_i` of the model -/
def coordPoly (i : Fin 6) : Poly K := [(Mono.ofFun (fun j => if j = i then 1 else 0), 1)]

theorem toMv_coordPoly (i : Fin 6) : toMv (coordPoly (K := K) i) = X i := by
  have e : (Mono.ofFun (fun j : Fin 6 => if j = i then 1 else 0)).toFinsupp = Finsupp.single i 1 := by
    ext j
    fin_cases i <;> fin_cases j <;> simp [Mono.toFinsupp, Mono.ofFun, Mono.get]
  simp [coordPoly, e, MvPolynomial.X]

/-- **model_lie_series_is_composition** — C08, sentence 2, for one generator, on the executable model of `_apply_poly_transform` /
`_apply_coord_transform` (the same `lieSeries`, exact cleaning): with at least `N` brackets (the code takes `K = max(N, …) ≥ N`,
`K_observed_sufficient`) and a generator without terms of degree `< 3`, the transformed Hamiltonian agrees, in every coefficient of degree
`≤ N`, with the ORIGINAL Hamiltonian composed with the transformed coordinates: `H_new ≡ H_old ∘ Φ`, `Φ_i = lieSeries(x_i)`. -/
theorem model_lie_series_is_composition {tiny : K → Bool} (htiny : ∀ c, tiny c = true → c = 0) (N Kc : ℕ) (hK : N ≤ Kc)
    (G H : Poly K) (hG : ∀ v ∈ G, 3 ≤ v.1.deg) :
    Cong N (toMv (lieSeries tiny N Kc G H))
      (MvPolynomial.aeval (fun i => toMv (lieSeries tiny N Kc G (coordPoly i))) (toMv H)) := by
  have hG' := ord_toMv 3 G hG
  have h1 := toMv_lieSeries_cong htiny N Kc G H hG
  have h2 : Cong N (lieSum Kc (toMv G) (toMv H)) (MvPolynomial.aeval (fun i => lieSum Kc (toMv G) (X i)) (toMv H)) :=
    (lie_series_is_composition Kc (toMv G) hG' (toMv H)).mono hK
  have h3 : Cong N (MvPolynomial.aeval (fun i => lieSum Kc (toMv G) (X i)) (toMv H))
      (MvPolynomial.aeval (fun i => toMv (lieSeries tiny N Kc G (coordPoly i))) (toMv H)) := by
    refine aeval_cong (fun i => ?_) _
    have := (toMv_lieSeries_cong htiny N Kc G (coordPoly i) hG).symm
    rwa [toMv_coordPoly] at this
  exact h1.trans (h2.trans h3)

/-- coefficient form of the same statement -/
theorem model_lie_series_is_composition_coeff {tiny : K → Bool} (htiny : ∀ c, tiny c = true → c = 0) (N Kc : ℕ) (hK : N ≤ Kc)
    (G H : Poly K) (hG : ∀ v ∈ G, 3 ≤ v.1.deg) (m : Mono) (hm : m.deg ≤ N) :
    coeff (lieSeries tiny N Kc G H) m =
      MvPolynomial.coeff m.toFinsupp
        (MvPolynomial.aeval (fun i => toMv (lieSeries tiny N Kc G (coordPoly i))) (toMv H)) := by
  rw [← coeff_toMv]
  exact (model_lie_series_is_composition htiny N Kc hK G H hG).coeff_eq _ (by rw [toFinsupp_degree]; exact hm)

end HitenModel.LieSeries
