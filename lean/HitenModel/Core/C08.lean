/- Core/C08.lean — hand model of the Lie-series normal form of hiten (import-free, executable).

Everything is polymorphic in the coefficient type `K` and uses only the notation classes, so the *same* definitions
are (a) executed over the Gaussian rationals by `Drivers/C08.lean` for the correspondence with the real code and
(b) reasoned about over an arbitrary field in `Lemmas/C08*.lean` / `Props/C08.lean`.

Polynomials in the six canonical variables `(q1,q2,q3,p1,p2,p3)` are *sparse term lists* `List (Mono × K)`; a monomial
may occur several times (its coefficient is the sum, `coeff`).  The packed/graded array layout of the real code
(`psi`, `clmo`, one dense block per degree) is property C06's subject and is abstracted away: a real graded polynomial
is the term list of its non-zero entries, and the harness decodes array positions with its own enumeration.

Python object (src/hiten/algorithms)                         model
-----------------------------------------------------------  ------------------------------------------
polynomial/algebra.py  _poly_diff                            diff
polynomial/algebra.py  _poly_mul                             mul
polynomial/algebra.py  _poly_poisson, operations.py
   _polynomial_poisson_bracket (truncated at max_deg)        poisson, trunc N (poisson · ·)
polynomial/operations.py _polynomial_clean (|c| <= tol)      clean tiny          (tiny c  ⇔ |c| <= tol)
hamiltonian/lie.py _solve_homological_equation               solve small e1 e2 e3 (small d ⇔ |d| < 1e-14)
hamiltonian/lie.py _apply_poly_transform                     lieSeries tiny N (Kpoly N n)
hamiltonian/center/_lie.py _select_terms_for_elimination     select selPartial
hamiltonian/normal/_lie.py _select_nonresonant_terms         select (selFull res e1 e2 e3)  (res d ⇔ |d| < resonance_tol)
hamiltonian/center/_lie.py, normal/_lie.py _lie_transform    lieTransform (loop body: lieStep)
hamiltonian/center/_lie.py _apply_coord_transform            applyCoord
hamiltonian/center/_lie.py _lie_expansion                    lieExpansion
hamiltonian/center/_lie.py _zero_q1p1                        zeroQ1P1
hamiltonian/center/_lie.py _evaluate_transform               evalTransform
-/
namespace HitenModel.C08

/-- exponent vector `(k0,…,k5)` of `q1^k0 q2^k1 q3^k2 p1^k3 p2^k4 p3^k5` -/
structure Mono where
  a0 : Nat
  a1 : Nat
  a2 : Nat
  a3 : Nat
  a4 : Nat
  a5 : Nat
deriving DecidableEq, Repr, Inhabited

namespace Mono

def deg (m : Mono) : Nat := m.a0 + m.a1 + m.a2 + m.a3 + m.a4 + m.a5

def add (m n : Mono) : Mono := ⟨m.a0 + n.a0, m.a1 + n.a1, m.a2 + n.a2, m.a3 + n.a3, m.a4 + n.a4, m.a5 + n.a5⟩

/-- exponent of variable `j` (0..5; anything larger reads the last slot) -/
def get (m : Mono) (j : Nat) : Nat :=
  match j with
  | 0 => m.a0 | 1 => m.a1 | 2 => m.a2 | 3 => m.a3 | 4 => m.a4 | _ => m.a5

/-- lower the exponent of variable `j` by one -/
def dec (m : Mono) (j : Nat) : Mono :=
  match j with
  | 0 => { m with a0 := m.a0 - 1 }
  | 1 => { m with a1 := m.a1 - 1 }
  | 2 => { m with a2 := m.a2 - 1 }
  | 3 => { m with a3 := m.a3 - 1 }
  | 4 => { m with a4 := m.a4 - 1 }
  | _ => { m with a5 := m.a5 - 1 }

/-- sort key (exponents of the real code are < 64) -/
def key (m : Mono) : Nat := ((((m.a0 * 64 + m.a1) * 64 + m.a2) * 64 + m.a3) * 64 + m.a4) * 64 + m.a5

/-- the unit monomial of variable `j` -/
def unit (j : Nat) : Mono :=
  match j with
  | 0 => ⟨1, 0, 0, 0, 0, 0⟩ | 1 => ⟨0, 1, 0, 0, 0, 0⟩ | 2 => ⟨0, 0, 1, 0, 0, 0⟩
  | 3 => ⟨0, 0, 0, 1, 0, 0⟩ | 4 => ⟨0, 0, 0, 0, 1, 0⟩ | _ => ⟨0, 0, 0, 0, 0, 1⟩

end Mono

abbrev Poly (K : Type) := List (Mono × K)

def fact : Nat → Nat
  | 0 => 1
  | n + 1 => (n + 1) * fact n

/-- `K = max(N_max, (N_max - deg_G)//(deg_G - 2) + 1)` of `_apply_poly_transform` (`K = 1` when `deg_G <= 2`) -/
def Kpoly (N n : Nat) : Nat := if 2 < n then max N ((N - n) / (n - 2) + 1) else 1

/-- `K_max = max(N_max, (N_max - 1)//(deg_G - 2) + 1)` of `_apply_coord_transform` -/
def Kcoord (N n : Nat) : Nat := if 2 < n then max N ((N - 1) / (n - 2) + 1) else 1

/-- `k[0] != k[3]`: the monomials `_select_terms_for_elimination` keeps for elimination -/
def selPartial (m : Mono) : Bool := m.a0 != m.a3

section
variable {K : Type} [Add K] [Sub K] [Mul K] [Div K] [Neg K] [OfNat K 0] [OfNat K 1] [NatCast K] [DecidableEq K]

/-- coefficient of the monomial `m` (sum over all its occurrences) -/
def coeff : Poly K → Mono → K
  | [], _ => 0
  | t :: r, m => if t.1 = m then t.2 + coeff r m else coeff r m

def scale (a : K) (p : Poly K) : Poly K := p.map fun t => (t.1, a * t.2)

def neg (p : Poly K) : Poly K := p.map fun t => (t.1, -t.2)

/-- `_poly_diff`: ∂/∂x_j, term by term (terms not containing `x_j` disappear) -/
def diff (j : Nat) (p : Poly K) : Poly K :=
  p.filterMap fun t => if t.1.get j = 0 then none else some (t.1.dec j, ((t.1.get j : Nat) : K) * t.2)

def mulTerm (t : Mono × K) (q : Poly K) : Poly K := q.map fun u => (t.1.add u.1, t.2 * u.2)

/-- `_poly_mul` -/
def mul (p q : Poly K) : Poly K := p.flatMap fun t => mulTerm t q

/-- one canonical pair of the bracket: `∂p/∂q_m ∂q/∂p_m − ∂p/∂p_m ∂q/∂q_m` -/
def poissonPair (m : Nat) (p q : Poly K) : Poly K :=
  mul (diff m p) (diff (m + 3) q) ++ neg (mul (diff (m + 3) p) (diff m q))

/-- `_poly_poisson` / `_polynomial_poisson_bracket` without truncation: `{p,q} = Σ_m ∂p/∂q_m ∂q/∂p_m − ∂p/∂p_m ∂q/∂q_m` -/
def poisson (p q : Poly K) : Poly K := poissonPair 0 p q ++ (poissonPair 1 p q ++ poissonPair 2 p q)

/-- truncation `res_deg > max_deg -> skip` -/
def trunc (N : Nat) (p : Poly K) : Poly K := p.filter fun t => decide (t.1.deg ≤ N)

/-- the homogeneous block of degree `d` -/
def block (d : Nat) (p : Poly K) : Poly K := p.filter fun t => decide (t.1.deg = d)

/-- merge runs of equal monomials (applied to a sorted list: every monomial ends up once) -/
def mergeGo (cur : Mono × K) : Poly K → Poly K
  | [] => [cur]
  | t :: r => if t.1 = cur.1 then mergeGo (cur.1, cur.2 + t.2) r else cur :: mergeGo t r

def mergeAdj : Poly K → Poly K
  | [] => []
  | t :: r => mergeGo t r

/-- canonical form: sorted by monomial key, every monomial once, no zero coefficient (= the set of non-zero entries
of the dense arrays of the real code) -/
def normalize (p : Poly K) : Poly K :=
  (mergeAdj (p.mergeSort fun a b => decide (a.1.key ≤ b.1.key))).filter fun t => decide (t.2 ≠ 0)

/-- `not arr.any()` -/
def isZero (p : Poly K) : Bool := (normalize p).isEmpty

/-- `_polynomial_clean`: entries with `|c| <= tol` become zero (`tiny c ⇔ |c| <= tol`) -/
def clean (tiny : K → Bool) (p : Poly K) : Poly K := (normalize p).filter fun t => !tiny t.2

/-- the term selection of `_select_terms_for_elimination` / `_select_nonresonant_terms` -/
def select (sel : Mono → Bool) (p : Poly K) : Poly K := p.filter fun t => sel t.1

/-- `(k3-k0)*eta0 + (k4-k1)*eta1 + (k5-k2)*eta2` -/
def divisor (e1 e2 e3 : K) (m : Mono) : K :=
  (((m.a3 : Nat) : K) - ((m.a0 : Nat) : K)) * e1 + (((m.a4 : Nat) : K) - ((m.a1 : Nat) : K)) * e2
    + (((m.a5 : Nat) : K) - ((m.a2 : Nat) : K)) * e3

/-- `_select_nonresonant_terms` keeps the monomials whose resonance value is not small (`res d ⇔ |d| < resonance_tol`) -/
def selFull (res : K → Bool) (e1 e2 e3 : K) (m : Mono) : Bool := !res (divisor e1 e2 e3 m)

/-- `_solve_homological_equation`: `G[m] = -c/denom`, skipped when `|denom| < 1e-14` (`small`) -/
def solve (small : K → Bool) (e1 e2 e3 : K) (p : Poly K) : Poly K :=
  p.filterMap fun t =>
    if small (divisor e1 e2 e3 t.1) then none else some (t.1, -t.2 / divisor e1 e2 e3 t.1)

/-- the terms `(1/k!) B_k`, `k = k0+1 … k0+Kc`, with `B_k = clean (trunc N {B_{k-1}, G})` and `B_{k0} = B` -/
def lieTerms (tiny : K → Bool) (N : Nat) (G : Poly K) : Nat → Nat → Poly K → Poly K
  | 0, _, _ => []
  | Kc + 1, k, B =>
      let B' := clean tiny (trunc N (poisson B G))
      scale (1 / ((fact (k + 1) : Nat) : K)) B' ++ lieTerms tiny N G Kc (k + 1) B'

/-- truncated Lie series `X + {X,G} + (1/2!){{X,G},G} + … ` (`Kc` brackets), cleaned: `_apply_poly_transform`,
`_apply_coord_transform` -/
def lieSeries (tiny : K → Bool) (N Kc : Nat) (G X : Poly K) : Poly K :=
  clean tiny (X ++ lieTerms tiny N G Kc 0 X)

structure LState (K : Type) where
  trans : Poly K
  G : Poly K
  elim : Poly K

/-- configuration of `_lie_transform`: `eta`, the three thresholds and the selection rule -/
structure Cfg (K : Type) where
  e1 : K
  e2 : K
  e3 : K
  small : K → Bool
  tiny : K → Bool
  sel : Mono → Bool
  N : Nat

/-- body of the loop `for n in range(3, degree+1)` of `_lie_transform` (both variants) -/
def lieStep (c : Cfg K) (s : LState K) (n : Nat) : LState K :=
  let pn := normalize (block n s.trans)
  if pn.isEmpty then s else
  let pe := select c.sel pn
  if pe.isEmpty then s else
  let g := clean c.tiny (solve c.small c.e1 c.e2 c.e3 pe)
  { trans := lieSeries c.tiny c.N (Kpoly c.N n) g s.trans, G := s.G ++ g, elim := s.elim ++ pe }

/-- the loop of `_lie_transform` up to and including degree `3 + cnt - 1` -/
def lieLoop (c : Cfg K) (s : LState K) (cnt : Nat) : LState K := (List.range' 3 cnt).foldl (lieStep c) s

/-- `_lie_transform`: returns `(poly_trans, poly_G_total, poly_elim_total)` -/
def lieTransform (c : Cfg K) (H : Poly K) : LState K :=
  let s := lieLoop c ⟨H, [], []⟩ (c.N - 2)
  { trans := s.trans, G := clean c.tiny s.G, elim := clean c.tiny s.elim }

/-- largest degree carrying a non-zero coefficient (`_polynomial_total_degree`; 0 for the zero polynomial here) -/
def totalDeg (p : Poly K) : Nat := (normalize p).foldl (fun d t => max d t.1.deg) 0

/-- `_apply_coord_transform` -/
def applyCoord (tiny : K → Bool) (N : Nat) (G X : Poly K) : Poly K :=
  lieSeries tiny N (Kcoord N (totalDeg G)) G X

def idCoords : List (Poly K) := (List.range 6).map fun j => [(Mono.unit j, (1 : K))]

/-- `_zero_q1p1` -/
def zeroQ1P1 (tiny : K → Bool) (p : Poly K) : Poly K :=
  (normalize p).filter fun t => !tiny t.2 && t.1.a0 == 0 && t.1.a3 == 0

/-- `_lie_expansion`: forward `n = 3..N`, inverse `n = N..3`; `G_n = sign * poly_G_total[n]` -/
def lieExpansion (tiny : K → Bool) (N : Nat) (Gtot : Poly K) (inverse : Bool) (sign : K) (restrict : Bool) :
    List (Poly K) :=
  let order := if inverse then (List.range' 3 (N - 2)).reverse else List.range' 3 (N - 2)
  let coords := order.foldl (fun coords n =>
      let gn := normalize (block n Gtot)
      if gn.isEmpty then coords else coords.map (applyCoord tiny N (scale sign gn))) idCoords
  if restrict then coords.map (zeroQ1P1 tiny) else coords

def npow (x : K) : Nat → K
  | 0 => 1
  | n + 1 => x * npow x n

def evalMono (z : Nat → K) (m : Mono) : K :=
  npow (z 0) m.a0 * npow (z 1) m.a1 * npow (z 2) m.a2 * npow (z 3) m.a3 * npow (z 4) m.a4 * npow (z 5) m.a5

/-- `_polynomial_evaluate` -/
def evalPoly (z : Nat → K) (p : Poly K) : K := p.foldr (fun t acc => t.2 * evalMono z t.1 + acc) 0

/-- `_evaluate_transform` -/
def evalTransform (z : Nat → K) (ex : List (Poly K)) : List K := ex.map (evalPoly z)

/-- the quadratic part `eta0 q1 p1 + eta1 q2 p2 + eta2 q3 p3` -/
def H2 (e1 e2 e3 : K) : Poly K :=
  [(⟨1, 0, 0, 1, 0, 0⟩, e1), (⟨0, 1, 0, 0, 1, 0⟩, e2), (⟨0, 0, 1, 0, 0, 1⟩, e3)]

end

/-! ### Gaussian rationals (the coefficient field of the driver) -/

structure GQ where
  re : Rat
  im : Rat
deriving DecidableEq, Repr, Inhabited

namespace GQ
instance : Add GQ := ⟨fun a b => ⟨a.re + b.re, a.im + b.im⟩⟩
instance : Sub GQ := ⟨fun a b => ⟨a.re - b.re, a.im - b.im⟩⟩
instance : Neg GQ := ⟨fun a => ⟨-a.re, -a.im⟩⟩
instance : Mul GQ := ⟨fun a b => ⟨a.re * b.re - a.im * b.im, a.re * b.im + a.im * b.re⟩⟩
def normSq (a : GQ) : Rat := a.re * a.re + a.im * a.im
instance : Div GQ := ⟨fun a b =>
  let d := normSq b
  ⟨(a.re * b.re + a.im * b.im) / d, (a.im * b.re - a.re * b.im) / d⟩⟩
instance : OfNat GQ 0 := ⟨⟨0, 0⟩⟩
instance : OfNat GQ 1 := ⟨⟨1, 0⟩⟩
instance : NatCast GQ := ⟨fun n => ⟨(n : Rat), 0⟩⟩
/-- `|a| < t` for `t ≥ 0` -/
def absLt (t : Rat) (a : GQ) : Bool := decide (normSq a < t * t)
/-- `|a| <= t` for `t ≥ 0` -/
def absLe (t : Rat) (a : GQ) : Bool := decide (normSq a ≤ t * t)
end GQ

end HitenModel.C08
