/- GENERATED on every run by harness/props/c08.py from the current source — do not edit.
   kTable: (N_max, deg_G, brackets taken by _apply_poly_transform, brackets taken by _apply_coord_transform),
   observed by executing the current py_funcs with a counting `_factorial`;
   guardTol: the threshold t of `abs(denom) < t` in _solve_homological_equation located by bisection on the
   compiled function (exact value of the float); default tolerances from the live signatures. -/
namespace HitenModel.Gen.C08

def kTable : List (Nat × Nat × Nat × Nat) := [
  (3, 3, 2, 3),
  (4, 3, 2, 4),
  (4, 4, 3, 4),
  (5, 3, 2, 5),
  (5, 4, 3, 5),
  (5, 5, 4, 5),
  (6, 3, 2, 6),
  (6, 4, 3, 6),
  (6, 5, 4, 6),
  (6, 6, 5, 6),
  (7, 3, 2, 7),
  (7, 4, 3, 7),
  (7, 5, 4, 7),
  (7, 6, 5, 7),
  (7, 7, 6, 7),
  (8, 3, 2, 8),
  (8, 4, 3, 8),
  (8, 5, 4, 8),
  (8, 6, 5, 8),
  (8, 7, 6, 8),
  (8, 8, 7, 8),
  (9, 3, 2, 9),
  (9, 4, 3, 9),
  (9, 5, 4, 9),
  (9, 6, 5, 9),
  (9, 7, 6, 9),
  (9, 8, 7, 9),
  (9, 9, 8, 9),
  (10, 3, 2, 10),
  (10, 4, 3, 10),
  (10, 5, 4, 10),
  (10, 6, 5, 10),
  (10, 7, 6, 10),
  (10, 8, 7, 10),
  (10, 9, 8, 10),
  (10, 10, 9, 10)]

def guardTol : Rat := ((6338253001141147 : Rat) / 633825300114114700748351602688)
def tolPartialDefault : Rat := ((178405961588245 : Rat) / 178405961588244985132285746181186892047843328)
def tolFullDefault : Rat := ((178405961588245 : Rat) / 178405961588244985132285746181186892047843328)
def resonanceTolDefault : Rat := ((6338253001141147 : Rat) / 633825300114114700748351602688)
def tolExpansionDefault : Rat := ((178405961588245 : Rat) / 178405961588244985132285746181186892047843328)

end HitenModel.Gen.C08
