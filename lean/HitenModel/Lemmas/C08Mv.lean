import HitenModel.Lemmas.C08
