/-
  Drivers/C11.lean — line-protocol driver of the C11 correspondence.  Executes the polymorphic model of
  `HitenModel/Core/C11.lean` at `α := Rat` (exact arithmetic).  One request per stdin line, one answer per line.

  numbers: `n` or `n/d` (exact rationals; the harness sends the exact value of every float).
  scripted event function G (piecewise affine in the scalar state u): tokens `lo c0 c1` repeated; the piece with the
  largest `lo ≤ u` applies (the first piece applies below the second `lo`):  G u = c0 + c1 * (u - lo).

  EC gp gn dir | CD gl gm dir | BU a b gl mid gm c | BC a b h xtol | CL h max min | AJ t h tend
  RF dir t0 h u0 du xtol gtol ; script                 refine with P θ = u0 + θ*du, g t y = G y
  SG dir xtol gtol u0 ; t0 t1 … ; script               gridScan, world u' = 1 (adv t h u = u + h, P θ = u + θ*h)
  SA dir xtol gtol u0 t0 tmax maxS minS h0 fuel ; acc fac acc fac … ; script     adaptiveScan, same world
  RP dir t0 h xtol gtol gl0 ; θ1 g1 θ2 g2 …            refine replayed on recorded oracle answers (P θ = θ)
  RS dir ; g0 g1 g2 …                                  scan replayed on recorded end-of-step event values
-/
import HitenModel.Core.C11
open HitenModel.C11

def parseRat (s : String) : Rat :=
  match s.splitOn "/" with
  | [n] => (n.toInt?.getD 0 : Int)
  | [n, d] => ((n.toInt?.getD 0 : Int) : Rat) / ((d.toNat?.getD 1 : Nat) : Rat)
  | _ => 0

def showRat (q : Rat) : String := if q.den == 1 then s!"{q.num}" else s!"{q.num}/{q.den}"

def toks (s : String) : List String := (s.splitOn " ").filter (· ≠ "")

def sections (s : String) : List (List String) := (s.splitOn ";").map toks

structure Piece where
  lo : Rat
  c0 : Rat
  c1 : Rat

def parsePieces : List String → List Piece
  | a :: b :: c :: rest => ⟨parseRat a, parseRat b, parseRat c⟩ :: parsePieces rest
  | _ => []

def evalScript (ps : List Piece) (u : Rat) : Rat :=
  match ps with
  | [] => 0
  | p0 :: rest =>
    let p := rest.foldl (fun cur p => if p.lo ≤ u then p else cur) p0
    p.c0 + p.c1 * (u - p.lo)

def showExit : Exit → String
  | .gtol => "gtol" | .xtol => "xtol" | .maxIter => "maxiter"

def showRefined (r : Refined Rat Rat) : String :=
  s!"{showRat r.x} {showRat r.t} {showRat r.y} {showExit r.exit} {r.iters} {showRat r.a} {showRat r.b} {showRat r.gl}"

def showOutcome : Outcome Rat Rat → String
  | .hit i r yn => s!"HIT {i} {showRefined r} {showRat yn}"
  | .noHit t y => s!"NOHIT {showRat t} {showRat y}"
  | .outOfFuel => "OUTOFFUEL"

def b01 (b : Bool) : String := if b then "1" else "0"

def parseAttempts : List String → List (Bool × Rat)
  | a :: f :: rest => (a == "1", parseRat f) :: parseAttempts rest
  | _ => []

def parsePairs : List String → List (Rat × Rat)
  | a :: b :: rest => (parseRat a, parseRat b) :: parsePairs rest
  | _ => []

def lookup (tab : List (Rat × Rat)) (k : Rat) : Option Rat := (tab.find? (·.1 == k)).map (·.2)

def handle (line : String) : String :=
  match sections line with
  | [["EC", gp, gn, d]] => b01 (eventCrossed (parseRat gp) (parseRat gn) (d.toInt?.getD 0))
  | [["CD", gl, gm, d]] => b01 (crossedDirection (parseRat gl) (parseRat gm) (d.toInt?.getD 0))
  | [["BU", a, b, gl, mid, gm, c]] =>
    let u := bisectionUpdate (parseRat a) (parseRat b) (parseRat gl) (parseRat mid) (parseRat gm) (c == "1")
    s!"{showRat u.1} {showRat u.2.1} {showRat u.2.2}"
  | [["BC", a, b, h, x]] => b01 (bracketConverged (parseRat a) (parseRat b) (parseRat h) (parseRat x))
  | [["CL", h, mx, mn]] => showRat (clampStep (parseRat h) (parseRat mx) (parseRat mn))
  | [["AJ", t, h, te]] => showRat (adjustStep (parseRat t) (parseRat h) (parseRat te))
  | [["RF", d, t0, h, u0, du, xtol, gtol], script] =>
    let ps := parsePieces script
    let u0 := parseRat u0
    let du := parseRat du
    let r := refine (fun θ => u0 + θ * du) (fun _ y => evalScript ps y) (parseRat t0) (parseRat h) u0
      (d.toInt?.getD 0) (parseRat xtol) (parseRat gtol)
    showRefined r
  | [["SG", d, xtol, gtol, u0], tv, script] =>
    let ps := parsePieces script
    let o := gridScan (fun _ h (y : Rat) => (y + h, fun θ => y + θ * h)) (fun _ y => evalScript ps y) (d.toInt?.getD 0)
      (parseRat xtol) (parseRat gtol) (tv.map parseRat) (parseRat u0)
    showOutcome o
  | [["SA", d, xtol, gtol, u0, t0, tmax, maxS, minS, h0, fuel], atts, script] =>
    let ps := parsePieces script
    let al := parseAttempts atts
    let oracle : Nat → Rat → Rat → Rat → Attempt Rat Rat := fun k _ h y =>
      let a := al.getD k (true, 1)
      ⟨a.1, a.2, y + h, fun θ => y + θ * h⟩
    let o := adaptiveScan oracle (fun _ y => evalScript ps y) (d.toInt?.getD 0) (parseRat xtol) (parseRat gtol)
      (parseRat t0) (parseRat tmax) (parseRat maxS) (parseRat minS) (parseRat h0) (parseRat u0) (fuel.toNat?.getD 0)
    showOutcome o
  | [["RP", d, t0, h, xtol, gtol, gl0], tabS] =>
    let tab := parsePairs tabS
    let gl0 := parseRat gl0
    -- state -1 is the step start (its event value is gl0); a midpoint missing from the record reads as 0
    let r := refine (fun θ => θ) (fun _ y => if y == -1 then gl0 else (lookup tab y).getD 0) (parseRat t0) (parseRat h) (-1 : Rat)
      (d.toInt?.getD 0) (parseRat xtol) (parseRat gtol)
    if r.exit == .gtol && (lookup tab r.x).isNone then s!"MISSING {showRat r.x}"
    else s!"{showRat r.x} {showRat r.t} {showExit r.exit} {r.iters} {showRat r.a} {showRat r.b}"
  | [["RS", d], gs] =>
    match gs.map parseRat with
    | [] => "ERR"
    | g0 :: rest =>
      let n := rest.length
      let steps : List (Step Rat Nat) := (List.range n).map fun (i : Nat) => Step.mk ((i : Nat) : Rat) (1 : Rat) i (i + 1) (fun _ => i + 1)
      let tab := g0 :: rest
      match scan (fun _ (y : Nat) => tab.getD y 0) (d.toInt?.getD 0) (1 : Rat) (0 : Rat) 0 steps g0 0 0 with
      | .hit i _ _ => s!"HIT {i}"
      | .noHit _ y => s!"NOHIT {y}"
      | .outOfFuel => "OUTOFFUEL"
  | _ => "ERR " ++ line

partial def loop (stdin : IO.FS.Stream) (stdout : IO.FS.Stream) : IO Unit := do
  let line ← stdin.getLine
  if line.isEmpty then return
  let l := String.ofList (line.toList.filter (fun c => c != '\n' && c != '\r'))
  if l ≠ "" then stdout.putStrLn (handle l)
  loop stdin stdout

def main : IO Unit := do
  let stdin ← IO.getStdin
  let stdout ← IO.getStdout
  loop stdin stdout
