/-
  Props/C18.lean — property C18: Hamiltonian-form conversions and coordinate changes run and are mutually inverse.

  `Gen.C18` is regenerated from /repo on every run (registry tables, complexification matrices as exported from the
  live `_M/_M_inv`, the traced local<->synodic maps, the operation every registered conversion was observed to perform);
  `C18` (Core) is the hand model that `Drivers/C18.lean` executes against the real code.
  RE variables of the traced point maps: 0..5 = the six input coordinates, 6 = gamma, 7 = mu, 8 = sgn, 9 = a.
-/
import HitenModel.Gen.C18
import HitenModel.Lemmas.C18
import HitenModel.Lemmas.REReal
import Mathlib.Tactic.FieldSimp
import Mathlib.Tactic.Ring
import Mathlib.Tactic.IntervalCases

set_option linter.unnecessarySeqFocus false

namespace HitenModel.Props.C18
open HitenModel HitenModel.C18 Gen.C18 RE

/-! ### 1. complexification matrices: `M·M† = I` over ℚ(√2)[i], `_M_inv = M†` -/

/-- the exported tables are exactly 6×6 -/
theorem M_tables_6x6 : M12.norm6 = M12 ∧ Minv12.norm6 = Minv12 ∧ M012.norm6 = M012 ∧ Minv012.norm6 = Minv012 := by
  decide +kernel

/-- `_M_inv(mix)` is the conjugate transpose of `_M(mix)`, both mix sets -/
theorem Minv_is_conjT : Minv12 = M12.conjT ∧ Minv012 = M012.conjT := by decide +kernel

theorem M_mul_conjT : M12.mul M12.conjT = QMat.ident ∧ M012.mul M012.conjT = QMat.ident := by decide +kernel

theorem Minv_mul_M : Minv12.mul M12 = QMat.ident ∧ Minv012.mul M012 = QMat.ident := by decide +kernel

/-- **M_unitary** (collinear mix set (1,2)): as complex matrices, `M·Mᴴ = 1` -/
theorem M_unitary_12 : M12.toMat * M12.toMat.conjTranspose = 1 := by
  rw [← QMat.toMat_conjT, ← QMat.toMat_mul, M_mul_conjT.1, QMat.toMat_ident]

/-- **M_unitary** (triangular mix set (0,1,2)) -/
theorem M_unitary_012 : M012.toMat * M012.toMat.conjTranspose = 1 := by
  rw [← QMat.toMat_conjT, ← QMat.toMat_mul, M_mul_conjT.2, QMat.toMat_ident]

/-- `_M(mix)` and `_M_inv(mix)` are two-sided inverses of each other (complex matrices, both mix sets) -/
theorem M_Minv_inverse :
    M12.toMat * Minv12.toMat = 1 ∧ Minv12.toMat * M12.toMat = 1 ∧
    M012.toMat * Minv012.toMat = 1 ∧ Minv012.toMat * M012.toMat = 1 := by
  refine ⟨?_, ?_, ?_, ?_⟩
  · rw [Minv_is_conjT.1, QMat.toMat_conjT]; exact M_unitary_12
  · rw [← QMat.toMat_mul, Minv_mul_M.1, QMat.toMat_ident]
  · rw [Minv_is_conjT.2, QMat.toMat_conjT]; exact M_unitary_012
  · rw [← QMat.toMat_mul, Minv_mul_M.2, QMat.toMat_ident]

/-! ### 2. point-wise maps real modal <-> complex (`_solve_complex`, `_solve_real`) are exact inverses -/

/-- `_solve_real(_solve_complex(x)) = x` on all six coordinates, for every complex vector (mix set (1,2)) -/
theorem solve_real_solve_complex_12 (x : ℕ → ℂ) (i : ℕ) (hi : i < 6) :
    applyMat M12.toLists (applyMat Minv12.toLists x) i = x i :=
  applyMat_inverse M12 Minv12 M_Minv_inverse.1 x i hi

/-- `_solve_complex(_solve_real(x)) = x` (mix set (1,2)) -/
theorem solve_complex_solve_real_12 (x : ℕ → ℂ) (i : ℕ) (hi : i < 6) :
    applyMat Minv12.toLists (applyMat M12.toLists x) i = x i :=
  applyMat_inverse Minv12 M12 M_Minv_inverse.2.1 x i hi

theorem solve_real_solve_complex_012 (x : ℕ → ℂ) (i : ℕ) (hi : i < 6) :
    applyMat M012.toLists (applyMat Minv012.toLists x) i = x i :=
  applyMat_inverse M012 Minv012 M_Minv_inverse.2.2.1 x i hi

theorem solve_complex_solve_real_012 (x : ℕ → ℂ) (i : ℕ) (hi : i < 6) :
    applyMat Minv012.toLists (applyMat M012.toLists x) i = x i :=
  applyMat_inverse Minv012 M012 M_Minv_inverse.2.2.2 x i hi

/-! ### 3. a linear change of variables applied to a polynomial agrees with the change applied to coordinates -/

/-- **poly_change_agrees_with_coord_change**: for every commutative ring of coefficients, every matrix, every
polynomial (not only Hamiltonians) and every point: the polynomial returned by `_substitute_linear(p, C)` takes at `x`
the value the old polynomial takes at `_substitute_coordinates(x, C)`. -/
theorem poly_change_agrees_with_coord_change {K : Type} [CommRing K] [DecidableEq K]
    (C : List (List K)) (p : Poly K) (x : ℕ → K) :
    evalPoly x (substLinear C p) = evalPoly (applyMat C x) p := substitute_spec C p x

/-- two substitutions in a row compose the coordinate maps (in the opposite order) -/
theorem substitute_comp {K : Type} [CommRing K] [DecidableEq K] (A B : List (List K)) (p : Poly K) (x : ℕ → K) :
    evalPoly x (substLinear B (substLinear A p)) = evalPoly (applyMat A (applyMat B x)) p := by
  rw [substitute_spec, substitute_spec]

/-- **reverse conversions are inverses** (generic form): if the coordinate maps of `A` and `B` undo each other on the
six phase-space coordinates, substituting `A` and then `B` gives back a polynomial with the same values everywhere.
For `C`/`C⁻¹` of `normal_form_transform` the hypothesis is the numerical inverse (`np.linalg.inv`), measured by the
harness; for the complexification matrices it is a theorem (next statements). -/
theorem substitute_roundtrip {K : Type} [CommRing K] [DecidableEq K] (A B : List (List K))
    (hinv : ∀ (x : ℕ → K) (i : ℕ), i < 6 → applyMat A (applyMat B x) i = x i)
    (p : Poly K) (hp : ∀ t ∈ p, t.2.length ≤ 6) (x : ℕ → K) :
    evalPoly x (substLinear B (substLinear A p)) = evalPoly x p := by
  rw [substitute_comp]
  exact evalPoly_congr _ _ 6 (hinv x) p hp

/-- the matrix a recorded `lin` operation substitutes, for the operations whose matrix is a fixed table -/
def matOf : MatId → Option QMat
  | .M12 => some M12 | .Minv12 => some Minv12 | .M012 => some M012 | .Minv012 => some Minv012
  | _ => none

/-- **complexify ∘ realify = id and realify ∘ complexify = id, exactly**: whenever two recorded operations are an
inverse pair of complexification substitutions, applying one after the other to ANY polynomial in the six variables
returns a polynomial with the same value at every complex point (the only difference left in the code is the final
`_polynomial_clean`, the numerical shell). -/
theorem complexification_roundtrip (a b : MatId) (A B : QMat) (hab : (Op.lin a).inverseOf (Op.lin b) = true)
    (hA : matOf a = some A) (hB : matOf b = some B)
    (p : Poly ℂ) (hp : ∀ t ∈ p, t.2.length ≤ 6) (x : ℕ → ℂ) :
    evalPoly x (substLinear B.toLists (substLinear A.toLists p)) = evalPoly x p := by
  have h := M_Minv_inverse
  cases a <;> cases b <;> simp [Op.inverseOf, MatId.inverse, matOf] at hab hA hB
  all_goals subst hA; subst hB
  · exact substitute_roundtrip _ _ (applyMat_inverse M12 Minv12 h.1) p hp x
  · exact substitute_roundtrip _ _ (applyMat_inverse Minv12 M12 h.2.1) p hp x
  · exact substitute_roundtrip _ _ (applyMat_inverse M012 Minv012 h.2.2.1) p hp x
  · exact substitute_roundtrip _ _ (applyMat_inverse Minv012 M012 h.2.2.2) p hp x

/-! ### 4. what the registered conversions do -/

/-- every edge was executed on a collinear and on a triangular point and what it did was recognised -/
theorem edge_ops_known :
    opsCollinear.length = registry.length ∧ opsTriangular.length = registry.length ∧
    opsCollinear.all Op.known = true ∧ opsTriangular.all Op.known = true := by decide +kernel

/-- **conversions registered in both directions apply mutually inverse substitutions** (M with M†, C with C⁻¹),
for collinear and for triangular points — together with `complexification_roundtrip` / `substitute_roundtrip` this is
"inverse of each other up to the cleaning tolerance" -/
theorem reverse_edges_are_inverse_ops :
    pairsInverse registry opsCollinear = true ∧ pairsInverse registry opsTriangular = true := by decide +kernel

/-- an edge has a registered reverse iff it is a linear substitution; the Lie transforms and the centre-manifold
restriction (not invertible) are exactly the one-way edges -/
theorem reverse_registered_iff_linear :
    reverseIffLinear registry opsCollinear = true ∧ reverseIffLinear registry opsTriangular = true := by decide +kernel

/-! ### 5. registry shape and the pipeline's path search -/

/-- **registry_shape**: form numbering is complete; every edge passes the BFS context filter and needs no context
beyond what the pipeline supplies (`point`, `_pipeline`) — so `convert` never raises "missing context"; the
conversion service's own table has exactly the registry's keys in the same order. -/
theorem registry_shape :
    formNames.length = nForms ∧ physical < nForms ∧
    registry.all (fun e => e.src < nForms && e.dst < nForms && e.usable && e.ctx.all (pipelineCtx.contains ·)) = true ∧
    convService = registry.map (fun e => (e.src, e.dst)) ∧
    (registry.map (fun e => (e.src, e.dst))).Nodup := by decide +kernel

theorem search_table : allPairs nForms (searchOK registry nForms) = true := by decide +kernel

/-- **path search soundness** (every registry): a returned path is a walk from source to target along usable edges -/
theorem path_search_sound (edges : List Edge) (s t : ℕ) (p : List ℕ) (h : findPath edges s t = some p) :
    p.head? = some s ∧ p.getLast? = some t ∧ List.IsChain (fun a b => Step edges a b) p :=
  let w := findPath_sound edges s t p h
  ⟨w.head, w.last, w.chain⟩

/-- **path search returns a shortest path**: on the current registry, no walk between two distinct forms is shorter
than the path `_follow_conversion_path` executes -/
theorem path_search_shortest (s t : ℕ) (hs : s < nForms) (ht : t < nForms) (hne : s ≠ t) (p p' : List ℕ)
    (h : findPath registry s t = some p) (w : Walk registry s t p') : p.length ≤ p'.length := by
  have ok := allPairs_spec search_table hs ht hne
  unfold searchOK at ok
  rw [h] at ok
  simp only [Bool.and_eq_true, decide_eq_true_eq, List.all_eq_true, List.mem_range, Bool.not_eq_true'] at ok
  by_contra hlt
  have hlt : p'.length - 1 < p.length - 1 := by
    have : p'.length ≠ 0 := by
      intro h0; have := w.head; rw [List.length_eq_zero_iff.mp h0] at this; simp at this
    omega
  have := ok.2 _ hlt
  have hm := w.mem_reachWithin
  rw [← List.contains_iff_mem] at hm
  rw [hm] at this
  exact Bool.noConfusion this

/-- **path search is complete**: on the current registry `NotImplementedError` is raised only when no walk exists -/
theorem path_search_complete (s t : ℕ) (hs : s < nForms) (ht : t < nForms) (hne : s ≠ t)
    (h : findPath registry s t = none) : ¬ ∃ p, Walk registry s t p := by
  have ok := allPairs_spec search_table hs ht hne
  unfold searchOK at ok
  rw [h] at ok
  simp only [Bool.and_eq_true, Bool.not_eq_true'] at ok
  rintro ⟨p, w⟩
  have hin : s ∈ reachWithin registry s nForms := by
    have : ∀ n, s ∈ reachWithin registry s n := by
      intro n; induction n with
      | zero => simp [reachWithin]
      | succ n ih => rw [reachWithin]; exact List.mem_append_left _ ih
    exact this _
  have := w.mem_closed ok.1 hin
  rw [← List.contains_iff_mem] at this
  rw [this] at ok
  exact Bool.noConfusion ok.2

/-- **every form is computable on a fresh pipeline**: `get_hamiltonian(form)` on an empty cache succeeds for every
registered form, executing registry edges only, and ends with the form in the cache -/
theorem fresh_pipeline_reaches_every_form :
    (List.range nForms).all (fun t => getOK registry physical [] t) = true := by decide +kernel

/-! ### 6. point-wise maps local <-> synodic are exact inverses -/

/-- environment after applying a traced map to the six coordinates (parameters 6.. unchanged) -/
noncomputable def after (f : ℕ → RE) (ρ : ℕ → ℝ) : ℕ → ℝ := fun k => if k < 6 then eval ρ (f k) else ρ k

/-- **local_synodic_inverse** (collinear): `_synodic2local_collinear(_local2synodic_collinear(c)) = c` for every
coordinate vector, every `mu`, `a`, and every `gamma ≠ 0`, `sgn ≠ 0` -/
theorem collinear_s2l_l2s (ρ : ℕ → ℝ) (hg : ρ 6 ≠ 0) (hs : ρ 8 ≠ 0) (i : ℕ) (hi : i < 6) :
    eval (after l2sCol ρ) (s2lCol i) = ρ i := by
  interval_cases i <;> (simp [after, l2sCol, s2lCol, eval] <;> (try field_simp) <;> (try ring))

/-- `_local2synodic_collinear(_synodic2local_collinear(s)) = s` -/
theorem collinear_l2s_s2l (ρ : ℕ → ℝ) (hg : ρ 6 ≠ 0) (hs : ρ 8 ≠ 0) (i : ℕ) (hi : i < 6) :
    eval (after s2lCol ρ) (l2sCol i) = ρ i := by
  interval_cases i <;> (simp [after, l2sCol, s2lCol, eval] <;> (try field_simp) <;> (try ring))

/-- **local_synodic_inverse** (triangular), both directions, all inputs -/
theorem triangular_s2l_l2s (ρ : ℕ → ℝ) (i : ℕ) (hi : i < 6) : eval (after l2sTri ρ) (s2lTri i) = ρ i := by
  interval_cases i <;> (simp [after, l2sTri, s2lTri, eval] <;> (try field_simp) <;> (try ring))

theorem triangular_l2s_s2l (ρ : ℕ → ℝ) (i : ℕ) (hi : i < 6) : eval (after s2lTri ρ) (l2sTri i) = ρ i := by
  interval_cases i <;> (simp [after, l2sTri, s2lTri, eval] <;> (try field_simp) <;> (try ring))

/-- the only divisors in the collinear inverse map are `gamma` and `sgn·gamma` (well defined iff both are non-zero) -/
theorem collinear_s2l_WD (ρ : ℕ → ℝ) (hg : ρ 6 ≠ 0) (hs : ρ 8 ≠ 0) (i : ℕ) (hi : i < 6) : WD ρ (s2lCol i) := by
  have : ρ 8 * ρ 6 ≠ 0 := mul_ne_zero hs hg
  interval_cases i
  all_goals simp [s2lCol, WD, eval, hg, this]

/-! ### 7. the cleaning tolerance: conversions there and back, *with* both cleaning steps -/

/-- `|c| ≤ tol` as the Boolean test `_polynomial_clean` applies -/
noncomputable def smallC (tol : ℝ) : ℂ → Bool := fun c => decide (‖c‖ ≤ tol)

/-- `_polynomial_clean(p, tol)` moves the value at any point by at most `tol·Σ_k |x^k|` -/
theorem clean_moves_value_by_at_most_tol (tol : ℝ) (htol : 0 ≤ tol) (p : Poly ℂ) (x : ℕ → ℂ) :
    ‖evalPoly x (cleanTerms (smallC tol) p) - evalPoly x p‖ ≤ tol * termScale x p := clean_bound tol htol x p

/-- one conversion (substitute, merge, clean) agrees with the coordinate change up to the cleaning tolerance -/
theorem conversion_agrees_with_coord_change_up_to_clean (tol : ℝ) (htol : 0 ≤ tol) (C : List (List ℂ)) (p : Poly ℂ)
    (x : ℕ → ℂ) :
    ‖evalPoly x (convertLin (smallC tol) C p) - evalPoly (applyMat C x) p‖
      ≤ tol * termScale x (normalize (substLinear C p)) := by
  have h := clean_bound tol htol x (normalize (substLinear C p))
  rwa [evalPoly_normalize, substitute_spec] at h

/-- **conversions registered in both directions are inverses of each other up to the cleaning tolerance**
(generic form): convert with `A` (cleaning at `tol₁`), convert back with `B` (cleaning at `tol₂`), where the coordinate
maps of `A` and `B` undo each other.  The value of the result at any point differs from the value of the original
polynomial by at most `tol₂·Σ|x^k|` over the terms of the second substitution plus `tol₁·Σ|(Bx)^k|` over the terms of
the first — nothing else. -/
theorem two_way_conversion_up_to_clean (tol₁ tol₂ : ℝ) (h₁ : 0 ≤ tol₁) (h₂ : 0 ≤ tol₂) (A B : List (List ℂ))
    (hinv : ∀ (x : ℕ → ℂ) (i : ℕ), i < 6 → applyMat A (applyMat B x) i = x i)
    (p : Poly ℂ) (hp : ∀ t ∈ p, t.2.length ≤ 6) (x : ℕ → ℂ) :
    ‖evalPoly x (convertLin (smallC tol₂) B (convertLin (smallC tol₁) A p)) - evalPoly x p‖
      ≤ tol₂ * termScale x (normalize (substLinear B (convertLin (smallC tol₁) A p)))
        + tol₁ * termScale (applyMat B x) (normalize (substLinear A p)) := by
  have e1 := conversion_agrees_with_coord_change_up_to_clean tol₂ h₂ B (convertLin (smallC tol₁) A p) x
  have e2 := conversion_agrees_with_coord_change_up_to_clean tol₁ h₁ A p (applyMat B x)
  have e3 : evalPoly (applyMat A (applyMat B x)) p = evalPoly x p := evalPoly_congr _ _ 6 (hinv x) p hp
  rw [e3] at e2
  have split : evalPoly x (convertLin (smallC tol₂) B (convertLin (smallC tol₁) A p)) - evalPoly x p
      = (evalPoly x (convertLin (smallC tol₂) B (convertLin (smallC tol₁) A p))
          - evalPoly (applyMat B x) (convertLin (smallC tol₁) A p))
        + (evalPoly (applyMat B x) (convertLin (smallC tol₁) A p) - evalPoly x p) := by ring
  rw [split]
  exact (norm_add_le _ _).trans (add_le_add e1 e2)

/-- … instantiated for the complexification edges: for every inverse pair of recorded complexification operations
the hypothesis of `two_way_conversion_up_to_clean` is a theorem -/
theorem complexification_two_way_up_to_clean (a b : MatId) (A B : QMat) (hab : (Op.lin a).inverseOf (Op.lin b) = true)
    (hA : matOf a = some A) (hB : matOf b = some B) (tol₁ tol₂ : ℝ) (h₁ : 0 ≤ tol₁) (h₂ : 0 ≤ tol₂)
    (p : Poly ℂ) (hp : ∀ t ∈ p, t.2.length ≤ 6) (x : ℕ → ℂ) :
    ‖evalPoly x (convertLin (smallC tol₂) B.toLists (convertLin (smallC tol₁) A.toLists p)) - evalPoly x p‖
      ≤ tol₂ * termScale x (normalize (substLinear B.toLists (convertLin (smallC tol₁) A.toLists p)))
        + tol₁ * termScale (applyMat B.toLists x) (normalize (substLinear A.toLists p)) := by
  have h := M_Minv_inverse
  refine two_way_conversion_up_to_clean tol₁ tol₂ h₁ h₂ _ _ ?_ p hp x
  cases a <;> cases b <;> simp [Op.inverseOf, MatId.inverse, matOf] at hab hA hB
  all_goals subst hA; subst hB
  · exact applyMat_inverse M12 Minv12 h.1
  · exact applyMat_inverse Minv12 M12 h.2.1
  · exact applyMat_inverse M012 Minv012 h.2.2.1
  · exact applyMat_inverse Minv012 M012 h.2.2.2

/-! ### non-vacuity -/

/-- the hypotheses of `complexification_roundtrip` are met by the operations recorded for a two-way edge -/
example : (Op.lin .M12).inverseOf (Op.lin .Minv12) = true ∧ matOf .M12 = some M12 ∧ matOf .Minv12 = some Minv12 :=
  ⟨by decide, rfl, rfl⟩
/-- a found path of several steps and a `none` both occur in the current registry -/
example : ((List.range nForms).any fun s => (List.range nForms).any fun t =>
      s != t && (match findPath registry s t with | some p => 3 ≤ p.length | none => false)) = true ∧
    ((List.range nForms).any fun s => (List.range nForms).any fun t =>
      s != t && (findPath registry s t).isNone) = true := by decide +kernel
example : ∃ ρ : ℕ → ℝ, ρ 6 ≠ 0 ∧ ρ 8 ≠ 0 := ⟨fun _ => 1, one_ne_zero, one_ne_zero⟩
/-- a polynomial with all exponent vectors of length ≤ 6 -/
example : ∀ t ∈ ([((2 : ℂ), [1, 0, 0, 2]), (3, [0, 0, 0, 0, 0, 1])] : Poly ℂ), t.2.length ≤ 6 := by
  intro t ht; simp at ht; rcases ht with rfl | rfl <;> simp

end HitenModel.Props.C18
