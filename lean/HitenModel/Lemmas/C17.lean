/-
  Lemmas/C17.lean — the monomial-list polynomial model of `Core/C17.lean` *is* Mathlib's `MvPolynomial ℕ R`:
  evaluation is `MvPolynomial.eval`, `Poly.diff` is the formal partial derivative `MvPolynomial.pderiv`; over ℝ it is the
  analytic partial derivative; real parts for complex coefficients; run/transcript lemmas of oracle programs.
-/
import HitenModel.Core.C17
import Mathlib.Algebra.MvPolynomial.PDeriv
import Mathlib.Data.Complex.Basic
import Mathlib.Tactic.Ring

namespace HitenModel.C17
open MvPolynomial

section Alg
variable {R : Type} [CommRing R]

theorem pw_eq_pow (x : R) (n : ℕ) : pw x n = x ^ n := by
  induction n with
  | zero => simp [pw]
  | succ n ih => simp [pw, ih, pow_succ]

/-- the monomial `∏_j X_{j0+j} ^ e_j` -/
noncomputable def monoMv (R : Type) [CommRing R] : ℕ → List ℕ → MvPolynomial ℕ R
  | _, [] => 1
  | j, k :: ks => X j ^ k * monoMv R (j + 1) ks

/-- the `MvPolynomial` denoted by a monomial list -/
noncomputable def toMv : Poly R → MvPolynomial ℕ R
  | [] => 0
  | m :: p => C m.c * monoMv R 0 m.e + toMv p

theorem eval_monoMv (z : ℕ → R) (j : ℕ) (ks : List ℕ) : eval z (monoMv R j ks) = monoVal z j ks := by
  induction ks generalizing j with
  | nil => simp [monoMv, monoVal]
  | cons k ks ih => simp [monoMv, monoVal, ih, pw_eq_pow]

theorem eval_toMv (z : ℕ → R) (p : Poly R) : eval z (toMv p) = Poly.eval z p := by
  induction p with
  | nil => simp [toMv, Poly.eval]
  | cons m p ih => simp [toMv, Poly.eval, Mono.eval, eval_monoMv, ih]

theorem pderiv_monoMv_of_lt {i j : ℕ} (h : i < j) (ks : List ℕ) : pderiv i (monoMv R j ks) = 0 := by
  induction ks generalizing j with
  | nil => simp [monoMv]
  | cons k ks ih =>
    have hne : j ≠ i := by omega
    simp [monoMv, pderiv_X_of_ne hne, ih (by omega : i < j + 1)]

/-- the polynomial denoted by the result of `decAt` -/
noncomputable def decMv (j : ℕ) : Option (ℕ × List ℕ) → MvPolynomial ℕ R
  | none => 0
  | some r => (r.1 : MvPolynomial ℕ R) * monoMv R j r.2

theorem pderiv_monoMv (j n : ℕ) (ks : List ℕ) :
    pderiv (j + n) (monoMv R j ks) = decMv j (decAt n ks) := by
  induction ks generalizing j n with
  | nil => simp [monoMv, decAt, decMv]
  | cons k ks ih =>
    cases n with
    | zero =>
      simp only [Nat.add_zero, monoMv, decAt]
      rw [pderiv_mul, pderiv_pow, pderiv_X_self, pderiv_monoMv_of_lt (by omega)]
      by_cases hk : k = 0
      · subst hk; simp [decMv]
      · simp [hk, decMv, monoMv]; ring
    | succ n =>
      have e : j + (n + 1) = (j + 1) + n := by omega
      simp only [monoMv, decAt]
      rw [pderiv_mul, pderiv_pow, pderiv_X_of_ne (by omega), e, ih]
      cases h : decAt n ks with
      | none => simp [decMv]
      | some r => simp [decMv, monoMv]; ring

/-- `Poly.diff` is the formal partial derivative -/
theorem pderiv_toMv (i : ℕ) (p : Poly R) : pderiv i (toMv p) = toMv (Poly.diff i p) := by
  induction p with
  | nil => simp [toMv, Poly.diff]
  | cons m p ih =>
    have hm : pderiv i (monoMv R 0 m.e) = decMv 0 (decAt i m.e) := by
      have := pderiv_monoMv (R := R) 0 i m.e
      simpa using this
    have hd : Poly.diff i (m :: p) = (match Mono.diff i m with | none => [] | some m' => [m']) ++ Poly.diff i p := by
      simp only [Poly.diff, List.filterMap_cons]
      cases Mono.diff i m <;> simp
    rw [hd]
    simp only [toMv, map_add, pderiv_C_mul, hm, ih]
    cases h : decAt i m.e with
    | none => simp [Mono.diff, h, decMv, Poly.diff]
    | some r => simp [Mono.diff, h, decMv, toMv, Poly.diff, mul_assoc]

theorem eval_diff (i : ℕ) (p : Poly R) (z : ℕ → R) :
    Poly.eval z (Poly.diff i p) = eval z (pderiv i (toMv p)) := by
  rw [pderiv_toMv, eval_toMv]

theorem jacobian_getD (n i : ℕ) (h : i < n) (p : Poly R) : (jacobian n p)[i]?.getD [] = Poly.diff i p := by
  simp [jacobian, h]

end Alg

/-! ## complex coefficients, real state: the code keeps `.real` of the complex value -/

/-- real-part polynomial -/
def reP (p : Poly ℂ) : Poly ℝ := p.map fun m => ⟨m.c.re, m.e⟩

theorem monoVal_ofReal (z : ℕ → ℝ) (j : ℕ) (ks : List ℕ) :
    monoVal (fun j => (z j : ℂ)) j ks = ((monoVal z j ks : ℝ) : ℂ) := by
  induction ks generalizing j with
  | nil => simp [monoVal]
  | cons k ks ih => simp [monoVal, ih, pw_eq_pow]

theorem re_eval (p : Poly ℂ) (z : ℕ → ℝ) :
    (Poly.eval (fun j => (z j : ℂ)) p).re = Poly.eval z (reP p) := by
  induction p with
  | nil => simp [Poly.eval, reP]
  | cons m p ih =>
    have ih' : (Poly.eval (fun j => (z j : ℂ)) p).re = Poly.eval z (List.map (fun m => (⟨m.c.re, m.e⟩ : Mono ℝ)) p) := ih
    simp [Poly.eval, reP, Mono.eval, monoVal_ofReal, ih']

theorem reP_diff (i : ℕ) (p : Poly ℂ) : reP (Poly.diff i p) = Poly.diff i (reP p) := by
  induction p with
  | nil => simp [reP, Poly.diff]
  | cons m p ih =>
    have ih' : List.map (fun m => (⟨m.c.re, m.e⟩ : Mono ℝ)) (List.filterMap (Mono.diff i) p)
        = List.filterMap (Mono.diff i) (List.map (fun m => (⟨m.c.re, m.e⟩ : Mono ℝ)) p) := ih
    simp only [reP, Poly.diff, List.filterMap_cons, List.map_cons, Mono.diff]
    cases h : decAt i m.e with
    | none => simpa using ih'
    | some r => simp [ih']

/-! ## oracle programs -/
namespace Prog
variable {S A O O' : Type}

theorem run_bind (f : S → A) (p : Prog S A O) (g : O → Prog S A O') :
    (p.bind g).run f = (g (p.run f)).run f := by
  induction p with
  | ret o => rfl
  | ask q k ih => simp [bind, run, ih]

theorem transcript_bind (f : S → A) (p : Prog S A O) (g : O → Prog S A O') :
    (p.bind g).transcript f = p.transcript f ++ (g (p.run f)).transcript f := by
  induction p with
  | ret o => rfl
  | ask q k ih => simp [bind, run, transcript, ih]

end Prog

end HitenModel.C17
