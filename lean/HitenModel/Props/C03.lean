/-
  Props/C03.lean — property C03: the state-transition matrix is the derivative of the flow and is symplectic.
  Uses the Jacobian / vector field traced for C01 (`Gen.C01`, regenerated on every run) and the wiring of
  `_compute_stm` / `_DirectedSystem` traced into `Gen.C03`.
  Background theorem (not formalised): C¹ dependence of ODE flows on initial data (the solution of Φ' = Df(x(t))Φ,
  Φ(0)=I is ∂flow/∂x₀).  `M f(x₀) = f(x₀)` on a periodic orbit IS proved (`monodromy_fixes_velocity`).
-/
import HitenModel.Gen.C03
import HitenModel.Props.C01
import HitenModel.Lemmas.Symplectic
import Mathlib.Tactic.FinCases
import Mathlib.Tactic.Ring
import Mathlib.Tactic.FieldSimp
import Mathlib.Tactic.IntervalCases

namespace HitenModel.Props.C03
open HitenModel RE Gen.C01 Gen.C03 Matrix

/-! ### the system that is integrated is the linearisation, started at the identity -/

/-- `_compute_stm` starts the 42-vector at `(I₆ row-major, x₀)`, for both directions -/
theorem stm_initial_condition (a b : ℕ) (ha : a < 6) (hb : b < 6) :
    stmInit (6 * a + b) = (if a = b then .const 1 1 else .const 0 1) ∧ stmInit (36 + a) = .var a ∧
    stmInitSameBackward = true := by
  interval_cases a <;> interval_cases b <;> simp [stmInit, stmInitSameBackward]

/-- `Φ_T` is read row-major from slots 0..35 and the state from slots 36..41 of the last sample; direction, steps,
method and order are passed through unchanged -/
theorem stm_extraction : phiTIndex = List.range 36 ∧ xIndex = [36, 37, 38, 39, 40, 41] ∧
    passesForward = true ∧ passesArgs = true := by decide

/-- **directed_variational**: with the flip configuration `_compute_stm` passes, the backward-directed 42-dimensional
field is the negative of the whole variational field (state AND matrix block), the forward one is the field itself.
By `reversed_solution` (Lemmas/Symplectic.lean) its solutions are the time reversal of solutions of the variational
system, i.e. `(Φ, x)(s) = (∂φ_{-s}/∂x₀, φ_{-s}(x₀))`. -/
theorem directed_variational :
    directedSignsBackward = List.replicate 42 (-1) ∧ directedSignsForward = List.replicate 42 1 := by decide

/-- **stm_system_is_linearisation** (restating C01 on the same traced terms): component `6a+b` of the integrated field is
`Σ_k ∂f_a/∂x_k · Φ_kb` where each `jac` entry is the genuine partial derivative of the traced vector field, and
components 36..41 are that vector field. -/
theorem stm_system_is_linearisation (ρ : ℕ → ℝ) (h0 : 0 < eval ρ vq0) (h1 : 0 < eval ρ vq1) (a b : ℕ) (ha : a < 6) (hb : b < 6) :
    eval ρ (vareq (6 * a + b)) =
      eval (C01.stateOf ρ) (jac (6 * a + 0)) * ρ (6 * 0 + b) + eval (C01.stateOf ρ) (jac (6 * a + 1)) * ρ (6 * 1 + b) +
      eval (C01.stateOf ρ) (jac (6 * a + 2)) * ρ (6 * 2 + b) + eval (C01.stateOf ρ) (jac (6 * a + 3)) * ρ (6 * 3 + b) +
      eval (C01.stateOf ρ) (jac (6 * a + 4)) * ρ (6 * 4 + b) + eval (C01.stateOf ρ) (jac (6 * a + 5)) * ρ (6 * 5 + b) ∧
    eval ρ (vareq (36 + a)) = eval (C01.stateOf ρ) (accel a) :=
  ⟨C01.vareq_stm_block ρ h0 h1 a b ha hb, C01.vareq_state_block ρ h0 h1 a ha⟩

/-! ### symplecticity -/

/-- the Jacobian as a matrix -/
noncomputable def jacM (ρ : ℕ → ℝ) : Matrix (Fin 6) (Fin 6) ℝ := fun i j => eval ρ (jac (6 * i.val + j.val))

/-- the CR3BP two-form in (x,y,z,vx,vy,vz): `Σ dxᵢ∧dvᵢ − 2 dx∧dy`, i.e. `Ω = [[−2K, I], [−I, 0]]`, `K = [[0,1,0],[−1,0,0],[0,0,0]]` -/
def om : ℕ → ℕ → ℝ
  | 0, 1 => -2 | 1, 0 => 2
  | 0, 3 => 1 | 1, 4 => 1 | 2, 5 => 1
  | 3, 0 => -1 | 4, 1 => -1 | 5, 2 => -1
  | _, _ => 0
def Ω6 : Matrix (Fin 6) (Fin 6) ℝ := fun i j => om i.val j.val

def omInv : ℕ → ℕ → ℝ
  | 0, 3 => -1 | 1, 4 => -1 | 2, 5 => -1
  | 3, 0 => 1 | 4, 1 => 1 | 5, 2 => 1
  | 3, 4 => -2 | 4, 3 => 2
  | _, _ => 0
def Ω6inv : Matrix (Fin 6) (Fin 6) ℝ := fun i j => omInv i.val j.val

theorem Ω6_mul_inv : Ω6 * Ω6inv = 1 := by
  ext i j
  fin_cases i <;> fin_cases j <;> simp [Matrix.mul_apply, Fin.sum_univ_six, Ω6, Ω6inv, om, omInv]

theorem Ω6_det_unit : IsUnit Ω6.det := Matrix.isUnit_det_of_right_inverse Ω6_mul_inv

set_option maxHeartbeats 1600000 in
/-- entry (i,j) of `JᵀΩ + ΩJ` for the traced Jacobian vanishes identically -/
theorem jac_inf_symplectic_entry (ρ : ℕ → ℝ) (h0 : 0 < eval ρ sq0) (h1 : 0 < eval ρ sq1) (i j : ℕ) (hi : i < 6) (hj : j < 6) :
    (eval ρ (jac (6 * 0 + i)) * om 0 j + eval ρ (jac (6 * 1 + i)) * om 1 j + eval ρ (jac (6 * 2 + i)) * om 2 j +
     eval ρ (jac (6 * 3 + i)) * om 3 j + eval ρ (jac (6 * 4 + i)) * om 4 j + eval ρ (jac (6 * 5 + i)) * om 5 j) +
    (om i 0 * eval ρ (jac (6 * 0 + j)) + om i 1 * eval ρ (jac (6 * 1 + j)) + om i 2 * eval ρ (jac (6 * 2 + j)) +
     om i 3 * eval ρ (jac (6 * 3 + j)) + om i 4 * eval ρ (jac (6 * 4 + j)) + om i 5 * eval ρ (jac (6 * 5 + j))) = 0 := by
  have hr0 : Real.sqrt (eval ρ sq0) ≠ 0 := (Real.sqrt_pos.mpr h0).ne'
  have hr1 : Real.sqrt (eval ρ sq1) ≠ 0 := (Real.sqrt_pos.mpr h1).ne'
  interval_cases i <;> interval_cases j <;>
    simp only [jac, om, eval, Nat.reduceMul, Nat.reduceAdd] <;>
    (generalize Real.sqrt (eval ρ sq0) = r0 at *
     generalize Real.sqrt (eval ρ sq1) = r1 at *
     try field_simp
     try ring)

/-- **jac_infinitesimally_symplectic**: for every mass parameter and every state away from the primaries the traced
Jacobian satisfies `JᵀΩ + ΩJ = 0`. -/
theorem jac_infinitesimally_symplectic (ρ : ℕ → ℝ) (h0 : 0 < eval ρ sq0) (h1 : 0 < eval ρ sq1) :
    (jacM ρ)ᵀ * Ω6 + Ω6 * jacM ρ = 0 := by
  ext i j
  have := jac_inf_symplectic_entry ρ h0 h1 i.val j.val i.isLt j.isLt
  simpa [Matrix.mul_apply, Fin.sum_univ_six, jacM, Ω6] using this

/-- **stm_symplectic**: let `x(t)` be any curve staying away from the primaries (with constant `mu`) and `Φ(t)` a matrix
curve with `Φ' = Df(x(t)) Φ` entrywise and `Φ(0) = I` (what `_compute_stm` integrates). Then `Φ(t)ᵀ Ω Φ(t) = Ω` for all t,
`det Φ(t)² = 1`, and `Φ(t)` has the same characteristic polynomial as its inverse (reciprocal eigenvalue pairs). -/
theorem stm_symplectic (x : ℝ → ℕ → ℝ) (Φ : ℝ → Matrix (Fin 6) (Fin 6) ℝ)
    (h0 : ∀ t, 0 < eval (x t) sq0) (h1 : ∀ t, 0 < eval (x t) sq1)
    (hΦ : ∀ t i j, HasDerivAt (fun s => Φ s i j) ((jacM (x t) * Φ t) i j) t) (hI : Φ 0 = 1) (t : ℝ) :
    (Φ t)ᵀ * Ω6 * Φ t = Ω6 ∧ (Φ t).det ^ 2 = 1 ∧
      ∃ Ψ : Matrix (Fin 6) (Fin 6) ℝ, Ψ * Φ t = 1 ∧ Ψ.charpoly = (Φ t).charpoly := by
  have hs : (Φ t)ᵀ * Ω6 * Φ t = Ω6 := by
    have := symplectic_form_preserved Φ (fun t => jacM (x t)) Ω6 hΦ
      (fun t => jac_infinitesimally_symplectic (x t) (h0 t) (h1 t)) t 0
    rw [this, hI]; simp
  exact ⟨hs, det_sq_eq_one_of_symplectic _ _ Ω6_det_unit hs, charpoly_inv_eq_of_symplectic _ _ Ω6_det_unit hs⟩

/-! ### the vector field solves the variational equation -/

/-- **field_solves_variational**: along the flow, `d/dt f_i(x(t)) = Σ_j ∂f_i/∂x_j · f_j`: the velocity vector is a
solution of `w' = Df(x(t)) w`; `stm_transports_field` / `monodromy_fixes_velocity` below conclude `Φ(t) f(x₀) = f(x(t))`
and `M f(x₀) = f(x₀)` on a periodic orbit. -/
theorem field_solves_variational (ρ : ℕ → ℝ) (h0 : 0 < eval ρ sq0) (h1 : 0 < eval ρ sq1) (i : ℕ) (hi : i < 6) :
    DT ρ (C01.fieldDir ρ) (accel i) =
      eval ρ (jac (6 * i + 0)) * eval ρ (accel 0) + eval ρ (jac (6 * i + 1)) * eval ρ (accel 1) +
      eval ρ (jac (6 * i + 2)) * eval ρ (accel 2) + eval ρ (jac (6 * i + 3)) * eval ρ (accel 3) +
      eval ρ (jac (6 * i + 4)) * eval ρ (accel 4) + eval ρ (jac (6 * i + 5)) * eval ρ (accel 5) := by
  have hr0 : Real.sqrt (eval ρ sq0) ≠ 0 := (Real.sqrt_pos.mpr h0).ne'
  have hr1 : Real.sqrt (eval ρ sq1) ≠ 0 := (Real.sqrt_pos.mpr h1).ne'
  interval_cases i <;>
    simp only [accel, jac, DT, eval, C01.fieldDir, Nat.reduceMul, Nat.reduceAdd, Nat.reduceSub] <;>
    (generalize Real.sqrt (eval ρ sq0) = r0 at *
     generalize Real.sqrt (eval ρ sq1) = r1 at *
     try simp only [sq0, sq1, DT, eval, C01.fieldDir, accel, Nat.reduceSub]
     try field_simp
     try ring)

/-- the velocity vector `f(x)` of the traced equations of motion, as a vector -/
noncomputable def fieldV (ρ : ℕ → ℝ) : Fin 6 → ℝ := fun i => eval ρ (accel i.val)

/-- **stm_transports_field**: let `x(t)` be a solution of the traced equations of motion (constant `mu`) that stays away
from the primaries and `Φ` the matrix curve `_compute_stm` integrates (`Φ' = Df(x(t))Φ`, `Φ(0) = I`).  Then
`f(x(t)) = Φ(t) f(x₀)` for every `t` — proved WITHOUT appealing to an ODE-uniqueness theorem: `Φᵀ Ω f(x(t))` has zero
derivative because `Df` is infinitesimally symplectic (`variational_solution_transport`). -/
theorem stm_transports_field (x : ℝ → ℕ → ℝ) (Φ : ℝ → Matrix (Fin 6) (Fin 6) ℝ)
    (hsol : ∀ t j, HasDerivAt (fun s => x s j) (C01.fieldDir (x t) j) t)
    (h0 : ∀ t, 0 < eval (x t) sq0) (h1 : ∀ t, 0 < eval (x t) sq1)
    (hΦ : ∀ t i j, HasDerivAt (fun s => Φ s i j) ((jacM (x t) * Φ t) i j) t) (hI : Φ 0 = 1) (t : ℝ) :
    fieldV (x t) = (Φ t).mulVec (fieldV (x 0)) := by
  refine variational_solution_transport Φ (fun t => jacM (x t)) Ω6 Ω6_det_unit hΦ
    (fun t => jac_infinitesimally_symplectic (x t) (h0 t) (h1 t)) hI (fun s => fieldV (x s)) ?_ t
  intro t i
  have hd := DT_sound x (C01.fieldDir (x t)) t (hsol t) (accel i.val) (C01.accel_WD (x t) (h0 t) (h1 t) i.val i.isLt)
  rw [field_solves_variational (x t) (h0 t) (h1 t) i.val i.isLt] at hd
  have e : (jacM (x t)).mulVec (fieldV (x t)) i =
      eval (x t) (jac (6 * i.val + 0)) * eval (x t) (accel 0) + eval (x t) (jac (6 * i.val + 1)) * eval (x t) (accel 1) +
      eval (x t) (jac (6 * i.val + 2)) * eval (x t) (accel 2) + eval (x t) (jac (6 * i.val + 3)) * eval (x t) (accel 3) +
      eval (x t) (jac (6 * i.val + 4)) * eval (x t) (accel 4) + eval (x t) (jac (6 * i.val + 5)) * eval (x t) (accel 5) := by
    simp [Matrix.mulVec, dotProduct, Fin.sum_univ_six, jacM, fieldV]
  rw [e]
  exact hd

/-- **monodromy_fixes_velocity**: on a periodic orbit (`x(T) = x(0)`) the monodromy matrix `M = Φ(T)` maps the orbit's
velocity vector to itself: `M f(x₀) = f(x₀)` (the trivial Floquet multiplier 1). -/
theorem monodromy_fixes_velocity (x : ℝ → ℕ → ℝ) (Φ : ℝ → Matrix (Fin 6) (Fin 6) ℝ) (T : ℝ)
    (hsol : ∀ t j, HasDerivAt (fun s => x s j) (C01.fieldDir (x t) j) t)
    (h0 : ∀ t, 0 < eval (x t) sq0) (h1 : ∀ t, 0 < eval (x t) sq1)
    (hΦ : ∀ t i j, HasDerivAt (fun s => Φ s i j) ((jacM (x t) * Φ t) i j) t) (hI : Φ 0 = 1)
    (hper : x T = x 0) :
    (Φ T).mulVec (fieldV (x 0)) = fieldV (x 0) := by
  have := stm_transports_field x Φ hsol h0 h1 hΦ hI T
  rw [hper] at this
  exact this.symm

/-- the triangular point L4 for `mu = 1/2` -/
noncomputable def l4half : ℕ → ℝ := fun k => if k = 1 then Real.sqrt 3 / 2 else if k = 6 then 1 / 2 else 0

/-- non-vacuity of `stm_transports_field` / `monodromy_fixes_velocity`: the constant curve at L4 (`mu = 1/2`) is a periodic
solution away from the primaries (existence of non-constant solutions and of `Φ` is Picard–Lindelöf, not needed here) -/
example : (∀ t j, HasDerivAt (fun _ : ℝ => l4half j) (C01.fieldDir l4half j) t) ∧
    0 < eval l4half sq0 ∧ 0 < eval l4half sq1 := by
  have h3 : Real.sqrt 3 ^ 2 = 3 := Real.sq_sqrt (by norm_num)
  have e0 : eval l4half sq0 = 1 := by
    rw [C01.sq0_is_r1_sq]; simp [l4half]; nlinarith
  have e1 : eval l4half sq1 = 1 := by
    rw [C01.sq1_is_r2_sq]; simp [l4half]; nlinarith
  have hf : ∀ j, C01.fieldDir l4half j = 0 := by
    intro j
    rcases j with _|_|_|_|_|_|j <;>
      simp [C01.fieldDir, accel, eval, e0, e1, l4half] <;> ring
  refine ⟨fun t j => ?_, by rw [e0]; norm_num, by rw [e1]; norm_num⟩
  rw [hf j]; exact hasDerivAt_const t _

/-- non-vacuity of the symplecticity hypotheses: the identity is symplectic and `Ω` is what the docstring says -/
example : (1 : Matrix (Fin 6) (Fin 6) ℝ)ᵀ * Ω6 * 1 = Ω6 ∧ Ω6 0 1 = -2 ∧ Ω6 0 3 = 1 := by
  refine ⟨by simp, by simp [Ω6, om], by simp [Ω6, om]⟩

end HitenModel.Props.C03
