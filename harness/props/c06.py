"""C06 — polynomial algebra is exact and independent of thread scheduling.

Model: `lean/HitenModel/Core/C06.lean` (index tables, pack/decode/encode, every kernel of algebra.py, the graded
operations of operations.py; the `prange` kernels are modelled as *schedule-parameterised* per-thread scratch rows +
reduction).  Theorems: `lean/HitenModel/Props/C06.lean` (over every commutative ring / field, all degrees <= 63, all
coefficient arrays, all schedules) relate the kernels to Mathlib's `MvPolynomial (Fin 6) K`.

Ties (all re-checked on every run):
  * regenerated  — `Gen/C06.lean` holds the LIVE tables (`_PSI_GLOBAL` 7x31, `_CLMO_GLOBAL[0..GEN_D]`, the encode dicts
    inverted to key-by-slot lists, N_VARS, table degree) read from the imported module; `Props/C06.lean` proves by
    `decide +kernel` that they are the model's tables.
  * table stream — the ENTIRE real tables (`_CLMO_GLOBAL`, `_ENCODE_DICT_GLOBAL`, `_PSI_GLOBAL`, and a fresh
    `_init_index_tables` / `_create_encode_dict_from_clmo`) are streamed to `Drivers/C06.lean` and compared slot by slot
    with the model's enumeration (degree <= 12 quick for the dicts, <= 30 thorough; clmo always <= 30).
  * correspondence — every kernel is run in-process (njit, complex128 and float64) on Gaussian-integer coefficient
    blocks (float arithmetic exact), under `numba.set_num_threads(1..16)` with repeats, and compared for *equality*
    with the model executed over exact Gaussian rationals by the driver (under several schedules).
Direct clause checks (failing-input search, model independent): an exact sparse-dict polynomial oracle in Python
(`Fraction` Gaussian rationals) recomputes every result; tables are checked for bijectivity against an independent
enumeration; random float blocks are compared across thread counts (<= 1e-13 of the absolute-sum bound)."""
from __future__ import annotations

import itertools
import os
import sys
import time
from fractions import Fraction

if "numba" not in sys.modules:
    # the property quantifies over 1..16 worker threads: make them available to numba.set_num_threads
    try:
        _cur = int(os.environ.get("NUMBA_NUM_THREADS", "0"))
    except ValueError:
        _cur = 0
    if _cur < 16:
        os.environ["NUMBA_NUM_THREADS"] = "16"
    # idle OpenMP workers must sleep, not spin: on a shared (oversubscribed) machine a spinning 16-thread team makes
    # every tiny prange call take ~1 s.  This changes nothing about which thread executes which iteration.
    os.environ.setdefault("OMP_WAIT_POLICY", "PASSIVE")
    os.environ.setdefault("GOMP_SPINCOUNT", "0")
    os.environ.setdefault("KMP_BLOCKTIME", "0")

import numpy as np

F = Fraction
GEN_D = 6          # degrees 0..GEN_D of the real clmo / encode tables are embedded in Gen/C06.lean (924 slots)
TABLE_DEG = 30
PROP_MODS = ["HitenModel.Props.C06"]
SRC_MODS = ["HitenModel.Props.C06", "HitenModel.Lemmas.C06", "HitenModel.Lemmas.C06Poly", "HitenModel.Lemmas.C06Subst", "HitenModel.Lemmas.C06Deg", "HitenModel.Core.C06",
            "HitenModel.Gen.C06"]

# ----------------------------------------------------------------------------------------------------------------
# real objects


class Real:
    """handles to the real package (imported lazily)"""

    def __init__(self):
        import numba
        from numba.typed import List as NList
        import hiten.algorithms.polynomial.base as B
        import hiten.algorithms.polynomial.algebra as A
        import hiten.algorithms.polynomial.operations as O
        self.numba, self.NList, self.B, self.A, self.O = numba, NList, B, A, O
        self.max_threads = int(numba.config.NUMBA_NUM_THREADS)
        self.psi, self.clmo, self.enc = B._PSI_GLOBAL, B._CLMO_GLOBAL, B._ENCODE_DICT_GLOBAL

        @numba.njit(cache=False)
        def dump_dict(d, n):
            keys = np.full(n, -1, dtype=np.int64)
            cnt = 0
            bad = 0
            for k, v in d.items():
                cnt += 1
                if 0 <= v < n:
                    if keys[v] != -1:
                        bad += 1
                    keys[v] = k
                else:
                    bad += 1
            return keys, cnt, bad
        self.dump_dict = dump_dict
        dec, encf, fill = B._decode_multiindex, B._encode_multiindex, B._fill_exponents

        @numba.njit(cache=False)
        def roundtrip_all(d, clmo, enc):
            """the REAL _decode_multiindex / _fill_exponents / _encode_multiindex on every slot of degree d"""
            n = clmo[d].shape[0]
            out = np.empty((n, 6), dtype=np.int64)
            bad_enc = -1
            bad_fill = -1
            kv = np.empty(6, dtype=np.int64)
            kf = np.empty(6, dtype=np.int64)
            for i in range(n):
                k = dec(i, d, clmo)
                fill(i, d, clmo, kf)
                for m in range(6):
                    out[i, m] = k[m]
                    kv[m] = k[m]
                    if kf[m] != k[m] and bad_fill < 0:
                        bad_fill = i
                j = encf(kv, d, enc)
                if j != i and bad_enc < 0:
                    bad_enc = i
            return out, bad_enc, bad_fill
        self.roundtrip_all = roundtrip_all

    def threads(self):
        return list(range(1, min(16, self.max_threads) + 1))

    def glist(self, blocks):
        out = self.NList()
        for b in blocks:
            out.append(np.array(b, dtype=np.complex128, copy=True))
        return out


# ----------------------------------------------------------------------------------------------------------------
# exact oracle: sparse dict polynomials over Gaussian rationals (pairs of Fractions)


def gmul(a, b):
    return (a[0] * b[0] - a[1] * b[1], a[0] * b[1] + a[1] * b[0])


def gadd(a, b):
    return (a[0] + b[0], a[1] + b[1])


Z = (F(0), F(0))
ONE = (F(1), F(0))


def p_add(p, q, s=ONE):
    r = dict(p)
    for k, c in q.items():
        r[k] = gadd(r.get(k, Z), gmul(s, c))
    return {k: c for k, c in r.items() if c != Z}


def p_mul(p, q, maxdeg=None):
    r = {}
    for ka, ca in p.items():
        for kb, cb in q.items():
            k = tuple(x + y for x, y in zip(ka, kb))
            if maxdeg is not None and sum(k) > maxdeg:
                continue
            r[k] = gadd(r.get(k, Z), gmul(ca, cb))
    return {k: c for k, c in r.items() if c != Z}


def p_diff(p, v):
    r = {}
    for k, c in p.items():
        if k[v] == 0:
            continue
        k2 = tuple(x - (1 if i == v else 0) for i, x in enumerate(k))
        r[k2] = gadd(r.get(k2, Z), (c[0] * k[v], c[1] * k[v]))
    return {k: c for k, c in r.items() if c != Z}


def p_int(p, v):
    r = {}
    for k, c in p.items():
        k2 = tuple(x + (1 if i == v else 0) for i, x in enumerate(k))
        r[k2] = gadd(r.get(k2, Z), (c[0] / (k[v] + 1), c[1] / (k[v] + 1)))
    return {k: c for k, c in r.items() if c != Z}


def p_poisson(p, q):
    r = {}
    for m in range(3):
        r = p_add(r, p_mul(p_diff(p, m), p_diff(q, m + 3)))
        r = p_add(r, p_mul(p_diff(p, m + 3), p_diff(q, m)), (F(-1), F(0)))
    return r


def p_eval(p, x):
    s = Z
    for k, c in p.items():
        t = c
        for xi, ki in zip(x, k):
            for _ in range(ki):
                t = gmul(t, xi)
        s = gadd(s, t)
    return s


def p_pow(p, n, maxdeg):
    r = {(0,) * 6: ONE}
    for _ in range(n):
        r = p_mul(r, p, maxdeg)
    return r


def p_subst(p, C, shifts, maxdeg):
    """p(C x + s), truncated at maxdeg"""
    L = []
    for i in range(6):
        li = {}
        for j in range(6):
            if C[i][j] != Z:
                li[tuple(1 if t == j else 0 for t in range(6))] = C[i][j]
        if shifts is not None and shifts[i] != Z:
            li[(0,) * 6] = shifts[i]
        L.append(li)
    r = {}
    for k, c in p.items():
        t = {(0,) * 6: c}
        for i in range(6):
            if k[i]:
                t = p_mul(t, p_pow(L[i], k[i], maxdeg), maxdeg)
        r = p_add(r, t)
    return r


def norm1(p):
    return sum(abs(c[0]) + abs(c[1]) for c in p.values())


# ----------------------------------------------------------------------------------------------------------------
# conversions


def fr(x):
    q = F(float(x))
    return str(q.numerator) if q.denominator == 1 else "%d/%d" % (q.numerator, q.denominator)


def frq(q):
    q = F(q)
    return str(q.numerator) if q.denominator == 1 else "%d/%d" % (q.numerator, q.denominator)


def blk_txt(arr):
    a = np.asarray(arr)
    ents = []
    for i in np.flatnonzero(a):
        c = complex(a[i])
        ents.append("%d:%s:%s" % (i, fr(c.real), fr(c.imag)))
    return " ".join([str(a.shape[0])] + ents)


def g_txt(blocks):
    return ";".join(blk_txt(b) for b in blocks)


def gq_txt(c):
    c = complex(c)
    return "%s:%s" % (fr(c.real), fr(c.imag))


class Layout:
    """slot <-> monomial map read from the REAL decode (used by the oracle comparison) and, independently, the
    mathematical enumeration (descending lexicographic order) used to check the real tables"""

    def __init__(self, R):
        self.R = R
        self._dec = {}

    def decode(self, d):
        if d not in self._dec:
            arr = self.R.clmo[d]
            self._dec[d] = [tuple(int(x) for x in self.R.B._decode_multiindex(i, d, self.R.clmo)) for i in range(len(arr))]
        return self._dec[d]

    def to_dict(self, block, d):
        dec = self.decode(d)
        out = {}
        a = np.asarray(block)
        for i in np.flatnonzero(a):
            c = complex(a[i])
            out[dec[i]] = gadd(out.get(dec[i], Z), (F(c.real), F(c.imag)))
        return out

    def g_to_dict(self, blocks):
        out = {}
        for d, b in enumerate(blocks):
            out = p_add(out, self.to_dict(b, d))
        return out


def compositions(n, d):
    """all n-tuples of naturals of sum d in descending lexicographic order (independent of the code under test)"""
    if n == 1:
        return [(d,)]
    out = []
    for k in range(d, -1, -1):
        for rest in compositions(n - 1, d - k):
            out.append((k,) + rest)
    return out


# ----------------------------------------------------------------------------------------------------------------
# Gen module (regenerated tie)


def gen(ctx, R=None):
    R = R or Real()
    from hiten.algorithms.utils.config import N_VARS, FASTMATH
    psi = np.asarray(R.psi)
    L = ["/- GENERATED by harness/props/c06.py from the imported hiten.algorithms.polynomial.base — do not edit. -/",
         "namespace HitenModel.Gen.C06", "",
         "def nVars : Nat := %d" % int(N_VARS),
         "def fastmath : Bool := %s" % ("true" if FASTMATH else "false"),
         "def tableDegree : Nat := %d" % (len(R.clmo) - 1),
         "def psiShape : Nat × Nat := (%d, %d)" % psi.shape, "",
         "/-- `_PSI_GLOBAL` (rows = number of variables 0..6, columns = degree 0..30) -/",
         "def psiReal : List (List Nat) := ["]
    L.append(",\n".join("  [" + ", ".join(str(int(x)) for x in row) + "]" for row in psi))
    L += ["]", "", "/-- `_CLMO_GLOBAL[0..%d]` -/" % GEN_D, "def clmoReal : List (List Nat) := ["]
    L.append(",\n".join("  [" + ", ".join(str(int(x)) for x in R.clmo[d]) + "]" for d in range(min(GEN_D, len(R.clmo) - 1) + 1)))
    L += ["]", "", "/-- `_ENCODE_DICT_GLOBAL[0..%d]`, each dict listed as key-by-value (slot i holds the key mapped to i; -1 → 4294967296) -/" % GEN_D,
          "def encKeysReal : List (List Nat) := ["]
    rows = []
    for d in range(min(GEN_D, len(R.enc) - 1) + 1):
        keys, cnt, bad = R.dump_dict(R.enc[d], len(R.clmo[d]))
        rows.append("  [" + ", ".join(str(int(x)) if x >= 0 else "4294967296" for x in keys) + "]")
    L.append(",\n".join(rows))
    L += ["]", "", "end HitenModel.Gen.C06", ""]
    ctx.write_gen("HitenModel.Gen.C06", "\n".join(L))


# ----------------------------------------------------------------------------------------------------------------
# table tie + direct bijection checks


def table_checks(ctx, R, lay):
    B = R.B
    t0 = time.time()
    text, expect = [], []
    D = len(R.clmo) - 1
    psi = np.asarray(R.psi)
    # psi: whole table
    text.append("psi %d" % (psi.shape[1] - 1))
    expect.append("psi " + ";".join(" ".join(str(int(x)) for x in row) for row in psi))
    # clmo: every slot of the global table
    for d in range(D + 1):
        text.append("clmo %d %s" % (d, " ".join(map(str, R.clmo[d].tolist()))))
        expect.append("clmo %d ok %d" % (d, int(psi[6, d]) if d < psi.shape[1] else -1))
    # encode dicts (inverted in compiled code): global ones
    Denc = D if ctx.thorough() else min(12, D)
    dict_bad = None
    for d in range(len(R.enc)):
        n = len(R.clmo[d])
        if d <= Denc or n <= 0:
            keys, cnt, bad = R.dump_dict(R.enc[d], n)
            if (cnt != n or bad) and dict_bad is None:
                dict_bad = (d, int(cnt), int(bad), n)
            if d <= Denc:
                text.append("enc %d %s" % (d, " ".join(str(int(k)) if k >= 0 else "4294967296" for k in keys)))
                expect.append("enc %d ok %d" % (d, n))
        else:
            if len(R.enc[d]) != n and dict_bad is None:
                dict_bad = (d, len(R.enc[d]), 0, n)
    if len(R.enc) != len(R.clmo) and dict_bad is None:
        dict_bad = ("len", len(R.enc), 0, len(R.clmo))
    # a fresh _init_index_tables / _create_encode_dict_from_clmo (what the rest of the library calls)
    Df = 10 if not ctx.thorough() else 16
    psi2, clmo2 = B._init_index_tables(Df)
    enc2 = B._create_encode_dict_from_clmo(clmo2)
    text.append("psi %d" % Df)
    expect.append("psi " + ";".join(" ".join(str(int(x)) for x in row) for row in np.asarray(psi2)))
    for d in range(Df + 1):
        text.append("clmo %d %s" % (d, " ".join(map(str, clmo2[d].tolist()))))
        expect.append("clmo %d ok %d" % (d, int(psi2[6, d])))
        keys, cnt, bad = R.dump_dict(enc2[d], len(clmo2[d]))
        text.append("enc %d %s" % (d, " ".join(str(int(k)) if k >= 0 else "4294967296" for k in keys)))
        expect.append("enc %d ok %d" % (d, len(clmo2[d])))
    nslots = sum(len(R.clmo[d]) for d in range(D + 1))
    # the real _decode_multiindex on every slot of the lower degrees, compared with the model's decode
    Ddec = min(D, 12 if ctx.thorough() else 9)
    text.append("tables %d" % Ddec)
    expect.append("tables %d %d" % (Ddec, sum(len(R.clmo[d]) for d in range(Ddec + 1))))
    for d in range(Ddec + 1):
        real_dec, _, _ = R.roundtrip_all(d, R.clmo, R.enc)
        text.append("decall %d" % d)
        expect.append("decall %d %s" % (d, " ".join(map(str, real_dec.ravel().tolist()))))
    # individual encode / decode / pack calls on the real njit functions, incl. inconsistent degree arguments
    rng = ctx.rng
    text.append("tables %d" % D if ctx.thorough() else "tables %d" % min(D, 14))
    Dq = D if ctx.thorough() else min(D, 14)
    expect.append("tables %d %d" % (Dq, sum(len(R.clmo[d]) for d in range(Dq + 1))))
    sub_clmo = R.NList()
    sub_enc = R.NList()
    for d in range(Dq + 1):
        sub_clmo.append(R.clmo[d])
        sub_enc.append(R.enc[d])
    ncalls = 0
    for _ in range(400 if ctx.thorough() else 150):
        d = rng.choice([0, 1, 2, 3, 4, 6, 8, Dq, rng.randint(0, Dq)])
        kind = rng.choice(["valid", "valid", "k0-wrong", "degree-wrong", "big", "oob-degree"])
        k = list(rng.choice(compositions(6, min(d, 5)))) if d <= 5 else _rand_comp(rng, d)
        dd = d
        if kind == "k0-wrong":
            k[0] += rng.randint(1, 5)
        elif kind == "degree-wrong":
            dd = rng.randint(0, Dq)
        elif kind == "big":
            k[rng.randint(1, 5)] += rng.choice([64, 63, 32])
        elif kind == "oob-degree":
            dd = Dq + rng.randint(1, 3)
        ka = np.array(k, dtype=np.int64)
        got = int(B._encode_multiindex(ka, dd, sub_enc))
        text.append("encode %d %s" % (dd, " ".join(map(str, k))))
        expect.append("encode %d" % got)
        text.append("pack " + " ".join(map(str, k)))
        expect.append("pack %d" % int(B._pack_multiindex(ka)))
        ctx.case(("encode", kind, dd, tuple(k)), nontrivial=True, kind="encode:" + kind)
        ncalls += 1
        # the property clause itself: a consistent call returns the slot that decodes back to k
        if kind == "valid":
            back = tuple(int(x) for x in B._decode_multiindex(got, d, R.clmo)) if got >= 0 else None
            if back != tuple(k):
                ctx.violation("table:encode-decode", "decode(encode(k)) != k for a multi-index of the table degree",
                              {"op": "encode-decode", "k": k, "degree": d, "encode": got, "decode": back})
        if d <= Dq and len(R.clmo[d]) > 0:
            pos = rng.randrange(len(R.clmo[d]))
            kk = [int(x) for x in B._decode_multiindex(pos, d, R.clmo)]
            text.append("decode %d %d" % (d, pos))
            expect.append("decode " + " ".join(map(str, kk)))
            ncalls += 1
    out = run_driver(ctx, text)
    mism = compare_lines(ctx, "correspondence:index-tables", text, expect, out)
    ctx.extra["table_slots_streamed"] = nslots
    ctx.extra["encode_dict_degrees_streamed"] = Denc
    ctx.extra["encode_decode_calls"] = ncalls
    ctx.traces_validated += nslots
    ctx.log("tables: %d clmo slots (degree <= %d), dicts <= %d, %d calls, mismatches %d (%.1fs)" % (
        nslots, D, Denc, ncalls, mism, time.time() - t0))

    # ---- direct clause: every monomial of degree d <= table degree has exactly one slot (exhaustive)
    tb = time.time()
    Dchk = min(D, TABLE_DEG)
    if dict_bad is not None:
        ctx.violation("table:encode-dict", "encode dict is not the inverse of clmo (degree, entries, bad, slots) = %r" % (dict_bad,),
                      {"op": "encode-dict", "detail": list(dict_bad)})
    if D < TABLE_DEG or psi.shape != (7, TABLE_DEG + 1):
        ctx.violation("table:degree", "global tables cover degree %d < 30" % D, {"op": "table-degree", "degree": D})
    for d in range(Dchk + 1):
        arr = np.asarray(R.clmo[d]).astype(np.int64)
        ks = np.stack([(arr >> s) & 0x3F for s in (0, 6, 12, 18, 24)], axis=1)
        k0 = d - ks.sum(axis=1)
        full = np.concatenate([k0[:, None], ks], axis=1)
        import math
        want = math.comb(d + 5, 5)
        problem = None
        if len(arr) != want or int(psi[6, d]) != want:
            problem = "slot count %d / psi %d != C(d+5,5) = %d" % (len(arr), int(psi[6, d]), want)
        elif (k0 < 0).any():
            problem = "a slot decodes to a negative exponent"
        elif len(np.unique(full, axis=0)) != want:
            problem = "two slots hold the same monomial (so some monomial of degree %d has no slot)" % d
        ctx.case(("table-bijection", d), nontrivial=True, kind="table-bijection")
        if problem is None:
            # the REAL decode / fill / encode functions on every slot (compiled loop)
            real_dec, bad_enc, bad_fill = R.roundtrip_all(d, R.clmo, R.enc)
            if not np.array_equal(real_dec, full):
                i = int(np.flatnonzero((real_dec != full).any(axis=1))[0])
                if (real_dec.sum(axis=1) != d).any() or (real_dec < 0).any() or len(np.unique(real_dec, axis=0)) != want:
                    problem = "_decode_multiindex is not a bijection from the slots of degree %d onto its multi-indices (slot %d -> %s)" % (
                        d, i, real_dec[i].tolist())
                else:
                    ctx.broken.append(("correspondence:index-tables", "_decode_multiindex differs from the 6-bit field layout at degree %d slot %d" % (d, i)))
                    ctx.obligations["correspondence:index-tables"] = False
            if problem is None and bad_enc >= 0:
                problem = "_encode_multiindex(_decode_multiindex(%d)) != %d at degree %d" % (bad_enc, bad_enc, d)
            if problem is None and bad_fill >= 0:
                problem = "_fill_exponents differs from _decode_multiindex at degree %d slot %d" % (d, bad_fill)
        if problem is None and d <= (12 if not ctx.thorough() else 30):
            # encode(decode(i)) = i through the real njit functions for every slot (vectorised through the dumped dict)
            keys, cnt, bad = R.dump_dict(R.enc[d], len(arr))
            packed = ks[:, 0] | (ks[:, 1] << 6) | (ks[:, 2] << 12) | (ks[:, 3] << 18) | (ks[:, 4] << 24)
            if not np.array_equal(keys, packed):
                i = int(np.flatnonzero(keys != packed)[0])
                problem = "encode(decode(%d)) != %d at degree %d" % (i, i, d)
        if problem is None and d <= 8:
            # independent enumeration: the real decode of the whole degree is exactly the set of compositions
            if sorted(map(tuple, full.tolist())) != sorted(compositions(6, d)):
                problem = "decoded slots are not the multi-indices of degree %d" % d
        if problem is not None:
            ctx.violation("table:bijection", problem, {"op": "table-bijection", "degree": d})
            break
    ctx.log("direct table bijection check degree <= %d (%.1fs)" % (Dchk, time.time() - tb))


def _rand_comp(rng, d):
    cuts = sorted(rng.randint(0, d) for _ in range(5))
    parts = [cuts[0]] + [cuts[i] - cuts[i - 1] for i in range(1, 5)] + [d - cuts[4]]
    rng.shuffle(parts)
    return parts


# ----------------------------------------------------------------------------------------------------------------
# driver plumbing


def run_driver(ctx, text):
    t = time.time()
    out = ctx.lean_run("Drivers/C06.lean", "\n".join(text) + "\n", timeout=3000)
    tags = ("decall", "psi", "clmo", "enc", "tables", "pack", "encode", "decode", "add", "scale", "mul", "diff", "integ", "poisson",
            "eval", "gvar", "gadd", "gmul", "gpow", "gpoisson", "gdiff", "ginteg", "geval", "sublin", "subaff", "gjac", "gdeg", "bad-op")
    res = [l.rstrip() for l in out if l.split(" ", 1)[0] in tags]
    ctx.log("driver: %d ops in %.1fs" % (len(text), time.time() - t))
    return res


def compare_lines(ctx, name, text, expect, out, on_mismatch=None):
    mism = 0
    if len(out) != len(expect):
        ctx.broken.append((name, "driver returned %d lines for %d operations" % (len(out), len(expect))))
        ctx.obligations[name] = False
        return 1
    for i, (e, o) in enumerate(zip(expect, out)):
        if e.strip() != o.strip():
            mism += 1
            if mism <= 3:
                ctx.broken.append((name, "model and implementation differ on `%s`: impl %r model %r" % (
                    text[i][:160], e[:200], o[:200])))
            ctx.obligations[name] = False
            if on_mismatch:
                on_mismatch(i)
    ctx.obligations.setdefault(name, True)
    return mism


def sched_txt(rng, n, kind=None):
    """a schedule of a prange of n iterations: per-thread iteration lists"""
    kind = kind or rng.choice(["one", "chunks", "rr", "random", "random", "reverse"])
    if kind == "one" or n == 0:
        groups = [list(range(n))]
    elif kind == "reverse":
        groups = [list(range(n))[::-1]]
    elif kind == "chunks":
        nT = rng.randint(2, 16)
        q, r = divmod(n, nT)
        groups, s = [], 0
        for t in range(nT):
            ln = q + (1 if t < r else 0)
            groups.append(list(range(s, s + ln)))
            s += ln
    elif kind == "rr":
        nT = rng.randint(2, 16)
        groups = [[i for i in range(n) if i % nT == t][::-1] for t in range(nT)]
    else:
        nT = rng.randint(1, 16)
        groups = [[] for _ in range(nT)]
        order = list(range(n))
        rng.shuffle(order)
        for i in order:
            groups[rng.randrange(nT)].append(i)
    return ";".join(",".join(map(str, g)) if g else "-" for g in groups)


# ----------------------------------------------------------------------------------------------------------------
# generators of exact blocks


def rand_block(rng, n, nnz, cplx=True, mult=1, lo=-9, hi=9, dtype=np.complex128):
    a = np.zeros(n, dtype=dtype)
    if n == 0:
        return a
    for i in rng.sample(range(n), min(n, nnz)):
        re = rng.randint(lo, hi) * mult
        im = rng.randint(lo, hi) * mult if (cplx and dtype == np.complex128) else 0
        if re == 0 and im == 0:
            re = mult
        a[i] = complex(re, im) if dtype == np.complex128 else float(re)
    return a


def rand_g(rng, psi, maxdeg, nnz_per=3, degs=None, mult=1, lo=-4, hi=4):
    blocks = [np.zeros(int(psi[6, d]), dtype=np.complex128) for d in range(maxdeg + 1)]
    for d in (degs if degs is not None else range(maxdeg + 1)):
        if rng.random() < 0.75:
            blocks[d] = rand_block(rng, int(psi[6, d]), rng.randint(1, nnz_per), True, mult, lo, hi)
    return blocks


def all_threads(R, fn, repeats=1):
    """run fn() under every available thread count; returns list of (nT, result)"""
    res = []
    for nT in R.threads():
        R.numba.set_num_threads(nT)
        for _ in range(repeats):
            res.append((nT, fn()))
    R.numba.set_num_threads(min(4, R.max_threads))
    return res


def same_everywhere(results):
    """bitwise comparison of the results of all thread counts; returns offending nT or None"""
    ref = results[0][1]
    for nT, r in results[1:]:
        if not _eq(ref, r):
            return nT
    return None


def _eq(a, b):
    if isinstance(a, (list, tuple)):
        return len(a) == len(b) and all(_eq(x, y) for x, y in zip(a, b))
    a, b = np.asarray(a), np.asarray(b)
    return a.shape == b.shape and np.array_equal(a, b)


# ----------------------------------------------------------------------------------------------------------------
# kernel correspondence (exact) + oracle


class Batch:
    def __init__(self):
        self.text, self.expect, self.meta = [], [], []

    def add(self, line, exp, meta):
        self.text.append(line)
        self.expect.append(exp)
        self.meta.append(meta)


def report_oracle(ctx, key, what, rec):
    ctx.violation(key, what, rec)


def dict_txt(p):
    return {",".join(map(str, k)): [frq(c[0]), frq(c[1])] for k, c in sorted(p.items())}


def kernel_cases(ctx, R, lay, batch):
    rng = ctx.rng
    A, psi, clmo, enc = R.A, R.psi, R.clmo, R.enc
    thor = ctx.thorough()
    reps = 2

    def check_threads(op, results, rec):
        bad = same_everywhere(results)
        if bad is not None:
            ctx.violation(op + ":thread-dependence", "%s returns different coefficients with %d threads than with 1" % (op, bad),
                          dict(rec, threads=bad))
            return False
        return True

    # ---------------- add / scale
    for _ in range(30 if thor else 10):
        d = rng.randint(0, 6)
        n = int(psi[6, d])
        p, q = rand_block(rng, n, rng.randint(1, 8)), rand_block(rng, n, rng.randint(1, 8))
        out = np.zeros(n, dtype=np.complex128)
        A._poly_add(p, q, out)
        batch.add("add | %s | %s" % (blk_txt(p), blk_txt(q)), "add " + blk_txt(out), ("add", d))
        ctx.case(("add", d, blk_txt(p), blk_txt(q)), kind="add")
        if lay.to_dict(out, d) != p_add(lay.to_dict(p, d), lay.to_dict(q, d)):
            report_oracle(ctx, "add:exact", "_poly_add is not the coefficient-wise sum",
                          {"op": "add", "degree": d, "p": blk_txt(p), "q": blk_txt(q), "observed": blk_txt(out)})
        al = complex(rng.randint(-5, 5), rng.randint(-5, 5))
        out2 = np.zeros(n, dtype=np.complex128)
        A._poly_scale(p, al, out2)
        batch.add("scale %s %s | %s" % (fr(al.real), fr(al.imag), blk_txt(p)), "scale " + blk_txt(out2), ("scale", d))
        ctx.case(("scale", d, blk_txt(p), al), kind="scale")
        want = {k: gmul((F(al.real), F(al.imag)), c) for k, c in lay.to_dict(p, d).items()}
        if lay.to_dict(out2, d) != {k: c for k, c in want.items() if c != Z}:
            report_oracle(ctx, "scale:exact", "_poly_scale is not alpha*p",
                          {"op": "scale", "degree": d, "p": blk_txt(p), "alpha": [al.real, al.imag], "observed": blk_txt(out2)})

    # ---------------- mul
    pairs = [(a, b) for a in range(0, 9) for b in range(0, 9) if a + b <= 8]
    n_mul = 140 if thor else 60
    mul_list = list(pairs) + [rng.choice(pairs) for _ in range(max(0, n_mul - len(pairs)))]
    for ci, (dp, dq) in enumerate(mul_list):
        np_, nq = int(psi[6, dp]), int(psi[6, dq])
        dense = (np_ * nq <= 1300) and rng.random() < 0.5
        dtype = np.float64 if rng.random() < 0.25 else np.complex128
        p = rand_block(rng, np_, np_ if dense else rng.randint(1, 14), dtype=dtype)
        q = rand_block(rng, nq, nq if dense else rng.randint(1, 14), dtype=dtype)
        rec = {"op": "mul", "deg_p": dp, "deg_q": dq, "dtype": str(np.dtype(dtype)), "p": blk_txt(p), "q": blk_txt(q)}
        results = all_threads(R, lambda: A._poly_mul(p, dp, q, dq, psi, clmo, enc), reps)
        r = results[0][1]
        ok = check_threads("mul", results, rec)
        batch.add("mul %d %d | %s | %s | %s" % (dp, dq, sched_txt(rng, np_), blk_txt(p), blk_txt(q)), "mul " + blk_txt(r), rec)
        ctx.case(("mul", dp, dq, rec["p"], rec["q"]), nontrivial=dp + dq >= 1, kind="mul:%s:%s" % ("dense" if dense else "sparse", np.dtype(dtype).name),
                 sample=dict(rec, result=blk_txt(r)[:200]) if ci % 40 == 5 else None)
        if ok and (r.shape[0] != int(psi[6, dp + dq]) or lay.to_dict(r, dp + dq) != p_mul(lay.to_dict(p, dp), lay.to_dict(q, dq))):
            report_oracle(ctx, "mul:exact", "_poly_mul does not return the coefficients of p*q", dict(rec, observed=blk_txt(r)))

    # ---------------- diff
    for ci in range(90 if thor else 40):
        d = rng.choice([0, 1, 2, 3, 4, 5, 6, 7, 8]) if ci >= 9 else ci
        n = int(psi[6, d])
        var = rng.randrange(6)
        dtype = np.float64 if rng.random() < 0.25 else np.complex128
        p = rand_block(rng, n, n if (n <= 130 and rng.random() < 0.5) else rng.randint(1, 25), dtype=dtype)
        rec = {"op": "diff", "degree": d, "var": var, "dtype": str(np.dtype(dtype)), "p": blk_txt(p)}
        results = all_threads(R, lambda: A._poly_diff(p, var, d, psi, clmo, enc), reps)
        r = results[0][1]
        ok = check_threads("diff", results, rec)
        batch.add("diff %d %d | %s | %s" % (var, d, sched_txt(rng, n), blk_txt(p)), "diff " + blk_txt(r), rec)
        ctx.case(("diff", d, var, rec["p"]), nontrivial=d >= 1, kind="diff:" + np.dtype(dtype).name)
        if ok and (r.shape[0] != int(psi[6, max(d - 1, 0)]) or lay.to_dict(r, max(d - 1, 0)) != p_diff(lay.to_dict(p, d), var)):
            report_oracle(ctx, "diff:exact", "_poly_diff does not return the partial derivative", dict(rec, observed=blk_txt(r)))

    # ---------------- integrate (coefficients are multiples of 2520 = lcm(1..9) so that the division is exact)
    for ci in range(60 if thor else 25):
        d = rng.randint(0, 7)
        n = int(psi[6, d])
        var = rng.randrange(6)
        p = rand_block(rng, n, rng.randint(1, 25), mult=2520)
        rec = {"op": "integ", "degree": d, "var": var, "p": blk_txt(p)}
        r = A._poly_integrate(p, var, d, psi, clmo, enc)
        batch.add("integ %d %d | %s" % (var, d, blk_txt(p)), "integ " + blk_txt(r), rec)
        ctx.case(("integ", d, var, rec["p"]), kind="integrate")
        rd = lay.to_dict(r, d + 1)
        if r.shape[0] != int(psi[6, d + 1]) or rd != p_int(lay.to_dict(p, d), var) or p_diff(rd, var) != lay.to_dict(p, d):
            report_oracle(ctx, "integrate:exact", "_poly_integrate is not the antiderivative (d/dx of it must give p back)",
                          dict(rec, observed=blk_txt(r)))

    # ---------------- poisson
    ppairs = [(a, b) for a in range(0, 6) for b in range(0, 6) if a + b <= 8]
    for ci in range(70 if thor else 30):
        dp, dq = ppairs[ci] if ci < len(ppairs) and thor else rng.choice(ppairs)
        p = rand_block(rng, int(psi[6, dp]), rng.randint(1, 10))
        q = rand_block(rng, int(psi[6, dq]), rng.randint(1, 10))
        rec = {"op": "poisson", "deg_p": dp, "deg_q": dq, "p": blk_txt(p), "q": blk_txt(q)}
        results = all_threads(R, lambda: A._poly_poisson(p, dp, q, dq, psi, clmo, enc), 1)
        r = results[0][1]
        ok = check_threads("poisson", results, rec)
        sg = rng.choice(["c1", "c3", "r4", "c16", "r7"])
        batch.add("poisson %d %d %s | %s | %s" % (dp, dq, sg, blk_txt(p), blk_txt(q)), "poisson " + blk_txt(r), rec)
        ctx.case(("poisson", dp, dq, rec["p"], rec["q"]), nontrivial=dp >= 1 and dq >= 1, kind="poisson")
        dr = max(dp + dq - 2, 0) if (dp and dq) else 0
        if ok and (r.shape[0] != int(psi[6, dr]) or lay.to_dict(r, dr) != p_poisson(lay.to_dict(p, dp), lay.to_dict(q, dq))):
            report_oracle(ctx, "poisson:exact", "_poly_poisson is not sum_i dp/dq_i dq/dp_i - dp/dp_i dq/dq_i",
                          dict(rec, observed=blk_txt(r)))

    # ---------------- evaluate (Gaussian-integer and dyadic points)
    for ci in range(70 if thor else 30):
        d = rng.randint(0, 8)
        n = int(psi[6, d])
        p = rand_block(rng, n, rng.randint(1, 20))
        if rng.random() < 0.5:
            pt = np.array([complex(rng.randint(-3, 3), rng.randint(-2, 2)) for _ in range(6)])
        else:
            pt = np.array([complex(rng.randint(-8, 8) / 4, rng.randint(-4, 4) / 2) for _ in range(6)])
        rec = {"op": "eval", "degree": d, "p": blk_txt(p), "point": [gq_txt(x) for x in pt]}
        v = complex(A._poly_evaluate(p, d, pt, clmo))
        batch.add("eval %d | %s | %s" % (d, blk_txt(p), " ".join(gq_txt(x) for x in pt)), "eval " + gq_txt(v), rec)
        ctx.case(("eval", d, rec["p"], tuple(rec["point"])), kind="evaluate")
        want = p_eval(lay.to_dict(p, d), [(F(x.real), F(x.imag)) for x in pt])
        if (F(v.real), F(v.imag)) != want:
            report_oracle(ctx, "evaluate:exact", "_poly_evaluate is not the value of the polynomial at the point",
                          dict(rec, observed=gq_txt(v), expected=[frq(want[0]), frq(want[1])]))


def graded_cases(ctx, R, lay, batch):
    rng = ctx.rng
    O, psi, clmo, enc = R.O, R.psi, R.clmo, R.enc
    thor = ctx.thorough()
    sgs = ["c1", "c2", "c5", "r3", "c16", "r8"]

    def blocks_of(lst):
        return [np.array(b) for b in lst]

    def thr(fn):
        res = []
        for nT in ([1, 2, 3, 5, 8, 16] if not thor else R.threads()):
            if nT <= R.max_threads:
                R.numba.set_num_threads(nT)
                res.append((nT, fn()))
        R.numba.set_num_threads(min(4, R.max_threads))
        return res

    def tdep(op, results, rec):
        bad = same_everywhere(results)
        if bad is not None:
            ctx.violation(op + ":thread-dependence", "%s depends on the number of threads (%d vs 1)" % (op, bad), dict(rec, threads=bad))
            return False
        return True

    # variables
    for md in (0, 1, 3):
        for idx in range(6):
            r = blocks_of(O._polynomial_variable(idx, md, psi, clmo, enc))
            batch.add("gvar %d %d" % (idx, md), "gvar " + g_txt(r), ("gvar", idx, md))
            ctx.case(("gvar", idx, md), kind="variable")
            want = {tuple(1 if t == idx else 0 for t in range(6)): ONE} if md >= 1 else {}
            if lay.g_to_dict(r) != want:
                ctx.violation("variable:exact", "_polynomial_variable is not the coordinate polynomial",
                              {"op": "gvar", "idx": idx, "max_deg": md, "observed": g_txt(r)})

    # add_inplace
    for _ in range(20 if thor else 8):
        md = rng.randint(0, 5)
        P, Q = rand_g(rng, psi, md), rand_g(rng, psi, md)
        sc = rng.choice([1.0, -1.0, 2.0, complex(0, 1), -3.0])
        m2 = rng.choice([md, md, max(md - 1, 0)])
        Pl = R.glist(P)
        O._polynomial_add_inplace(Pl, R.glist(Q), sc, m2)
        r = blocks_of(Pl)
        s = complex(sc)
        batch.add("gadd %s %s %d | %s | %s" % (fr(s.real), fr(s.imag), m2, g_txt(P), g_txt(Q)), "gadd " + g_txt(r), ("gadd", md))
        ctx.case(("gadd", md, g_txt(P), g_txt(Q), str(sc), m2), kind="add_inplace")
        Qd = {k: c for k, c in lay.g_to_dict(Q).items() if sum(k) <= m2}
        if lay.g_to_dict(r) != p_add(lay.g_to_dict(P), Qd, (F(s.real), F(s.imag))):
            ctx.violation("add_inplace:exact", "_polynomial_add_inplace is not p + scale*q (up to max_deg)",
                          {"op": "gadd", "p": g_txt(P), "q": g_txt(Q), "scale": [s.real, s.imag], "max_deg": m2, "observed": g_txt(r)})

    # multiply (truncated)
    for ci in range(40 if thor else 16):
        md = rng.randint(1, 7)
        P, Q = rand_g(rng, psi, md, 4), rand_g(rng, psi, md, 4)
        rec = {"op": "gmul", "max_deg": md, "p": g_txt(P), "q": g_txt(Q)}
        results = thr(lambda: blocks_of(O._polynomial_multiply(R.glist(P), R.glist(Q), md, psi, clmo, enc)))
        r = results[0][1]
        ok = tdep("multiply", results, rec)
        batch.add("gmul %d %s | %s | %s" % (md, rng.choice(sgs), g_txt(P), g_txt(Q)), "gmul " + g_txt(r), rec)
        ctx.case(("gmul", md, rec["p"], rec["q"]), kind="multiply")
        if ok and lay.g_to_dict(r) != p_mul(lay.g_to_dict(P), lay.g_to_dict(Q), md):
            ctx.violation("multiply:exact", "_polynomial_multiply is not the product truncated at max_deg", dict(rec, observed=g_txt(r)))

    # power
    for ci in range(30 if thor else 12):
        md = rng.randint(1, 6)
        k = rng.randint(0, 6)
        P = rand_g(rng, psi, md, 2, degs=rng.sample(range(md + 1), min(md + 1, 2)), lo=-2, hi=2)
        Pd = lay.g_to_dict(P)
        if float(norm1(Pd)) ** max(k, 1) > 2 ** 50:
            continue
        rec = {"op": "gpow", "max_deg": md, "k": k, "p": g_txt(P)}
        results = thr(lambda: blocks_of(O._polynomial_power(R.glist(P), k, md, psi, clmo, enc)))
        r = results[0][1]
        ok = tdep("power", results, rec)
        batch.add("gpow %d %d %s | %s" % (k, md, rng.choice(sgs), g_txt(P)), "gpow " + g_txt(r), rec)
        ctx.case(("gpow", md, k, rec["p"]), nontrivial=k >= 2, kind="power")
        if ok and lay.g_to_dict(r) != p_pow(Pd, k, md):
            ctx.violation("power:exact", "_polynomial_power is not p**k truncated at max_deg", dict(rec, observed=g_txt(r)))

    # poisson bracket
    for ci in range(30 if thor else 12):
        md = rng.randint(2, 6)
        P, Q = rand_g(rng, psi, md, 3), rand_g(rng, psi, md, 3)
        rec = {"op": "gpoisson", "max_deg": md, "p": g_txt(P), "q": g_txt(Q)}
        results = thr(lambda: blocks_of(O._polynomial_poisson_bracket(R.glist(P), R.glist(Q), md, psi, clmo, enc)))
        r = results[0][1]
        ok = tdep("poisson_bracket", results, rec)
        batch.add("gpoisson %d %s | %s | %s" % (md, rng.choice(sgs), g_txt(P), g_txt(Q)), "gpoisson " + g_txt(r), rec)
        ctx.case(("gpoisson", md, rec["p"], rec["q"]), kind="poisson_bracket")
        want = {k: c for k, c in p_poisson(lay.g_to_dict(P), lay.g_to_dict(Q)).items() if sum(k) <= md}
        if ok and lay.g_to_dict(r) != want:
            ctx.violation("poisson_bracket:exact", "_polynomial_poisson_bracket is not the Poisson bracket truncated at max_deg",
                          dict(rec, observed=g_txt(r)))

    # differentiate / jacobian / integrate / evaluate
    for ci in range(30 if thor else 12):
        md = rng.randint(0, 6)
        P = rand_g(rng, psi, md, 4, mult=2520, lo=-3, hi=3)
        var = rng.randrange(6)
        rec = {"op": "gdiff", "max_deg": md, "var": var, "p": g_txt(P)}
        results = thr(lambda: blocks_of(O._polynomial_differentiate(R.glist(P), var, md, psi, clmo, psi, clmo, enc)[0]))
        r = results[0][1]
        ok = tdep("differentiate", results, rec)
        batch.add("gdiff %d %d %s | %s" % (var, md, rng.choice(sgs), g_txt(P)), "gdiff " + g_txt(r), rec)
        ctx.case(("gdiff", md, var, rec["p"]), kind="differentiate")
        if ok and lay.g_to_dict(r) != p_diff(lay.g_to_dict(P), var):
            ctx.violation("differentiate:exact", "_polynomial_differentiate is not the partial derivative", dict(rec, observed=g_txt(r)))
        if ci % 4 == 0:
            jac = O._polynomial_jacobian(R.glist(P), md, psi, clmo, enc)
            batch.add("gjac %d %s | %s" % (md, rng.choice(sgs), g_txt(P)), "gjac " + " @ ".join(g_txt(blocks_of(jac[v])) for v in range(6)),
                      {"op": "gjac", "max_deg": md, "p": g_txt(P)})
            ctx.case(("gjac", md, rec["p"]), kind="jacobian")
            for v in range(6):
                if lay.g_to_dict(blocks_of(jac[v])) != p_diff(lay.g_to_dict(P), v):
                    ctx.violation("jacobian:exact", "_polynomial_jacobian[%d] is not dP/dx_%d" % (v, v),
                                  {"op": "jacobian", "max_deg": md, "p": g_txt(P), "var": v})
        # degree of a graded list: the two library functions, on P and on P with its top blocks zeroed
        for Pz in (P, [blk if k < max(1, len(P) - 1 - ci % 3) else np.zeros_like(blk) for k, blk in enumerate(P)], [np.zeros_like(blk) for blk in P]):
            d1, d2 = int(O._polynomial_degree(R.glist(Pz))), int(O._polynomial_total_degree(R.glist(Pz), psi))
            batch.add("gdeg | %s" % g_txt(Pz), "gdeg %d %d" % (d1, d2), {"op": "gdeg", "p": g_txt(Pz)})
            ctx.case(("gdeg", g_txt(Pz)), kind="degree")
            nz = [k for k, blk in enumerate(Pz) if np.any(blk)]
            want_d = max(nz) if nz else -1
            if d1 != want_d or d2 != want_d:
                ctx.violation("degree:exact", "_polynomial_degree / _polynomial_total_degree return %d / %d for a polynomial of degree %d" % (d1, d2, want_d),
                              {"op": "degree", "p": g_txt(Pz), "observed": [d1, d2], "expected": want_d})
        if md + 1 <= len(clmo) - 1:
            ri, imax = O._polynomial_integrate(R.glist(P), var, md, psi, clmo, psi, clmo, enc)
            ri = blocks_of(ri)
            batch.add("ginteg %d %d | %s" % (var, md, g_txt(P)), "ginteg " + g_txt(ri), ("ginteg", md))
            ctx.case(("ginteg", md, var, rec["p"]), kind="integrate")
            if lay.g_to_dict(ri) != p_int(lay.g_to_dict(P), var):
                ctx.violation("integrate:exact", "_polynomial_integrate is not the antiderivative", dict(rec, op="ginteg", observed=g_txt(ri)))
        pt = np.array([complex(rng.randint(-2, 2), rng.randint(-2, 2)) for _ in range(6)])
        v = complex(O._polynomial_evaluate(R.glist(P), pt, clmo))
        batch.add("geval | %s | %s" % (g_txt(P), " ".join(gq_txt(x) for x in pt)), "geval " + gq_txt(v), ("geval", md))
        ctx.case(("geval", md, rec["p"], tuple(gq_txt(x) for x in pt)), kind="evaluate")
        want = p_eval(lay.g_to_dict(P), [(F(x.real), F(x.imag)) for x in pt])
        if (F(v.real), F(v.imag)) != want:
            ctx.violation("evaluate:exact", "_polynomial_evaluate is not the value at the point",
                          dict(rec, op="geval", point=[gq_txt(x) for x in pt], observed=gq_txt(v)))

    # substitution (linear / affine)
    for ci in range(24 if thor else 10):
        md = rng.randint(1, 4 if not thor else 5)
        P = rand_g(rng, psi, md, 2, lo=-3, hi=3)
        dense_c = rng.random() < 0.4
        C = np.zeros((6, 6), dtype=np.complex128)
        for i in range(6):
            for j in range(6):
                if dense_c or i == j or rng.random() < 0.2:
                    C[i, j] = complex(rng.randint(-2, 2), rng.choice([0, 0, 1, -1]))
        affine = ci % 2 == 1
        sh = np.array([complex(rng.randint(-2, 2), rng.choice([0, 0, 1])) if rng.random() < 0.6 else 0j for _ in range(6)])
        Cq = [[(F(C[i, j].real), F(C[i, j].imag)) for j in range(6)] for i in range(6)]
        shq = [(F(x.real), F(x.imag)) for x in sh]
        Pd = lay.g_to_dict(P)
        rowsum = max(sum(abs(c[0]) + abs(c[1]) for c in row) for row in Cq) + (max(abs(s[0]) + abs(s[1]) for s in shq) if affine else 0)
        if float(norm1(Pd)) * float(max(rowsum, 1)) ** md > 2 ** 48:
            continue
        ctxt = ";".join(" ".join(gq_txt(C[i, j]) for j in range(6)) for i in range(6))
        rec = {"op": "subaff" if affine else "sublin", "max_deg": md, "p": g_txt(P), "C": ctxt, "shifts": [gq_txt(x) for x in sh]}
        if affine:
            results = thr(lambda: blocks_of(O._substitute_affine(R.glist(P), C, sh, md, psi, clmo, enc)))
        else:
            results = thr(lambda: blocks_of(O._substitute_linear(R.glist(P), C, md, psi, clmo, enc)))
        r = results[0][1]
        name = "substitute_affine" if affine else "substitute_linear"
        ok = tdep(name, results, rec)
        sg = rng.choice(sgs)
        if affine:
            batch.add("subaff %d %s | %s | %s | %s" % (md, sg, g_txt(P), ctxt, " ".join(gq_txt(x) for x in sh)), "subaff " + g_txt(r), rec)
        else:
            batch.add("sublin %d %s | %s | %s" % (md, sg, g_txt(P), ctxt), "sublin " + g_txt(r), rec)
        ctx.case((name, md, rec["p"], ctxt, tuple(rec["shifts"]) if affine else ()), kind=name)
        want = p_subst(Pd, Cq, shq if affine else None, md)
        if ok and lay.g_to_dict(r) != want:
            ctx.violation(name + ":exact", "_%s(p, C%s) is not p(Cx%s)" % (name, ", s" if affine else "", "+s" if affine else ""),
                          dict(rec, observed=g_txt(r)))
        # property sentence: evaluate(substitute(p)) at x == evaluate(p) at Cx+s
        x = [(F(rng.randint(-2, 2)), F(rng.randint(-1, 1))) for _ in range(6)]
        y = []
        for i in range(6):
            s = shq[i] if affine else Z
            for j in range(6):
                s = gadd(s, gmul(Cq[i][j], x[j]))
            y.append(s)
        if ok and p_eval(lay.g_to_dict(r), x) != p_eval(Pd, y):
            ctx.violation(name + ":evaluate", "evaluate(substitute(p), x) != evaluate(p, Cx+s)", dict(rec, x=[[frq(a), frq(b)] for a, b in x]))


# ----------------------------------------------------------------------------------------------------------------
# float regime: thread-count independence up to rounding, stress for lost updates


def float_thread_checks(ctx, R):
    rng = ctx.rng
    A, O, psi, clmo, enc = R.A, R.O, R.psi, R.clmo, R.enc
    nrng = np.random.default_rng(ctx.seed)
    thor = ctx.thorough()
    worst = 0.0
    reps = 6 if thor else 3
    cases = [(3, 3), (4, 4), (2, 6), (6, 2), (5, 3), (1, 7), (8, 0), (0, 8)] + ([(6, 6), (8, 8), (7, 5)] if thor else [(6, 6)])
    for dp, dq in cases:
        for cplx in (True, False):
            np_, nq = int(psi[6, dp]), int(psi[6, dq])
            if cplx:
                p = nrng.standard_normal(np_) + 1j * nrng.standard_normal(np_)
                q = nrng.standard_normal(nq) + 1j * nrng.standard_normal(nq)
            else:
                p, q = nrng.standard_normal(np_), nrng.standard_normal(nq)
            # sparsify a little so that the `== 0` skips are exercised
            p[nrng.random(np_) < 0.2] = 0
            q[nrng.random(nq) < 0.2] = 0
            bound = float(np.abs(p).sum() * np.abs(q).sum()) + 1e-300
            res = all_threads(R, lambda: A._poly_mul(p, dp, q, dq, psi, clmo, enc), reps)
            ref = res[0][1]
            for nT, r in res:
                e = float(np.max(np.abs(r - ref))) / bound if r.shape == ref.shape else 1.0
                worst = max(worst, e)
                if e > 1e-13:
                    ctx.violation("mul:thread-dependence", "float _poly_mul differs between 1 and %d threads by %.3g of the absolute-sum bound" % (nT, e),
                                  {"op": "mul-float", "deg_p": dp, "deg_q": dq, "complex": cplx, "seed": ctx.seed, "threads": nT, "rel": e,
                                   "p": [str(x) for x in p[:50]], "q": [str(x) for x in q[:50]]})
                    break
            ctx.case(("mul-float", dp, dq, cplx), kind="float-threads:mul")
            # diff on the product
            d = dp + dq
            for var in (0, 3, 5):
                resd = all_threads(R, lambda: A._poly_diff(ref, var, d, psi, clmo, enc), 1)
                refd = resd[0][1]
                bd = float(np.abs(ref).max() * max(d, 1)) + 1e-300
                for nT, r in resd:
                    e = float(np.max(np.abs(r - refd))) / bd if r.shape == refd.shape else 1.0
                    worst = max(worst, e)
                    if e > 1e-13:
                        ctx.violation("diff:thread-dependence", "float _poly_diff differs between 1 and %d threads (%.3g)" % (nT, e),
                                      {"op": "diff-float", "degree": d, "var": var, "seed": ctx.seed, "threads": nT, "rel": e})
                        break
                ctx.case(("diff-float", d, var, cplx), kind="float-threads:diff")
    ctx.extra["float_thread_worst_rel"] = worst
    ctx.extra["thread_counts"] = R.threads()
    ctx.log("float thread-independence: worst relative difference %.3g over thread counts %s" % (worst, R.threads()))


# ----------------------------------------------------------------------------------------------------------------


def _limit_violations(ctx, per_key=2):
    """report at most `per_key` concrete inputs per violation key (a broken kernel fails on most inputs)"""
    orig, seen = ctx.violation, {}

    def v(key, what, replay, found_input=True):
        seen[key] = seen.get(key, 0) + 1
        if seen[key] <= per_key:
            orig(key, what, replay, found_input)
    ctx.violation = v


def run(ctx):
    t0 = time.time()
    _limit_violations(ctx)
    R = Real()
    ctx.log("import + njit helpers %.1fs; numba threads available: %d (layer %s)" % (time.time() - t0, R.max_threads, R.numba.config.THREADING_LAYER))
    if R.max_threads < 16:
        ctx.notes.append("only %d numba threads available; thread counts 1..%d sampled" % (R.max_threads, R.max_threads))
    gen(ctx, R)
    ok = ctx.lean_build(PROP_MODS)
    if ok:
        ctx.lean_audit(PROP_MODS, SRC_MODS)
        if ctx.thorough():
            ctx.leanchecker(PROP_MODS)
    lay = Layout(R)
    table_checks(ctx, R, lay)
    batch = Batch()
    batch.text.append("tables 16")
    batch.expect.append("tables 16 %d" % sum(len(R.clmo[d]) for d in range(17)))
    batch.meta.append(("tables",))
    tk = time.time()
    kernel_cases(ctx, R, lay, batch)
    ctx.log("kernel cases run on the real code: %d (%.1fs)" % (len(batch.text), time.time() - tk))
    tk = time.time()
    graded_cases(ctx, R, lay, batch)
    ctx.log("graded cases run on the real code: total ops %d (%.1fs)" % (len(batch.text), time.time() - tk))
    out = run_driver(ctx, batch.text)
    mism = compare_lines(ctx, "correspondence:polynomial-kernels", batch.text, batch.expect, out)
    ctx.corr_cases = len(batch.text)
    ctx.extra["correspondence_cases"] = len(batch.text)
    ctx.extra["correspondence_mismatches"] = mism
    ctx.traces_validated += len(batch.text)
    float_thread_checks(ctx, R)
    ctx.rule = ("index tables: every slot of the real global tables (degree <= 30) and of a fresh _init_index_tables streamed to the model; "
                "encode/decode/pack calls with valid, k0-inconsistent, degree-inconsistent, >63 and out-of-range arguments. Kernels: seeded "
                "Gaussian-integer blocks (dense for small degrees, sparse up to degree 8; all degree pairs with sum <= 8 for mul), real and complex "
                "dtype, each run under numba.set_num_threads(1..16) with repeats and compared exactly with the Lean model (random schedules) and "
                "with an exact Python oracle; graded operations with max_deg <= 7; substitutions with random Gaussian-integer matrices and shifts. "
                "distinct = distinct (operation, degrees, coefficient blocks, arguments); non-trivial = result degree >= 1 (mul/diff/poisson: both "
                "operands non-constant)")


def replay(ctx, rec):
    """re-run one recorded failing input on the real code and re-evaluate the clause with the exact oracle"""
    R = Real()
    lay = Layout(R)
    rp = rec.get("replay", rec)
    op = rp.get("op")
    ctx.log("replaying", op)

    def blk(txt, dtype=np.complex128):
        ws = txt.split()
        a = np.zeros(int(ws[0]), dtype=dtype)
        for e in ws[1:]:
            i, re, im = e.split(":")
            a[int(i)] = complex(float(F(re)), float(F(im))) if dtype == np.complex128 else float(F(re))
        return a

    A, psi, clmo, enc = R.A, R.psi, R.clmo, R.enc
    if op == "mul":
        dt = np.float64 if "float64" in rp.get("dtype", "") else np.complex128
        p, q = blk(rp["p"], dt), blk(rp["q"], dt)
        res = all_threads(R, lambda: A._poly_mul(p, rp["deg_p"], q, rp["deg_q"], psi, clmo, enc), 2)
        bad = same_everywhere(res)
        r = res[0][1]
        if bad is not None:
            ctx.violation("mul:thread-dependence", "replayed: thread dependence", rp)
        elif lay.to_dict(r, rp["deg_p"] + rp["deg_q"]) != p_mul(lay.to_dict(p, rp["deg_p"]), lay.to_dict(q, rp["deg_q"])):
            ctx.violation("mul:exact", "replayed: _poly_mul does not return the coefficients of p*q", dict(rp, observed=blk_txt(r)))
    elif op == "diff":
        dt = np.float64 if "float64" in rp.get("dtype", "") else np.complex128
        p = blk(rp["p"], dt)
        d = rp["degree"]
        res = all_threads(R, lambda: A._poly_diff(p, rp["var"], d, psi, clmo, enc), 2)
        r = res[0][1]
        if same_everywhere(res) is not None:
            ctx.violation("diff:thread-dependence", "replayed: thread dependence", rp)
        elif lay.to_dict(r, max(d - 1, 0)) != p_diff(lay.to_dict(p, d), rp["var"]):
            ctx.violation("diff:exact", "replayed: _poly_diff does not return the partial derivative", dict(rp, observed=blk_txt(r)))
    elif op == "poisson":
        p, q = blk(rp["p"]), blk(rp["q"])
        dp, dq = rp["deg_p"], rp["deg_q"]
        r = A._poly_poisson(p, dp, q, dq, psi, clmo, enc)
        dr = max(dp + dq - 2, 0) if (dp and dq) else 0
        if lay.to_dict(r, dr) != p_poisson(lay.to_dict(p, dp), lay.to_dict(q, dq)):
            ctx.violation("poisson:exact", "replayed: _poly_poisson is not the Poisson bracket", dict(rp, observed=blk_txt(r)))
    elif op == "integ":
        p = blk(rp["p"])
        r = A._poly_integrate(p, rp["var"], rp["degree"], psi, clmo, enc)
        if lay.to_dict(r, rp["degree"] + 1) != p_int(lay.to_dict(p, rp["degree"]), rp["var"]):
            ctx.violation("integrate:exact", "replayed: _poly_integrate is not the antiderivative", dict(rp, observed=blk_txt(r)))
    elif op == "eval":
        p = blk(rp["p"])
        pt = np.array([complex(float(F(s.split(":")[0])), float(F(s.split(":")[1]))) for s in rp["point"]])
        v = complex(A._poly_evaluate(p, rp["degree"], pt, clmo))
        want = p_eval(lay.to_dict(p, rp["degree"]), [(F(x.real), F(x.imag)) for x in pt])
        if (F(v.real), F(v.imag)) != want:
            ctx.violation("evaluate:exact", "replayed: _poly_evaluate is not the value at the point", dict(rp, observed=gq_txt(v)))
    else:
        # table / graded findings: the full run is deterministic in the seed
        ctx.seed = rec.get("seed", ctx.seed)
        import random
        ctx.rng = random.Random(ctx.seed)
        run(ctx)
