"""C08 — Lie-series normal form removes the right terms by a canonical transformation.

Model: `lean/HitenModel/Core/C08.lean` — sparse polynomials in (q1,q2,q3,p1,p2,p3) over an arbitrary coefficient type,
the Poisson bracket of the code, `_select_terms_for_elimination`, `_select_nonresonant_terms`,
`_solve_homological_equation` (with the small-divisor guard), `_apply_poly_transform` / `_apply_coord_transform`
(truncated Lie series with the code's bracket counts `K`, `K_max`), both `_lie_transform` loops, `_lie_expansion`
(forward / inverse), `_zero_q1p1`, `_evaluate_transform`.  Theorems (`Props/C08.lean`) are over an arbitrary field.

Tie 1 (regenerated, `Gen/C08.lean`): the bracket counts `K(N, deg_G)` / `K_max(N, deg_G)` are *observed* by running the
current `.py_func` of `_apply_poly_transform` / `_apply_coord_transform` with a counting `_factorial`, the small-divisor
threshold of `_solve_homological_equation` is located by probing the compiled function, the default tolerances are read
from the live signatures / conversion registry.  `Props/C08.lean` proves that the model's formulas reproduce the
observed tables and that the counts are sufficient.

Tie 2 (correspondence): the real routines (`_polynomial_poisson_bracket`, `_select_terms_for_elimination`,
`_select_nonresonant_terms`, `_solve_homological_equation`, `_apply_poly_transform`, `_apply_coord_transform`,
both `_lie_transform`, `_lie_expansion` forward/inverse/restricted, `_zero_q1p1`, `_evaluate_transform`) are run on
Gaussian-dyadic Hamiltonians with a prescribed diagonal quadratic part and random higher-order terms; the model is run
on the same inputs over the Gaussian *rationals* by `Drivers/C08.lean`; all coefficients are compared (exactly for the
division-free kernels, to 1e-10 of the largest coefficient otherwise).  Array positions are decoded by the harness'
own enumeration of exponent vectors.

Search / numerical shell (model-independent, on the real code): on every synthetic case and on the real pipelines
(L1, L2; several mass ratios; degrees 4..): no monomial of degree 3..N with k0 != k3 survives (partial), only resonant
monomials survive (full), `H_new = H_old o Phi` and `Phi^-1 o Phi = id` through degree N, `{Phi_i, Phi_j} = J_ij`
through degree N-1 (coefficient-wise with the harness' own sparse arithmetic on the synthetic cases, by fitted
exponents over radii on the pipelines, with the harness' own evaluator and exact polynomial Jacobian)."""
from __future__ import annotations

import inspect
import itertools
import logging
import math
import os
import types
from fractions import Fraction

import numpy as np

os.environ.setdefault("NUMBA_NUM_THREADS", "4")      # shared machine; the polynomial kernels used here are small

F = Fraction
PROPS = ["HitenModel.Props.C08"]
SRC = ["HitenModel.Core.C08", "HitenModel.Gen.C08", "HitenModel.Lemmas.C08", "HitenModel.Lemmas.C08Mv", "HitenModel.Lemmas.C08NF",
       "HitenModel.Lemmas.LieSeries", "HitenModel.Lemmas.LieSeriesModel", "HitenModel.Lemmas.LieSeriesIter", "HitenModel.Lemmas.LieSeriesCanon", "HitenModel.Props.C08", "Drivers.C08"]
NMAX_GEN = 10
REL = 1e-10          # correspondence tolerance (relative to the largest coefficient of the compared polynomial)
GUARD = 1e-14        # expected small-divisor threshold (checked by probing in gen())


# ---------------------------------------------------------------------------------------------------------
# exponent vectors: the harness' own enumeration (same nesting as the tables of the library, independent code)
# ---------------------------------------------------------------------------------------------------------
_MONOS = {}


def monos(d):
    if d not in _MONOS:
        out = []
        for k0 in range(d, -1, -1):
            for k1 in range(d - k0, -1, -1):
                for k2 in range(d - k0 - k1, -1, -1):
                    for k3 in range(d - k0 - k1 - k2, -1, -1):
                        for k4 in range(d - k0 - k1 - k2 - k3, -1, -1):
                            out.append((k0, k1, k2, k3, k4, d - k0 - k1 - k2 - k3 - k4))
        _MONOS[d] = out
    return _MONOS[d]


_INDEX = {}


def index_of(k):
    d = sum(k)
    if d not in _INDEX:
        _INDEX[d] = {m: i for i, m in enumerate(monos(d))}
    return _INDEX[d][k]


_TAB = {}


def tables(N):
    from hiten.algorithms.polynomial.base import _create_encode_dict_from_clmo, _init_index_tables
    if N not in _TAB:
        psi, clmo = _init_index_tables(N)
        _TAB[N] = (psi, clmo, _create_encode_dict_from_clmo(clmo))
    return _TAB[N]


def to_blocks(d, N, typed=True):
    """{exponents: complex} -> graded coefficient arrays of the library (positions from the harness' enumeration)"""
    from numba.typed import List
    blocks = [np.zeros(len(monos(deg)), dtype=np.complex128) for deg in range(N + 1)]
    for k, c in d.items():
        blocks[sum(k)][index_of(tuple(k))] += complex(c)
    if not typed:
        return blocks
    out = List()
    for b in blocks:
        out.append(b)
    return out


def from_blocks(P):
    out = {}
    for deg, arr in enumerate(P):
        a = np.asarray(arr)
        if a.size == 0:
            continue
        ms = monos(deg)
        if a.size != len(ms):
            raise ValueError("block %d has %d entries, expected %d" % (deg, a.size, len(ms)))
        for i in np.flatnonzero(a):
            out[ms[int(i)]] = complex(a[i])
    return out


def from_vec(arr, deg):
    ms = monos(deg)
    a = np.asarray(arr)
    return {ms[int(i)]: complex(a[i]) for i in np.flatnonzero(a)}


# ---------------------------------------------------------------------------------------------------------
# line protocol
# ---------------------------------------------------------------------------------------------------------

def frs(x):
    q = F(x)
    return str(q.numerator) if q.denominator == 1 else "%d/%d" % (q.numerator, q.denominator)


def gq(c):
    c = complex(c)
    return frs(c.real) + "," + frs(c.imag)


def term_lines(slot, d):
    return ["clear " + slot] + ["term %s %d %d %d %d %d %d %s" % ((slot,) + tuple(k) + (gq(c),)) for k, c in d.items()]


def parse_poly(line):
    """'out name t;t;…' -> (name, {exponents: (Fraction re, Fraction im)})"""
    toks = line.split(" ", 2)
    assert toks[0] == "out", line
    name = toks[1]
    out = {}
    body = toks[2].strip() if len(toks) > 2 else ""
    if body:
        for t in body.split(";"):
            w = t.split()
            k = tuple(int(x) for x in w[:6])
            re, im = w[6].split(",")
            assert k not in out, "driver printed the monomial %r twice" % (k,)
            out[k] = (F(re), F(im))
    return name, out


_MARGIN = []        # error / tolerance of every inexact comparison (evidence: how far the unchanged tree is from the tolerance)


def cmp_poly(real, model, exact=False, rel=REL):
    """None if the coefficient dictionaries agree, else a message"""
    keys = set(real) | set(model)
    scale = max([1.0] + [abs(complex(float(v[0]), float(v[1]))) for v in model.values()])
    worst = (0.0, None)
    for k in keys:
        r = real.get(k, 0j)
        m = model.get(k, (F(0), F(0)))
        if exact:
            if F(r.real) != m[0] or F(r.imag) != m[1]:
                return "coefficient of %r: code %r, model %s,%s (exact case)" % (k, r, m[0], m[1])
        else:
            e = abs(r - complex(float(m[0]), float(m[1])))
            if e > worst[0]:
                worst = (e, k)
    if not exact:
        _MARGIN.append(worst[0] / (rel * scale))
    if not exact and worst[0] > rel * scale:
        k = worst[1]
        m = model.get(k, (F(0), F(0)))
        return "coefficient of %r: code %r, model %r (|diff| %.3e, scale %.3e)" % (
            k, real.get(k, 0j), complex(float(m[0]), float(m[1])), worst[0], scale)
    return None


# ---------------------------------------------------------------------------------------------------------
# the harness' own sparse polynomial arithmetic (complex floats) — used only by the direct property checks
# ---------------------------------------------------------------------------------------------------------

def p_add(a, b, s=1.0):
    out = dict(a)
    for k, c in b.items():
        out[k] = out.get(k, 0j) + s * c
    return out


def p_mul(a, b, N):
    out = {}
    for ka, ca in a.items():
        da = sum(ka)
        for kb, cb in b.items():
            if da + sum(kb) > N:
                continue
            k = tuple(x + y for x, y in zip(ka, kb))
            out[k] = out.get(k, 0j) + ca * cb
    return out


def p_diff(a, j):
    out = {}
    for k, c in a.items():
        if k[j]:
            kk = list(k)
            kk[j] -= 1
            out[tuple(kk)] = out.get(tuple(kk), 0j) + c * k[j]
    return out


def p_poisson(a, b, N):
    out = {}
    for m in range(3):
        out = p_add(out, p_mul(p_diff(a, m), p_diff(b, m + 3), N))
        out = p_add(out, p_mul(p_diff(a, m + 3), p_diff(b, m), N), -1.0)
    return out


def p_compose(H, Phi, N):
    """H o Phi truncated at degree N (Phi: six dictionaries)"""
    pw = [[{(0,) * 6: 1 + 0j}] for _ in range(6)]
    maxe = [max([k[j] for k in H] + [0]) for j in range(6)]
    for j in range(6):
        for _ in range(maxe[j]):
            pw[j].append(p_mul(pw[j][-1], Phi[j], N))
    out = {}
    cache = {}
    for k, c in H.items():
        prod = None
        for j in range(6):
            pre = k[:j + 1]
            if pre in cache:
                prod = cache[pre]
                continue
            prod = pw[j][k[j]] if prod is None else (prod if k[j] == 0 else p_mul(prod, pw[j][k[j]], N))
            cache[pre] = prod
        out = p_add(out, prod, c)
    return out


def p_max(a, pred=lambda k: True):
    return max([abs(c) for k, c in a.items() if pred(k)] + [0.0])


def p_eval(a, z):
    s = 0j
    for k, c in a.items():
        t = c
        for zi, ki in zip(z, k):
            if ki:
                t = t * zi ** ki
        s += t
    return s


# dense evaluators on graded arrays (vectorised; independent of the library's evaluator)
_EXPS = {}


def exps(deg):
    if deg not in _EXPS:
        _EXPS[deg] = np.array(monos(deg), dtype=np.int64).reshape(-1, 6)
    return _EXPS[deg]


def dense_eval(P, z):
    z = np.asarray(z, dtype=np.complex128)
    s = 0j
    for deg, arr in enumerate(P):
        a = np.asarray(arr)
        if a.size == 0 or not a.any():
            continue
        s += np.dot(a, np.prod(z[None, :] ** exps(deg), axis=1))
    return s


def dense_grad(P, z):
    z = np.asarray(z, dtype=np.complex128)
    g = np.zeros(6, dtype=np.complex128)
    for deg, arr in enumerate(P):
        a = np.asarray(arr)
        if deg == 0 or a.size == 0 or not a.any():
            continue
        E = exps(deg)
        for j in range(6):
            Ej = E.copy()
            Ej[:, j] = np.maximum(Ej[:, j] - 1, 0)
            g[j] += np.dot(a * E[:, j], np.prod(z[None, :] ** Ej, axis=1))
    return g


J6 = np.zeros((6, 6))
for _m in range(3):
    J6[_m, _m + 3] = 1.0
    J6[_m + 3, _m] = -1.0


# ---------------------------------------------------------------------------------------------------------
# Gen/C08.lean
# ---------------------------------------------------------------------------------------------------------

def observe_K(N, n):
    """number of brackets the current code takes for (N_max, deg_G) = (N, n): run the py_func with a counting Poisson bracket.
    The inputs (G = x1^(n-1) p1; X = x1^2 resp. x1) are chosen so that no iterated bracket vanishes before the degree truncation does it:
    a series loop that stops early on an identically zero bracket is still counted up to the truncation degree."""
    from numba.typed import List
    import hiten.algorithms.hamiltonian.lie as lie
    import hiten.algorithms.hamiltonian.center._lie as clie
    psi, clmo, enc = tables(N)
    res = []
    G = {(n - 1, 0, 0, 1, 0, 0): 1.0}
    for mod, fn, X in ((lie, lie._apply_poly_transform, {(2, 0, 0, 0, 0, 0): 1.0}), (clie, clie._apply_coord_transform, {(1, 0, 0, 0, 0, 0): 1.0})):
        calls = []
        g = fn.py_func.__globals__
        name = "_polynomial_poisson_bracket"
        if name not in g:
            raise RuntimeError("%s does not call %s" % (fn.py_func.__name__, name))
        old = g[name]

        def counting(*a, _o=old, _c=calls, **k):
            _c.append(1)
            return _o(*a, **k)

        g[name] = counting
        try:
            if fn is lie._apply_poly_transform:
                fn.py_func(to_blocks(X, N), to_blocks(G, N)[n], n, N, psi, clmo, enc, 1e-30)
            else:
                fn.py_func(to_blocks(X, N), to_blocks(G, N), N, psi, clmo, enc, 1e-30)
        finally:
            g[name] = old
        if not calls:
            raise RuntimeError("no bracket taken")
        res.append(len(calls))
    return tuple(res)


def probe_guard():
    """locate the small-divisor threshold of the compiled _solve_homological_equation by probing"""
    from hiten.algorithms.hamiltonian.lie import _solve_homological_equation
    psi, clmo, enc = tables(3)
    k = (1, 0, 0, 0, 1, 1)              # divisor = -eta0 + eta1 + eta2

    def skipped(den):
        p = np.zeros(len(monos(3)), dtype=np.complex128)
        p[index_of(k)] = 1.0
        g = _solve_homological_equation(p, 3, np.array([-den, 0.0, 0.0], dtype=np.complex128), clmo)
        return g[index_of(k)] == 0

    lo, hi = 0.0, 1.0           # skipped(lo) (zero divisor), not skipped(hi)
    if not skipped(0.0) or skipped(1.0):
        raise RuntimeError("guard probe: zero divisor not skipped or unit divisor skipped")
    for _ in range(1200):
        mid = 0.5 * (lo + hi)
        if mid == lo or mid == hi:
            break
        if skipped(mid):
            lo = mid
        else:
            hi = mid
    # skipped(x) for x <= lo, not skipped for x >= hi, hi = nextafter(lo): the guard is `|d| < hi`
    also_imag = skipped(1j * lo) and not skipped(1j * hi)
    return hi, also_imag


def defaults():
    import hiten.algorithms.hamiltonian.center._lie as clie
    import hiten.algorithms.hamiltonian.normal._lie as nlie
    sp = inspect.signature(clie._lie_transform).parameters
    sf = inspect.signature(nlie._lie_transform).parameters
    se = inspect.signature(clie._lie_expansion).parameters
    return {"tolPartial": float(sp["tol"].default), "tolFull": float(sf["tol"].default),
            "resonanceTol": float(sf["resonance_tol"].default), "tolExpansion": float(se["tol"].default)}


def lean_rat(x):
    q = F(x)
    return "((%d : Rat) / %d)" % (q.numerator, q.denominator)


def gen(ctx):
    rows = []
    for N in range(3, NMAX_GEN + 1):
        for n in range(3, N + 1):
            kp, kc = observe_K(N, n)
            rows.append((N, n, kp, kc))
    ctx.traces_validated += len(rows)
    guard, imag_ok = probe_guard()
    if not imag_ok:
        ctx.broken.append(("trace:guard", "the small-divisor guard is not a function of |denom|"))
        ctx.obligations["trace:guard"] = False
    dft = defaults()
    L = ["/- GENERATED on every run by harness/props/c08.py from the current source — do not edit.",
         "   kTable: (N_max, deg_G, brackets taken by _apply_poly_transform, brackets taken by _apply_coord_transform),",
         "   observed by executing the current py_funcs with a counting Poisson bracket (inputs whose iterated brackets vanish only by truncation);",
         "   guardTol: the threshold t of `abs(denom) < t` in _solve_homological_equation located by bisection on the",
         "   compiled function (exact value of the float); default tolerances from the live signatures. -/",
         "namespace HitenModel.Gen.C08", "",
         "def kTable : List (Nat × Nat × Nat × Nat) := ["]
    L.append(",\n".join("  (%d, %d, %d, %d)" % r for r in rows) + "]")
    L += ["", "def guardTol : Rat := " + lean_rat(guard),
          "def tolPartialDefault : Rat := " + lean_rat(dft["tolPartial"]),
          "def tolFullDefault : Rat := " + lean_rat(dft["tolFull"]),
          "def resonanceTolDefault : Rat := " + lean_rat(dft["resonanceTol"]),
          "def tolExpansionDefault : Rat := " + lean_rat(dft["tolExpansion"]),
          "", "end HitenModel.Gen.C08", ""]
    ctx.write_gen("HitenModel.Gen.C08", "\n".join(L))
    ctx.extra["generated"] = {"kTable_rows": len(rows), "guardTol": guard, "defaults": dft}
    return {"guard": guard, "defaults": dft, "rows": rows}


# ---------------------------------------------------------------------------------------------------------
# synthetic Hamiltonians
# ---------------------------------------------------------------------------------------------------------

def rand_mono(rng, d):
    cuts = sorted(rng.randint(0, d) for _ in range(5))
    parts = [cuts[0]] + [cuts[i] - cuts[i - 1] for i in range(1, 5)] + [d - cuts[4]]
    rng.shuffle(parts)
    return tuple(parts)


def rand_coef(rng, den=4, lim=12, real=False):
    while True:
        c = complex(rng.randint(-lim, lim) / den, 0 if real else rng.randint(-lim, lim) / den)
        if c != 0:
            return c


MODES = [(2.5, 2.0, 1.75), (1.5, 2.25, 1.0), (3.0, 2.0, 1.25), (2.0, 1.0, 1.0), (-1.25, 0.75, 2.5), (2.0, 3.0, 1.5)]


class Case:
    """a polynomial Hamiltonian with diagonal quadratic part (lam q1p1 + i om1 q2p2 + i om2 q3p3) + higher-order terms"""

    def __init__(self, N, modes, hot, low=None, tag=""):
        self.N, self.modes, self.hot, self.low, self.tag = N, modes, dict(hot), dict(low or {}), tag

    def eta(self):
        lam, o1, o2 = self.modes
        return (complex(lam), 1j * o1, 1j * o2)

    def H(self):
        e = self.eta()
        d = {(1, 0, 0, 1, 0, 0): e[0], (0, 1, 0, 0, 1, 0): e[1], (0, 0, 1, 0, 0, 1): e[2]}
        d = {k: c for k, c in d.items() if c != 0}
        d.update(self.hot)
        d.update(self.low)
        return d

    def point(self):
        return types.SimpleNamespace(linear_modes=tuple(self.modes))

    def to_json(self):
        return {"N": self.N, "modes": list(self.modes), "tag": self.tag,
                "terms": [[list(k), [c.real, c.imag]] for k, c in self.H().items()]}

    @staticmethod
    def from_json(j):
        terms = {tuple(k): complex(c[0], c[1]) for k, c in j["terms"]}
        quad = {(1, 0, 0, 1, 0, 0), (0, 1, 0, 0, 1, 0), (0, 0, 1, 0, 0, 1)}
        hot = {k: c for k, c in terms.items() if sum(k) >= 3}
        low = {k: c for k, c in terms.items() if sum(k) < 3 and k not in quad}
        return Case(j["N"], tuple(j["modes"]), hot, low, j.get("tag", "replay"))


def gen_case(rng, N, nterms, tag, modes=None, low=False, degrees=None):
    modes = modes or rng.choice(MODES)
    hot = {}
    while len(hot) < nterms:
        if degrees:
            d = rng.choice(degrees)
        else:
            d = rng.randint(3, N) if rng.random() < 0.6 else 3
        k = rand_mono(rng, d)
        hot[k] = rand_coef(rng)
    if not degrees:
        # make sure both kinds of monomials occur in degree 3
        hot.setdefault((2, 0, 0, 1, 0, 0), rand_coef(rng))
        hot.setdefault((1, 1, 0, 1, 0, 0) if rng.random() < 0.5 else (1, 0, 1, 1, 0, 0), rand_coef(rng))
    lowd = {}
    if low:
        lowd[rand_mono(rng, 1)] = rand_coef(rng)
    return Case(N, modes, hot, lowd, tag)


def synthetic_cases(ctx):
    rng = ctx.rng
    th = ctx.thorough()
    cases = []
    for N in (3, 4):
        for i in range(6 if th else 3):
            cases.append(gen_case(rng, N, rng.randint(4, 10), "N%d" % N))
    for i in range(8 if th else 4):
        cases.append(gen_case(rng, 5, rng.randint(4, 9), "N5"))
    for i in range(6 if th else 3):
        cases.append(gen_case(rng, 6, rng.randint(3, 6), "N6"))
    if th:
        cases.append(gen_case(rng, 7, 4, "N7"))
        cases.append(gen_case(rng, 8, 3, "N8"))
    else:
        # one sparse high-degree case in the quick tier too: the 1/k! weights of the series are only exercised up to k = N - 1
        cases.append(gen_case(rng, 8, 2, "N8-sparse", degrees=(3,)))
    # resonant frequencies (om1 = om2), vanishing hyperbolic rate (guard fires in the partial form)
    cases.append(gen_case(rng, 4, 6, "resonant", modes=(2.0, 1.0, 1.0)))
    cases.append(gen_case(rng, 5, 5, "resonant-1:2", modes=(1.5, 2.0, 1.0)))
    cases.append(gen_case(rng, 4, 5, "lam=0", modes=(0.0, 2.0, 1.25)))
    # generating functions with GAPS: an even Hamiltonian has G3 = G5 = 0 but G4, G6 != 0 (the loops over generator degrees must skip
    # a vanishing degree, not stop at it)
    cases.append(gen_case(rng, 6, 5, "even-4-6", degrees=(4, 6)))
    cases.append(gen_case(rng, 5, 4, "even-4", degrees=(4,)))
    # small (but far from guarded) divisors: lam = 2^-4, nearly resonant centre frequencies
    cases.append(gen_case(rng, 4, 6, "small-divisors", modes=(2.0 ** -4, 1.0, 1.0 + 2.0 ** -4)))
    return cases


# ---------------------------------------------------------------------------------------------------------
# real runs
# ---------------------------------------------------------------------------------------------------------

def real_lie(case, full, tol=1e-30, res_tol=1e-14):
    import hiten.algorithms.hamiltonian.center._lie as clie
    import hiten.algorithms.hamiltonian.normal._lie as nlie
    psi, clmo, enc = tables(case.N)
    H = to_blocks(case.H(), case.N)
    if full:
        tr, G, el = nlie._lie_transform(case.point(), H, psi, clmo, case.N, tol=tol, resonance_tol=res_tol)
    else:
        tr, G, el = clie._lie_transform(case.point(), H, psi, clmo, case.N, tol=tol)
    return tr, G, el


def real_expansion(G, N, inverse, sign=None, restrict=False, tol=1e-30):
    import hiten.algorithms.hamiltonian.center._lie as clie
    psi, clmo, enc = tables(N)
    return clie._lie_expansion(G, N, psi, clmo, tol, inverse=inverse, sign=sign, restrict=restrict)


def cfg_line(case, tol=1e-30, res_tol=1e-14, guard=GUARD):
    e = case.eta()
    return "cfg %d %s %s %s %s %s %s" % (case.N, gq(e[0]), gq(e[1]), gq(e[2]), frs(guard), frs(tol), frs(res_tol))


class Corr:
    """collects driver operations and the matching real results; compared after one driver run"""

    def __init__(self, ctx):
        self.ctx = ctx
        self.lines = []
        self.expect = []      # (name, n_out_lines, callback(list of parsed) -> None|msg, case json)

    def op(self, name, lines, nout, check, sample):
        self.lines += lines
        self.expect.append((name, nout, check, sample))

    def run(self):
        ctx = self.ctx
        out = [l for l in ctx.lean_run("Drivers/C08.lean", "\n".join(self.lines) + "\n") if l.startswith(("out", "bad-op"))]
        total = sum(e[1] for e in self.expect)
        bad = {}
        if len(out) != total or any(l.startswith("bad-op") for l in out):
            bad["correspondence:driver"] = ("driver returned %d lines for %d expected (%s)" % (
                len(out), total, [l for l in out if l.startswith("bad-op")][:3]), None)
            pos = None
        else:
            pos = 0
        names = set()
        for name, nout, check, sample in self.expect:
            names.add(name)
            if pos is None:
                continue
            chunk = out[pos:pos + nout]
            pos += nout
            try:
                msg = check(chunk)
            except Exception as e:  # malformed driver output
                msg = "cannot compare: %r" % (e,)
            if msg and name not in bad:
                bad[name] = (msg, sample)
        if _MARGIN:
            ctx.extra["correspondence_worst_error_over_tolerance"] = max(_MARGIN)
            ctx.log("inexact comparisons: %d, worst error/tolerance %.2e" % (len(_MARGIN), max(_MARGIN)))
        for name in sorted(names | set(bad)):
            if name in bad:
                ctx.broken.append((name, bad[name][0] + (" | input: %s" % (bad[name][1],) if bad[name][1] else "")))
                ctx.obligations[name] = False
                ctx.log("CORRESPONDENCE BROKEN", name, bad[name][0])
            else:
                ctx.obligations.setdefault(name, True)
        return bad


def poly_check(real_dicts, exact=False, rel=REL):
    def check(chunk):
        for line, real in zip(chunk, real_dicts):
            name, model = parse_poly(line)
            msg = cmp_poly(real, model, exact=exact, rel=rel)
            if msg:
                return "%s: %s" % (name, msg)
        return None
    return check


def factorial_check(ctx):
    """the 1/k! weights of both Lie series come from polynomial/base.py::_factorial: exact integers for every order a series can reach"""
    from hiten.algorithms.polynomial.base import _factorial
    for n in range(0, 21):
        ctx.case(("factorial", n), nontrivial=n >= 2, kind="factorial")
        got = int(_factorial(n))
        if got != math.factorial(n):
            viol(ctx, "factorial:%d" % n, "_factorial(%d) = %d, expected %d: the Lie series weights 1/k! are wrong from order %d on (truncation degree N >= %d)" % (
                n, got, math.factorial(n), n, n + 1), {"kind": "factorial", "n": n, "observed": got, "expected": math.factorial(n)})
            return


def corr_kernels(ctx, corr):
    """kernel-by-kernel: bracket, selections, homological solve (incl. guard), single Lie series, _zero_q1p1"""
    from numba.typed import List
    from hiten.algorithms.hamiltonian.center._lie import _apply_coord_transform, _select_terms_for_elimination, _zero_q1p1
    from hiten.algorithms.hamiltonian.lie import _apply_poly_transform, _solve_homological_equation
    from hiten.algorithms.hamiltonian.normal._lie import _select_nonresonant_terms
    from hiten.algorithms.polynomial.operations import _polynomial_poisson_bracket
    rng = ctx.rng
    th = ctx.thorough()
    for it in range(30 if th else 12):
        N = rng.choice([3, 4, 5, 6])
        psi, clmo, enc = tables(N)
        modes = rng.choice(MODES + [(0.0, 1.0, 1.0)])
        case = Case(N, modes, {})
        e = case.eta()
        # integer Gaussian coefficients: the division-free kernels are exact in floating point
        P = {rand_mono(rng, rng.randint(0, N)): rand_coef(rng, den=1, lim=9) for _ in range(rng.randint(2, 9))}
        Q = {rand_mono(rng, rng.randint(1, N)): rand_coef(rng, den=1, lim=9) for _ in range(rng.randint(2, 7))}
        lines = [cfg_line(case)] + term_lines("P", P) + term_lines("Q", Q)
        real = from_blocks(_polynomial_poisson_bracket(to_blocks(P, N), to_blocks(Q, N), N, psi, clmo, enc))
        corr.op("correspondence:_polynomial_poisson_bracket", lines + ["poisson P Q"], 1, poly_check([real], exact=True),
                {"N": N, "P": str(P), "Q": str(Q)})
        ctx.case(("poisson", N, len(real)), nontrivial=bool(real), kind="kernel:poisson")
        # selections / solve on one homogeneous block
        n = rng.randint(3, N)
        blk = {}
        for _ in range(rng.randint(3, 10)):
            blk[rand_mono(rng, n)] = rand_coef(rng, den=2, lim=9)
        # always include: a k0=k3 monomial, a fully resonant one, a k0!=k3 one
        blk[tuple(np.add((1, 0, 0, 1, 0, 0), rand_mono(rng, n - 2)))] = rand_coef(rng, den=2)
        if n % 2 == 0:
            h = n // 2
            blk[(h, 0, 0, h, 0, 0)] = rand_coef(rng, den=2)
        blk[(n, 0, 0, 0, 0, 0)] = rand_coef(rng, den=2)
        arr = to_blocks(blk, n, typed=False)[n]
        lines = term_lines("B", blk)
        r1 = from_vec(_select_terms_for_elimination(arr.copy(), n, clmo), n)
        corr.op("correspondence:_select_terms_for_elimination", lines + ["select partial B"], 1, poly_check([r1], exact=True),
                {"n": n, "block": str(blk)})
        lam, o1, o2 = modes
        omega = np.array([lam, -lam, 1j * o1, -1j * o1, 1j * o2, -1j * o2], dtype=np.complex128)
        r2 = from_vec(_select_nonresonant_terms(arr.copy(), n, omega, clmo, 1e-14), n)
        corr.op("correspondence:_select_nonresonant_terms", ["select full B"], 1, poly_check([r2], exact=True),
                {"n": n, "modes": modes, "block": str(blk)})
        r3 = from_vec(_solve_homological_equation(arr.copy(), n, np.array(e, dtype=np.complex128), clmo), n)
        corr.op("correspondence:_solve_homological_equation", ["solve B"], 1, poly_check([r3], rel=1e-13),
                {"n": n, "modes": modes, "block": str(blk)})
        guarded = len(blk) - len(r3)
        ctx.case(("select/solve", n, modes, len(r1), len(r2), guarded), kind="kernel:select-solve" + ("-guarded" if guarded else ""))
        # one Lie series with a homogeneous generator (both truncation counts)
        gdeg = rng.randint(3, N)
        Gd = {rand_mono(rng, gdeg): rand_coef(rng, den=2, lim=4) for _ in range(rng.randint(1, 3))}
        Hd = {k: c for k, c in P.items() if sum(k) >= 2}      # the property's domain: no constant / linear part
        Hd.update({(1, 0, 0, 1, 0, 0): 2.0, (0, 1, 0, 0, 1, 0): 1j})
        lines = term_lines("H", Hd) + term_lines("G", Gd)
        r4 = from_blocks(_apply_poly_transform(to_blocks(Hd, N), to_blocks(Gd, N)[gdeg], gdeg, N, psi, clmo, enc, 1e-30))
        corr.op("correspondence:_apply_poly_transform", lines + ["apply %d H G" % gdeg], 1, poly_check([r4]),
                {"N": N, "deg_G": gdeg, "H": str(Hd), "G": str(Gd)})
        X = {tuple(int(i == j) for i in range(6)): 1.0 for j in [rng.randrange(6)]}
        X.update({rand_mono(rng, 2): rand_coef(rng, den=2, lim=4)})
        r5 = from_blocks(_apply_coord_transform(to_blocks(X, N), to_blocks(Gd, N), N, psi, clmo, enc, 1e-30))
        corr.op("correspondence:_apply_coord_transform", term_lines("X", X) + ["coord X G"], 1, poly_check([r5]),
                {"N": N, "X": str(X), "G": str(Gd)})
        ctx.case(("series", N, gdeg, len(r4), len(r5)), kind="kernel:lie-series")
        # _zero_q1p1 on the transformed polynomial
        ex = List()
        ex.append(to_blocks({k: c for k, c in r4.items()}, N))
        r6 = from_blocks(_zero_q1p1(ex, clmo, 1e-30)[0])
        corr.op("correspondence:_zero_q1p1", term_lines("Z", r4) + ["zero Z"], 1, poly_check([r6], rel=1e-15),
                {"N": N})
    # the guard threshold itself: divisors 2^-46 (kept) and 2^-47 (skipped), real and imaginary
    for den, tag in ((2.0 ** -46, "2^-46"), (2.0 ** -47, "2^-47"), (2.0 ** -47 * 1j, "2^-47 i"), (0.0, "0")):
        psi, clmo, enc = tables(3)
        k = (1, 0, 0, 0, 1, 1)
        arr = to_blocks({k: 1.0}, 3, typed=False)[3]
        eta = np.array([-den, 0.0, 0.0], dtype=np.complex128)
        r = from_vec(_solve_homological_equation(arr, 3, eta, clmo), 3)
        lines = ["cfg 3 %s 0 0 %s %s %s" % (gq(-den), frs(GUARD), frs(1e-30), frs(1e-14))] + term_lines("B", {k: 1.0}) + ["solve B"]
        corr.op("correspondence:_solve_homological_equation", lines, 1, poly_check([r], rel=1e-13), {"divisor": tag})
        ctx.case(("guard", tag), kind="kernel:guard")


def corr_transforms(ctx, corr, cases, store):
    """both _lie_transform variants and the coordinate expansions on the synthetic Hamiltonians"""
    from hiten.algorithms.hamiltonian.center._lie import _evaluate_transform
    rng = ctx.rng
    for ci, case in enumerate(cases):
        N = case.N
        psi, clmo, enc = tables(N)
        lines = [cfg_line(case)] + term_lines("H", case.H())
        for full in (False, True):
            tr, G, el = real_lie(case, full)
            rd = [from_blocks(tr), from_blocks(G), from_blocks(el)]
            store[(ci, full)] = (tr, G, el)
            nm = "correspondence:_lie_transform(%s)" % ("full" if full else "partial")
            corr.op(nm, lines + ["lie %s H" % ("full" if full else "partial")], 3, poly_check(rd), case.to_json())
            lines = []
            ctx.case((case.tag, N, full, len(rd[1])), nontrivial=len(rd[1]) > 0,
                     kind="lie_transform:%s:%s" % ("full" if full else "partial", case.tag.split("-")[0]),
                     sample={"case": case.tag, "N": N, "full": full, "G_terms": len(rd[1]), "trans_terms": len(rd[0])})
            if full and ci % 2 == 1:
                continue
            # expansions of the generating functions just computed (slot G of the driver)
            variants = [("fwd", False, None, False), ("inv", True, None, False)]
            if not full:
                variants += [("fwd", False, None, True), ("inv", True, 1, False)]
            for dname, inverse, sign, restrict in variants:
                ex = real_expansion(G, N, inverse, sign=sign, restrict=restrict)
                rex = [from_blocks(e) for e in ex]
                store[(ci, full, dname, sign, restrict)] = ex
                sg = sign if sign is not None else (-1 if inverse else 1)
                corr.op("correspondence:_lie_expansion(%s)" % ("inverse" if inverse else "forward"),
                        ["expand %s %d %d G" % (dname, sg, 1 if restrict else 0)], 6, poly_check(rex), case.to_json())
                ctx.case((case.tag, N, full, dname, sign, restrict, sum(len(r) for r in rex)), kind="lie_expansion:" + dname)
                if not restrict and sign is None:
                    z = np.array([complex(rng.randint(-4, 4) / 8, rng.randint(-4, 4) / 8) for _ in range(6)])
                    val = _evaluate_transform(ex, z, clmo)

                    def chk(chunk, val=val):
                        w = chunk[0].split()[2:]
                        for i, (t, v) in enumerate(zip(w, val)):
                            a, b = t.split(",")
                            m = complex(float(F(a)), float(F(b)))
                            if abs(m - v) > 1e-10 * (1 + abs(m)):
                                return "component %d: code %r, model %r" % (i, v, m)
                        return None
                    corr.op("correspondence:_evaluate_transform", ["eval " + " ".join(gq(c) for c in z)], 1, chk,
                            {"case": case.to_json(), "z": str(list(z))})


# ---------------------------------------------------------------------------------------------------------
# direct property checks on the real outputs (failing-input search, model-independent)
# ---------------------------------------------------------------------------------------------------------

_SEEN = {}


def viol(ctx, key, what, rep):
    """at most two concrete replays per clause (key); further failing inputs of the same clause are only counted"""
    _SEEN[key] = _SEEN.get(key, 0) + 1
    if _SEEN[key] <= 2:
        ctx.violation(key, what, rep)
    else:
        ctx.extra.setdefault("further_failing_inputs", {})[key] = _SEEN[key] - 2


def divisor(case, k):
    e = case.eta()
    return (k[3] - k[0]) * e[0] + (k[4] - k[1]) * e[1] + (k[5] - k[2]) * e[2]


def direct_case(ctx, case, full, tr, G, el, ex_f, ex_i, relc=1e-10):
    """every clause of the property on one synthetic Hamiltonian; reports at most one violation per clause"""
    N = case.N
    H = case.H()
    T = from_blocks(tr)
    kind = "full" if full else "partial"
    rep = {"kind": "synthetic", "variant": kind, "input": case.to_json()}
    scale = 10.0 * max(1.0, p_max(T), p_max(from_blocks(el)))     # residue of c + d*(-c/d): eps * |eliminated coefficient|
    nolow = not case.low
    guard_active = any(abs(divisor(case, k)) < GUARD and (k[0] != k[3]) for k in T if sum(k) >= 3)
    # 1. term removal
    if nolow:
        if full:
            badk = [k for k in T if 3 <= sum(k) <= N and abs(divisor(case, k)) >= 1e-14 and abs(T[k]) > relc * scale]
        else:
            badk = [k for k in T if 3 <= sum(k) <= N and k[0] != k[3] and abs(divisor(case, k)) >= GUARD and abs(T[k]) > relc * scale]
        if badk:
            k = max(badk, key=lambda kk: abs(T[kk]))
            viol(ctx, "synthetic:%s:term-survives" % kind,
                          "%s normal form of a synthetic Hamiltonian keeps the monomial %r (coefficient %r, divisor %r) that must be eliminated"
                          % (kind, k, T[k], divisor(case, k)),
                          dict(rep, clause="term-removal", monomial=list(k), observed=[T[k].real, T[k].imag], expected=0))
        # the quadratic part is untouched
        for k in set(H) | set(T):
            if sum(k) == 2 and abs(H.get(k, 0) - T.get(k, 0)) > 1e-12 * scale:
                viol(ctx, "synthetic:%s:quadratic-part-changed" % kind, "quadratic coefficient of %r changed from %r to %r" % (k, H.get(k, 0), T.get(k, 0)),
                              dict(rep, clause="H2-unchanged", monomial=list(k)))
                break
    # scales: the same computations on absolute values bound the rounding error of every coefficient (running error
    # bound ~ n_ops * eps * scale); a defect changes coefficients by O(1) of their size, many orders above
    ab = lambda P: {k: abs(c) + 0j for k, c in P.items()}
    # 2. H_new = H_old o Phi through degree N
    Pf = [from_blocks(e) for e in ex_f]
    Pi = [from_blocks(e) for e in ex_i]
    Pfa = [ab(p) for p in Pf]
    Pia = [ab(p) for p in Pi]
    comp = p_compose(H, Pf, N)
    diff = p_add(comp, T, -1.0)
    sc = max(1.0, p_max(p_compose(ab(H), Pfa, N)))
    worst = max(diff.items(), key=lambda kv: abs(kv[1]), default=(None, 0j))
    if abs(worst[1]) > relc * sc:
        viol(ctx, "synthetic:%s:H_new-vs-H_old-o-Phi" % kind,
                      "H_new differs from H_old o Phi (forward expansion) at the monomial %r of degree %d <= N=%d by %.3e"
                      % (worst[0], sum(worst[0]), N, abs(worst[1])),
                      dict(rep, clause="H_new = H_old o Phi", monomial=list(worst[0]), observed=abs(worst[1]), expected="<= %g" % (relc * sc)))
    # 3. canonical through degree N-1
    wc = (0.0, None)
    scc = 1.0
    for i in range(6):
        for j in range(i + 1, 6):
            pb = p_poisson(Pf[i], Pf[j], N - 1)
            pb[(0,) * 6] = pb.get((0,) * 6, 0j) - J6[i, j]
            m = p_max(pb)
            if m > wc[0]:
                wc = (m, (i, j))
            pba = {}
            for mm in range(3):
                pba = p_add(pba, p_mul(p_diff(Pfa[i], mm), p_diff(Pfa[j], mm + 3), N - 1))
                pba = p_add(pba, p_mul(p_diff(Pfa[i], mm + 3), p_diff(Pfa[j], mm), N - 1))
            scc = max(scc, p_max(pba))
    if wc[0] > relc * scc:
        viol(ctx, "synthetic:%s:not-canonical" % kind,
                      "{Phi_%d, Phi_%d} differs from J by %.3e in a coefficient of degree <= N-1" % (wc[1] + (wc[0],)),
                      dict(rep, clause="canonical", pair=list(wc[1]), observed=wc[0], expected="<= %g" % (relc * scc)))
    # 4. inverse o forward = id through degree N
    wi = (0.0, None)
    sci = 1.0
    for i in range(6):
        unit = {tuple(int(a == i) for a in range(6)): 1 + 0j}
        c = p_add(p_compose(Pi[i], Pf, N), unit, -1.0)
        c2 = p_add(p_compose(Pf[i], Pi, N), unit, -1.0)
        m = max(p_max(c), p_max(c2))
        if m > wi[0]:
            wi = (m, i)
        sci = max(sci, p_max(p_compose(Pia[i], Pfa, N)), p_max(p_compose(Pfa[i], Pia, N)))
    if wi[0] > relc * sci:
        viol(ctx, "synthetic:%s:inverse-o-forward" % kind,
                      "component %d of inverse o forward (or forward o inverse) differs from the identity by %.3e in a coefficient of degree <= N" % (wi[1], wi[0]),
                      dict(rep, clause="forward o inverse = id", component=wi[1], observed=wi[0], expected="<= %g" % (relc * sci)))
    scf = math.sqrt(scc)
    return {"H": abs(worst[1]) / sc, "canon": wc[0] / scc, "inv": wi[0] / sci, "guard_active": guard_active}


def direct_synthetic(ctx, cases, store):
    worst = {"H": 0.0, "canon": 0.0, "inv": 0.0}
    n = 0
    for ci, case in enumerate(cases):
        for full in (False, True):
            if (ci, full) not in store or (ci, full, "fwd", None, False) not in store:
                continue
            tr, G, el = store[(ci, full)]
            r = direct_case(ctx, case, full, tr, G, el, store[(ci, full, "fwd", None, False)], store[(ci, full, "inv", None, False)])
            n += 1
            for k in worst:
                worst[k] = max(worst[k], r[k])
    ctx.extra["synthetic_direct"] = {"cases": n, "worst_relative_defect": worst}
    ctx.log("direct property checks on %d synthetic transforms; worst relative defects %s" % (n, worst))


# ---------------------------------------------------------------------------------------------------------
# real pipelines
# ---------------------------------------------------------------------------------------------------------

def fit_slope(rs, es):
    x = np.log(np.asarray(rs))
    y = np.log(np.asarray(es))
    return float(np.polyfit(x, y, 1)[0])


def radii_scan(fun, scale_fun, r0=0.32, fac=0.75, nmax=22, keep=4, floor=2e4):
    """evaluate the defect fun(r) on a geometric sequence of radii; keep the `keep` smallest radii whose defect is still
    well above the rounding floor (floor * eps * scale)"""
    pts = []
    r = r0
    for _ in range(nmax):
        e = fun(r)
        if not np.isfinite(e) or e <= floor * 2.2e-16 * scale_fun(r):
            break
        pts.append((r, e))
        r *= fac
    return pts[-keep:]


def pipeline_checks(ctx, sysname, system, Lk, N, ndir):
    """the property on one real pipeline; returns a summary row"""
    from hiten.algorithms.hamiltonian.center._lie import _evaluate_transform
    rng = ctx.rng
    L = system.get_libration_point(Lk)
    lam, o1, o2 = [float(v) for v in L.linear_modes]
    cm = L.get_center_manifold(degree=N)
    pipe = cm.dynamics.pipeline
    Hm = pipe.get_hamiltonian("complex_modal").dynamics.poly_H
    Hp = pipe.get_hamiltonian("complex_partial_normal").dynamics.poly_H
    Hf = pipe.get_hamiltonian("complex_full_normal").dynamics.poly_H
    gen_p = pipe.get_generating_functions("partial")
    gen_f = pipe.get_generating_functions("full")
    fwd = pipe.get_lie_expansions(inverse=False, tol=1e-30)
    inv = pipe.get_lie_expansions(inverse=True, tol=1e-30)
    clmo = gen_p.dynamics.clmo
    tag = "%s:L%d:N%d" % (sysname, Lk, N)
    rep = {"kind": "pipeline", "system": sysname, "mu": float(system.mu), "point": "L%d" % Lk, "degree": N}
    row = {"case": tag}
    eta = (lam, 1j * o1, 1j * o2)
    # hypotheses of the theorems on the pipeline's actual input: no constant/linear part, diagonal quadratic part
    Hm_d = from_blocks(Hm)
    low = p_max(Hm_d, lambda k: sum(k) < 2)
    quad = {k: c for k, c in Hm_d.items() if sum(k) == 2}
    qexp = {(1, 0, 0, 1, 0, 0): eta[0], (0, 1, 0, 0, 1, 0): eta[1], (0, 0, 1, 0, 0, 1): eta[2]}
    qdef = max(abs(quad.get(k, 0) - qexp.get(k, 0)) for k in set(quad) | set(qexp))
    row["H0H1"] = low
    row["H2_defect"] = qdef
    if low > 0 or qdef > 1e-9 * abs(lam):
        ctx.broken.append(("hypothesis:modal-input:" + tag, "complex_modal Hamiltonian is not lam q1p1 + i om1 q2p2 + i om2 q3p3 + O(3): low-degree part %.3e, quadratic defect %.3e" % (low, qdef)))
        ctx.obligations["hypothesis:modal-input"] = False
    else:
        ctx.obligations.setdefault("hypothesis:modal-input", True)
    # 1. term removal
    scale = max(abs(np.asarray(b)).max() if len(b) else 0.0 for b in Hp)
    worst = (0.0, None)
    for d in range(3, N + 1):
        a = np.asarray(Hp[d])
        E = exps(d)
        mask = E[:, 0] != E[:, 3]
        if mask.any():
            i = int(np.argmax(np.abs(a) * mask))
            if abs(a[i]) * mask[i] > worst[0]:
                worst = (float(abs(a[i])), tuple(int(x) for x in E[i]))
    row["bad_partial"] = worst[0] / scale
    if worst[0] > 1e-9 * scale:
        viol(ctx, "pipeline:partial:term-survives",
                      "%s: complex_partial_normal keeps the monomial %r with k0 != k3 (|c| = %.3e, largest coefficient %.3e)" % (tag, worst[1], worst[0], scale),
                      dict(rep, clause="term-removal", monomial=list(worst[1]), observed=worst[0], expected="<= %g" % (1e-9 * scale)))
    scale_f = max(abs(np.asarray(b)).max() if len(b) else 0.0 for b in Hf)
    worst = (0.0, None)
    for d in range(3, N + 1):
        a = np.asarray(Hf[d])
        E = exps(d)
        div = (E[:, 3] - E[:, 0]) * eta[0] + (E[:, 4] - E[:, 1]) * eta[1] + (E[:, 5] - E[:, 2]) * eta[2]
        mask = np.abs(div) >= 1e-9
        if mask.any():
            i = int(np.argmax(np.abs(a) * mask))
            if abs(a[i]) * mask[i] > worst[0]:
                worst = (float(abs(a[i])), tuple(int(x) for x in E[i]))
    row["bad_full"] = worst[0] / scale_f
    if worst[0] > 1e-9 * scale_f:
        viol(ctx, "pipeline:full:term-survives",
                      "%s: complex_full_normal keeps the non-resonant monomial %r (|c| = %.3e)" % (tag, worst[1], worst[0]),
                      dict(rep, clause="term-removal-full", monomial=list(worst[1]), observed=worst[0]))
    # quadratic part unchanged
    for nm, Hx in (("partial", Hp), ("full", Hf)):
        dq = float(np.abs(np.asarray(Hx[2]) - np.asarray(Hm[2])).max())
        if dq > 1e-12 * abs(lam):
            viol(ctx, "pipeline:%s:quadratic-part-changed" % nm, "%s: quadratic part changed by %.3e" % (tag, dq), dict(rep, clause="H2-unchanged"))
    # expansions of the full normal form (the library offers no accessor; computed with its own _lie_expansion)
    psi = gen_f.dynamics.psi
    fwd_f = real_expansion(gen_f.poly_G, N, False)
    # 2.-4. scaling laws over radii, `ndir` random complex directions
    slopes = {"H_partial": [], "H_full": [], "inverse": [], "canonical": [], "evaluate": 0.0}
    for _ in range(ndir):
        u = np.array([complex(rng.gauss(0, 1), rng.gauss(0, 1)) for _ in range(6)])
        u = u / np.linalg.norm(u)

        def Phi(ex, z):
            return np.array([dense_eval(e, z) for e in ex])

        def eH(r, Hn=Hp, ex=fwd):
            z = r * u
            return abs(dense_eval(Hn, z) - dense_eval(Hm, Phi(ex, z)))

        def eHf(r):
            return eH(r, Hf, fwd_f)

        def eInv(r):
            z = r * u
            return float(np.linalg.norm(Phi(inv, Phi(fwd, z)) - z))

        def eCan(r):
            z = r * u
            D = np.array([dense_grad(e, z) for e in fwd])
            return float(np.abs(D @ J6 @ D.T - J6).max())

        z = 0.1 * u
        slopes["evaluate"] = max(slopes["evaluate"], float(np.abs(_evaluate_transform(fwd, z, clmo) - Phi(fwd, z)).max()))
        for nm, f, sc, expo in (("H_partial", eH, lambda r: abs(lam) * r * r, N + 1), ("H_full", eHf, lambda r: abs(lam) * r * r, N + 1),
                                ("inverse", eInv, lambda r: r, N + 1), ("canonical", eCan, lambda r: 1.0, N)):
            pts = radii_scan(f, sc)
            if len(pts) >= 3:
                slopes[nm].append((fit_slope([p[0] for p in pts], [p[1] for p in pts]), pts))
            else:
                slopes[nm].append((float("inf"), pts))     # defect at the rounding floor already at r = 0.32
    if slopes["evaluate"] > 1e-12:
        viol(ctx, "pipeline:evaluate-transform", "%s: _evaluate_transform differs from direct evaluation of the expansions by %.3e" % (tag, slopes["evaluate"]),
                      dict(rep, clause="evaluate"))
    for nm, expo, what in (("H_partial", N + 1, "H_new(z) - H_old(Phi z) (partial normal form)"),
                           ("H_full", N + 1, "H_new(z) - H_old(Phi z) (full normal form)"),
                           ("inverse", N + 1, "Phi^-1(Phi z) - z"), ("canonical", N, "DPhi J DPhi^T - J")):
        sl = sorted(s for s, _ in slopes[nm])
        med = sl[len(sl) // 2]
        row["slope_" + nm] = med
        if med < expo - 0.6:
            pts = [p for s, p in slopes[nm] if s == med][0]
            viol(ctx, "pipeline:scaling:" + nm,
                          "%s: %s scales like |z|^%.2f, expected exponent >= %d" % (tag, what, med, expo),
                          dict(rep, clause=nm, fitted_exponent=med, expected_exponent=expo, radii_and_defects=[[float(a), float(b)] for a, b in pts]))
    return row


def pipelines(ctx):
    from hiten.system import System
    th = ctx.thorough()
    systems = [("earth-moon", System.from_bodies("earth", "moon"))]
    if th:
        systems += [("sun-earth", System.from_bodies("sun", "earth")), ("mu=0.05", System.from_mu(0.05)), ("mu=0.3", System.from_mu(0.3))]
    else:
        mu = ctx.rng.choice([0.001, 0.02, 0.05, 0.1, 0.2])
        systems += [("mu=%g" % mu, System.from_mu(mu))]
    rows = []
    for sysname, system in systems:
        for Lk in (1, 2):
            for N in ((4, 5, 6, 7, 8) if th else (4, 5, 6)):
                if sysname != "earth-moon" and N in (5, 7):
                    continue
                row = pipeline_checks(ctx, sysname, system, Lk, N, 5 if th else 3)
                rows.append(row)
                ctx.case(("pipeline", sysname, Lk, N), kind="pipeline:L%d" % Lk,
                         sample={k: (round(v, 3) if isinstance(v, float) and abs(v) > 1e-3 else v) for k, v in row.items()})
                ctx.log("pipeline %s: bad partial %.1e full %.1e; exponents H %.2f/%.2f inverse %.2f canonical %.2f (expected >= %d,%d,%d,%d)" % (
                    row["case"], row["bad_partial"], row["bad_full"], row["slope_H_partial"], row["slope_H_full"], row["slope_inverse"],
                    row["slope_canonical"], N + 1, N + 1, N + 1, N))
    ctx.extra["pipelines"] = rows


# ---------------------------------------------------------------------------------------------------------

def run(ctx):
    logging.disable(logging.WARNING)          # the library logs every normalisation order
    try:
        gen(ctx)
    except Exception as e:
        ctx.broken.append(("trace:K-counts", "observation of the bracket counts / guard failed: %r" % (e,)))
        ctx.obligations["trace:K-counts"] = False
    ok = ctx.lean_build(PROPS)
    if ok:
        ctx.lean_audit(PROPS, SRC)
        if ctx.thorough():
            ctx.leanchecker(PROPS)
    factorial_check(ctx)
    cases = synthetic_cases(ctx)
    store = {}
    corr = Corr(ctx)
    try:
        corr_kernels(ctx, corr)
        corr_transforms(ctx, corr, cases, store)
        ctx.log("real routines done on %d synthetic Hamiltonians; running the Lean driver on %d lines" % (len(cases), len(corr.lines)))
        corr.run()
        ctx.corr_cases = len(corr.expect)
    except Exception as e:
        ctx.broken.append(("correspondence:driver", "correspondence could not be completed: %r" % (e,)))
        ctx.obligations["correspondence:driver"] = False
    ctx.log("correspondence done (%d operations)" % len(corr.expect))
    # model-independent reading of the property on the real outputs (evidence when all holds, search otherwise)
    direct_synthetic(ctx, cases, store)
    pipelines(ctx)
    ctx.search_ran = True
    ctx.rule = ("synthetic: Hamiltonians lam q1p1 + i om1 q2p2 + i om2 q3p3 (dyadic lam, om; incl. om1 = om2, om1 = 2 om2, lam = 0) + 3..10 random "
                "Gaussian-dyadic monomials of degree 3..N (N = 3..6 quick, ..8 thorough; small divisors 2^-4), both _lie_transform "
                "variants, forward/inverse/restricted/sign-overridden expansions, kernels on integer Gaussian blocks incl. divisors at the guard "
                "threshold; pipelines: L1, L2 of Earth-Moon and further mass ratios, degrees 4..6 (..8 thorough); a case is non-trivial when the "
                "generating function is non-zero; distinct by (case tag, N, variant, number of generator terms)")
    ctx.assumptions += [
        "model arithmetic is exact (Gaussian rationals); the float code is compared exactly on the division-free kernels (integer data) and to 1e-10 of the largest coefficient otherwise",
        "theorems assume exact cleaning (`tiny c -> c = 0`): with tol = 1e-30 the code only removes exact zeros of the model; float residues (1e-16 relative) at eliminated monomials are the numerical shell, measured <= 1e-9 relative",
        "theorems on term removal assume the input has no constant/linear part and the diagonal quadratic part (checked on every pipeline input: hypothesis:modal-input)",
        "packed index tables / dense array layout are C06's subject; positions are decoded by the harness' own enumeration",
        "H_new = H_old o Phi is a theorem for one generator on the model with exact cleaning (transform_is_composition); its iteration over the generator degrees, canonicity and forward o inverse = id are checked coefficient-wise through degree N on the synthetic cases and by fitted exponents on the pipelines (partial)",
    ]


def replay(ctx, rec):
    """Re-run one recorded failing input on the real code."""
    logging.disable(logging.WARNING)
    rp = rec.get("replay") or {}
    if rp.get("kind") == "synthetic":
        case = Case.from_json(rp["input"])
        full = rp.get("variant") == "full"
        tr, G, el = real_lie(case, full)
        ex_f = real_expansion(G, case.N, False)
        ex_i = real_expansion(G, case.N, True)
        r = direct_case(ctx, case, full, tr, G, el, ex_f, ex_i)
        ctx.log("replayed synthetic case: relative defects", r)
        ctx.case(("replay", case.tag), kind="replay")
        ctx.obligations["replay-executed"] = True
    elif rp.get("kind") == "pipeline":
        from hiten.system import System
        system = System.from_mu(rp["mu"])
        row = pipeline_checks(ctx, rp["system"], system, int(rp["point"][1:]), int(rp["degree"]), 3)
        ctx.log("replayed pipeline case:", row)
        ctx.case(("replay", row["case"]), kind="replay")
        ctx.obligations["replay-executed"] = True
    else:
        run(ctx)
