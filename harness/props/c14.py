"""C14 — centre-manifold Poincare maps stay on the section and on the energy level under any parallelism.

Tie 1 (regenerated, Gen/C14.lean): the current Python objects are *executed* on symbolic data —
  * `_detect_crossing` on every syntactic path (forking re-execution) -> the path table `detectPaths`;
  * `_hermite_scalar` -> `hermite`;
  * the whole of `_CenterManifoldBackend.run` -> `_poincare_map` -> `_poincare_step` with the integrator step and the
    Hamiltonian vector field as recorded oracles (crossing at the third step / no crossing) -> `stepX`, `stepOut`, `stepPath`;
  * `enforce_section_coordinate`, `plane_points_from_states`, `lift_plane_point`/`build_state`, the residual of
    `solve_missing_coord`, `get_points_with_4d_states` on symbolic rows, and the live tables `_STATE_INDEX`,
    `_CM_SECTION_TABLE`.
  Props/C14.lean proves the property theorems about these terms and about the hand model Core/C14.lean.
Tie 2 (correspondence, Drivers/C14.lean): `_detect_crossing` (njit and py_func) on exhaustive sign/zero patterns, exactly;
  `_poincare_step` with scripted dyadic oracles; the real `_CenterManifoldEngine.solve` + `_CenterManifoldBackend.run` +
  `_poincare_map` python body with a scripted return step, n_workers 1..16, scripted and natural completion orders,
  compared exactly (ordered under a scripted order, as multisets under the thread pool's own order).
Numerics / failing-input search: a degree-6 Earth-Moon L1 centre manifold; maps for the four sections, both
  integrators, several worker counts (fresh map object per configuration); section coordinate exactly 0, points = plane
  coordinates of states, energy defect / step-size scaling, every point re-reached from its predecessor by an independent
  SciPy integration of the reduced flow (first return, documented direction), identical point sets for all worker counts."""
from __future__ import annotations

import itertools
import json
import math
import os
import time
import types
from fractions import Fraction

import numpy as np

import lean_emit as E
import tracer as T

F = Fraction
SECS = ["q2", "p2", "q3", "p3"]
COL = {"q2": 0, "p2": 1, "q3": 2, "p3": 3}          # documented row layout (q2, p2, q3, p3)
IDX6 = {"q2": 1, "q3": 2, "p2": 4, "p3": 5}         # [q1, q2, q3, p1, p2, p3]
CONJ = {"q2": "p2", "p2": "q2", "q3": "p3", "p3": "q3"}


# --------------------------------------------------------------------------------------------------------- tracing

def _ident_float(x):
    if isinstance(x, T.Sym):
        return x
    if isinstance(x, np.ndarray) and x.dtype == object and x.shape == ():
        return x.item()
    return float(x)


class _Shim(T.ShimNP):
    def array(self, x, dtype=None, copy=True, order=None):
        return super().array(x, dtype=dtype)

    def asarray(self, x, dtype=None):
        if isinstance(x, list) and len(x) == 0:
            return np.asarray(x, dtype=dtype)
        return super().asarray(x, dtype)


def explore(fn, mkargs, max_paths=64):
    """Run `fn` once per syntactic path (comparison outcomes are scripted; every not-yet-scripted comparison first takes
    the outcome True, then the last True is flipped).  Returns [(events, result)], events = [(op, lhs, rhs, outcome)]."""
    orig = T.Sym._cmp
    st = {"script": [], "pos": 0, "events": []}

    def _cmp(self, o, op, f):
        o = T.Sym.lift(o)
        if self.is_const() and o.is_const():
            return bool(f(self.val, o.val))
        if st["pos"] < len(st["script"]):
            out = st["script"][st["pos"]]
        else:
            out = True
            st["script"].append(True)
        st["pos"] += 1
        st["events"].append((op, self, o, out))
        return out

    T.Sym._cmp = _cmp
    paths = []
    try:
        script = []
        while True:
            st["script"], st["pos"], st["events"] = list(script), 0, []
            res = fn(*mkargs())
            paths.append((list(st["events"]), res))
            if len(paths) > max_paths:
                raise RuntimeError("too many paths")
            script = list(st["script"])
            while script and script[-1] is False:
                script.pop()
            if not script:
                break
            script[-1] = False
    finally:
        T.Sym._cmp = orig
    return paths


DVARS = ["so%d" % i for i in range(6)] + ["sn%d" % i for i in range(6)] + ["rn%d" % i for i in range(6)]
DIDX = {n: i for i, n in enumerate(DVARS)}
HVARS = ["s", "y0", "y1", "d0", "d1", "dt"]
HIDX = {n: i for i, n in enumerate(HVARS)}


def trace_detect(sec):
    """every syntactic path of the current `_detect_crossing` for one section -> [(events, (crossed, alpha Sym))]"""
    from hiten.algorithms.poincare.centermanifold import backend as B
    T.reset()
    f = T.retarget(B._detect_crossing)

    def mk():
        so = T.symarray([T.Sym.var("so%d" % i, 1.0 + i) for i in range(6)])
        sn = T.symarray([T.Sym.var("sn%d" % i, 2.0 + i) for i in range(6)])
        rn = T.symarray([T.Sym.var("rn%d" % i, 3.0 + i) for i in range(6)])
        return sec, so, sn, rn, 3

    out = []
    for ev, res in explore(f, mk):
        crossed, alpha = res
        out.append((ev, (bool(crossed), T.Sym.lift(alpha))))
    return out


def trace_hermite():
    from hiten.algorithms.poincare import utils as U
    T.reset()
    vs = [T.Sym.var(n, v) for n, v in zip(HVARS, [0.3, -1.0, 2.0, 0.5, 0.7, 0.25])]
    return T.retarget(U._hermite_scalar)(*vs)


# variables of the backend trace: 0..3 seed (q2,p2,q3,p3), 4 dt, 10+6j+i = X_j[i] (state after j integrator steps, j>=1),
# 40+6j+i = R_j[i] (vector field at X_j, j>=0)
def _bidx():
    d = {"q2": 0, "p2": 1, "q3": 2, "p3": 3, "dt": 4}
    for j in range(0, 5):
        for i in range(6):
            d["x%d_%d" % (j, i)] = 10 + 6 * j + i
            d["r%d_%d" % (j, i)] = 40 + 6 * j + i
    return d


BIDX = _bidx()


def trace_backend(sec, cross_at, nsteps, method="fixed", order=4):
    """Symbolic run of the current `_CenterManifoldBackend.run` (-> `_poincare_map` -> `_poincare_step` ->
    `_detect_crossing`, `_hermite_scalar`) on one seed row.  `_integrate_map` and `_hamiltonian_rhs` are recorded oracles
    returning fresh variables.  Shadow values put the (only) sign change of the section coordinate into step `cross_at`."""
    from hiten.algorithms.poincare.centermanifold import backend as B
    from hiten.algorithms.poincare.centermanifold.types import CenterManifoldBackendRequest
    T.reset()
    X = []          # X[j] = state after j steps (X[0] = the first integrator input)
    info = {"flow_in": [], "tvals": [], "flow_kw": [], "rhs_of": []}
    i6 = IDX6[sec]

    def flow(y0, t_vals, A=None, B=None, C=None, jac_H=None, clmo_H=None, order=None, c_omega_heuristic=20.0,
             use_symplectic=False):
        j = len(info["flow_in"])
        if j == 0:
            X.append(y0.copy())
        shadow = [0.3 + 0.1 * i + j for i in range(6)]
        shadow[i6] = 1.0 if (cross_at is not None and j == cross_at) else -1.0 - j
        new = T.symarray([T.Sym.var("x%d_%d" % (j + 1, i), shadow[i]) for i in range(6)])
        info["flow_in"].append(y0.copy())
        info["tvals"].append(list(np.asarray(t_vals, dtype=object)))
        info["flow_kw"].append({"order": order, "use_symplectic": use_symplectic, "c_omega": c_omega_heuristic,
                                "jac_H": jac_H, "clmo_H": clmo_H})
        X.append(new)
        traj = np.empty((2, 6), dtype=object)
        traj[0, :] = y0
        traj[1, :] = new
        return traj

    def rhs(state, jac_H, clmo, n_dof):
        for j, xj in enumerate(X):
            if all(a is b for a, b in zip(state, xj)):
                break
        else:
            raise RuntimeError("vector field evaluated at a state that is not on the integrator chain")
        info["rhs_of"].append(j)
        return T.symarray([T.Sym.var("r%d_%d" % (j, i), 0.5 + i + j) for i in range(6)])

    seeds = np.empty((1, 4), dtype=object)
    for i, n in enumerate(["q2", "p2", "q3", "p3"]):
        seeds[0, i] = T.Sym.var(n, -0.5 if n == sec else 0.1 * (i + 1))
    dt = T.Sym.var("dt", 0.25)
    req = CenterManifoldBackendRequest(seeds=seeds, dt=dt, jac_H="JAC", clmo_table="CLMO", section_coord=sec,
                                       max_steps=nsteps, method=method, order=order, c_omega_heuristic=20.0)
    run = T.retarget(B._CenterManifoldBackend.run,
                     {"float": _ident_float, "_integrate_map": flow, "_hamiltonian_rhs": rhs}, shim=_Shim())
    resp = run(B._CenterManifoldBackend(), req)
    states = np.asarray(resp.states, dtype=object)
    times = np.asarray(resp.times, dtype=object)
    return {"states": states, "times": times, "flags": [int(v) for v in np.asarray(resp.flags)], "X": X, "info": info,
            "path": list(T.CTX.path)}


def trace_rows(sec):
    """`enforce_section_coordinate`, `plane_points_from_states` on a symbolic 3x4 array (vars 4r+c)"""
    from hiten.algorithms.poincare.centermanifold import interfaces as I
    T.reset()
    itf = I._CenterManifoldInterface()
    st = np.empty((3, 4), dtype=object)
    for r in range(3):
        for c in range(4):
            st[r, c] = T.Sym.var("s%d" % (4 * r + c), 1.0 + r + 0.1 * c)
    enf = T.retarget(I._CenterManifoldInterface.enforce_section_coordinate, shim=_Shim())
    out = enf(itf, st, section_coord=sec)
    if out is st or any(st[r, c].op != "var" for r in range(3) for c in range(4)):
        raise RuntimeError("enforce_section_coordinate modified its input in place")
    pl = T.retarget(I._CenterManifoldInterface.plane_points_from_states, shim=_Shim())
    pts = pl(itf, st, section_coord=sec)
    empty_e = np.asarray(itf.enforce_section_coordinate(np.empty((0, 4)), section_coord=sec))
    empty_p = np.asarray(itf.plane_points_from_states(np.empty((0, 4)), section_coord=sec))
    if empty_e.shape != (0, 4) or empty_p.shape != (0, 2):
        raise RuntimeError("empty input: shapes %r %r" % (empty_e.shape, empty_p.shape))
    return ([[T.Sym.lift(out[r, c]) for c in range(4)] for r in range(3)],
            [[T.Sym.lift(pts[r, c]) for c in range(np.asarray(pts).shape[1])] for r in range(3)])


def trace_lift(sec):
    """`lift_plane_point` (+ `build_constraint_dict`, `build_state`) with the root finder stubbed: vars 0 plane[0],
    1 plane[1], 2 the solved value.  Also the residual layout of `solve_missing_coord` (the 6-vector handed to
    `_polynomial_evaluate`)."""
    from hiten.algorithms.poincare.centermanifold import interfaces as I
    T.reset()
    rec = {}
    a, b, m = T.Sym.var("a", 11.0), T.Sym.var("b", 13.0), T.Sym.var("m", 7.0)

    class Stub(I._CenterManifoldInterface):
        def solve_missing_coord(self, varname, fixed_vals, **kw):
            rec["var"] = varname
            rec["fixed"] = dict(fixed_vals)
            return m

    f = T.retarget(I._CenterManifoldInterface.lift_plane_point, {"float": _ident_float}, shim=_Shim())
    row = f(Stub(), (a, b), section_coord=sec, h0=0.0, H_blocks=None, clmo_table=None)
    back = {11.0: a, 13.0: b, 0.0: T.Sym.const(0)}
    fixed = []
    for k, v in rec["fixed"].items():
        v = v if isinstance(v, T.Sym) else back[float(v)]
        fixed.append((k, v))
    # outside the Hill region -> None
    class StubNone(I._CenterManifoldInterface):
        def solve_missing_coord(self, varname, fixed_vals, **kw):
            return None
    if f(StubNone(), (a, b), section_coord=sec, h0=0.0, H_blocks=None, clmo_table=None) is not None:
        raise RuntimeError("lift_plane_point does not return None when the energy solve fails")
    # residual layout: run the real solve_missing_coord with _polynomial_evaluate / brent stubbed
    seen = []

    class _Val:
        def __init__(self, v):
            self.real = v

    def poly_eval(H_blocks, state, clmo):
        seen.append([complex(z).real for z in state])
        return _Val(sum(complex(z).real for z in state) - 100.0)     # negative at 0, positive for large x

    def brent(fn, lo, hi, xtol=None, max_iter=None):
        fn(0.5 * (lo + hi))
        return 0.5 * (lo + hi)

    g = dict(I._CenterManifoldInterface.solve_missing_coord.__globals__)
    g["_polynomial_evaluate"] = poly_eval
    g["solve_bracketed_brent"] = brent
    fn0 = I._CenterManifoldInterface.solve_missing_coord
    smc = types.FunctionType(fn0.__code__, g, fn0.__name__, fn0.__defaults__, fn0.__closure__)
    smc.__kwdefaults__ = fn0.__kwdefaults__
    layout = {}
    for name in SECS:
        others = {n: 1000.0 * (k + 1) for k, n in enumerate(SECS) if n != name}
        seen.clear()
        root = smc(I._CenterManifoldInterface(), name, dict(others), h0=1.0e6, H_blocks=None, clmo_table=None,
                   initial_guess=0.25)
        if root is None or not seen:
            raise RuntimeError("solve_missing_coord probe found no bracket")
        st = seen[-1]
        pos = {}
        for n, v in others.items():
            pos[n] = [i for i, z in enumerate(st) if z == v]
        pos[name] = [i for i, z in enumerate(st) if z not in others.values() and z != 0.0]
        for n in SECS:
            if len(pos[n]) != 1:
                raise RuntimeError("residual layout of %s not identifiable: %r" % (n, st))
            layout.setdefault(n, set()).add(pos[n][0])
    for n in SECS:
        if len(layout[n]) != 1:
            raise RuntimeError("residual layout depends on the solved variable: %r" % (layout,))
    return {"row": [T.Sym.lift(v) for v in row], "solved": rec["var"], "fixed": fixed,
            "energy_idx6": {n: next(iter(layout[n])) for n in SECS}}


def probe_state4d():
    """column table used by `get_points_with_4d_states` (a local literal): probed through the live method"""
    from hiten.algorithms.types.services import maps as M

    class _Sec:
        labels = ("zz0", "zz1")
        points = np.array([[101.0, 102.0]])
        states = np.array([[1.0, 2.0, 3.0, 4.0]])

    class _Fake:
        _sections = {"k": _Sec()}
        section_coord = "k"

    out = {}
    fn = M._CenterManifoldMapDynamicsService.get_points_with_4d_states
    for n in SECS:
        v = fn(_Fake(), section_coord="k", axes=(n, n))
        out[n] = int(round(float(np.asarray(v)[0, 0]))) - 1
    return out


def _sec(n):
    return "." + n


def _path_lean(ev, idx):
    return "[" + ", ".join("(.%s, %s, %s, %s)" % (op, E.re_term(a, idx), E.re_term(b, idx), "true" if o else "false")
                           for op, a, b, o in ev) + "]"


def _fun(name, ty, body_of, note=None):
    s = ("/-- %s -/\n" % note) if note else ""
    s += "def %s : Sec → %s\n" % (name, ty)
    for n in SECS:
        s += "  | .%s => %s\n" % (n, body_of(n))
    return s


def _relist(syms, idx):
    return "[" + ", ".join(E.re_term(s, idx) for s in syms) + "]"


def gen(ctx):
    from hiten.algorithms.poincare.centermanifold import interfaces as I
    tr = {"detect": {}, "backend": {}, "backend_none": {}, "rows": {}, "lift": {}}
    txt = E.header("C14", imports=("HitenModel.Core.C14",),
                   note="executed from centermanifold/backend.py (_detect_crossing, _poincare_step, _poincare_map, "
                        "_CenterManifoldBackend.run), poincare/utils.py (_hermite_scalar), centermanifold/interfaces.py "
                        "(tables, enforce_section_coordinate, plane_points_from_states, lift_plane_point, "
                        "solve_missing_coord), services/maps.py (get_points_with_4d_states)")
    txt += "open HitenModel.C14 RE\n\n"
    h = trace_hermite()
    tr["hermite"] = h
    txt += "-- variables of hermite: 0 s, 1 y0, 2 y1, 3 dy0, 4 dy1, 5 dt\n" + E.re_def("hermite", h, HIDX) + "\n"
    # ---- _detect_crossing
    txt += "-- variables of detectPaths: 0..5 state_old, 6..11 state_new, 12..17 rhs_new\n"
    bodies = {}
    for n in SECS:
        paths = trace_detect(n)
        tr["detect"][n] = paths
        items = []
        for ev, (crossed, alpha) in paths:
            items.append("    { conds := %s, crossed := %s, alpha := %s }" % (
                _path_lean(ev, DIDX), "true" if crossed else "false", E.re_term(alpha, DIDX)))
        bodies[n] = "[\n" + ",\n".join(items) + "]"
    txt += _fun("detectPaths", "List Path", lambda n: bodies[n],
                "every syntactic path of `_detect_crossing(section_coord, state_old, state_new, rhs_new, 3)`") + "\n"
    # ---- tables
    si = {n: int(I._STATE_INDEX[n]) for n in SECS}
    txt += _fun("stateIndex", "Nat", lambda n: str(si[n]), "`_STATE_INDEX`") + "\n"
    pc = {n: tuple(I._CM_SECTION_TABLE[n]["plane_coords"]) for n in SECS}
    txt += _fun("planeCoords", "Sec × Sec", lambda n: "(.%s, .%s)" % pc[n], "`_CM_SECTION_TABLE[..]['plane_coords']`") + "\n"
    itf = I._CenterManifoldInterface()
    pl = {n: tuple(itf.plane_labels(n)) for n in SECS}
    txt += _fun("planeLabels", "Sec × Sec", lambda n: "(.%s, .%s)" % pl[n], "`plane_labels(section_coord)` (labels of the result)") + "\n"
    s4 = probe_state4d()
    txt += _fun("state4dColumn", "Nat", lambda n: str(s4[n]), "column table of `get_points_with_4d_states` (probed)") + "\n"
    tr["tables"] = {"stateIndex": si, "planeCoords": pc, "planeLabels": pl, "state4d": s4}
    # ---- row functions
    ridx = {"s%d" % k: k for k in range(12)}
    for n in SECS:
        tr["rows"][n] = trace_rows(n)
        tr["lift"][n] = trace_lift(n)
    txt += "-- variables of enforceRows / planeRows: 4r+c = entry (r, c) of a 3x4 array of states\n"
    txt += _fun("enforceRows", "List (List RE)",
                lambda n: "[" + ", ".join(_relist(r, ridx) for r in tr["rows"][n][0]) + "]",
                "`enforce_section_coordinate(states, section_coord)`") + "\n"
    txt += _fun("planeRows", "List (List RE)",
                lambda n: "[" + ", ".join(_relist(r, ridx) for r in tr["rows"][n][1]) + "]",
                "`plane_points_from_states(states, section_coord)`") + "\n"
    lidx = {"a": 0, "b": 1, "m": 2}
    txt += "-- variables of liftRow / liftFixed: 0 plane[0], 1 plane[1], 2 value returned by solve_missing_coord\n"
    txt += _fun("liftRow", "List RE", lambda n: _relist(tr["lift"][n]["row"], lidx),
                "`lift_plane_point(plane, section_coord)` -> (q2, p2, q3, p3)") + "\n"
    txt += _fun("liftSolvedFor", "Sec", lambda n: "." + tr["lift"][n]["solved"],
                "the variable `lift_plane_point` asks `solve_missing_coord` for") + "\n"
    txt += _fun("liftFixed", "List (Sec × RE)",
                lambda n: "[" + ", ".join("(.%s, %s)" % (k, E.re_term(v, lidx)) for k, v in tr["lift"][n]["fixed"]) + "]",
                "the constraints `lift_plane_point` hands to `solve_missing_coord`") + "\n"
    e6 = tr["lift"]["q3"]["energy_idx6"]
    for n in SECS:
        if tr["lift"][n]["energy_idx6"] != e6:
            raise RuntimeError("energy layout differs between sections")
    txt += _fun("energyIdx6", "Nat", lambda n: str(e6[n]),
                "position of each coordinate in the 6-vector `solve_missing_coord` evaluates the Hamiltonian at") + "\n"
    # ---- backend.run
    txt += ("-- variables of step*: 0..3 seed row (q2,p2,q3,p3), 4 dt, 10+6j+i = X_j[i] (state after j integrator steps, j>=1),\n"
            "-- 40+6j+i = R_j[i] (vector field at X_j)\n")
    for n in SECS:
        b = trace_backend(n, 2, 3)
        tr["backend"][n] = b
        if b["flags"] != [1] or b["states"].shape != (1, 4) or len(b["info"]["flow_in"]) != 3:
            raise RuntimeError("backend trace %s: unexpected shape %r %r" % (n, b["flags"], b["states"].shape))
        for j, y in enumerate(b["info"]["flow_in"]):
            if j >= 1 and not all(u is v for u, v in zip(y, b["X"][j])):
                raise RuntimeError("integrator call %d does not start from the previous integrator output" % j)
        nb = trace_backend(n, None, 2)
        tr["backend_none"][n] = nb
    txt += _fun("stepX0", "List RE", lambda n: _relist(tr["backend"][n]["X"][0], BIDX),
                "first integrator input of `_poincare_step`") + "\n"
    txt += _fun("stepTvals", "List (List RE)",
                lambda n: "[" + ", ".join(_relist(tv, BIDX) for tv in tr["backend"][n]["info"]["tvals"]) + "]",
                "`t_vals` of the three integrator calls") + "\n"
    txt += _fun("stepOut", "List RE", lambda n: _relist(list(tr["backend"][n]["states"][0]) + [tr["backend"][n]["times"][0]], BIDX),
                "row and time returned by `_CenterManifoldBackend.run` when the crossing is found in the third step") + "\n"
    txt += _fun("stepPath", "List (Cmp × RE × RE × Bool)", lambda n: _path_lean(tr["backend"][n]["path"], BIDX),
                "comparisons executed on that run") + "\n"
    txt += _fun("stepRhsCalls", "List Nat", lambda n: "[" + ", ".join(str(j) for j in tr["backend"][n]["info"]["rhs_of"]) + "]",
                "chain index of the states the vector field was evaluated at, in call order") + "\n"
    txt += _fun("stepNonePath", "List (Cmp × RE × RE × Bool)", lambda n: _path_lean(tr["backend_none"][n]["path"], BIDX),
                "comparisons executed on a run with max_steps = 2 and no crossing (no row is returned)") + "\n"
    txt += _fun("stepNoneRows", "Nat", lambda n: str(int(np.asarray(tr["backend_none"][n]["states"]).size)),
                "number of entries returned on that run") + "\n"
    txt += E.footer("C14")
    ctx.write_gen("HitenModel.Gen.C14", txt)
    return tr


# --------------------------------------------------------------------------------------------------------- helpers

def fr(x):
    return x if isinstance(x, Fraction) else Fraction(x)


def fstr(q):
    q = fr(q)
    return str(q.numerator) if q.denominator == 1 else "%d/%d" % (q.numerator, q.denominator)


def fl(v):
    return [float(x) for x in v]


def broken(ctx, name, msg):
    ctx.log("BROKEN", name, msg[:400])
    ctx.broken.append((name, msg))
    ctx.obligations[name] = False


def rebind(fn, **over):
    """the current python body of `fn` with some of its globals replaced (real numpy, no tracing)"""
    f = getattr(fn, "py_func", fn)
    g = dict(f.__globals__)
    g.update(over)
    if "prange" in f.__code__.co_names:
        g.setdefault("prange", range)
        g["prange"] = range
    new = types.FunctionType(f.__code__, g, f.__name__, f.__defaults__, f.__closure__)
    new.__kwdefaults__ = f.__kwdefaults__
    return new


# --------------------------------------------------------------------------------------------------------- T-corr 1: _detect_crossing

def detect_cases(ctx):
    rng = ctx.rng
    cases = []
    mags = [F(-3), F(-1), F(0), F(1), F(3)]
    small = [F(-1), F(-1, 2), F(0), F(1, 2), F(1), F(2)]
    for sec in SECS:
        i6 = IDX6[sec]
        for fo in mags:
            for fn in mags:
                fills = [lambda k: F(-1, 2), lambda k: F(0), lambda k: F(1, 2)]
                fills += [(lambda k, r=[rng.choice(small) for _ in range(18)]: r[k]) for _ in range(6 if not ctx.thorough() else 20)]
                for fill in fills:
                    v = [fill(k) for k in range(18)]
                    v[i6] = fo
                    v[6 + i6] = fn
                    cases.append((sec, v))
    return cases


def corr_detect(ctx):
    from hiten.algorithms.poincare.centermanifold import backend as B
    cases = detect_cases(ctx)
    text = "\n".join("det %s %s" % (sec, " ".join(fstr(x) for x in v)) for sec, v in cases) + "\n"
    out = [l for l in ctx.lean_run("Drivers/C14.lean", text) if l.startswith("D ")]
    if len(out) != len(cases):
        broken(ctx, "correspondence:detect_crossing", "driver returned %d lines for %d cases" % (len(out), len(cases)))
        return []
    bad_tr, bad_md, bad_py = [], [], []
    for (sec, v), line in zip(cases, out):
        t = line.split()
        so, sn, rn = np.array(fl(v[0:6])), np.array(fl(v[6:12])), np.array(fl(v[12:18]))
        def call(fn):
            try:
                with np.errstate(all="ignore"):
                    c_, a_ = fn(sec, so, sn, rn, 3)
                a_ = float(a_)
                return (bool(c_), F(a_)) if math.isfinite(a_) else (bool(c_), "non-finite")
            except Exception as ex:      # e.g. ZeroDivisionError: the property's code must not raise on a sign pattern
                return ("raised", type(ex).__name__)
        real = call(B._detect_crossing)
        realp = call(B._detect_crossing.py_func)
        tr = None if t[1] == "none" else (t[1] == "1", F(t[2]))
        md = (t[3] == "1", F(t[4]))
        ctx.case(("detect", sec, tuple(np.sign(fl(v)).astype(int))), nontrivial=real[0] is True,
                 kind="detect:" + sec + (":crossing" if real[0] is True else (":none" if real[0] is False else ":raised")),
                 sample={"section": sec, "state_old": fl(v[0:6]), "state_new": fl(v[6:12]), "rhs_new": fl(v[12:18]),
                         "crossed": real[0], "alpha": str(real[1])})
        if realp != real:
            bad_py.append((sec, v, real, realp))
        if tr != real:
            bad_tr.append((sec, v, real, tr))
        if md != real:
            bad_md.append((sec, v, real, md))
    ctx.corr_cases += len(cases)
    ctx.extra["detect_cases"] = len(cases)
    if bad_py:
        sec, v, real, realp = bad_py[0]
        broken(ctx, "correspondence:detect_crossing:njit-vs-py_func", "%d cases; first: %s %r njit %r py %r" % (len(bad_py), sec, fl(v), real, realp))
    else:
        ctx.obligations["correspondence:detect_crossing:njit-vs-py_func"] = True
    if bad_tr:
        sec, v, real, tr = bad_tr[0]
        broken(ctx, "correspondence:detect_crossing:traced", "%d of %d cases: compiled _detect_crossing differs from the path table traced from its python body; first: %s %r code %r traced %r" % (len(bad_tr), len(cases), sec, fl(v), real, tr))
    else:
        ctx.obligations["correspondence:detect_crossing:traced"] = True
        ctx.traces_validated += len(cases)
    if bad_md:
        sec, v, real, md = bad_md[0]
        by_sec = sorted({b[0] for b in bad_md})
        broken(ctx, "correspondence:detect_crossing:model",
               "%d of %d cases (sections %s): _detect_crossing differs from the documented-direction model; first: section %s state_old %r state_new %r rhs_new %r code %r model %r"
               % (len(bad_md), len(cases), ",".join(by_sec), sec, fl(v[0:6]), fl(v[6:12]), fl(v[12:18]), (real[0], str(real[1])), (md[0], float(md[1]))))
    else:
        ctx.obligations["correspondence:detect_crossing:model"] = True
    return bad_md


# --------------------------------------------------------------------------------------------------------- T-corr 2: _poincare_step with scripted oracles

def step_case(rng, sec):
    """a scripted integrator chain: section coordinate values from {-3,-1,0,1,3} (dyadic alphas), other entries small
    dyadics; vector field values small dyadics; q1 carries the chain index so that all states are distinct."""
    i6 = IDX6[sec]
    n = rng.randint(1, 7)
    max_steps = rng.choice([n, n, max(1, n - 1), n + 1][:3]) if n > 1 else 1
    half = [F(k, 2) for k in range(-4, 5)]
    seed = [rng.choice(half) for _ in range(4)]
    f0 = rng.choice([F(-3), F(-1), F(0), F(1), F(3), F(0)])
    seed[COL[sec]] = f0
    X = [[F(0), seed[0], seed[2], F(0), seed[1], seed[3]]]
    for j in range(1, n + 1):
        x = [rng.choice(half) for _ in range(6)]
        x[0] = F(j)
        x[i6] = rng.choice([F(-3), F(-1), F(0), F(1), F(3), F(1), F(-1)])
        X.append(x)
    R = [[rng.choice(half) for _ in range(6)] for _ in X]
    if rng.random() < 0.6:      # direction indicator (whichever entry the code reads) mostly positive
        for v in X[1:] + R:
            for i in range(1, 6):
                if i != i6 and rng.random() < 0.8:
                    v[i] = abs(v[i]) + F(1, 2)
    dt = rng.choice([F(1, 4), F(1, 8), F(1, 2)])
    return {"sec": sec, "seed": seed, "X": X, "R": R, "dt": dt, "max_steps": max_steps}


def run_step_real(c, use_njit_parts=True):
    from hiten.algorithms.poincare.centermanifold import backend as B
    table = {tuple(x): k for k, x in enumerate(c["X"])}
    calls = {"flow": [], "rhs": []}

    def flow(y0=None, t_vals=None, **kw):
        key = tuple(F(float(v)) for v in y0)
        k = table[key]
        calls["flow"].append(k)
        if k + 1 >= len(c["X"]):
            raise IndexError("integrator chain exhausted")
        tr = np.empty((2, 6))
        tr[0] = y0
        tr[1] = fl(c["X"][k + 1])
        if [F(float(v)) for v in t_vals] != [F(0), c["dt"]]:
            raise ValueError("t_vals %r" % (t_vals,))
        return tr

    def rhs(state, jac_H, clmo, n_dof):
        k = table[tuple(F(float(v)) for v in state)]
        calls["rhs"].append(k)
        return np.array(fl(c["R"][k]))

    f = rebind(B._poincare_step, _integrate_map=flow, _hamiltonian_rhs=rhs)
    s = c["seed"]
    out = f(float(s[0]), float(s[1]), float(s[2]), float(s[3]), float(c["dt"]), None, None, 4, c["max_steps"], False, 3,
            c["sec"], 20.0)
    return out, calls


def corr_step(ctx):
    rng = ctx.rng
    n = 600 if ctx.thorough() else 200
    cases = []
    for k in range(n):
        cases.append(step_case(rng, SECS[k % 4]))
    lines = []
    reals = []
    for c in cases:
        # chain long enough for max_steps: pad by construction (len X = n+1 >= max_steps+1 unless max_steps = n+1)
        while len(c["X"]) < c["max_steps"] + 1:
            x = [F(len(c["X"]))] + [F(1, 2)] * 5
            x[IDX6[c["sec"]]] = c["X"][-1][IDX6[c["sec"]]] if c["X"][-1][IDX6[c["sec"]]] != 0 else F(1)
            c["X"].append(x)
            c["R"].append([F(1, 2)] * 6)
        try:
            with np.errstate(all="ignore"):
                out, calls = run_step_real(c)
        except (ZeroDivisionError, FloatingPointError) as ex:
            out, calls = (-1, 0.0, 0.0, 0.0, 0.0, 0.0), {"flow": [], "rhs": [], "raised": type(ex).__name__}
        reals.append((out, calls))
        for k in range(len(c["X"]) - 1):
            lines.append("flow %s %s" % (" ".join(fstr(v) for v in c["X"][k]), " ".join(fstr(v) for v in c["X"][k + 1])))
        for k in range(len(c["X"])):
            lines.append("rhs %s %s" % (" ".join(fstr(v) for v in c["X"][k]), " ".join(fstr(v) for v in c["R"][k])))
        lines.append("step %s %s %d %s" % (c["sec"], fstr(c["dt"]), c["max_steps"], " ".join(fstr(v) for v in c["seed"])))
    out = [l for l in ctx.lean_run("Drivers/C14.lean", "\n".join(lines) + "\n") if l.startswith(("S ", "E "))]
    if len(out) != len(cases):
        broken(ctx, "correspondence:poincare_step", "driver returned %d lines for %d cases" % (len(out), len(cases)))
        return
    bad = []
    for c, (real, calls), line in zip(cases, reals, out):
        flag = int(real[0])
        t = line.split()
        if t[1] == "none":
            model = None
        else:
            model = [F(v) for v in t[1:6]]
        realv = None if flag != 1 else [F(float(v)) for v in real[1:6]]
        ctx.case(("step", c["sec"], tuple(float(x[IDX6[c["sec"]]]) for x in c["X"]), c["max_steps"]), nontrivial=flag == 1,
                 kind="step:" + c["sec"] + (":return@%d" % (len(calls["flow"]) - 1) if flag else ":none"),
                 sample={"section": c["sec"], "section_values": [float(x[IDX6[c["sec"]]]) for x in c["X"]],
                         "max_steps": c["max_steps"], "returned": flag == 1})
        if flag == -1:
            bad.append((c, real, model, "the code raised " + calls.get("raised", "?")))
        elif flag == 0 and any(float(v) != 0.0 for v in real[1:6]):
            bad.append((c, real, model, "failure does not return zeros"))
        elif realv != model:
            bad.append((c, real, model, "differs"))
    ctx.corr_cases += len(cases)
    ctx.extra["step_cases"] = len(cases)
    if bad:
        c, real, model, why = bad[0]
        broken(ctx, "correspondence:poincare_step",
               "%d of %d scripted runs of _poincare_step differ from the model (%s); first: section %s seed %r dt %s max_steps %d chain(section coordinate) %r: code %r model %r"
               % (len(bad), len(cases), why, c["sec"], fl(c["seed"]), c["dt"], c["max_steps"],
                  [float(x[IDX6[c["sec"]]]) for x in c["X"]], [float(v) for v in real[1:6]] if int(real[0]) == 1 else None,
                  None if model is None else fl(model)))
    else:
        ctx.obligations["correspondence:poincare_step"] = True


# --------------------------------------------------------------------------------------------------------- T-corr 3: engine

class _Strategy:
    """seed strategy stub: hands the scripted plane points to the engine"""

    def __init__(self, pts):
        self._pts = pts
        self.n_seeds = len(pts)

    def generate(self, **kw):
        self.kw = kw
        return [tuple(float(v) for v in p) for p in self._pts]


def scripted_return(sec, salt):
    """deterministic return step on quarter-integer states: next state, time and success flag are exact dyadic functions of
    the input row; the returned section coordinate is deliberately not zero (the engine has to enforce it)."""
    def step(q2, p2, q3, p3):
        v = [int(round(4 * x)) for x in (q2, p2, q3, p3)]
        hsh = (3 * v[0] + 5 * v[1] + 7 * v[2] + 11 * v[3] + salt) % 23
        if hsh % 6 == 0:
            return None
        nxt = [F(((a * 5 + 3 * b + hsh) % 17) - 8, 4) for a, b in zip(v, v[1:] + v[:1])]
        nxt[COL[sec]] = F(1, 8) * (1 + hsh % 3)
        return nxt, F(1 + hsh % 7, 8)
    return step


def engine_case(rng, sec, n_workers, k_case):
    n_pts = rng.choice([0, 1, 2, 3, 5, 8, 13, 16, 17, 20, 31])
    if k_case % 9 == 0:
        n_pts = rng.choice([1, 2, 3])
    pts = [(F(rng.randint(-8, 8), 4), F(rng.randint(-8, 8), 4)) for _ in range(n_pts)]
    salt = rng.randint(0, 1000)
    lift = {}
    for p in pts:
        hsh = (int(4 * p[0]) * 7 + int(4 * p[1]) * 3 + salt) % 11
        lift[p] = None if (hsh % 4 == 0 or k_case % 17 == 16) else F(hsh - 5, 4)
    return {"sec": sec, "pts": pts, "lift": lift, "salt": salt, "n_iter": rng.choice([0, 1, 2, 3, 4, 6]),
            "n_workers": n_workers, "scripted_order": rng.random() < 0.6}


def run_engine_real(c, rng):
    from hiten.algorithms.poincare.centermanifold import backend as B
    from hiten.algorithms.poincare.centermanifold import engine as EN
    from hiten.algorithms.poincare.centermanifold import interfaces as I
    from hiten.algorithms.poincare.centermanifold.config import CenterManifoldMapConfig
    from hiten.algorithms.poincare.centermanifold.types import _CenterManifoldMapProblem
    from hiten.algorithms.types.configs import IntegrationConfig
    from hiten.algorithms.types.exceptions import EngineError
    sec = c["sec"]
    step = scripted_return(sec, c["salt"])
    ret_calls = {}
    lift_calls = {}

    def pstep(q2, p2, q3, p3, dt, jac_H, clmo, order, max_steps, use_symplectic, n_dof, section_coord, c_omega):
        key = tuple(F(float(v)) for v in (q2, p2, q3, p3))
        r = step(float(q2), float(p2), float(q3), float(p3))
        if section_coord != sec or n_dof != 3:
            raise ValueError("unexpected arguments")
        if r is None:
            ret_calls[key] = None
            return 0, 0.0, 0.0, 0.0, 0.0, 0.0
        nxt, tm = r
        ret_calls[key] = (nxt, tm)
        return 1, float(nxt[0]), float(nxt[1]), float(nxt[2]), float(nxt[3]), float(tm)

    class Itf(I._CenterManifoldInterface):
        def solve_missing_coord(self, varname, fixed_vals, **kw):
            pc = I._CM_SECTION_TABLE[sec]["plane_coords"]
            key = (F(float(fixed_vals[pc[0]])), F(float(fixed_vals[pc[1]])))
            v = c["lift"][key]
            lift_calls[key] = (varname, dict(fixed_vals))
            return None if v is None else float(v)

    cfg = CenterManifoldMapConfig(section_coord=sec, integration=IntegrationConfig(method="fixed"))
    itf = Itf()
    eng = EN._CenterManifoldEngine(backend=B._CenterManifoldBackend(), seed_strategy=_Strategy(c["pts"]), map_config=cfg,
                                   interface=itf)
    prob = _CenterManifoldMapProblem(section_coord=sec, energy=0.5, dt=0.25, n_iter=c["n_iter"], n_workers=c["n_workers"],
                                     jac_H=None, H_blocks=None, clmo_table=None, max_steps=10, method="fixed", order=4,
                                     c_omega_heuristic=20.0, solve_missing_coord_fn=None, find_turning_fn=None)
    order_used = []
    orig_pm, orig_ac = B._poincare_map, EN.as_completed
    B._poincare_map = rebind(B._poincare_map, _poincare_step=pstep)

    def scripted_as_completed(fs):
        fs = list(fs)
        for f in fs:
            f.exception()       # wait
        perm = list(range(len(fs)))
        rng.shuffle(perm)
        order_used.extend(perm)
        return [fs[i] for i in perm]

    if c["scripted_order"]:
        EN.as_completed = scripted_as_completed
    try:
        try:
            res = eng.solve(prob)
            out = ("ok", np.asarray(res.states, dtype=float).reshape(-1, 4), None if res.times is None else np.asarray(res.times, dtype=float),
                   np.asarray(res.points, dtype=float).reshape(-1, 2), tuple(res.labels))
        except EngineError as ex:
            out = ("error", str(ex))
    finally:
        B._poincare_map, EN.as_completed = orig_pm, orig_ac
    return out, ret_calls, lift_calls, order_used


def lifted_row(sec, p, m):
    """documented seed row for plane point p and solved value m"""
    row = [None] * 4
    pc = {"q3": ("q2", "p2"), "p3": ("q2", "p2"), "q2": ("q3", "p3"), "p2": ("q3", "p3")}[sec]
    row[COL[pc[0]]], row[COL[pc[1]]] = p[0], p[1]
    row[COL[sec]] = F(0)
    row[COL[CONJ[sec]]] = m
    return row


def corr_engine(ctx):
    rng = ctx.rng
    cases = []
    k = 0
    reps = 3 if ctx.thorough() else 1
    for _ in range(reps):
        for nw in [0] + list(range(1, 17)) + [23]:
            for sec in SECS:
                cases.append(engine_case(rng, sec, nw, k))
                k += 1
    lines, reals = [], []
    for c in cases:
        real, ret_calls, lift_calls, order = run_engine_real(c, rng)
        reals.append((real, order))
        sec = c["sec"]
        for p, m in c["lift"].items():
            lines.append("lift %s %s %s" % (fstr(p[0]), fstr(p[1]), "none" if m is None else " ".join(fstr(v) for v in lifted_row(sec, p, m))))
        for key, r in ret_calls.items():
            if r is None:
                lines.append("ret %s none" % " ".join(fstr(v) for v in key))
            else:
                lines.append("ret %s %s %s" % (" ".join(fstr(v) for v in key), " ".join(fstr(v) for v in r[0]), fstr(r[1])))
        lines.append("pts " + " ".join(fstr(v) for p in c["pts"] for v in p))
        n_seeds = sum(1 for p in c["pts"] if c["lift"][p] is not None)
        n_fut = min(max(1, c["n_workers"]), n_seeds)
        c["n_seeds"], c["n_fut"] = n_seeds, n_fut
        if c["scripted_order"] and real[0] == "ok" and sorted(order) != list(range(n_fut)):
            broken(ctx, "correspondence:engine", "number of futures %d differs from min(max(1,n_workers), n_seeds) = %d" % (len(order), n_fut))
        lines.append("order " + " ".join(str(i) for i in (order if c["scripted_order"] else range(n_fut))))
        lines.append("eng %s %d %d" % (sec, c["n_iter"], c["n_workers"]))
    out = [l for l in ctx.lean_run("Drivers/C14.lean", "\n".join(lines) + "\n") if l.startswith("R ")]
    if len(out) != len(cases):
        broken(ctx, "correspondence:engine", "driver returned %d lines for %d cases" % (len(out), len(cases)))
        return
    bad = []
    for c, (real, order), line in zip(cases, reals, out):
        t = line.split(" ", 3)
        sec = c["sec"]
        key = ("engine", sec, c["n_workers"], c["n_iter"], c["n_seeds"], c["scripted_order"])
        if t[1] == "error":
            model = ("error",)
        else:
            rows = [] if (len(t) < 4 or not t[3].strip()) else t[3].split("|")
            mrows = []
            for r in rows:
                st, tm, pt = r.split(";")
                mrows.append(([F(v) for v in st.split()], F(tm), [F(v) for v in pt.split()]))
            if len(mrows) != int(t[2]):
                broken(ctx, "correspondence:engine", "driver row count mismatch: " + line[:200])
                return
            model = ("ok", mrows)
        ctx.case(key, nontrivial=(real[0] == "ok" and len(real[1]) > 0),
                 kind="engine:%s" % ("error" if real[0] == "error" else ("scripted-order" if c["scripted_order"] else "pool-order")),
                 sample={"section": sec, "n_workers": c["n_workers"], "n_iter": c["n_iter"], "n_seeds": c["n_seeds"],
                         "rows": None if real[0] == "error" else int(len(real[1])), "order": order})
        if real[0] == "error" or model[0] == "error":
            if real[0] != model[0]:
                bad.append((c, "code %s, model %s" % (real[0], model[0])))
            continue
        _, states, times, points, labels = real
        rrows = []
        for i in range(len(states)):
            rrows.append(([F(float(v)) for v in states[i]], F(float(times[i])) if times is not None else None,
                          [F(float(v)) for v in points[i]]))
        if times is None and len(states):
            bad.append((c, "times is None for a non-empty result"))
            continue
        if len(points) != len(states):
            bad.append((c, "points %d rows, states %d rows" % (len(points), len(states))))
            continue
        if labels != {"q3": ("q2", "p2"), "p3": ("q2", "p2"), "q2": ("q3", "p3"), "p2": ("q3", "p3")}[sec]:
            bad.append((c, "labels %r" % (labels,)))
            continue
        if c["scripted_order"]:
            if rrows != model[1]:
                bad.append((c, "ordered rows differ under the scripted completion order %r: code %d rows, model %d rows" % (order, len(rrows), len(model[1]))))
        else:
            if sorted(rrows) != sorted(model[1]):
                bad.append((c, "multisets of rows differ: code %d rows, model %d rows" % (len(rrows), len(model[1]))))
    ctx.corr_cases += len(cases)
    ctx.extra["engine_cases"] = len(cases)
    if bad:
        c, why = bad[0]
        broken(ctx, "correspondence:engine",
               "%d of %d engine runs differ from the model; first: section %s n_workers %d n_iter %d plane points %d (liftable %d): %s"
               % (len(bad), len(cases), c["sec"], c["n_workers"], c["n_iter"], len(c["pts"]), c["n_seeds"], why))
    else:
        ctx.obligations["correspondence:engine"] = True
    return bad


def corr_split(ctx):
    lines, want = [], []
    for n in range(1, 20):
        for ln in list(range(0, 41)) + [97, 100]:
            lines.append("split %d %d" % (ln, n))
            want.append([len(c) for c in np.array_split(np.zeros((ln, 4)), n)])
    out = [l for l in ctx.lean_run("Drivers/C14.lean", "\n".join(lines) + "\n") if l.startswith("C")]
    got = [[int(v) for v in l.split()[1:]] for l in out]
    ctx.corr_cases += len(lines)
    if got != want:
        k = [i for i, (a, b) in enumerate(zip(got, want)) if a != b]
        broken(ctx, "correspondence:array_split", "model chunk sizes differ from np.array_split: %s -> model %r numpy %r" % (
            lines[k[0]] if k else "?", got[k[0]] if k else len(got), want[k[0]] if k else len(want)))
    else:
        ctx.obligations["correspondence:array_split"] = True


# --------------------------------------------------------------------------------------------------------- numerics on a real centre manifold

_CACHE = {}


def get_cm(ctx, degree=6):
    """Earth-Moon L1 centre manifold of the given degree (built once per run)"""
    if degree in _CACHE:
        return _CACHE[degree]
    from hiten import System
    from hiten.system.center import CenterManifold
    t = time.time()
    sysm = System.from_bodies("earth", "moon")
    l1 = sysm.get_libration_point(1)
    cm = CenterManifold(l1, degree=degree)
    cm.hamiltonian(degree)
    hs = cm.dynamics.hamsys
    _CACHE[degree] = {"cm": cm, "jac": hs.jac_H, "clmo": hs.clmo_table, "H": hs.poly_H()}
    ctx.log("centre manifold degree %d built in %.1fs" % (degree, time.time() - t))
    return _CACHE[degree]


def to6(s):
    y = np.zeros(6)
    y[1], y[4], y[2], y[5] = s[0], s[1], s[2], s[3]
    return y


def energy_of(C, s):
    from hiten.algorithms.polynomial.operations import _polynomial_evaluate
    return float(_polynomial_evaluate(C["H"], to6(s).astype(np.complex128), C["clmo"]).real)


class MapRaised(Exception):
    pass


def compute_map(C, h0, sec, **kw):
    """guarded front of `_compute_map`: an exception of the real code while computing a map is reported by the caller"""
    try:
        with np.errstate(all="ignore"):
            return _compute_map(C, h0, sec, **kw)
    except Exception as ex:
        import traceback
        raise MapRaised("CenterManifoldMap.compute(section_coord=%r, %r) raised %s: %s" % (sec, kw, type(ex).__name__, str(ex)[:200]),
                        {"energy": h0, "section_coord": sec, "options": {k: v for k, v in kw.items()},
                         "exception": traceback.format_exc()[-600:]})


def _compute_map(C, h0, sec, dt=0.01, order=4, n_iter=3, n_workers=1, strategy="axis_aligned", method="fixed",
                 seed_axis=None, max_steps=2000):
    """a FRESH CenterManifoldMap per call (the map service caches results per options)"""
    from hiten.algorithms.poincare.centermanifold.config import CenterManifoldMapConfig
    from hiten.algorithms.poincare.centermanifold.options import CenterManifoldMapOptions
    from hiten.algorithms.poincare.core.options import IterationOptions, SeedingOptions
    from hiten.algorithms.types.configs import IntegrationConfig
    from hiten.algorithms.types.options import IntegrationOptions, WorkerOptions
    from hiten.system.maps import CenterManifoldMap
    m = CenterManifoldMap(C["cm"], h0)
    m.config = CenterManifoldMapConfig(seed_strategy=strategy, seed_axis=seed_axis, section_coord=sec,
                                       integration=IntegrationConfig(method=method))
    opts = CenterManifoldMapOptions(integration=IntegrationOptions(dt=dt, order=order, c_omega_heuristic=20.0, max_steps=max_steps),
                                    iteration=IterationOptions(n_iter=n_iter), seeding=SeedingOptions(n_seeds=20),
                                    workers=WorkerOptions(n_workers=n_workers))
    r = m.compute(section_coord=sec, options=opts)
    st = np.asarray(r.states, dtype=float).reshape(-1, 4)
    tm = np.asarray(r.times, dtype=float) if r.times is not None else np.zeros(0)
    pts = np.asarray(r.points, dtype=float).reshape(-1, 2)
    return {"states": st, "times": tm, "points": pts, "labels": tuple(r.labels), "map": m,
            "cfg": {"system": "earth-moon L1, centre manifold degree 6", "energy": h0, "section_coord": sec, "dt": dt,
                    "order": order, "n_iter": n_iter, "n_workers": n_workers, "seed_strategy": strategy, "method": method,
                    "seed_axis": seed_axis, "max_steps": max_steps}}


def first_return(C, s4, sec, tmax, t_min):
    """independent reference: SciPy DOP853 on the reduced vector field, first crossing of the section coordinate through 0
    with the coordinate increasing, after t_min"""
    from scipy.integrate import solve_ivp
    from hiten.algorithms.dynamics.hamiltonian import _hamiltonian_rhs
    i = IDX6[sec]

    def f(t, y):
        return _hamiltonian_rhs(np.ascontiguousarray(y, dtype=np.float64), C["jac"], C["clmo"], 3)

    def ev(t, y):
        return y[i]
    ev.direction = 1.0
    ev.terminal = False
    sol = solve_ivp(f, (0.0, tmax), to6(s4), method="DOP853", rtol=1e-11, atol=1e-13, events=ev)
    for t, y in zip(sol.t_events[0], sol.y_events[0]):
        if t > t_min:
            return float(t), np.array([y[1], y[4], y[2], y[5]])
    return None


PLANE = {"q3": ("q2", "p2"), "p3": ("q2", "p2"), "q2": ("q3", "p3"), "p2": ("q3", "p3")}


def check_map(ctx, C, res, check_returns=True, max_pairs=24):
    """the clauses of the property on one computed map; returns (max energy defect, max error of the checked returns
    against the independent reference, gradient scale)"""
    from hiten.algorithms.dynamics.hamiltonian import _hamiltonian_rhs
    cfg = res["cfg"]
    sec, h0, dt = cfg["section_coord"], cfg["energy"], cfg["dt"]
    st, tm, pts = res["states"], res["times"], res["points"]
    tag = "%s:%s" % (sec, cfg["method"])
    ctx.case(("map", sec, cfg["method"], cfg["order"], dt, cfg["n_iter"], cfg["n_workers"], cfg["seed_strategy"], h0),
             nontrivial=len(st) > 0, kind="map:" + tag,
             sample={"config": cfg, "rows": int(len(st))})
    if len(st) == 0:
        return None, None, None
    # (1) section coordinate exactly zero
    col = st[:, COL[sec]]
    if np.any(col != 0.0):
        k = int(np.argmax(np.abs(col)))
        ctx.violation("section-coordinate-nonzero:" + sec, "row %d of the map has %s = %r (must be exactly 0)" % (k, sec, float(col[k])),
                      {"config": cfg, "row": k, "state": st[k].tolist()})
    # (2) points are the plane coordinates of the states, labels name them; accessors agree
    want = st[:, [COL[PLANE[sec][0]], COL[PLANE[sec][1]]]]
    if res["labels"] != PLANE[sec] or pts.shape != want.shape or np.any(pts != want):
        ctx.violation("points-not-plane-coordinates:" + sec, "points/labels of the map are not (%s, %s) of its states" % PLANE[sec],
                      {"config": cfg, "labels": list(res["labels"]), "first_point": pts[0].tolist(), "first_state": st[0].tolist()})
    m = res["map"]
    try:
        gp = np.asarray(m.get_points(section_coord=sec))
        g4 = np.asarray(m.get_states(section_coord=sec, axes=("q2", "p3")))
        if gp.shape != pts.shape or np.any(gp != pts) or np.any(g4 != st[:, [0, 3]]):
            ctx.violation("accessor-mismatch:" + sec, "get_points / get_states(axes=('q2','p3')) differ from the computed map",
                          {"config": cfg, "get_points_first": gp[0].tolist(), "get_states_first": g4[0].tolist(), "state_first": st[0].tolist()})
    except Exception as ex:
        broken(ctx, "accessors:" + sec, repr(ex))
    # (3) energy
    dH = np.array([energy_of(C, s) - h0 for s in st])
    defect = float(np.max(np.abs(dH)))
    grad = float(max(np.max(np.abs(_hamiltonian_rhs(to6(s), C["jac"], C["clmo"], 3))) for s in st[:: max(1, len(st) // 10)]))
    # (4) genuine first return of the predecessor, documented direction
    n_rows = len(st)
    n_iter = cfg["n_iter"]
    worst = None
    accurate = cfg["method"] == "fixed"      # the RK schemes resolve a return to ~1e-5; see notes for the symplectic scheme
    if check_returns and cfg["n_workers"] == 1 and n_iter >= 2 and n_rows % n_iter == 0:
        n = n_rows // n_iter
        pairs = [(k * n + i, (k + 1) * n + i) for k in range(n_iter - 1) for i in range(n)]
        if len(pairs) > max_pairs:
            pairs = ctx.rng.sample(pairs, max_pairs)
        worst = 0.0
        for a, b in pairs:
            ref = first_return(C, st[a], sec, tmax=dt * cfg["max_steps"] + 1.0, t_min=1.5 * dt)
            ctx.case(("return", sec, cfg["method"], a, b), kind="return-check:" + tag)
            if ref is None:
                continue
            t_ref, y_ref = ref
            e_s = float(np.max(np.abs(y_ref - st[b])))
            e_t = abs(t_ref - tm[b])
            # RK: a crossing that is off by one integrator step is wrong by >= dt in time and ~|x'|dt in state, while the
            # error of the map itself is 1e-7..3e-5 (measured).  Any scheme: a missed crossing or a crossing in the wrong
            # direction is off by half a period or more (>= 1.3 time units, state difference O(1)).
            tol_t, tol_s = (0.2 * dt, 0.2 * dt) if accurate else (0.05 * t_ref, 0.05)
            if e_t > tol_t or e_s > tol_s:
                rate = float(_hamiltonian_rhs(to6(st[b]), C["jac"], C["clmo"], 3)[IDX6[sec]])
                ctx.violation("not-first-return:" + sec,
                              "map point %d is not the first return of its predecessor %d in the documented direction: map time %.6f, "
                              "independent first return %.6f (state difference %.3e); d%s/dt at the map point = %.4g"
                              % (b, a, tm[b], t_ref, e_s, sec, rate),
                              {"config": cfg, "predecessor_row": a, "predecessor_state": st[a].tolist(), "map_row": b,
                               "map_state": st[b].tolist(), "map_time": float(tm[b]), "reference_first_return_time": t_ref,
                               "reference_first_return_state": y_ref.tolist(),
                               "reference": "scipy DOP853 rtol 1e-11 on _hamiltonian_rhs, first zero of %s with %s increasing" % (sec, sec),
                               "section_coordinate_rate_at_map_state": rate})
                worst = None
                break
            worst = max(worst, e_s)
        if worst is None:
            return defect, None, grad
        ctx.extra.setdefault("return_error", {})[tag + ":order%d:dt=%g" % (cfg["order"], dt)] = worst
        # energy "within integration accuracy": the defect must be explained by the measured accuracy of the returned points
        # (independent reference) — |dH| <= |grad H| * |dx| per return, accumulated over the iterations, margin 10
        bound = 10.0 * n_iter * max(worst, 1e-9) * max(grad, 1.0)
        if defect > bound:
            k = int(np.argmax(np.abs(dH)))
            ctx.violation("energy-defect:%s:%s" % (sec, cfg["method"]),
                          "energy defect %.3e of map row %d exceeds what the accuracy of the returns (%.3e against an independent reference) explains (bound %.3e)"
                          % (defect, k, worst, bound),
                          {"config": cfg, "row": k, "state": st[k].tolist(), "H_minus_h0": float(dH[k]), "return_error": worst, "bound": bound})
    return defect, worst, grad


def same_rows(a, b):
    ka = sorted(map(tuple, np.column_stack([a["states"], a["times"]]).tolist()))
    kb = sorted(map(tuple, np.column_stack([b["states"], b["times"]]).tolist()))
    return ka == kb, len(ka), len(kb), len(set(ka) ^ set(kb))


def numerics(ctx):
    import logging
    import numba
    logging.disable(logging.INFO)
    started = start_thread_children(ctx)
    try:
        _numerics(ctx, numba, started)
    except MapRaised as ex:
        ctx.violation("map-computation-raises:" + ex.args[1]["section_coord"], ex.args[0], ex.args[1])
    finally:
        logging.disable(logging.NOTSET)
        import shutil
        for k in started[1]:
            if k[4].poll() is None:
                k[4].kill()
        shutil.rmtree(started[0], ignore_errors=True)


def start_thread_children(ctx):
    """numba thread counts that really reach the engine's worker threads: child processes with NUMBA_NUM_THREADS in the environment
    (started first, collected after the in-process checks)"""
    import subprocess
    import sys
    import tempfile
    plan = [(1, "q3", 3), (3, "p2", 2)] + ([(2, "q2", 5), (5, "p3", 3), (16, "q3", 16), (7, "p2", 8)] if ctx.thorough() else [])
    kids = []
    d = tempfile.mkdtemp(prefix="c14_children_")
    for nt, sec, nw in plan:
        out = os.path.join(d, "t%d_%s_%d.json" % (nt, sec, nw))
        env = dict(os.environ, NUMBA_NUM_THREADS=str(nt))
        p = subprocess.Popen([sys.executable, os.path.join(os.path.dirname(os.path.abspath(__file__)), "c14_child.py"), sec, str(nw), out],
                             env=env, stdout=subprocess.PIPE, stderr=subprocess.STDOUT, text=True)
        kids.append((nt, sec, nw, out, p))
    return d, kids


def collect_thread_children(ctx, started, base):
    import shutil
    d, kids = started
    try:
        for nt, sec, nw, out, p in kids:
            try:
                log, _ = p.communicate(timeout=1500)
            except Exception:
                p.kill()
                log = "timeout"
            ctx.case(("threads-env", nt, sec, nw), nontrivial=True, kind="numba-threads-env")
            if p.returncode != 0 or not os.path.exists(out):
                ctx.violation("map-computation-raises:threads:" + sec, "computing the map with NUMBA_NUM_THREADS=%d, n_workers=%d failed: %s" % (nt, nw, (log or "")[-300:]),
                              {"NUMBA_NUM_THREADS": nt, "n_workers": nw, "section_coord": sec, "log": (log or "")[-600:]})
                continue
            got = json.load(open(out))
            r = {"states": np.asarray(got["states"], dtype=float).reshape(-1, 4), "times": np.asarray(got["times"], dtype=float)}
            # Different numba thread counts re-associate the per-thread partial sums of the polynomial kernels that BUILD the centre manifold
            # (observed: 3 threads vs 1 or 16 threads differ by 1.3e-15 in the map rows): the sets are compared up to rounding (1e-10), each
            # row of one set having exactly one partner in the other; worker counts (same process, same manifold) are compared bitwise above.
            A = np.column_stack([r["states"], r["times"]])
            B = np.column_stack([base[sec]["states"], base[sec]["times"]])
            na, nb = len(A), len(B)
            if na == nb and na > 0:
                D = np.abs(A[:, None, :] - B[None, :, :]).max(axis=2)
                near = D <= 1e-10
                ok = bool(np.all(near.sum(axis=0) == 1) and np.all(near.sum(axis=1) == 1))
                diff = int((near.sum(axis=1) != 1).sum())
            else:
                ok, diff = (na == nb), abs(na - nb)
            ctx.extra.setdefault("thread_env_max_row_difference", {})["%d threads/%s" % (nt, sec)] = float(D.min(axis=1).max()) if na == nb and na > 0 else None
            if not ok:
                ctx.violation("thread-count-changes-points:" + sec,
                              "NUMBA_NUM_THREADS=%d (n_workers=%d) returns a different set of (state, time) rows than the reference run (n_workers=1): %d vs %d rows, %d differing"
                              % (nt, nw, na, nb, diff),
                              {"NUMBA_NUM_THREADS": nt, "n_workers": nw, "section_coord": sec, "energy": 0.6, "rows": na, "rows_reference": nb, "differing": diff})
    finally:
        shutil.rmtree(d, ignore_errors=True)


def _numerics(ctx, numba, started):
    C = get_cm(ctx, 6)
    h0 = 0.6
    report = {}
    thorough = ctx.thorough()
    base = {}
    t0 = time.time()
    for sec in SECS:
        r = compute_map(C, h0, sec, dt=0.01, order=4, n_iter=3, n_workers=1)
        base[sec] = r
        d1, w1, g1 = check_map(ctx, C, r)
        report[sec] = {"rows": int(len(r["states"])), "defect_dt": d1, "return_error": w1}
        # convergence of the energy defect with the step (the crossing refinement + enforcement is second order in dt,
        # measured ratios 3.8..8 per halving); only meaningful above the 1e-8 level
        if d1 is not None and d1 > 1e-8 and (thorough or sec in ("p2", "p3")):
            r2 = compute_map(C, h0, sec, dt=0.005, order=4, n_iter=3, n_workers=1)
            d2, _, _ = check_map(ctx, C, r2, check_returns=False)
            report[sec].update({"defect_dt_half": d2, "ratio": d1 / d2 if d2 else None})
            if d2 is not None and d2 > d1 / 1.8:
                ctx.violation("energy-defect-not-converging:%s:fixed" % sec,
                              "energy defect along the map %.3e (dt=0.01) -> %.3e (dt=0.005): does not shrink with the step" % (d1, d2),
                              {"config": r["cfg"], "defect": d1, "defect_at_half_step": d2})
    ctx.log("base maps, returns, energy: %.1fs" % (time.time() - t0))
    # worker counts / thread counts: identical sets of (state, time)
    t0 = time.time()
    nthreads0 = numba.get_num_threads()
    plan = {"q3": [2, 5, 16], "p2": [3, 8], "q2": [7], "p3": [4, 16]}
    if thorough:
        plan = {s: [2, 3, 4, 5, 7, 8, 11, 16] for s in SECS}
    for sec, nws in plan.items():
        for j, nw in enumerate(nws):
            nt = max(1, min([1, 2, nthreads0][j % 3], nthreads0))
            numba.set_num_threads(nt)
            try:
                r = compute_map(C, h0, sec, dt=0.01, order=4, n_iter=3, n_workers=nw)
            finally:
                numba.set_num_threads(nthreads0)
            check_map(ctx, C, r, check_returns=False)
            ok, na, nb, diff = same_rows(r, base[sec])
            if not ok:
                ctx.violation("worker-count-changes-points:" + sec,
                              "n_workers=%d (numba threads %d) returns a different set of (state, time) rows than n_workers=1: %d vs %d rows, %d differing"
                              % (nw, nt, na, nb, diff),
                              {"config": r["cfg"], "numba_threads": nt, "rows": na, "rows_n_workers_1": nb, "differing": diff})
    collect_thread_children(ctx, started, base)
    ctx.log("worker/thread counts: %.1fs" % (time.time() - t0))
    # other integrators / orders / strategies / energies
    t0 = time.time()
    extra = [("p3", dict(method="symplectic", order=6, dt=0.01)),
             ("q2", dict(method="fixed", order=8, dt=0.02, strategy="single", seed_axis="q3")),
             ("q3", dict(method="fixed", order=6, dt=0.01))]
    if thorough:
        extra += [("q3", dict(method="symplectic", order=6, dt=0.01)), ("q2", dict(method="symplectic", order=4, dt=0.01)),
                  ("p2", dict(method="symplectic", order=8, dt=0.02)),
                  ("p2", dict(method="fixed", order=6, dt=0.02, strategy="radial")),
                  ("q3", dict(method="fixed", order=8, dt=0.02, strategy="level_sets")),
                  ("p3", dict(method="fixed", order=6, dt=0.01, strategy="random")),
                  ("q3", dict(method="fixed", order=4, dt=0.01, h0=0.3)), ("p2", dict(method="fixed", order=4, dt=0.01, h0=0.9))]
    for sec, kw in extra:
        kw = dict(kw)
        e = kw.pop("h0", h0)
        rnd = kw.get("strategy") == "random"
        orig_rng = np.random.default_rng
        if rnd:     # `_RandomSeeding` draws from an unseeded generator: pin it to the run's seed
            np.random.default_rng = lambda *a, **k: orig_rng(ctx.seed)
        try:
            r = compute_map(C, e, sec, n_iter=3, n_workers=1, **kw)
        finally:
            np.random.default_rng = orig_rng
        # random seeds may sit arbitrarily close to a tangency of the section: no return check for them
        d, w, g = check_map(ctx, C, r, check_returns=not rnd, max_pairs=12)
        report["%s:%s:order%d:%s:h0=%g" % (sec, kw["method"], kw["order"], kw.get("strategy", "axis_aligned"), e)] = {
            "rows": int(len(r["states"])), "defect": d, "return_error": w}
        if kw.get("strategy") != "random":
            r3 = compute_map(C, e, sec, n_iter=3, n_workers=3, **kw)
            ok, na, nb, diff = same_rows(r3, r)
            ctx.case(("map-workers", sec, kw["method"], kw["order"]), kind="map:workers3")
            if not ok:
                ctx.violation("worker-count-changes-points:" + sec, "n_workers=3 returns a different set of rows than n_workers=1 (%s order %d)" % (kw["method"], kw["order"]),
                              {"config": r3["cfg"], "rows": na, "rows_n_workers_1": nb, "differing": diff})
    ctx.log("other integrators/strategies: %.1fs" % (time.time() - t0))
    ctx.extra["numerics"] = report
    # ---- history on ONE map object (its service caches results): several sections in sequence with equal options -- each answer is the map
    # of the section that was asked for, bit for bit what a fresh object computes
    t0 = time.time()
    from hiten.algorithms.poincare.centermanifold.config import CenterManifoldMapConfig
    from hiten.algorithms.poincare.centermanifold.options import CenterManifoldMapOptions
    from hiten.algorithms.poincare.core.options import IterationOptions, SeedingOptions
    from hiten.algorithms.types.configs import IntegrationConfig
    from hiten.algorithms.types.options import IntegrationOptions, WorkerOptions
    from hiten.system.maps import CenterManifoldMap
    m = CenterManifoldMap(C["cm"], h0)
    opts = CenterManifoldMapOptions(integration=IntegrationOptions(dt=0.01, order=4, c_omega_heuristic=20.0, max_steps=2000),
                                    iteration=IterationOptions(n_iter=3), seeding=SeedingOptions(n_seeds=20), workers=WorkerOptions(n_workers=1))
    hist = []
    for sec in ("q3", "p3", "q2", "q3", "p2"):
        hist.append(sec)
        try:
            m.config = CenterManifoldMapConfig(seed_strategy="axis_aligned", seed_axis=None, section_coord=sec, integration=IntegrationConfig(method="fixed"))
            r = m.compute(section_coord=sec, options=opts)
        except Exception as ex:
            ctx.violation("map-computation-raises:history:" + sec, "compute(section_coord=%r) on a map object that already computed %r raised %r" % (sec, hist[:-1], ex),
                          {"history": hist, "energy": h0})
            break
        st = np.asarray(r.states, dtype=float).reshape(-1, 4)
        tm = np.asarray(r.times, dtype=float) if r.times is not None else np.zeros(0)
        ctx.case(("map-history", tuple(hist)), nontrivial=len(hist) > 1, kind="map:history")
        ok, na, nb, diff = same_rows({"states": st, "times": tm}, base[sec])
        if np.any(st[:, COL[sec]] != 0.0) or not ok:
            ctx.violation("section-history:" + sec,
                          "compute(section_coord=%r) on ONE map object after %r: max |%s| = %.3g (must be 0), %d of %d rows differ from what a fresh object computes" % (
                              sec, hist[:-1], sec, float(np.abs(st[:, COL[sec]]).max()) if len(st) else 0.0, diff, na),
                          {"history": ["compute(section_coord=%r)" % s_ for s_ in hist], "energy": h0, "options": "dt=0.01, order 4 fixed, n_iter=3, 20 seeds, 1 worker",
                           "max_abs_section_coordinate": float(np.abs(st[:, COL[sec]]).max()) if len(st) else 0.0, "rows": na, "rows_fresh": nb, "differing": diff})
            break
    ctx.log("one-object section history: %.1fs" % (time.time() - t0))


# --------------------------------------------------------------------------------------------------------- trace validation

def validate_traces(ctx, tr):
    """the emitted terms, evaluated in floats from the same DAGs, against the compiled functions / the real python bodies"""
    from hiten.algorithms.poincare import utils as U
    rng = ctx.rng
    n = 600 if ctx.thorough() else 200
    worst = 0.0
    for _ in range(n):
        vals = [rng.uniform(-0.5, 1.5)] + [rng.uniform(-2, 2) for _ in range(5)]
        a = T.evalf(tr["hermite"], dict(zip(HVARS, vals)))
        b = float(U._hermite_scalar(*vals))
        worst = max(worst, abs(a - b) / (1.0 + abs(b)))
    ctx.traces_validated += n
    # backend trace against the real python body of _poincare_step (compiled _detect_crossing / _hermite_scalar inside)
    worst_b = 0.0
    nb = 0
    for k in range(60 if not ctx.thorough() else 200):
        sec = SECS[k % 4]
        i6 = IDX6[sec]
        b = tr["backend"][sec]
        seed = [F(rng.randint(-8, 8), 8) for _ in range(4)]
        seed[COL[sec]] = F(-rng.randint(1, 8), 8)
        X = [[F(0), seed[0], seed[2], F(0), seed[1], seed[3]]]
        for j in range(1, 4):
            x = [F(rng.randint(-16, 16), 16) for _ in range(6)]
            x[0] = F(j)
            x[i6] = F(rng.randint(1, 9), 8) * (1 if j == 3 else -1)
            X.append(x)
        R = [[F(rng.randint(-16, 16), 16) for _ in range(6)] for _ in X]
        # make the direction indicator positive whichever entry the code reads
        for v in (X[3], R[3]):
            for i in range(6):
                if i != i6 and i != 0:
                    v[i] = abs(v[i]) + F(1, 16)
        c = {"sec": sec, "seed": seed, "X": X, "R": R, "dt": F(1, 8), "max_steps": 3}
        real, calls = run_step_real(c)
        env = {"q2": float(seed[0]), "p2": float(seed[1]), "q3": float(seed[2]), "p3": float(seed[3]), "dt": 0.125}
        for j in range(4):
            for i in range(6):
                env["x%d_%d" % (j, i)] = float(X[j][i])
                env["r%d_%d" % (j, i)] = float(R[j][i])
        if int(real[0]) != 1:
            continue
        got = [T.evalf(T.Sym.lift(s), env) for s in list(b["states"][0]) + [b["times"][0]]]
        for u, v in zip(got, real[1:6]):
            worst_b = max(worst_b, abs(u - float(v)) / (1.0 + abs(float(v))))
        nb += 1
    ctx.traces_validated += nb
    ctx.extra["trace_validation"] = {"hermite_max_rel": worst, "backend_max_rel": worst_b, "hermite_cases": n, "backend_cases": nb}
    if worst > 1e-12 or worst_b > 1e-12 or nb == 0:
        broken(ctx, "translation-validation", "traced terms differ from the executed code: hermite %.2e, backend %.2e (%d cases)" % (worst, worst_b, nb))
    else:
        ctx.obligations["translation-validation"] = True


# --------------------------------------------------------------------------------------------------------- driver

PROP_MODULES = ["HitenModel.Props.C14"]
SRC_MODULES = ["HitenModel.Props.C14", "HitenModel.Gen.C14", "HitenModel.Core.C14", "HitenModel.Lemmas.C14",
               "HitenModel.Lemmas.REReal", "HitenModel.Core.RE"]


def run(ctx):
    import logging
    tr = None
    try:
        tr = gen(ctx)
    except Exception:
        import traceback
        broken(ctx, "regenerate:Gen.C14", traceback.format_exc()[-1200:])
    ok = ctx.lean_build(PROP_MODULES)
    if ok:
        ctx.lean_audit(PROP_MODULES, SRC_MODULES)
        if ctx.thorough():
            ctx.leanchecker(PROP_MODULES)
    logging.disable(logging.INFO)
    try:
        if tr is not None:
            ctx.guard("validate_traces", validate_traces, ctx, tr)
        ctx.guard("corr_split", corr_split, ctx)
        ctx.guard("corr_detect", corr_detect, ctx)
        ctx.guard("corr_step", corr_step, ctx)
        ctx.guard("corr_engine", corr_engine, ctx)
    finally:
        logging.disable(logging.NOTSET)
    # real maps: supporting evidence when everything holds, failing-input search when an obligation or a correspondence broke
    numerics(ctx)
    ctx.rule = ("detect: f_old, f_new in {-3,-1,0,1,3}^2 x 9 fillings of the other 16 entries (all -, all 0, all +, 6 random) x 4 sections, "
                "non-trivial = a crossing is reported; step: scripted dyadic integrator chains (1..7 states, section values in {-3,-1,0,1,3}, "
                "max_steps around the chain length), non-trivial = a return is found; engine: n_workers in {0..16, 23} x 4 sections, 0..31 plane "
                "points (some not liftable), n_iter in {0,1,2,3,4,6}, scripted permutation of the futures or the pool's own order, non-trivial = "
                "at least one row; maps: Earth-Moon L1 degree 6, energy 0.6 (+0.3, 0.9 thorough), four sections, RK4/6/8 and symplectic 4/6/8, "
                "n_workers 1..16, numba threads 1/2/all; return-check: a (predecessor, successor) pair re-integrated with SciPy")
    ctx.assumptions += [
        "model arithmetic is exact (Q); the float code is compared exactly on dyadic inputs whose quotients are dyadic; IEEE rounding (e.g. underflow of f_old*f_new) is not modelled",
        "the integrator step, the Hamiltonian vector field, the energy root finder and the seed strategy are oracle parameters of the model (theorems hold for all oracles)",
        "numba's prange in _poincare_map and the OS thread pool are sampled (1, 2, all threads; 1..16 workers), not verified; the engine model quantifies over all chunkings and completion orders",
        "row-uniformity of the numpy column operations is checked on a 3-row symbolic array",
        "energy 'within integration accuracy' is measured: defect <= 10 * n_iter * |grad H| * (error of the returned points against an independent SciPy reference), and the defect shrinks when dt is halved",
        "the return check uses the RK schemes' accuracy (0.2 dt); for the symplectic scheme only missed / wrong-direction crossings are detectable (its one-step error is ~1e-4..1e-3, see notes)",
    ]


def replay(ctx, rec):
    """re-run the recorded map configuration on the real code and check it again"""
    import logging
    cfg = (rec.get("replay") or {}).get("config")
    if not cfg:
        return run(ctx)
    logging.disable(logging.INFO)
    try:
        C = get_cm(ctx, 6)
        r = compute_map(C, cfg["energy"], cfg["section_coord"], dt=cfg["dt"], order=cfg["order"], n_iter=cfg["n_iter"],
                        n_workers=cfg["n_workers"], strategy=cfg["seed_strategy"], method=cfg["method"],
                        seed_axis=cfg.get("seed_axis"), max_steps=cfg["max_steps"])
        ctx.log("replayed map: %d rows" % len(r["states"]))
        check_map(ctx, C, r, max_pairs=10 ** 6)
        if cfg["n_workers"] != 1:
            b = compute_map(C, cfg["energy"], cfg["section_coord"], dt=cfg["dt"], order=cfg["order"], n_iter=cfg["n_iter"],
                            n_workers=1, strategy=cfg["seed_strategy"], method=cfg["method"], seed_axis=cfg.get("seed_axis"),
                            max_steps=cfg["max_steps"])
            ok, na, nb, diff = same_rows(r, b)
            if not ok:
                ctx.violation(rec.get("key", "worker-count-changes-points:" + cfg["section_coord"]), "replayed: %d vs %d rows, %d differing" % (na, nb, diff),
                              {"config": cfg, "rows": na, "rows_n_workers_1": nb, "differing": diff})
    finally:
        logging.disable(logging.NOTSET)
