-- root of the library: every property module
import HitenModel.Props.C01
import HitenModel.Props.C02
import HitenModel.Props.C13
import HitenModel.Props.C16
import HitenModel.Props.C03
import HitenModel.Props.C05
import HitenModel.Props.C15
import HitenModel.Props.C10
import HitenModel.Props.C19
import HitenModel.Props.C20
import HitenModel.Props.C20_Tree
import HitenModel.Props.C11
import HitenModel.Props.C12
import HitenModel.Props.C04
