/-
  Lemmas/REReal.lean — real semantics of `RE` and soundness of the symbolic derivative.
-/
import HitenModel.Core.RE
import Mathlib.Analysis.SpecialFunctions.Sqrt
import Mathlib.Analysis.Calculus.Deriv.Pow
import Mathlib.Analysis.Calculus.Deriv.Inv
import Mathlib.Analysis.Calculus.Deriv.Add
import Mathlib.Analysis.Calculus.Deriv.Mul
import Mathlib.Analysis.SpecialFunctions.Pow.Real
import Mathlib.Analysis.Calculus.MeanValue

namespace HitenModel
namespace RE

noncomputable def eval (ρ : Nat → ℝ) : RE → ℝ
  | var i => ρ i
  | const n d => (n : ℝ) / (d : ℝ)
  | add a b => eval ρ a + eval ρ b
  | sub a b => eval ρ a - eval ρ b
  | mul a b => eval ρ a * eval ρ b
  | div a b => eval ρ a / eval ρ b
  | neg a => - eval ρ a
  | pow a n => eval ρ a ^ n
  | sqrt a => Real.sqrt (eval ρ a)

/-- well-definedness at `ρ`: denominators non-zero, sqrt arguments positive -/
def WD (ρ : Nat → ℝ) : RE → Prop
  | var _ => True
  | const _ _ => True
  | add a b => WD ρ a ∧ WD ρ b
  | sub a b => WD ρ a ∧ WD ρ b
  | mul a b => WD ρ a ∧ WD ρ b
  | div a b => WD ρ a ∧ WD ρ b ∧ eval ρ b ≠ 0
  | neg a => WD ρ a
  | pow a _ => WD ρ a
  | sqrt a => WD ρ a ∧ 0 < eval ρ a

theorem D_sound (i : Nat) (ρ : Nat → ℝ) (e : RE) (h : WD ρ e) :
    HasDerivAt (fun t => eval (Function.update ρ i t) e) (eval ρ (D i e)) (ρ i) := by
  induction e with
  | var j =>
    by_cases hij : i = j
    · subst hij; simp only [eval, D, Function.update_self, if_true]
      simpa using hasDerivAt_id' (ρ i)
    · have : ∀ t, Function.update ρ i t j = ρ j := fun t => by
        simp [Function.update, Ne.symm hij]
      simp only [eval, D, hij, if_false, this]
      simpa using hasDerivAt_const (ρ i) (ρ j)
  | const n d => simp only [eval, D]; simpa using hasDerivAt_const (ρ i) ((n:ℝ)/(d:ℝ))
  | add a b iha ihb => simp only [eval, D]; exact (HasDerivAt.add (iha h.1) (ihb h.2) :)
  | sub a b iha ihb => simp only [eval, D]; exact (HasDerivAt.sub (iha h.1) (ihb h.2) :)
  | mul a b iha ihb =>
    simp only [eval, D]
    have := HasDerivAt.fun_mul (iha h.1) (ihb h.2)
    simpa [Function.update_eq_self] using this
  | div a b iha ihb =>
    simp only [eval, D]
    have hb : eval (Function.update ρ i (ρ i)) b ≠ 0 := by simpa using h.2.2
    have := HasDerivAt.fun_div (iha h.1) (ihb h.2.1) hb
    simpa [Function.update_eq_self] using this
  | neg a iha => simp only [eval, D]; exact (HasDerivAt.neg (iha h) :)
  | pow a n iha =>
    simp only [eval, D]
    have := HasDerivAt.fun_pow (iha h) n
    simpa [Function.update_eq_self] using this
  | sqrt a iha =>
    simp only [eval, D]
    have ha : eval (Function.update ρ i (ρ i)) a ≠ 0 := by simpa using h.2.ne'
    have := HasDerivAt.sqrt (iha h.1) ha
    simpa [Function.update_eq_self] using this


/-- directional derivative of `e` at `ρ` in direction `v` (total derivative along a curve) -/
noncomputable def DT (ρ v : Nat → ℝ) : RE → ℝ
  | var j => v j
  | const _ _ => 0
  | add a b => DT ρ v a + DT ρ v b
  | sub a b => DT ρ v a - DT ρ v b
  | mul a b => DT ρ v a * eval ρ b + eval ρ a * DT ρ v b
  | div a b => (DT ρ v a * eval ρ b - eval ρ a * DT ρ v b) / (eval ρ b) ^ 2
  | neg a => - DT ρ v a
  | pow a n => (n : ℝ) * eval ρ a ^ (n - 1) * DT ρ v a
  | sqrt a => DT ρ v a / (2 * Real.sqrt (eval ρ a))

/-- chain rule along a differentiable curve `γ` in the space of variable assignments -/
theorem DT_sound (γ : ℝ → Nat → ℝ) (v : Nat → ℝ) (t : ℝ)
    (hγ : ∀ j, HasDerivAt (fun s => γ s j) (v j) t) (e : RE) (h : WD (γ t) e) :
    HasDerivAt (fun s => eval (γ s) e) (DT (γ t) v e) t := by
  induction e with
  | var j => simpa only [eval, DT] using hγ j
  | const n d => simp only [eval, DT]; exact hasDerivAt_const t _
  | add a b iha ihb => simp only [eval, DT]; exact (HasDerivAt.add (iha h.1) (ihb h.2) :)
  | sub a b iha ihb => simp only [eval, DT]; exact (HasDerivAt.sub (iha h.1) (ihb h.2) :)
  | mul a b iha ihb => simp only [eval, DT]; exact (HasDerivAt.fun_mul (iha h.1) (ihb h.2) :)
  | div a b iha ihb => simp only [eval, DT]; exact (HasDerivAt.fun_div (iha h.1) (ihb h.2.1) h.2.2 :)
  | neg a iha => simp only [eval, DT]; exact (HasDerivAt.neg (iha h) :)
  | pow a n iha => simp only [eval, DT]; exact (HasDerivAt.fun_pow (iha h) n :)
  | sqrt a iha => simp only [eval, DT]; exact (HasDerivAt.sqrt (iha h.1) h.2.ne' :)

/-- a quantity whose directional derivative along the velocity of a curve vanishes identically is constant
along the curve (first-integral lemma used by the energy theorems) -/
theorem const_along_curve (γ : ℝ → Nat → ℝ) (v : ℝ → Nat → ℝ) (e : RE)
    (hγ : ∀ t j, HasDerivAt (fun s => γ s j) (v t j) t) (hWD : ∀ t, WD (γ t) e)
    (h0 : ∀ t, DT (γ t) (v t) e = 0) (a b : ℝ) : eval (γ a) e = eval (γ b) e := by
  have hd : ∀ t, HasDerivAt (fun s => eval (γ s) e) 0 t := fun t => by
    have := DT_sound γ (v t) t (hγ t) e (hWD t)
    rwa [h0 t] at this
  exact is_const_of_deriv_eq_zero (fun t => (hd t).differentiableAt) (fun t => (hd t).deriv) a b

/-- Python's `s ** 1.5` etc. are traced as `(sqrt s)^3`; this is `Real.rpow` on the admissible domain. -/
theorem rpow_three_halves {s : ℝ} (hs : 0 < s) : s ^ ((3:ℝ)/2) = (Real.sqrt s) ^ 3 := by
  rw [Real.sqrt_eq_rpow, ← Real.rpow_natCast, ← Real.rpow_mul hs.le]; norm_num

theorem rpow_five_halves {s : ℝ} (hs : 0 < s) : s ^ ((5:ℝ)/2) = (Real.sqrt s) ^ 5 := by
  rw [Real.sqrt_eq_rpow, ← Real.rpow_natCast, ← Real.rpow_mul hs.le]; norm_num

end RE
/-! ### soundness of the syntactic well-definedness checker (`Core/RE.lean`: `posOK`, `nzOK`, `wdOK`) -/

section WDCheck
open RE

theorem posOK_sound (ρ : Nat → ℝ) (pos : List RE) (hpos : ∀ e ∈ pos, 0 < eval ρ e) :
    ∀ e, posOK pos e = true → 0 < eval ρ e := by
  intro e
  have hc : ∀ e, pos.contains e = true → 0 < eval ρ e := fun e h => hpos e (List.contains_iff_mem.mp h)
  induction e with
  | var j => intro h; exact hc _ (by simpa [posOK] using h)
  | const n d =>
    intro h
    simp only [posOK, Bool.or_eq_true, Bool.and_eq_true, decide_eq_true_eq] at h
    rcases h with h | ⟨hn, hd⟩
    · exact hc _ h
    · simp only [eval]
      exact div_pos (by exact_mod_cast hn) (by exact_mod_cast hd)
  | add a b iha ihb =>
    intro h
    simp only [posOK, Bool.or_eq_true, Bool.and_eq_true] at h
    rcases h with h | ⟨ha, hb⟩
    · exact hc _ h
    · simp only [eval]; exact add_pos (iha ha) (ihb hb)
  | sub a b _ _ => intro h; exact hc _ (by simpa [posOK] using h)
  | mul a b iha ihb =>
    intro h
    simp only [posOK, Bool.or_eq_true, Bool.and_eq_true] at h
    rcases h with h | ⟨ha, hb⟩
    · exact hc _ h
    · simp only [eval]; exact mul_pos (iha ha) (ihb hb)
  | div a b iha ihb =>
    intro h
    simp only [posOK, Bool.or_eq_true, Bool.and_eq_true] at h
    rcases h with h | ⟨ha, hb⟩
    · exact hc _ h
    · simp only [eval]; exact div_pos (iha ha) (ihb hb)
  | neg a _ => intro h; exact hc _ (by simpa [posOK] using h)
  | pow a n iha =>
    intro h
    simp only [posOK, Bool.or_eq_true] at h
    rcases h with h | ha
    · exact hc _ h
    · simp only [eval]; exact pow_pos (iha ha) n
  | sqrt a iha =>
    intro h
    simp only [posOK, Bool.or_eq_true] at h
    rcases h with h | ha
    · exact hc _ h
    · simp only [eval]; exact Real.sqrt_pos.mpr (iha ha)

theorem nzOK_sound (ρ : Nat → ℝ) (pos : List RE) (hpos : ∀ e ∈ pos, 0 < eval ρ e) :
    ∀ e, nzOK pos e = true → eval ρ e ≠ 0 := by
  intro e
  have hp := posOK_sound ρ pos hpos
  induction e with
  | var j => intro h; exact (hp _ (by simpa [nzOK] using h)).ne'
  | const n d =>
    intro h
    simp only [nzOK, Bool.or_eq_true, Bool.and_eq_true, decide_eq_true_eq] at h
    rcases h with h | ⟨hn, hd⟩
    · exact (hp _ h).ne'
    · simp only [eval]
      exact div_ne_zero (by exact_mod_cast hn) (by exact_mod_cast hd)
  | add a b _ _ => intro h; exact (hp _ (by simpa [nzOK] using h)).ne'
  | sub a b _ _ => intro h; exact (hp _ (by simpa [nzOK] using h)).ne'
  | mul a b iha ihb =>
    intro h
    simp only [nzOK, Bool.or_eq_true, Bool.and_eq_true] at h
    rcases h with h | ⟨ha, hb⟩
    · exact (hp _ h).ne'
    · simp only [eval]; exact mul_ne_zero (iha ha) (ihb hb)
  | div a b iha ihb =>
    intro h
    simp only [nzOK, Bool.or_eq_true, Bool.and_eq_true] at h
    rcases h with h | ⟨ha, hb⟩
    · exact (hp _ h).ne'
    · simp only [eval]; exact div_ne_zero (iha ha) (ihb hb)
  | neg a iha =>
    intro h
    simp only [nzOK, Bool.or_eq_true] at h
    rcases h with h | ha
    · exact (hp _ h).ne'
    · simp only [eval]; exact neg_ne_zero.mpr (iha ha)
  | pow a n iha =>
    intro h
    simp only [nzOK, Bool.or_eq_true] at h
    rcases h with h | ha
    · exact (hp _ h).ne'
    · simp only [eval]; exact pow_ne_zero n (iha ha)
  | sqrt a _ => intro h; exact (hp _ (by simpa [nzOK] using h)).ne'

/-- **wdOK_sound**: the checker is sound — a term it accepts is well defined wherever the listed terms are positive -/
theorem wdOK_sound (ρ : Nat → ℝ) (pos : List RE) (hpos : ∀ e ∈ pos, 0 < eval ρ e) :
    ∀ e, wdOK pos e = true → WD ρ e := by
  intro e
  induction e with
  | var j => intro _; trivial
  | const n d => intro _; trivial
  | add a b iha ihb => intro h; simp only [wdOK, Bool.and_eq_true] at h; exact ⟨iha h.1, ihb h.2⟩
  | sub a b iha ihb => intro h; simp only [wdOK, Bool.and_eq_true] at h; exact ⟨iha h.1, ihb h.2⟩
  | mul a b iha ihb => intro h; simp only [wdOK, Bool.and_eq_true] at h; exact ⟨iha h.1, ihb h.2⟩
  | div a b iha ihb =>
    intro h; simp only [wdOK, Bool.and_eq_true] at h
    exact ⟨iha h.1.1, ihb h.1.2, nzOK_sound ρ pos hpos b h.2⟩
  | neg a iha => intro h; exact iha (by simpa [wdOK] using h)
  | pow a n iha => intro h; exact iha (by simpa [wdOK] using h)
  | sqrt a iha =>
    intro h; simp only [wdOK, Bool.and_eq_true] at h
    exact ⟨iha h.1, posOK_sound ρ pos hpos a h.2⟩


end WDCheck

end HitenModel
