"""C10 — backward propagation and time grids mean what they say.

Model: lean/HitenModel/Core/C10.lean (hand-written, import-free): `_DirectedSystem._rhs_impl`, `_propagate_dynsys`,
`validate_inputs`, `_maybe_constant_solution`, the fixed-step loop, the adaptive step loops + searchsorted dense output,
the no-crossing path of the adaptive event drivers, the symplectic driver.  Numerics are oracle parameters.

Tie (every run):
 * regenerated  Gen/C10.lean: the switches `Cfg` (time argument of the directed field, sign handling of the symplectic
   integrator, presence of a descending-grid guard in the adaptive integrators) and the sign table of the directed wrapper
   are extracted by *executing* the current Python objects (py_func on symbolic values / real `integrate` with the compiled
   kernels replaced by sentinels);
 * correspondence: the real Python-level code (`_propagate_dynsys`, every `integrate`, and the pure-python bodies `.py_func`
   of the compiled drivers with the numerical kernels / controller replaced by recording stubs) is run on seeded tick grids
   (exact in float64) and compared *exactly* with the Lean model through Drivers/C10.lean;
 * numerical shell on the real compiled code: outcome class of every integrator on descending grids against closed-form
   solutions, forward∘backward round trips, sign of the returned stamps.
"""
from __future__ import annotations

import contextlib
import math
import types
import warnings

import numpy as np

TICK_EXP = 30
TICK = 2.0 ** -TICK_EXP
BIG = 1 << 22           # grid values are multiples of BIG ticks so that a few halvings of h stay integral

_CACHE = {}


# =====================================================================================================
# small helpers
# =====================================================================================================

def _plain_copy(fn, overrides):
    """Pure-python copy of a (numba) function object with some of its module globals rebound."""
    f = getattr(fn, "py_func", fn)
    g = dict(f.__globals__)
    g.update(overrides)
    new = types.FunctionType(f.__code__, g, f.__name__, f.__defaults__, f.__closure__)
    new.__kwdefaults__ = f.__kwdefaults__
    return new


@contextlib.contextmanager
def _patched(obj, name, value):
    had = name in obj.__dict__
    old = obj.__dict__.get(name)
    setattr(obj, name, value)
    try:
        yield
    finally:
        if had:
            setattr(obj, name, old)
        else:
            delattr(obj, name)


def _ints(l):
    l = list(l)
    return ",".join(str(int(x)) for x in l) if l else "-"


def _to_ticks(arr):
    """exact tick values of a float array (None if some value is not an integral number of ticks)"""
    out = []
    for x in np.asarray(arr, dtype=float).ravel():
        v = float(x) / TICK
        if not math.isfinite(v) or v != int(v):
            return None
        out.append(int(v))
    return out


def _err_class(ex):
    msg = str(ex)
    if isinstance(ex, (ZeroDivisionError, FloatingPointError)):
        return "zeroDivision"
    if isinstance(ex, ValueError):
        if "at least 2" in msg:
            return "tooShort"
        if "strictly monotonic" in msg:
            return "notMonotone"
        if "increasing" in msg or "descending" in msg or "decreasing" in msg or "ascending" in msg:
            return "descendingRejected"
    return "other:%s:%s" % (type(ex).__name__, msg[:80])


def _user_system(kind):
    """User systems with closed-form flows, as real hiten dynamical systems (numba rhs)."""
    if ("sys", kind) in _CACHE:
        return _CACHE[("sys", kind)]
    import numba
    from hiten.algorithms.dynamics.base import _DynamicalSystem

    if kind == "rotation":          # autonomous, linear
        @numba.njit
        def rhs(t, y):
            return np.array([y[1], -y[0]])
        exact = lambda t, y0: np.array([y0[0] * np.cos(t) + y0[1] * np.sin(t), -y0[0] * np.sin(t) + y0[1] * np.cos(t)])
        y0 = np.array([1.0, 0.25])
        auto = True
    elif kind == "riccati":         # autonomous, nonlinear:  y' = -y^2, z' = -2 z^2
        @numba.njit
        def rhs(t, y):
            return np.array([-y[0] * y[0], -2.0 * y[1] * y[1]])
        exact = lambda t, y0: np.array([1.0 / (t + 1.0 / y0[0]), 1.0 / (2.0 * t + 1.0 / y0[1])])
        y0 = np.array([0.25, 0.125])
        auto = True
    elif kind == "nonauto":         # time dependent:  y' = t, z' = cos(t) z
        @numba.njit
        def rhs(t, y):
            return np.array([t, np.cos(t) * y[1]])
        exact = lambda t, y0: np.array([y0[0] + 0.5 * t * t, y0[1] * np.exp(np.sin(t))])
        y0 = np.array([0.0, 0.7])
        auto = False
    else:
        raise ValueError(kind)

    class S(_DynamicalSystem):
        def __init__(self):
            super().__init__(2)

        def _build_rhs_impl(self):
            return rhs

    r = (S(), exact, y0, auto)
    _CACHE[("sys", kind)] = r
    return r


def _poly_ham_system():
    """1-dof nonlinear polynomial Hamiltonian H = (p1^2+q1^2)/2 + q1^3/3 embedded in the 3-dof layout."""
    if "ham" in _CACHE:
        return _CACHE["ham"]
    from numba.typed import List
    from hiten.algorithms.dynamics.hamiltonian import create_hamiltonian_system
    from hiten.algorithms.integrators.symplectic import N_SYMPLECTIC_DOF, N_VARS_POLY
    from hiten.algorithms.polynomial.base import _create_encode_dict_from_clmo, _encode_multiindex, _init_index_tables
    D = 4
    psi, clmo = _init_index_tables(D)
    enc = _create_encode_dict_from_clmo(clmo)
    H = [np.zeros(psi[N_VARS_POLY, d], dtype=np.complex128) for d in range(D + 1)]

    def setc(k, c):
        k = np.array(k, dtype=np.int64)
        d = int(k.sum())
        H[d][_encode_multiindex(k, d, enc)] += c

    setc([0, 0, 0, 2, 0, 0], 0.5)
    setc([2, 0, 0, 0, 0, 0], 0.5)
    setc([3, 0, 0, 0, 0, 0], 1.0 / 3.0)
    setc([0, 2, 0, 0, 0, 0], 0.5)       # second oscillator so that more than one dof moves
    setc([0, 0, 0, 0, 2, 0], 0.5)
    setc([1, 2, 0, 0, 0, 0], 0.25)      # coupling q1 q2^2
    Hn = List()
    for a in H:
        Hn.append(a.copy())
    hs = create_hamiltonian_system(Hn, D, psi, clmo, enc, N_SYMPLECTIC_DOF, "C10-test")

    def field(t, y):
        q1, q2, q3, p1, p2, p3 = y
        return [p1, p2, 0.0, -(q1 + q1 * q1 + 0.25 * q2 * q2), -(q2 + 0.5 * q1 * q2), 0.0]

    _CACHE["ham"] = (hs, field, np.array([0.1, -0.05, 0.0, 0.2, 0.1, 0.0]))
    return _CACHE["ham"]


# =====================================================================================================
# gen: extract the switches of the code by executing it
# =====================================================================================================

def _trace_directed(ctx):
    """Run the current `_rhs_impl` python body on symbolic (t, y) with a recording base field."""
    import tracer as T
    from hiten.algorithms.dynamics.base import _DirectedSystem
    base, _, _, _ = _user_system("rotation")
    dim = 4
    rows = []
    problems = []

    class _B(type(base)):
        pass

    for fwd in (1, -1, 0, -3, 2):
        for flip in (None, [1, 3], slice(2, 4), [], [0, 1, 2, 3], slice(0, 4, 2)):
            b = _B()
            b._dim = dim
            ds = _DirectedSystem(b, fwd, flip_indices=flip)
            impl = ds._build_rhs_impl()
            pf = getattr(impl, "py_func", impl)
            T.reset()
            t = T.Sym.var("t", 0.37)
            y = T.symarray([T.Sym.var("y%d" % i, 0.2 + 0.1 * i) for i in range(dim)])
            calls = []

            def rec(tt, yy):
                calls.append(T.Sym.lift(tt))
                return T.symarray([T.Sym.var("d%d" % i, 0.3 + i) for i in range(dim)])

            out = pf(t, y, _base_rhs=rec)
            if len(calls) != 1:
                problems.append("base field called %d times" % len(calls))
                continue
            nf = T.polynf(calls[0])
            if nf is None or list(nf.keys()) != [(("t", 1),)] or nf[(("t", 1),)] not in (1, -1):
                problems.append("time argument of the base field is not ±t: %s" % T.show(calls[0], 200))
                continue
            tco = int(nf[(("t", 1),)])
            signs = []
            for i in range(dim):
                nfo = T.polynf(T.Sym.lift(out[i]))
                key = (("d%d" % i, 1),)
                if nfo is None or list(nfo.keys()) != [key] or nfo[key] not in (1, -1):
                    problems.append("output component %d is not ±dy[%d]" % (i, i))
                    signs = None
                    break
                signs.append(int(nfo[key]))
            if signs is None:
                continue
            fl = None if flip is None else list(range(dim))[flip] if isinstance(flip, slice) else list(flip)
            rows.append((fwd, fl, dim, tco, signs))
    return rows, problems


def _extract_symplectic_signs(ctx):
    from hiten.algorithms.integrators import symplectic as sy
    res = {}
    seen = {}

    def stub(initial_state_6d, t_values, jac_H, clmo_H, order, c_omega_heuristic=20.0):
        seen["grid"] = np.array(t_values, dtype=float)
        return np.zeros((len(t_values), 6))

    t_vals = np.array([1.0, 2.0, 4.0])
    for fwd in (1, -1):
        fake = types.SimpleNamespace(rhs=lambda t, y: y, dim=6, jac_H=None, clmo_H=None, n_dof=3, _fwd=fwd)
        with _patched(sy, "_integrate_symplectic", stub):
            sol = sy._ExtendedSymplectic(order=4).integrate(fake, np.zeros(6), t_vals.copy())
        rg = seen["grid"] / t_vals
        rt = np.asarray(sol.times, dtype=float) / t_vals
        if not (np.all(rg == rg[0]) and rg[0] in (1.0, -1.0) and np.all(rt == rt[0]) and rt[0] in (1.0, -1.0)):
            raise RuntimeError("symplectic integrate: grid/times are not ±t_vals (grid ratio %s, times ratio %s)" % (rg, rt))
        res[fwd] = (int(rg[0]), int(rt[0]))
    return res


def _extract_guards(ctx):
    """Does `integrate` of the adaptive classes reject a strictly decreasing grid before entering the compiled driver?"""
    from hiten.algorithms.integrators import rk
    out = {}
    fake = types.SimpleNamespace(rhs=lambda t, y: np.array([1.0]), dim=1)
    grid = np.array([0.0, -1.0, -3.0])

    class Entered(Exception):
        pass

    def sentinel(*a, **k):
        raise Entered()

    def ev(t, y):
        return 1.0

    for cls, name, kern, kern_ev in ((rk._RK45, "45", "_integrate_rk45", "_integrate_rk45_until_event"),
                                     (rk._DOP853, "853", "_integrate_dop853", "_integrate_dop853_until_event")):
        for event in (False, True):
            with _patched(cls, kern, staticmethod(sentinel)), _patched(cls, kern_ev, staticmethod(sentinel)), \
                    _patched(cls, "_compile_event_function", lambda self, f: f):
                try:
                    cls().integrate(fake, np.array([0.5]), grid.copy(), event_fn=ev if event else None)
                    raise RuntimeError("%s.integrate returned without entering the driver" % cls.__name__)
                except Entered:
                    g = False
                except ValueError as ex:
                    if _err_class(ex) != "descendingRejected":
                        raise
                    g = True
            out[("Event" if event else "") + name] = g
    return out


def _lean_opt_list(l):
    return "none" if l is None else "(some [%s])" % ", ".join(str(int(i)) for i in l)


def gen(ctx):
    rows, problems = _trace_directed(ctx)
    for p in problems:
        ctx.broken.append(("trace:directed", p))
        ctx.obligations["trace:directed"] = False
    tcoefs = sorted({r[3] for r in rows if (1 if r[0] >= 0 else -1) == -1})
    if len(tcoefs) != 1:
        ctx.broken.append(("trace:directed", "backward wrappers disagree on the time argument: %s" % tcoefs))
        ctx.obligations["trace:directed"] = False
    dir_tcoef = tcoefs[0] if tcoefs else 1
    sy = _extract_symplectic_signs(ctx)
    if sy[1] != (1, 1):
        ctx.broken.append(("trace:symplectic", "forward symplectic integrate alters the grid/times: %s" % (sy[1],)))
        ctx.obligations["trace:symplectic"] = False
    guards = _extract_guards(ctx)
    b = lambda v: "true" if v else "false"
    txt = ("-- GENERATED by /verif/harness/props/c10.py from /repo's current source on every run. DO NOT EDIT.\n"
           "-- switches and sign table extracted by executing the current Python objects (see c10.py: gen)\n"
           "import HitenModel.Core.C10\nnamespace HitenModel.Gen.C10\nopen HitenModel HitenModel.C10\n\n")
    txt += ("def cfg : Cfg where\n  dirTimeCoef := %d\n  symGridSign := %d\n  symTimesSign := %d\n"
            "  guard45 := %s\n  guard853 := %s\n  guardEvent45 := %s\n  guardEvent853 := %s\n\n" % (
                dir_tcoef, sy[-1][0], sy[-1][1], b(guards["45"]), b(guards["853"]), b(guards["Event45"]), b(guards["Event853"])))
    txt += ("/-- traced `_DirectedSystem._rhs_impl`: (fwd given to the constructor, flip_indices, dim,\n"
            "    coefficient of `t` in the time passed to the base field, per-component sign of the output) -/\n"
            "def dirTrace : List (Int × Option (List Nat) × Nat × Int × List Int) := [\n  %s]\n" % ",\n  ".join(
                "(%d, %s, %d, %d, [%s])" % (r[0], _lean_opt_list(r[1]), r[2], r[3], ", ".join(str(s) for s in r[4])) for r in rows))
    txt += "\nend HitenModel.Gen.C10\n"
    ctx.write_gen("HitenModel.Gen.C10", txt)
    cfg = {"dirTimeCoef": dir_tcoef, "symGridSign": sy[-1][0], "symTimesSign": sy[-1][1], "guards": guards}
    ctx.extra["cfg_extracted_from_source"] = {k: (v if not isinstance(v, dict) else {str(a): b for a, b in v.items()}) for k, v in cfg.items()}
    _CACHE["cfg"] = cfg
    return cfg


# =====================================================================================================
# correspondence: real Python-level code + py_func bodies of the compiled drivers  vs  the Lean model
# =====================================================================================================

class _Corr:
    """collects (lean input line, canonical answer of the real code, description)"""

    def __init__(self, ctx):
        self.ctx = ctx
        self.items = []

    def add(self, name, line, real, desc):
        self.items.append((name, line, real, desc))

    def flush(self):
        ctx = self.ctx
        if not self.items:
            return
        out = ctx.lean_run("Drivers/C10.lean", "\n".join(l for _, l, _, _ in self.items) + "\n")
        out = [l for l in out if l.strip()]
        bad = {}
        if len(out) != len(self.items):
            ctx.broken.append(("correspondence:driver", "driver answered %d lines for %d operations: %s" % (len(out), len(self.items), out[-3:])))
            ctx.obligations["correspondence:driver"] = False
            return
        names = set()
        for (name, line, real, desc), got in zip(self.items, out):
            names.add(name)
            ctx.corr_cases += 1
            if got.strip() != real.strip():
                bad.setdefault(name, []).append({"op": line, "model": got, "code": real, "case": desc})
        for n in sorted(names):
            key = "correspondence:" + n
            if n in bad:
                ctx.obligations[key] = False
                ctx.broken.append((key, "model and code disagree on %d case(s); first: %s" % (len(bad[n]), bad[n][0])))
            else:
                ctx.obligations.setdefault(key, True)
        self.bad = bad
        self.items = []
        return bad


def _rand_grid(rng, kind=None):
    """tick grid of a given kind; values are multiples of BIG ticks"""
    kind = kind or rng.choice(["asc", "asc", "desc", "desc", "zero", "nonmono", "short", "asc2", "desc2", "mixedzero", "tinyfirst"])
    n = rng.randint(2, 7)
    t0 = rng.randint(-6, 6) * BIG * rng.choice([1, 1, 4])
    if kind in ("asc", "desc"):
        ds = [rng.randint(1, 9) * BIG for _ in range(n - 1)]
        sgn = 1 if kind == "asc" else -1
        ts = [t0]
        for d in ds:
            ts.append(ts[-1] + sgn * d)
    elif kind in ("asc2", "desc2"):
        ts = [t0, t0 + (1 if kind == "asc2" else -1) * rng.randint(1, 9) * BIG]
    elif kind == "zero":
        ts = [t0] * n
    elif kind == "short":
        ts = [t0] * rng.randint(0, 1)
    elif kind == "tinyfirst":
        # first step far below np.isclose's tolerance, total span well above it (the zero-span short circuit must look at the END points)
        sgn = rng.choice([1, -1])
        ts = [t0, t0 + sgn * rng.randint(1, 3)]
        for _ in range(rng.randint(1, 3)):
            ts.append(ts[-1] + sgn * rng.randint(1, 9) * BIG)
    elif kind == "mixedzero":
        ts = [t0, t0 + BIG, t0 + BIG] + [t0 + 2 * BIG] * rng.randint(0, 1)
    else:
        ts = [t0]
        for _ in range(n - 1):
            ts.append(ts[-1] + rng.choice([-2, -1, 1, 2, 3]) * BIG)
        d = np.diff(ts)
        if np.all(d > 0) or np.all(d < 0):
            ts[-1] = ts[-2] - (ts[1] - ts[0])
    return kind, ts


def _fake_system(ham):
    """minimal system object; `ham=True` makes it satisfy the runtime-checkable Hamiltonian protocol so that `integrate`
    dispatches to the `*_ham` twin drivers"""
    base = dict(rhs=lambda t, y: np.array([1.0]), dim=1)
    if ham:
        base.update(_build_rhs_impl=lambda: None, n_dof=1, dH_dQ=lambda Q, P: Q, dH_dP=lambda Q, P: P, poly_H=lambda: [],
                    rhs_params=(None, None, 1))
    return types.SimpleNamespace(**base)


def _close_bit(ts):
    if len(ts) < 2:
        return 0
    return int(bool(np.isclose(ts[0] * TICK, ts[-1] * TICK)))


def corr_validate_fixed_sym(ctx, C, n_cases):
    """validate_inputs + the fixed-step and symplectic `integrate` with the py_func bodies of their compiled loops."""
    from hiten.algorithms.integrators import rk
    from hiten.algorithms.integrators import symplectic as sy
    rng = ctx.rng
    fake = types.SimpleNamespace(rhs=lambda t, y: np.array([1.0]), dim=1)
    for _ in range(n_cases):
        kind, ts = _rand_grid(rng)
        tv = np.array([t * TICK for t in ts], dtype=float)
        ctx.case(("grid", kind, len(ts), ts[0] if ts else None), kind="grid:" + kind)
        # ---- validate_inputs alone
        try:
            rk._RK4().validate_inputs(fake, np.array([0.5]), tv.copy())
            d = np.diff(tv)
            real = "val ok:" + ("zeroSpan" if np.all(d == 0) else "ascending" if np.all(d > 0) else "descending")
        except Exception as ex:
            real = "val err:" + _err_class(ex)
        C.add("validate_inputs", "VAL " + _ints(ts), real, {"grid": ts})
        # ---- fixed-step integrate: real python entry + python body of the compiled loop, RK step recorded
        log = []

        def step_stub(f, t, y, h, A, B, BL, Cc, has):
            log.append((t, h))
            return y + h, y + h, np.zeros_like(y)

        order = rng.choice(sorted(rk.FixedRK._map))
        integ = rk.FixedRK(order)
        ham = rng.random() < 0.35
        kname = "_integrate_fixed_rk_ham" if ham else "_integrate_fixed_rk"
        loop_py = _plain_copy(getattr(rk._FixedStepRK, kname), {
            "rk_embedded_step_jit_kernel": step_stub,
            "rk_embedded_step_ham_jit_kernel": lambda t, y, h, A, B, BL, Cc, has, jac, clmo, nd: step_stub(None, t, y, h, A, B, BL, Cc, has),
            "_hamiltonian_rhs": lambda y, jac, clmo, nd: np.array([1.0])})
        y0 = np.array([0.5])
        try:
            with _patched(rk._FixedStepRK, kname, staticmethod(loop_py)):
                sol = integ.integrate(_fake_system(ham), y0, tv.copy())
            tt = _to_ticks(sol.times)
            lg = [(_to_ticks([a])[0], _to_ticks([b])[0]) for a, b in log]
            ok_first = bool(np.array_equal(sol.states[0], y0))
            real = "fix times=%s n=%d log=%s" % (_ints(tt), len(sol.states), ";".join("%d:%d" % p for p in lg) if lg else "-")
            if not ok_first:
                real += " FIRST-SAMPLE-NOT-Y0"
        except Exception as ex:
            real = "fix err:" + _err_class(ex)
        C.add("fixed_integrate", "FIX %d %s" % (_close_bit(ts), _ints(ts)), real, {"grid": ts, "order": order, "hamiltonian_twin": ham})
        # ---- symplectic integrate, _fwd = +1 / -1
        fwd = rng.choice([1, -1])
        dts = []

        def upd_stub(q_ext, dt, order, omega, jac_H, clmo_H):
            dts.append(dt)

        loop_core = _plain_copy(sy._integrate_symplectic, {"_recursive_update_poly": upd_stub, "_get_tao_omega": lambda *a: 1.0})
        seen_grid = []

        def loop_py(initial_state_6d, t_values, jac_H, clmo_H, order, c_omega_heuristic=20.0, _g=seen_grid, _core=loop_core):
            _g.append(np.array(t_values, dtype=float))
            return _core(initial_state_6d, t_values, jac_H, clmo_H, order, c_omega_heuristic)
        fsys = types.SimpleNamespace(rhs=lambda t, y: y, dim=6, jac_H=None, clmo_H=None, n_dof=3, _fwd=fwd)
        try:
            with _patched(sy, "_integrate_symplectic", loop_py):
                sol = sy._ExtendedSymplectic(order=rng.choice([2, 4, 6])).integrate(fsys, np.arange(6.0), tv.copy())
            real = "sym times=%s grid=%s n=%d dts=%s" % (_ints(_to_ticks(sol.times)), _ints(_to_ticks(seen_grid[0])), len(sol.states), _ints(_to_ticks(dts)))
            if not np.array_equal(sol.states[0], np.arange(6.0)):
                real += " FIRST-SAMPLE-NOT-Y0"
        except Exception as ex:
            real = "sym err:" + _err_class(ex)
        C.add("symplectic_integrate", "SYM %d %s" % (fwd, _ints(ts)), real, {"grid": ts, "fwd": fwd})


class _AdaptiveStub:
    """Recording replacements of the numerical kernels and of the step controller of the adaptive drivers.
    Toy dynamics y' = 1 (exact), so that the state identifies the node it belongs to."""
    SENT = 1.0e6

    def __init__(self, rng, h0, n_plan):
        self.plan = [(rng.random() < 0.7, rng.choice([0.25, 0.5, 0.5, 1.0, 2.0, 2.0, 4.0])) for _ in range(n_plan)]
        self.i = 0
        self.h0 = h0
        self.log = []        # oracle answers experienced by the real loop: (accepted, h*factor in ticks)
        self.cur = None
        self.evals = []      # dense evaluations: (y_old, x, hseg)
        self.attempts = 0
        self.nodes = None    # accepted nodes (floats) as experienced by the real loop
        self.entered = False
        self.last_hseg = None

    def _next(self, t, h):
        self.attempts += 1
        if self.attempts > 400:
            raise RuntimeError("adaptive loop does not terminate under the stub")
        acc, fac = self.plan[self.i] if self.i < len(self.plan) else (True, 2.0)
        self.i += 1
        self.cur = (acc, fac, h, t)
        return acc

    def step45(self, f, t, y, h, A, B, Cc, E):
        acc = self._next(t, h)
        return y + h, y + h, np.array([0.0 if acc else 4.0]), np.array([[float(len(self.log))]])

    def step853(self, f, t, y, h, A, B, Cc, E5, E3):
        acc = self._next(t, h)
        e5 = np.array([0.0 if acc else 4.0 / abs(h)])
        return y + h, y + h, e5.copy(), e5, np.zeros(1), np.array([[float(len(self.log))]])

    def acc_factor(self, err_norm, err_prev, order):
        acc, fac, h, t = self.cur
        assert acc and err_norm <= 1.0
        self.log.append((1, h * fac))
        self.nodes.append(t + h)
        return fac

    def rej_factor(self, err_norm, order):
        acc, fac, h, t = self.cur
        assert (not acc) and err_norm > 1.0
        self.log.append((0, h * fac))
        return fac

    def overrides(self):
        return {
            "List": list,
            "rk45_step_jit_kernel": self.step45,
            "dop853_step_jit_kernel": self.step853,
            "_pi_accept_factor": self.acc_factor,
            "_pi_reject_factor": self.rej_factor,
            "_select_initial_step": lambda d0, d1, mn, mx: self.h0,
            "_error_scale": lambda y, yh, rtol, atol: np.ones_like(y),
            "_rk45_build_Q_cache": lambda Kseg, P, dim: Kseg,
            "_rk45_eval_dense": self.eval45,
            "_dop853_build_dense_cache": self.build853,
            # Hamiltonian twins of the same drivers (`*_ham`): same control flow, parametric rhs
            "rk45_step_ham_jit_kernel": lambda t, y, h, A, B, Cc, E, jac, clmo, nd: self.step45(None, t, y, h, A, B, Cc, E),
            "dop853_step_ham_jit_kernel": lambda t, y, h, A, B, Cc, E5, E3, jac, clmo, nd: self.step853(None, t, y, h, A, B, Cc, E5, E3),
            "_hamiltonian_rhs": lambda y, jac, clmo, nd: np.array([1.0]),
            "_dop853_build_dense_cache_ham": self.build853,
            "_dop853_eval_dense": self.eval853,
        }

    def eval45(self, y_old, Q, P, x, hseg):
        self.evals.append((float(y_old[0]), float(x), float(hseg)))
        return np.array([self.SENT + len(self.evals) - 1])

    def build853(self, **kw):
        self.last_hseg = float(kw["hseg"])
        return np.zeros((1, 1))

    def wrap(self, loop_py, t0_index=2):
        """kernel wrapper: notes that the compiled driver was entered and where it started"""
        def kernel(*a, **kw):
            self.entered = True
            t_eval = kw["t_eval"] if "t_eval" in kw else None
            self.nodes = [float(t_eval[0])] if t_eval is not None else [float(a[t0_index])]
            return loop_py(*a, **kw)
        return kernel

    def eval853(self, y_old, F, power, x):
        self.evals.append((float(y_old[0]), float(x), self.last_hseg))
        return np.array([self.SENT + len(self.evals) - 1])


def _oracle_str(log):
    if not log:
        return "-"
    parts = []
    for a, h in log:
        v = h / TICK
        if v != int(v):
            return None
        parts.append("%d:%d" % (a, int(v)))
    return ",".join(parts)


def corr_adaptive(ctx, C, n_cases):
    """`_RK45.integrate` / `_DOP853.integrate` (real python entry) + python bodies of `_integrate_rk45` / `_integrate_dop853`
    and of the `*_until_event` drivers, numerical kernels and controller replaced by recording stubs (oracle)."""
    from hiten.algorithms.integrators import rk
    from hiten.algorithms.integrators.coefficients.rk45 import P as RK45_P
    rng = ctx.rng
    cfg = _CACHE["cfg"]
    fake = types.SimpleNamespace(rhs=lambda t, y: np.array([1.0]), dim=1)
    y0v = 0.5
    for it in range(n_cases):
        kind, ts = _rand_grid(rng, rng.choice(["asc", "asc", "asc", "asc2", "desc", "desc2", "zero", "nonmono", "short", "tinyfirst"]))
        tv = np.array([t * TICK for t in ts], dtype=float)
        k = rng.choice(["45", "853"])
        cls = rk._RK45 if k == "45" else rk._DOP853
        ham = rng.random() < 0.35
        fake = _fake_system(ham)
        kern = ("_integrate_rk45" if k == "45" else "_integrate_dop853") + ("_ham" if ham else "")
        h0 = rng.choice([1, 2, 3, 5, 8, 40]) * BIG
        maxS = rng.choice([4 * BIG, 16 * BIG, 1 << 40])
        minS = rng.choice([1, BIG // 16, BIG])
        stub = _AdaptiveStub(rng, h0 * TICK, rng.randint(0, 10))
        loop_py = _plain_copy(getattr(cls, kern), stub.overrides())
        integ = cls(rtol=1.0, atol=1.0, max_step=maxS * TICK, min_step=minS * TICK)
        ctx.case(("adaptive", k, ham, kind, len(ts), h0, maxS, minS, tuple(stub.plan[:3])), kind="adaptive:%s%s:%s" % (k, "ham" if ham else "", kind))
        real = None
        try:
            with _patched(cls, kern, staticmethod(stub.wrap(loop_py))), np.errstate(divide="raise", invalid="raise"), warnings.catch_warnings():
                warnings.simplefilter("ignore")
                sol = integ.integrate(fake, np.array([y0v]), tv.copy())
            if not stub.entered:
                real = "adp const:%d" % len(sol.states) if np.all(sol.states == y0v) else "adp CONST-NOT-Y0"
            elif _to_ticks(sol.times) != ts:
                real = "adp TIMES-NOT-REQUESTED-GRID"
            else:
                nodes = _to_ticks(stub.nodes)
                node_of_state = {y0v + (t - nodes[0]) * TICK: j for j, t in enumerate(nodes)}
                parts = []
                for idx in range(len(ts)):
                    v = float(sol.states[idx, 0])
                    if v >= _AdaptiveStub.SENT:
                        yo, x, hseg = stub.evals[int(v - _AdaptiveStub.SENT)]
                        j = node_of_state.get(yo)
                        den = hseg / TICK
                        num = round(x * den)
                        if j is not None and den == int(den) and (num * TICK) / hseg == x:
                            parts.append("d:%d:%d:%d" % (j, num, int(den)))
                        else:
                            parts.append("d:%s:x=%r:h=%r" % (j, x, hseg))
                    else:
                        parts.append("l:%s" % node_of_state.get(v))
                real = "adp nodes=%s samples=%s" % (_ints(nodes), ",".join(parts))
        except Exception as ex:
            real = "adp err:" + _err_class(ex)
        orc = _oracle_str(stub.log)
        if orc is None:
            continue    # a halving produced a non-integral tick count: not representable, skip the case
        line = "ADP %s %d %d %d %d %d %s %s" % (k, int(cfg["guards"][k]), _close_bit(ts), maxS, minS, h0, _ints(ts), orc)
        C.add("adaptive_integrate", line, real, {"grid": ts, "kind": k, "hamiltonian_twin": ham, "h0": h0, "maxS": maxS, "minS": minS, "oracle": orc})
        kern = kern[:-4] if ham else kern
        fake = _fake_system(False)
        # ---- event driver, no crossing
        if kind in ("asc", "asc2", "desc", "desc2") and rng.random() < 0.6:
            stub2 = _AdaptiveStub(rng, h0 * TICK, rng.randint(0, 8))
            kern_ev = kern + "_until_event"
            ev_py = stub2.wrap(_plain_copy(getattr(cls, kern_ev), stub2.overrides()))
            try:
                if k == "45":
                    r = ev_py(fake.rhs, np.array([y0v]), tv[0], tv[-1], None, None, None, None, RK45_P, 1.0, 1.0, maxS * TICK, minS * TICK, 5,
                              lambda t, y: 1.0, 0, 1, 1e-12, 1e-12)
                else:
                    r = ev_py(fake.rhs, np.array([y0v]), tv[0], tv[-1], None, None, None, None, None, None, 16, 7, None, None, 1.0, 1.0,
                              maxS * TICK, minS * TICK, 8, lambda t, y: 1.0, 0, 1, 1e-12, 1e-12)
                hit, t_end, y_end, y_last = r
                n_acc = sum(1 for a, _ in stub2.log if a)
                consistent = ((not hit) and float(y_end[0]) == y0v + (float(t_end) - tv[0]) and float(t_end) == stub2.nodes[-1]
                              and float(y_last[0]) == float(y_end[0]) and len(stub2.nodes) == n_acc + 1)
                real_e = "evt nohit:%d:%d:%d" % (ts[0], ts[-1], n_acc) + ("" if consistent else " INCONSISTENT")
            except Exception as ex:
                real_e = "evt err:" + _err_class(ex)
            orc2 = _oracle_str(stub2.log)
            if orc2 is not None:
                C.add("adaptive_event_driver", "EVT %d %d %d %s %s" % (maxS, minS, h0, _ints(ts), orc2), real_e,
                      {"grid": ts, "kind": k, "oracle": orc2})
    # ---- entry logic (guards from Gen.cfg) on every grid kind, event and non-event, kernels replaced by sentinels
    class Entered(Exception):
        pass

    def sentinel(*a, **kw):
        raise Entered()

    for it in range(max(20, n_cases // 2)):
        kind, ts = _rand_grid(rng)
        tv = np.array([t * TICK for t in ts], dtype=float)
        k = rng.choice(["45", "853"])
        ev = rng.choice([0, 1])
        cls = rk._RK45 if k == "45" else rk._DOP853
        kern = "_integrate_rk45" if k == "45" else "_integrate_dop853"
        with _patched(cls, kern, staticmethod(sentinel)), _patched(cls, kern + "_until_event", staticmethod(sentinel)), \
                _patched(cls, "_compile_event_function", lambda self, f: f):
            try:
                sol = cls().integrate(fake, np.array([y0v]), tv.copy(), event_fn=(lambda t, y: 1.0) if ev else None)
                real = "entry const:%d" % len(sol.states)
            except Entered:
                real = "entry run"
            except Exception as ex:
                real = "entry err:" + _err_class(ex)
        ctx.case(("entry", k, ev, kind, len(ts)), kind="entry:%s" % kind)
        C.add("adaptive_entry", "ENTRY %s %d %d %s" % (k, ev, _close_bit(ts), _ints(ts)), real, {"grid": ts, "kind": k, "event": ev})


def corr_propagate(ctx, C, n_cases):
    """The real `_propagate_dynsys` (and the real `integrate` methods it dispatches to); only the compiled drivers are stubbed."""
    from hiten.algorithms.dynamics.base import _propagate_dynsys
    from hiten.algorithms.integrators import rk
    from hiten.algorithms.integrators import symplectic as sy
    rng = ctx.rng
    hs, _, yh = _poly_ham_system()
    usr, _, yu, _ = _user_system("rotation")
    calls = []

    def spy(cls):
        orig = cls.__dict__["integrate"]

        def integrate(self, system, y0, t_vals, **kw):
            calls.append((getattr(system, "_fwd", None), getattr(system, "_flip_idx", "missing"), np.array(t_vals, dtype=float)))
            return orig(self, system, y0, t_vals, **kw)
        return integrate

    def k_fixed(f, y0, t_vals, *a):
        s = np.zeros((t_vals.size, y0.size))
        return s, s.copy()

    def k_adapt(**kw):
        s = np.zeros((kw["t_eval"].size, kw["y0"].size))
        return s, s.copy()

    def k_sym(initial_state_6d, t_values, jac_H, clmo_H, order, c_omega_heuristic=20.0):
        return np.zeros((len(t_values), 6))

    with contextlib.ExitStack() as st:
        for cls in (rk._FixedStepRK, rk._RK45, rk._DOP853, sy._ExtendedSymplectic):
            st.enter_context(_patched(cls, "integrate", spy(cls)))
        st.enter_context(_patched(rk._FixedStepRK, "_integrate_fixed_rk", staticmethod(k_fixed)))
        st.enter_context(_patched(rk._RK45, "_integrate_rk45", staticmethod(k_adapt)))
        st.enter_context(_patched(rk._DOP853, "_integrate_dop853", staticmethod(k_adapt)))
        st.enter_context(_patched(sy, "_integrate_symplectic", k_sym))
        for _ in range(n_cases):
            method = rng.choice(["fixed", "adaptive", "symplectic"])
            order = {"fixed": rng.choice([4, 6, 8]), "adaptive": rng.choice([5, 8]), "symplectic": rng.choice([2, 4, 6])}[method]
            forward = rng.choice([1, -1, -1, -1, 1, 2, -2, 0])
            n = rng.choice([0, 1, 2, 2, 3, 5, 9, 17])
            d = rng.choice([0, 1, 3, -2, 5, 8, -1]) * BIG
            if rng.random() < 0.15:
                d = rng.choice([1, -1, 2])          # span below np.isclose's tolerance -> zero-span short circuit
            t0 = rng.choice([0, 0, 0, 3, -5, 40]) * BIG
            flip = rng.choice([None, None, [1], [0, 1]])
            sysm, y0 = (hs, yh) if method == "symplectic" else (usr, yu)
            if method == "symplectic" and flip is not None:
                flip = [0, 3]
            tf = t0 + d * (n - 1)
            grid = np.linspace(t0 * TICK, tf * TICK, n) if n > 0 else np.array([])
            gt = _to_ticks(grid)
            if gt != [t0 + d * i for i in range(n)]:
                continue
            del calls[:]
            ctx.case(("propagate", method, order, forward, n, d, t0, str(flip)), kind="propagate:%s:fwd%d" % (method, forward))
            try:
                sol = _propagate_dynsys(sysm, y0, t0 * TICK, tf * TICK, forward=forward, steps=n, method=method, order=order,
                                        flip_indices=flip)
                real_tail = "times=%s n=%d" % (_ints(_to_ticks(sol.times)), len(sol.states))
            except Exception as ex:
                real_tail = "err:" + _err_class(ex)
            nf = 1 if forward >= 0 else -1
            call_s = "call=%d/%s/%s" % (nf, "none" if flip is None else _ints(flip), _ints(gt))
            if calls:
                f_, fl_, g_ = calls[0]
                seen = "call=%s/%s/%s" % (f_, "none" if fl_ is None else _ints(fl_), _ints(_to_ticks(g_)))
                if seen != call_s:
                    call_s = seen + " (REAL CALL)"
            cl = _close_bit(gt) if n >= 2 else 0
            line = "PROP %s %s %d %s %d %d %d %d" % (method, "45" if order == 5 else "853", forward,
                                                     "none" if flip is None else _ints(flip), t0, d, n, cl)
            C.add("propagate_dynsys", line, "prop " + call_s + " " + real_tail,
                  {"method": method, "order": order, "forward": forward, "t0": t0, "d": d, "n": n, "flip": flip})


def correspondence(ctx):
    C = _Corr(ctx)
    n = 160 if ctx.thorough() else 45
    corr_validate_fixed_sym(ctx, C, n)
    corr_adaptive(ctx, C, 2 * n)
    corr_propagate(ctx, C, 3 * n)
    bad = C.flush() or {}
    ctx.extra["correspondence_cases"] = ctx.corr_cases
    return bad


# =====================================================================================================
# numerical shell on the real compiled code (validation of the model's oracles + failing-input search)
# =====================================================================================================

KEY_DOP853_DESC = "adaptive-descending-grid:DOP853"
KEY_EVENT_DESC = "adaptive-descending-event:%s"
KEY_SYM_TIMES = "symplectic-backward-times-sign"
KEY_DIR_NONAUTO = "directed-nonautonomous-time"


_REPORTED = set()


def _viol(ctx, key, what, replay):
    """one report per key and run (the first concrete input found)"""
    if key in _REPORTED:
        return
    _REPORTED.add(key)
    ctx.violation(key, what, replay)


def _maxerr(a, b):
    return float(np.max(np.abs(np.asarray(a, dtype=float) - np.asarray(b, dtype=float))))


def validate_dense_at_zero(ctx):
    """Oracle hypothesis of `adaptive_ascending_faithful`: the dense interpolants at x = 0 return the left node exactly."""
    from hiten.algorithms.integrators import rk
    from hiten.algorithms.integrators.coefficients.rk45 import P as P45
    rs = np.random.RandomState(ctx.rng.randrange(2 ** 31))
    bad = 0
    for _ in range(50):
        dim = rs.randint(1, 7)
        y = rs.randn(dim)
        Q = rs.randn(dim, P45.shape[1]) * 10.0 ** rs.randint(-3, 4)
        F = rs.randn(7, dim) * 10.0 ** rs.randint(-3, 4)
        h = float(rs.choice([-1, 1]) * 10.0 ** rs.uniform(-4, 1))
        a = rk._rk45_eval_dense(y, Q, P45, 0.0, h)
        b = rk._dop853_eval_dense(y, F, 7, 0.0)
        ctx.traces_validated += 2
        if not (np.array_equal(a, y) and np.array_equal(b, y)):
            bad += 1
    ok = bad == 0
    ctx.obligations["oracle:dense-interpolant-at-0-is-left-node"] = ok
    if not ok:
        ctx.broken.append(("oracle:dense-interpolant-at-0-is-left-node", "%d of 50 evaluations at x=0 differ from y_old" % bad))


def _classify(err_desc, err_ref):
    """faithful unless the error is orders of magnitude above what the same integrator achieves on the mirrored (ascending) problem"""
    return "correct" if err_desc <= 1e3 * max(err_ref, 1e-12) or err_desc <= 1e-7 else "wrong"


def numerics_lowlevel(ctx):
    """Every low-level integrator on strictly decreasing grids against closed-form solutions: correct | rejected | wrong."""
    from hiten.algorithms.integrators import rk
    rng = ctx.rng
    kinds = ["rotation", "nonauto"] + (["riccati"] if ctx.thorough() else [])
    table = {}
    integs = [("RK%d" % p, (lambda p=p: rk.FixedRK(p))) for p in sorted(rk.FixedRK._map)]
    integs += [("RK45", lambda: rk.AdaptiveRK(5, rtol=1e-10, atol=1e-10)), ("DOP853", lambda: rk.AdaptiveRK(8, rtol=1e-10, atol=1e-10))]
    for kind in kinds:
        sysm, exact, y0, _ = _user_system(kind)
        for name, mk in integs:
            reps = 3 if ctx.thorough() else 1
            for rep in range(reps):
                T = rng.choice([0.5, 1.0, 1.5, 2.0])
                n = rng.choice([2, 21, 64]) if name in ("RK45", "DOP853") else rng.choice([201, 401])
                if rng.random() < 0.5 and n > 2:
                    inc = np.sort(np.array([rng.random() for _ in range(n - 2)])) * T      # non-uniform grid
                    inc = np.concatenate([[0.0], inc, [T]])
                    if np.any(np.diff(inc) <= 0) or name.startswith("RK") and name not in ("RK45",) and np.max(np.diff(inc)) > 0.05:
                        inc = np.linspace(0.0, T, n)
                else:
                    inc = np.linspace(0.0, T, n)
                if rep == 0:
                    inc = np.concatenate([[0.0, 1e-10], inc[1:]])      # tiny first step: not a zero-span grid
                t_start = rng.choice([0.0, 0.0, 0.25])
                g_desc = t_start - inc
                g_asc = t_start + inc
                ctx.case(("lowlevel", kind, name, T, n, t_start), kind="lowlevel:%s" % name,
                         sample={"system": kind, "integrator": name, "grid": "desc %g..%g (%d)" % (g_desc[0], g_desc[-1], n)} if rep == 0 else None)
                # reference accuracy on the ascending grid (also: stamps / first sample there)
                sol_a = mk().integrate(sysm, y0, g_asc.copy())
                ex_a = np.array([exact(t - t_start, y0) if kind != "nonauto" else _nonauto_exact(t_start, t, y0) for t in g_asc])
                err_a = _maxerr(sol_a.states, ex_a)
                if not (np.array_equal(sol_a.times, g_asc) and np.array_equal(sol_a.states[0], y0)):
                    _viol(ctx, "samples-at-requested-times:%s" % name, "%s: returned times differ from the requested grid or first sample is not y0" % name,
                                  {"system": kind, "integrator": name, "grid": g_asc.tolist(), "times": np.asarray(sol_a.times).tolist(),
                                   "first_state": np.asarray(sol_a.states[0]).tolist(), "y0": y0.tolist()})
                if err_a > 1e-5:
                    _viol(ctx, "ascending-grid-accuracy:%s" % name, "%s: error %.3g on an ascending grid" % (name, err_a),
                                  {"system": kind, "integrator": name, "grid": g_asc.tolist(), "max_error": err_a})
                try:
                    sol_d = mk().integrate(sysm, y0, g_desc.copy())
                except Exception as ex:
                    table.setdefault(name, set()).add("rejected:" + type(ex).__name__)
                    continue
                ex_d = np.array([exact(t - t_start, y0) if kind != "nonauto" else _nonauto_exact(t_start, t, y0) for t in g_desc])
                err_d = _maxerr(sol_d.states, ex_d)
                verdict = _classify(err_d, err_a)
                if not (np.array_equal(sol_d.times, g_desc) and np.array_equal(sol_d.states[0], y0)):
                    verdict = "wrong"
                table.setdefault(name, set()).add(verdict)
                if verdict == "wrong":
                    const = bool(np.all(sol_d.states == y0))
                    key = KEY_DOP853_DESC if name == "DOP853" else "descending-grid:%s" % name
                    _viol(ctx, key, "%s.integrate on a strictly decreasing grid returns a silently wrong trajectory (%s; max error %.3g, ascending reference %.3g)" % (
                        name, "constant y0 at every requested time" if const else "not the flow", err_d, err_a),
                        {"call": "hiten.algorithms.integrators.rk: %s.integrate(system, y0, t_vals)" % name, "system": kind, "y0": y0.tolist(),
                         "t_vals": g_desc.tolist(), "expected_last_state": ex_d[-1].tolist(), "observed_last_state": np.asarray(sol_d.states[-1]).tolist(),
                         "max_error": err_d, "error_on_mirrored_ascending_grid": err_a, "constant_y0": const})
    # ---- event-enabled paths with tmax < t0 (rotation: y0 = (1, 0.25); x = 0.5 is crossed at t = -0.8194 going backward)
    sysm, exact, y0, _ = _user_system("rotation")

    def ev(t, y):
        return y[0] - 0.5

    for name, mk in integs:
        tmax = -rng.choice([1.0, 1.5, 2.0])
        grid = np.linspace(0.0, tmax, 201) if name not in ("RK45", "DOP853") else np.array([0.0, tmax])
        ctx.case(("event-desc", name, tmax), kind="event-desc:%s" % name)
        try:
            sol = mk().integrate(sysm, y0, grid, event_fn=ev)
        except Exception as ex:
            table.setdefault(name + "+event", set()).add("rejected:" + type(ex).__name__)
            continue
        t_end = float(sol.times[-1])
        err = _maxerr(sol.states[-1], exact(t_end, y0))
        on_event = abs(float(sol.states[-1][0]) - 0.5) < 1e-8
        verdict = "correct" if (err < 1e-6 and tmax - 1e-12 <= t_end <= 1e-12 and (on_event or t_end == tmax)) else "wrong"
        table.setdefault(name + "+event", set()).add(verdict)
        if verdict == "wrong":
            key = KEY_EVENT_DESC % name if name in ("RK45", "DOP853") else "descending-event:%s" % name
            _viol(ctx, key, "%s.integrate(event_fn=...) with tmax < t0 returns the initial state as the state at tmax=%g (error %.3g)" % (name, tmax, err),
                          {"call": "%s.integrate(system, y0, [0, %g], event_fn=y[0]-0.5)" % (name, tmax), "system": "rotation", "y0": y0.tolist(),
                           "returned_times": np.asarray(sol.times).tolist(), "returned_states": np.asarray(sol.states).tolist(),
                           "expected_state_at_returned_time": exact(t_end, y0).tolist(), "error": err})
    ctx.extra["descending_grid_outcomes"] = {k: sorted(v) for k, v in table.items()}
    return table


def _nonauto_exact(t_start, t, y0):
    # y' = t, z' = cos(t) z  started at t_start
    return np.array([y0[0] + 0.5 * (t * t - t_start * t_start), y0[1] * np.exp(np.sin(t) - np.sin(t_start))])


def numerics_propagate(ctx):
    """`_propagate_dynsys`: stamps, flow at -t, forward∘backward round trip, selective flipping; symplectic low level."""
    from scipy.integrate import solve_ivp
    from hiten.algorithms.dynamics.base import _DirectedSystem, _propagate_dynsys
    from hiten.algorithms.dynamics.rtbp import rtbp_dynsys, variational_dynsys
    from hiten.algorithms.integrators import rk
    from hiten.algorithms.integrators import symplectic as sy
    rng = ctx.rng
    mu = 0.012150585609624
    cases = []
    rot, rot_exact, rot_y0, _ = _user_system("rotation")
    non, non_exact, non_y0, _ = _user_system("nonauto")
    methods_all = [("fixed", 4), ("fixed", 6), ("fixed", 8), ("adaptive", 5), ("adaptive", 8)]
    cases += [("rotation", rot, rot_y0, m, o) for m, o in methods_all]
    cases += [("nonauto", non, non_y0, m, o) for m, o in (methods_all if ctx.thorough() else [("fixed", 8), ("adaptive", 8)])]
    x0 = np.array([0.8, 0.0, 0.05, 0.0, 0.15, 0.0])
    cases += [("crtbp", rtbp_dynsys(mu), x0, m, o) for m, o in (methods_all if ctx.thorough() else [("fixed", 8), ("adaptive", 8)])]
    v0 = np.concatenate([np.eye(6).ravel(), x0])
    cases += [("variational", variational_dynsys(mu), v0, m, o) for m, o in ([("fixed", 6), ("adaptive", 8), ("adaptive", 5)] if ctx.thorough() else [("adaptive", 8)])]
    hs, hfield, hy0 = _poly_ham_system()
    cases += [("polyham", hs, hy0, "symplectic", o) for o in ([2, 4, 6, 8] if ctx.thorough() else [4, 6])]
    # the polynomial Hamiltonian system also goes through the RK drivers' Hamiltonian fast paths (`*_ham` kernels), forward and backward
    cases += [("polyham", hs, hy0, m, o) for m, o in (methods_all if ctx.thorough() else [("fixed", 4), ("fixed", 8), ("adaptive", 5), ("adaptive", 8)])]
    rt_table = {}
    for name, sysm, y0, method, order in cases:
        T = rng.choice([0.75, 1.0, 1.25])
        steps = {("fixed", 4): 2001, ("fixed", 6): 801, ("fixed", 8): 401}.get((method, order), 33)
        if method == "symplectic":
            steps = {2: 4001, 4: 801, 6: 401, 8: 201}[order]
        kw = dict(rtol=1e-11, atol=1e-11) if method == "adaptive" else {}
        ctx.case(("propagate-num", name, method, order, T), kind="roundtrip:%s:%s" % (name, method),
                 sample={"system": name, "method": method, "order": order, "T": T})
        try:
            sol_f = _propagate_dynsys(sysm, y0, 0.0, T, forward=1, steps=steps, method=method, order=order, **kw)
            sol_b = _propagate_dynsys(sysm, sol_f.states[-1], 0.0, T, forward=-1, steps=steps, method=method, order=order, **kw)
            sol_m = _propagate_dynsys(sysm, y0, 0.0, T, forward=-1, steps=steps, method=method, order=order, **kw)
        except Exception as ex:
            _viol(ctx, "propagate-raises:%s:%s" % (name, method), "_propagate_dynsys raised %s" % type(ex).__name__,
                          {"system": name, "method": method, "order": order, "error": str(ex)[:300]})
            continue
        grid = np.linspace(0.0, T, steps)
        scale = 1.0 + float(np.max(np.abs(y0)))
        # (a) stamps
        tb = np.asarray(sol_m.times, dtype=float)
        stamps_ok = (np.array_equal(tb, -grid) and np.all(tb <= 0.0) and np.all(np.diff(tb) < 0.0)
                     and np.array_equal(np.asarray(sol_f.times, dtype=float), grid))
        if not stamps_ok:
            key = KEY_SYM_TIMES if method == "symplectic" else "backward-times-sign:%s" % method
            _viol(ctx, key, "_propagate_dynsys(method=%r, forward=-1): returned times run %g … %g, expected 0 … %g (non-positive, decreasing)" % (
                method, tb[0], tb[-1], -T),
                {"call": "_propagate_dynsys(sys, y0, 0, %g, forward=-1, steps=%d, method=%r, order=%d)" % (T, steps, method, order), "system": name,
                 "expected_times_first_last": [0.0, -T], "observed_times_first_last": [float(tb[0]), float(tb[-1])],
                 "observed_times_head": tb[:4].tolist()})
        # (b) first sample, sample count
        if not (np.array_equal(sol_m.states[0], y0) and len(sol_m.states) == steps):
            _viol(ctx, "first-sample:%s" % method, "first returned state is not the initial state", {"system": name, "method": method, "order": order})
        # (c) the backward end state is the flow at -T (independent reference: SciPy on the base field, integrated towards -T)
        if name == "polyham":
            fref = hfield
        else:
            rhs = sysm.rhs
            fref = lambda t, y, rhs=rhs: rhs(t, y)
        ref = solve_ivp(fref, [0.0, -T], y0, method="DOP853", rtol=1e-12, atol=1e-13).y[:, -1]
        ref_f = solve_ivp(fref, [0.0, T], y0, method="DOP853", rtol=1e-12, atol=1e-13).y[:, -1]
        err_fwd = _maxerr(sol_f.states[-1], ref_f) / scale        # what this method/step count achieves in the forward direction
        err_flow = _maxerr(sol_m.states[-1], ref) / scale
        # (d) round trip
        err_rt = _maxerr(sol_b.states[-1], y0) / scale
        rt_table["%s:%s%d" % (name, method, order)] = {"roundtrip": err_rt, "flow_at_minus_T": err_flow}
        rt_table["%s:%s%d" % (name, method, order)]["forward"] = err_fwd
        # direction / sign defects are O(T) ~ 1.  Accept anything within 1000x of the forward accuracy of the same configuration
        # (backward integration of these systems is as well conditioned as forward over T ~ 1), with an absolute floor.
        tol = max(1e-7, 1e3 * err_fwd)
        if err_fwd > 1e-3:
            _viol(ctx, "forward-accuracy:%s:%s" % (name, method), "forward propagation itself is inaccurate (%.3g)" % err_fwd,
                  {"system": name, "method": method, "order": order, "T": T, "steps": steps, "relative_error": err_fwd})
        if err_flow > tol:
            key = KEY_DIR_NONAUTO if name == "nonauto" else "backward-is-not-flow-at-minus-t:%s:%s" % (name, method)
            _viol(ctx, key, "_propagate_dynsys(forward=-1) for duration %g does not return the state the flow had at time -%g (system %s, method %s/%d): relative error %.3g" % (
                T, T, name, method, order, err_flow),
                {"call": "_propagate_dynsys(sys, y0, 0, %g, forward=-1, steps=%d, method=%r, order=%d)" % (T, steps, method, order), "system": name,
                 "y0": y0.tolist(), "expected_state_at_minus_T": ref.tolist(), "observed": np.asarray(sol_m.states[-1]).tolist(), "relative_error": err_flow})
        if err_rt > tol and name != "nonauto":
            _viol(ctx, "roundtrip:%s:%s" % (name, method), "forward then backward for %g does not return to the start (system %s, method %s/%d): relative error %.3g" % (
                T, name, method, order, err_rt),
                {"system": name, "method": method, "order": order, "T": T, "steps": steps, "y0": y0.tolist(),
                 "returned": np.asarray(sol_b.states[-1]).tolist(), "relative_error": err_rt})
    ctx.extra["roundtrip_relative_errors"] = rt_table
    # ---- selective flipping means what it says: flip=[all] == None; flip=[1] on the rotation gives y' = (y1, +y0)
    T = 1.0
    s_none = _propagate_dynsys(rot, rot_y0, 0.0, T, forward=-1, steps=401, method="fixed", order=8)
    s_all = _propagate_dynsys(rot, rot_y0, 0.0, T, forward=-1, steps=401, method="fixed", order=8, flip_indices=[0, 1])
    s_one = _propagate_dynsys(rot, rot_y0, 0.0, T, forward=-1, steps=401, method="fixed", order=8, flip_indices=[1])
    hyp = np.array([rot_y0[0] * np.cosh(T) + rot_y0[1] * np.sinh(T), rot_y0[0] * np.sinh(T) + rot_y0[1] * np.cosh(T)])
    ctx.case(("flip",), kind="flip")
    if not np.array_equal(s_none.states, s_all.states) or _maxerr(s_one.states[-1], hyp) > 1e-9:
        _viol(ctx, "selective-flip", "flip_indices does not negate exactly the listed components",
                      {"flip_all_equals_none": bool(np.array_equal(s_none.states, s_all.states)), "flip_[1]_end": s_one.states[-1].tolist(), "expected": hyp.tolist()})
    # ---- symplectic low level: descending grid == directed system on the ascending grid; requested times
    integ = sy._ExtendedSymplectic(order=6)
    g = np.linspace(0.0, 1.0, 201)
    s_desc = integ.integrate(hs, hy0, -g)
    s_dir = integ.integrate(_DirectedSystem(hs, -1), hy0, g.copy())
    ref = solve_ivp(hfield, [0.0, -1.0], hy0, method="DOP853", rtol=1e-12, atol=1e-13).y[:, -1]
    ctx.case(("symplectic-lowlevel",), kind="symplectic-lowlevel")
    e1 = _maxerr(s_desc.states[-1], ref)
    s_asc = integ.integrate(hs, hy0, g.copy())
    e_asc = _maxerr(s_asc.states[-1], solve_ivp(hfield, [0.0, 1.0], hy0, method="DOP853", rtol=1e-12, atol=1e-13).y[:, -1])
    ctx.extra["symplectic_lowlevel_errors"] = {"descending": e1, "ascending": e_asc}
    if _classify(e1, e_asc) == "wrong" or not np.array_equal(s_desc.times, -g) or not np.array_equal(s_desc.states[0], hy0):
        _viol(ctx, "descending-grid:Symplectic", "symplectic integrator on a descending grid: error %.3g / wrong stamps" % e1,
                      {"error": e1, "times_first_last": [float(s_desc.times[0]), float(s_desc.times[-1])]})
    if not np.array_equal(s_desc.states, s_dir.states):
        _viol(ctx, "symplectic-directed-vs-descending", "directed system on an ascending grid and base system on the negated grid differ", {})
    if not np.array_equal(np.asarray(s_dir.times), g):
        # same defect as KEY_SYM_TIMES seen at the integrator level (clause: samples are returned exactly at the requested times)
        ctx.extra["symplectic_integrate_fwd-1_times"] = {"requested_first_last": [0.0, 1.0], "returned_first_last": [float(s_dir.times[0]), float(s_dir.times[-1])]}
        _viol(ctx, KEY_SYM_TIMES, "_ExtendedSymplectic.integrate(directed system, t_vals) returns times -t_vals instead of the requested t_vals; "
                      "_propagate_dynsys(method='symplectic', forward=-1) then signs them again (stamps 0…+T for the flow at 0…-T)",
                      {"call": "_ExtendedSymplectic(6).integrate(_DirectedSystem(hamsys,-1), y0, linspace(0,1,201))",
                       "requested_times_first_last": [0.0, 1.0], "returned_times_first_last": [float(s_dir.times[0]), float(s_dir.times[-1])]})


def numerics_event_stamps(ctx):
    """`_propagate_dynsys(forward=-1, event_fn=...)`: the trajectory is cut at the event; its stamps are signed like every other backward
    trajectory (0 first, non-positive, decreasing) and every method reports the same (negative) event time."""
    from hiten.algorithms.dynamics.base import _propagate_dynsys
    from hiten.algorithms.types.configs import EventConfig
    hs, hfield, _ = _poly_ham_system()
    y0 = np.array([0.3, 0.0, 0.0, 0.2, 0.0, 0.0])      # dq1/dt = p1 > 0: going backward q1 decreases through 0

    def g(t, y):
        return y[0]

    out = {}
    for method, order in (("adaptive", 8), ("fixed", 8), ("symplectic", 6), ("symplectic", 4)):
        ctx.case(("event-stamps", method, order), nontrivial=True, kind="event-stamps:%s" % method)
        try:
            sol = _propagate_dynsys(hs, y0.copy(), 0.0, 3.0, forward=-1, steps=3001, method=method, order=order,
                                    event_fn=g, event_cfg=EventConfig(direction=0, terminal=True))
        except Exception as ex:
            _viol(ctx, "event-stamps-raises:%s" % method, "_propagate_dynsys(forward=-1, event_fn=...) raised %s" % type(ex).__name__, {"method": method, "order": order, "error": str(ex)[:300]})
            continue
        t = np.asarray(sol.times, dtype=float)
        out[(method, order)] = t
        if not (t[0] == 0.0 and np.all(t <= 0.0) and np.all(np.diff(t) < 0.0) and abs(float(sol.states[-1][0])) < 1e-6):
            _viol(ctx, "backward-event-times-sign:%s" % method,
                  "_propagate_dynsys(method=%r, forward=-1, event_fn=q1) returns times %r (expected 0 first, then negative and decreasing; q1 at the stop %.3g)" % (
                      method, t[-3:].tolist(), float(sol.states[-1][0])),
                  {"call": "_propagate_dynsys(hamsys, y0, 0, 3, forward=-1, steps=3001, method=%r, order=%d, event_fn=lambda t,y: y[0], event_cfg=EventConfig(direction=0, terminal=True))" % (method, order),
                   "y0": y0.tolist(), "times_tail": t[-3:].tolist(), "q1_at_stop": float(sol.states[-1][0])})
    ref = out.get(("adaptive", 8))
    if ref is not None:
        for key, t in out.items():
            if abs(t[-1] - ref[-1]) > 1e-5:
                _viol(ctx, "backward-event-time-disagrees:%s" % key[0], "method %s/%d stops at t=%.9g, the adaptive order-8 run at t=%.9g" % (key[0], key[1], t[-1], ref[-1]),
                      {"method": key[0], "order": key[1], "t_stop": float(t[-1]), "t_stop_adaptive8": float(ref[-1])})


def numerics_public(ctx):
    """the public entry point `System.propagate(..., forward=+-1)` on ONE system object (its service caches trajectories): forward then
    backward with otherwise identical arguments, and the other way round; stamps, first sample, flow at -T (SciPy reference)."""
    from scipy.integrate import solve_ivp
    from hiten import System
    from hiten.algorithms.dynamics.rtbp import _crtbp_accel
    rng = ctx.rng
    mu = 0.0121505856
    system = System.from_mu(mu)
    f = lambda t, y: _crtbp_accel(y, mu)
    for first in (1, -1):
        x0 = np.array([0.8 + 0.02 * rng.uniform(-1, 1), 0.0, 0.05, 0.0, 0.15 + 0.02 * rng.uniform(-1, 1), 0.0])
        T = rng.choice([0.75, 1.0, 1.25])
        steps = 33
        for fwd in (first, -first):
            ctx.case(("public-propagate", first, fwd, T), kind="public:%+d-then-%+d" % (first, -first))
            try:
                traj = system.propagate(x0, tf=T, steps=steps, method="adaptive", order=8, forward=fwd)
            except Exception as ex:
                _viol(ctx, "public-propagate-raises", "System.propagate raised %s" % type(ex).__name__, {"forward": fwd, "error": str(ex)[:300]})
                return
            ts = np.asarray(traj.times, dtype=float)
            xs = np.asarray(traj.states, dtype=float)
            ref = solve_ivp(f, [0.0, fwd * T], x0, method="DOP853", rtol=1e-12, atol=1e-13).y[:, -1]
            err = _maxerr(xs[-1], ref) / (1.0 + float(np.max(np.abs(x0))))
            ok_t = np.array_equal(ts, fwd * np.linspace(0.0, T, steps)) and np.array_equal(xs[0], x0)
            if not ok_t or err > 1e-7:
                _viol(ctx, "public-propagate:history:%+d-then-%+d" % (first, -first),
                      "System.propagate(y0, tf=%g, forward=%+d) after the same call with forward=%+d on the same System: stamps %g … %g, end state off the flow at %+g by %.3g" % (
                          T, fwd, first, ts[0], ts[-1], fwd * T, err),
                      {"call_sequence": ["system.propagate(y0, tf=%g, steps=%d, method='adaptive', order=8, forward=%+d)" % (T, steps, d) for d in ((first,) if fwd == first else (first, fwd))],
                       "y0": x0.tolist(), "times_first_last": [float(ts[0]), float(ts[-1])], "end_state": xs[-1].tolist(), "expected_end_state": ref.tolist(), "relative_error": err})
                return


def check_cfg_against_findings(ctx, cfg):
    """Each switch value that makes a clause fail (negation theorems in Props/C10.lean) must be rediscovered as a concrete
    failing input by the numerical search above; report if a negation is 'proved' but no failing input was found."""
    found = {v["key"] for v in ctx.violations} | {k["key"] for k in ctx.known}
    expect = []
    if not cfg["guards"]["853"]:
        expect.append(KEY_DOP853_DESC)
    if not cfg["guards"]["Event45"]:
        expect.append(KEY_EVENT_DESC % "RK45")
    if not cfg["guards"]["Event853"]:
        expect.append(KEY_EVENT_DESC % "DOP853")
    if cfg["symTimesSign"] != 1:
        expect.append(KEY_SYM_TIMES)
    if cfg["dirTimeCoef"] != -1:
        expect.append(KEY_DIR_NONAUTO)
    missing = [k for k in expect if k not in found]
    ctx.extra["defect_switches"] = {"expected_findings": expect, "not_rediscovered_on_real_code": missing}
    for k in missing:
        ctx.broken.append(("witness-on-real-code:" + k, "the model says the clause fails for the extracted switches, but the real code did not show the failing input"))
        ctx.obligations["witness-on-real-code:" + k] = False


# =====================================================================================================
# run
# =====================================================================================================

PROP_MODS = ["HitenModel.Props.C10"]
SRC_MODS = ["HitenModel.Props.C10", "HitenModel.Gen.C10", "HitenModel.Core.C10", "HitenModel.Lemmas.C10", "HitenModel.Lemmas.C10Model"]


def run(ctx):
    import hiten  # noqa: F401  (numba compile at import)
    ctx.guard("regenerate", gen, ctx)
    ok = ctx.lean_build(PROP_MODS)
    if ok:
        ctx.lean_audit(PROP_MODS, SRC_MODS)
        if ctx.thorough():
            ctx.leanchecker(PROP_MODS)
    ctx.guard("correspondence", correspondence, ctx)
    ctx.guard("validate_dense_at_zero", validate_dense_at_zero, ctx)
    numerics_lowlevel(ctx)
    numerics_propagate(ctx)
    numerics_event_stamps(ctx)
    numerics_public(ctx)
    if "cfg" in _CACHE:
        check_cfg_against_findings(ctx, _CACHE["cfg"])
    ctx.search_ran = True
    ctx.assumptions += [
        "times are modelled as integer ticks of an arbitrary dyadic unit (every float64 grid is such a grid); float rounding of t+h is not modelled",
        "Runge-Kutta step, step-size controller, dense interpolant and np.isclose are oracle parameters of the model (theorems hold for all oracles; "
        "the correspondence replays the oracle answers of the real run); exact-flow statements use `IsFlow` oracles",
        "flow-level theorems: global C1 solutions staying in a set where the field is Lipschitz (Mathlib ODE_solution_unique_univ)",
        "np.searchsorted/numba semantics of negative indices are taken from numpy when the python bodies of the compiled drivers are executed",
    ]
    ctx.notes.append("all clauses are carried at full strength for the switches of the current tree (*_current theorems, re-decided against the regenerated "
                     "Gen.C10.cfg); *_old_* / *_unguarded theorems document, in the model, the three defects repaired by de81dee, 5667fce, c3c4fba; "
                     "a regression of a repair flips a switch: the *_current theorem breaks and the numerical search re-finds the concrete input")
    ctx.rule = ("cells = (entry point, integrator/method/order, direction, grid kind [ascending/descending/zero-span/non-monotone/short], "
                "grid size, controller oracle); distinct by that tuple; non-trivial = the case reaches a step loop or a sign decision")
