/- Lemmas/C06Poly.lean — semantics of coefficient blocks in Mathlib's `MvPolynomial (Fin 6) K` and the kernel lemmas. -/
import Mathlib.Algebra.MvPolynomial.PDeriv
import Mathlib.Algebra.MvPolynomial.Eval
import Mathlib.Data.List.Perm.Basic
import Mathlib.Algebra.BigOperators.Group.List.Basic
import HitenModel.Lemmas.C06

set_option linter.unusedSectionVars false

open MvPolynomial
namespace HitenModel.C06

/-! ### list level -/
section lists
variable {K : Type}

@[simp] theorem length_zeros [OfNat K 0] (n : Nat) : (zeros n : List K).length = n := by simp [zeros]

theorem getD_zeros [OfNat K 0] (n i : Nat) : (zeros n : List K).getD i 0 = 0 := by
  unfold zeros
  rw [List.getD_eq_getElem?_getD, List.getElem?_replicate]
  split <;> rfl

@[simp] theorem length_addAt [Add K] : ∀ (p : List K) (i : Nat) (v : K), (addAt p i v).length = p.length
  | [], _, _ => rfl
  | _ :: _, 0, _ => rfl
  | _ :: as, n + 1, v => by simp [addAt, length_addAt as n v]

theorem getD_addAt [Add K] (z : K) : ∀ (p : List K) (i : Nat) (v : K) (j : Nat),
    (addAt p i v).getD j z = if j = i ∧ i < p.length then p.getD j z + v else p.getD j z
  | [], _, _, _ => by simp [addAt]
  | a :: as, 0, v, 0 => by simp [addAt]
  | a :: as, 0, v, j + 1 => by simp [addAt]
  | a :: as, n + 1, v, 0 => by simp [addAt]
  | a :: as, n + 1, v, j + 1 => by
    simp only [addAt, List.getD_cons_succ, getD_addAt z as n v j, List.length_cons]
    simp

@[simp] theorem length_applyUpd [Add K] : ∀ (ups : List (Nat × K)) (acc : List K), (applyUpd acc ups).length = acc.length
  | [], _ => rfl
  | u :: us, acc => by
    unfold applyUpd; rw [List.foldl_cons]
    have := length_applyUpd us (addAt acc u.1 u.2)
    unfold applyUpd at this; rw [this, length_addAt]

theorem length_polyAdd [Add K] (p q : List K) : (polyAdd p q).length = min p.length q.length := by
  simp [polyAdd]

theorem getD_polyAdd [AddZeroClass K] (p q : List K) (h : p.length = q.length) (j : Nat) :
    (polyAdd p q).getD j 0 = p.getD j 0 + q.getD j 0 := by
  unfold polyAdd
  by_cases hj : j < p.length
  · have hq : j < q.length := h ▸ hj
    rw [List.getD_eq_getElem?_getD, List.getD_eq_getElem?_getD, List.getD_eq_getElem?_getD,
      List.getElem?_zipWith, List.getElem?_eq_getElem hj, List.getElem?_eq_getElem hq]
    rfl
  · have hq : ¬ j < q.length := h ▸ hj
    rw [List.getD_eq_default _ _ (by simp; omega), List.getD_eq_default _ _ (by omega),
      List.getD_eq_default _ _ (by omega), add_zero]

end lists

/-! ### semantics -/

/-- the monomial of an exponent list -/
noncomputable def mono (k : List Nat) : Fin 6 →₀ ℕ := Finsupp.equivFunOnFinite.symm (fun i => k.getD i.val 0)

@[simp] theorem mono_apply (k : List Nat) (i : Fin 6) : mono k i = k.getD i.val 0 := rfl

section sem
variable {K : Type} [CommSemiring K]

/-- the polynomial a coefficient block of degree `d` stands for: slot `i` is the coefficient of the monomial
`decode i d` -/
noncomputable def toMv (clmo : List (List Nat)) (d : Nat) (p : List K) : MvPolynomial (Fin 6) K :=
  ∑ i ∈ Finset.range p.length, monomial (mono (decode clmo i d)) (p.getD i 0)

/-- one `arr[idx] += v` statement, read as a polynomial -/
noncomputable def term (clmo : List (List Nat)) (d : Nat) (u : Nat × K) : MvPolynomial (Fin 6) K :=
  monomial (mono (decode clmo u.1 d)) u.2

theorem toMv_zeros (clmo : List (List Nat)) (d n : Nat) : toMv clmo d (zeros n : List K) = 0 := by
  unfold toMv
  apply Finset.sum_eq_zero
  intro i _
  rw [getD_zeros, monomial_zero]

theorem toMv_addAt (clmo : List (List Nat)) (d : Nat) (p : List K) (idx : Nat) (v : K) (h : idx < p.length) :
    toMv clmo d (addAt p idx v) = toMv clmo d p + term clmo d (idx, v) := by
  unfold toMv term
  rw [length_addAt]
  have : ∀ i ∈ Finset.range p.length, monomial (mono (decode clmo i d)) ((addAt p idx v).getD i 0)
      = monomial (mono (decode clmo i d)) (p.getD i 0) + (if i = idx then monomial (mono (decode clmo idx d)) v else 0) := by
    intro i _
    rw [getD_addAt]
    by_cases hi : i = idx
    · subst hi; simp [h]
    · simp [hi]
  rw [Finset.sum_congr rfl this, Finset.sum_add_distrib, Finset.sum_ite_eq' (Finset.range p.length) idx]
  simp [h]

theorem toMv_applyUpd (clmo : List (List Nat)) (d : Nat) : ∀ (ups : List (Nat × K)) (acc : List K),
    (∀ u ∈ ups, u.1 < acc.length) → toMv clmo d (applyUpd acc ups) = toMv clmo d acc + (ups.map (term clmo d)).sum
  | [], acc, _ => by simp [applyUpd]
  | u :: us, acc, h => by
    have h1 : u.1 < acc.length := h u (by simp)
    have ih := toMv_applyUpd clmo d us (addAt acc u.1 u.2) (fun w hw => by rw [length_addAt]; exact h w (by simp [hw]))
    unfold applyUpd at ih ⊢
    rw [List.foldl_cons, ih, toMv_addAt clmo d acc u.1 u.2 h1, List.map_cons, List.sum_cons, add_assoc]

theorem toMv_polyAdd (clmo : List (List Nat)) (d : Nat) (p q : List K) (h : p.length = q.length) :
    toMv clmo d (polyAdd p q) = toMv clmo d p + toMv clmo d q := by
  unfold toMv
  rw [length_polyAdd, ← h, Nat.min_self, ← Finset.sum_add_distrib]
  apply Finset.sum_congr rfl
  intro i _
  rw [getD_polyAdd p q h, map_add]

theorem length_reduceRows (n : Nat) : ∀ (rows : List (List K)) (acc : List K), acc.length = n → (∀ r ∈ rows, r.length = n) →
    (rows.foldl polyAdd acc).length = n
  | [], acc, h, _ => h
  | r :: rs, acc, h, hr => by
    rw [List.foldl_cons]
    apply length_reduceRows n rs
    · rw [length_polyAdd, h, hr r (by simp), Nat.min_self]
    · intro r' hr'; exact hr r' (by simp [hr'])

theorem toMv_foldl_polyAdd (clmo : List (List Nat)) (d n : Nat) : ∀ (rows : List (List K)) (acc : List K), acc.length = n →
    (∀ r ∈ rows, r.length = n) →
    toMv clmo d (rows.foldl polyAdd acc) = toMv clmo d acc + (rows.map (toMv clmo d)).sum
  | [], acc, _, _ => by simp
  | r :: rs, acc, h, hr => by
    have hrn : r.length = n := hr r (by simp)
    rw [List.foldl_cons, toMv_foldl_polyAdd clmo d n rs (polyAdd acc r) (by rw [length_polyAdd, h, hrn, Nat.min_self])
      (fun r' hr' => hr r' (by simp [hr'])), toMv_polyAdd clmo d acc r (by rw [h, hrn]), List.map_cons, List.sum_cons, add_assoc]

theorem length_threadRow (n : Nat) (upd : Nat → List (Nat × K)) (iters : List Nat) : (threadRow n upd iters).length = n := by
  simp [threadRow]

theorem length_parKernel (n : Nat) (upd : Nat → List (Nat × K)) (sched : List (List Nat)) : (parKernel n upd sched).length = n := by
  unfold parKernel reduceRows
  apply length_reduceRows n _ _ (length_zeros n)
  intro r hr
  obtain ⟨it, _, rfl⟩ := List.mem_map.mp hr
  exact length_threadRow n upd it

/-- the polynomial computed by the parallel kernel, for EVERY schedule: the sum of all update terms of all outer
iterations the schedule executes (each in whatever thread, in whatever order) -/
theorem toMv_parKernel (clmo : List (List Nat)) (d n : Nat) (upd : Nat → List (Nat × K)) (hupd : ∀ i, ∀ u ∈ upd i, u.1 < n)
    (sched : List (List Nat)) :
    toMv clmo d (parKernel n upd sched) = (sched.flatten.map fun i => ((upd i).map (term clmo d)).sum).sum := by
  unfold parKernel reduceRows
  rw [toMv_foldl_polyAdd clmo d n _ _ (length_zeros n) (by
    intro r hr
    obtain ⟨it, _, rfl⟩ := List.mem_map.mp hr
    exact length_threadRow n upd it), toMv_zeros, zero_add, List.map_map]
  induction sched with
  | nil => simp
  | cons it rest ih =>
    rw [List.map_cons, List.sum_cons, ih, List.flatten_cons, List.map_append, List.sum_append]
    congr 1
    simp only [Function.comp, threadRow]
    rw [toMv_applyUpd clmo d _ _ (by
      intro u hu
      obtain ⟨i, _, hi⟩ := List.mem_flatMap.mp hu
      rw [length_zeros]; exact hupd i u hi), toMv_zeros, zero_add]
    induction it with
    | nil => simp
    | cons a as ih2 => rw [List.flatMap_cons, List.map_append, List.sum_append, ih2, List.map_cons, List.sum_cons]

theorem sum_map_range_eq_finset {M : Type} [AddCommMonoid M] (f : Nat → M) (n : Nat) :
    ((List.range n).map f).sum = ∑ i ∈ Finset.range n, f i := by
  induction n with
  | zero => simp
  | succ n ih => rw [List.range_succ, List.map_append, List.sum_append, ih, Finset.sum_range_succ]; simp

/-- schedule independence at the level of the represented polynomial: any schedule that executes every outer iteration
exactly once (any assignment to threads, any order) yields `Σ_i Σ_{updates of i}` -/
theorem toMv_parKernel_perm (clmo : List (List Nat)) (d n N : Nat) (upd : Nat → List (Nat × K)) (hupd : ∀ i, ∀ u ∈ upd i, u.1 < n)
    (sched : List (List Nat)) (hs : sched.flatten.Perm (List.range N)) :
    toMv clmo d (parKernel n upd sched) = ∑ i ∈ Finset.range N, ((upd i).map (term clmo d)).sum := by
  rw [toMv_parKernel clmo d n upd hupd, ← sum_map_range_eq_finset]
  exact (hs.map _).sum_eq

end sem

/-! ### exponent lists -/

theorem length_decodePacked (d p : Nat) : (decodePacked d p).length = 6 := by simp [decodePacked]
theorem length_decode (T : List (List Nat)) (i d : Nat) : (decode T i d).length = 6 := length_decodePacked _ _

theorem psi_lt_enum {d i : Nat} (hi : i < psi 6 d) : i < (enum 6 d).length := by
  rw [psi6_eq_length] at hi; unfold clmoModel at hi; simpa using hi

theorem sum_decode {D d i : Nat} (hD : D ≤ 63) (hd : d ≤ D) (hi : i < psi 6 d) : (decode (mkTables D) i d).sum = d := by
  rw [decode_table hD hd (psi_lt_enum hi)]
  exact ((mem_enum 6 d _).mp (List.getElem_mem _)).2

theorem length_addIdx (a b : List Nat) : (addIdx a b).length = min a.length b.length := by simp [addIdx]

theorem sum_addIdx : ∀ (a b : List Nat), a.length = b.length → (addIdx a b).sum = a.sum + b.sum
  | [], [], _ => rfl
  | x :: a, y :: b, h => by
    have := sum_addIdx a b (by simpa using h)
    simp only [addIdx, List.zipWith_cons_cons, List.sum_cons] at this ⊢
    omega
  | [], _ :: _, h => by simp at h
  | _ :: _, [], h => by simp at h

theorem mono_addIdx {a b : List Nat} (ha : a.length = 6) (hb : b.length = 6) : mono (addIdx a b) = mono a + mono b := by
  obtain ⟨a0, a1, a2, a3, a4, a5, rfl⟩ := length_six ha
  obtain ⟨b0, b1, b2, b3, b4, b5, rfl⟩ := length_six hb
  ext i
  fin_cases i <;> simp [addIdx]

theorem mono_set_pred {k : List Nat} (hk : k.length = 6) (v : Fin 6) :
    mono (k.set v.val (k.getD v.val 0 - 1)) = mono k - Finsupp.single v 1 := by
  obtain ⟨a0, a1, a2, a3, a4, a5, rfl⟩ := length_six hk
  ext i
  fin_cases v <;> fin_cases i <;> simp

theorem mono_set_succ {k : List Nat} (hk : k.length = 6) (v : Fin 6) :
    mono (k.set v.val (k.getD v.val 0 + 1)) = mono k + Finsupp.single v 1 := by
  obtain ⟨a0, a1, a2, a3, a4, a5, rfl⟩ := length_six hk
  ext i
  fin_cases v <;> fin_cases i <;> simp

theorem sum_set_pred {k : List Nat} (hk : k.length = 6) (v : Fin 6) (h : k.getD v.val 0 ≠ 0) :
    (k.set v.val (k.getD v.val 0 - 1)).sum = k.sum - 1 := by
  obtain ⟨a0, a1, a2, a3, a4, a5, rfl⟩ := length_six hk
  fin_cases v <;> simp at h ⊢ <;> omega

theorem sum_set_succ {k : List Nat} (hk : k.length = 6) (v : Fin 6) :
    (k.set v.val (k.getD v.val 0 + 1)).sum = k.sum + 1 := by
  obtain ⟨a0, a1, a2, a3, a4, a5, rfl⟩ := length_six hk
  fin_cases v <;> simp <;> omega


/-! ### multiplication -/

section
variable {K : Type} [CommSemiring K] [DecidableEq K]

theorem sum_filterMap_range {α M : Type} [AddCommMonoid M] (f : Nat → Option α) (g : α → M) (n : Nat) :
    (((List.range n).filterMap f).map g).sum = ∑ j ∈ Finset.range n, (f j).elim 0 g := by
  induction n with
  | zero => simp
  | succ n ih =>
    rw [List.range_succ, List.filterMap_append, List.map_append, List.sum_append, ih, Finset.sum_range_succ]
    congr 1
    cases h : f n <;> simp [h]

/-- slot of a product monomial -/
theorem enc_add {D dp dq i j : Nat} (hD : D ≤ 63) (hd : dp + dq ≤ D) (hi : i < psi 6 dp) (hj : j < psi 6 dq) :
    ∃ idx, idx < psi 6 (dp + dq) ∧
      encode (mkTables D) (addIdx (decode (mkTables D) i dp) (decode (mkTables D) j dq)) (dp + dq) = some idx ∧
      mono (decode (mkTables D) idx (dp + dq)) = mono (decode (mkTables D) i dp) + mono (decode (mkTables D) j dq) := by
  have hl : (addIdx (decode (mkTables D) i dp) (decode (mkTables D) j dq)).length = 6 := by
    rw [length_addIdx, length_decode, length_decode]; rfl
  have hs : (addIdx (decode (mkTables D) i dp) (decode (mkTables D) j dq)).sum = dp + dq := by
    rw [sum_addIdx _ _ (by rw [length_decode, length_decode]), sum_decode hD (by omega) hi, sum_decode hD (by omega) hj]
  obtain ⟨idx, h1, h2, h3⟩ := encode_of_degree hD hd hl hs
  exact ⟨idx, h1, h2, by rw [h3, mono_addIdx (length_decode _ _ _) (length_decode _ _ _)]⟩

theorem mulUpd_bound {D dp dq : Nat} (hD : D ≤ 63) (hd : dp + dq ≤ D) (p q : List K) (hp : p.length = psi 6 dp)
    (hq : q.length = psi 6 dq) (i : Nat) : ∀ u ∈ mulUpd (mkTables D) p dp q dq i, u.1 < psi 6 (dp + dq) := by
  intro u hu
  unfold mulUpd at hu
  simp only at hu
  split at hu
  · cases hu
  · rename_i hpi
    have hi : i < psi 6 dp := by
      by_contra hc
      apply hpi
      rw [List.getD_eq_default _ _ (by omega)]
    obtain ⟨j, hj, hu⟩ := List.mem_filterMap.mp hu
    have hj' : j < psi 6 dq := by rw [← hq]; exact List.mem_range.mp hj
    split at hu
    · cases hu
    · obtain ⟨idx, h1, h2, _⟩ := enc_add hD hd hi hj'
      rw [h2] at hu
      simp only [Option.some.injEq] at hu
      rw [← hu]; exact h1

theorem mulUpd_sum {D dp dq : Nat} (hD : D ≤ 63) (hd : dp + dq ≤ D) (p q : List K) (hq : q.length = psi 6 dq) (i : Nat)
    (hi : i < psi 6 dp) :
    ((mulUpd (mkTables D) p dp q dq i).map (term (mkTables D) (dp + dq))).sum
      = monomial (mono (decode (mkTables D) i dp)) (p.getD i 0) * toMv (mkTables D) dq q := by
  unfold mulUpd
  simp only
  split
  · rename_i h; rw [h]; simp
  · rw [sum_filterMap_range, toMv, Finset.mul_sum]
    apply Finset.sum_congr rfl
    intro j hj
    have hj' : j < psi 6 dq := by rw [← hq]; exact Finset.mem_range.mp hj
    split
    · rename_i h; rw [h]; simp
    · obtain ⟨idx, _, h2, h3⟩ := enc_add hD hd hi hj'
      rw [h2]
      simp only [Option.elim, term]
      rw [h3, monomial_mul]

/-- `_poly_mul` returns the block of the product polynomial — for every schedule of the `prange` -/
theorem toMv_polyMulSched {D dp dq : Nat} (hD : D ≤ 63) (hd : dp + dq ≤ D) (p q : List K) (hp : p.length = psi 6 dp)
    (hq : q.length = psi 6 dq) (sched : List (List Nat)) (hs : sched.flatten.Perm (List.range p.length)) :
    toMv (mkTables D) (dp + dq) (polyMulSched (mkTables D) p dp q dq sched)
      = toMv (mkTables D) dp p * toMv (mkTables D) dq q := by
  unfold polyMulSched
  rw [toMv_parKernel_perm _ _ _ p.length _ (mulUpd_bound hD hd p q hp hq) sched hs]
  conv_rhs => rw [toMv, Finset.sum_mul]
  apply Finset.sum_congr rfl
  intro i hi
  exact mulUpd_sum hD hd p q hq i (by rw [← hp]; exact Finset.mem_range.mp hi)

theorem length_polyMulSched (T : List (List Nat)) (p q : List K) (dp dq : Nat) (sched : List (List Nat)) :
    (polyMulSched T p dp q dq sched).length = psi 6 (dp + dq) := length_parKernel _ _ _

/-! ### differentiation -/

theorem diffUpd_bound {D d : Nat} (hD : D ≤ 63) (hd : d ≤ D) (p : List K) (hp : p.length = psi 6 d) (v : Fin 6) (i : Nat) :
    ∀ u ∈ diffUpd (mkTables D) p v.val d i, u.1 < psi 6 (d - 1) := by
  intro u hu
  unfold diffUpd at hu
  simp only at hu
  split at hu
  · cases hu
  · rename_i hc
    have hi : i < psi 6 d := by
      by_contra h
      apply hc
      rw [List.getD_eq_default _ _ (by omega)]
    split at hu
    · cases hu
    · rename_i he
      have hl := length_decode (mkTables D) i d
      have hl' : ((decode (mkTables D) i d).set v.val ((decode (mkTables D) i d).getD v.val 0 - 1)).length = 6 := by
        rw [List.length_set]; exact hl
      have hs := sum_set_pred hl v he
      rw [sum_decode hD hd hi] at hs
      obtain ⟨idx, h1, h2, _⟩ := encode_of_degree hD (d := d - 1) (by omega) hl' hs
      rw [h2] at hu
      simp only [List.mem_singleton] at hu
      rw [hu]; exact h1

theorem diffUpd_sum {D d : Nat} (hD : D ≤ 63) (hd : d ≤ D) (p : List K) (v : Fin 6) (i : Nat) (hi : i < psi 6 d) :
    ((diffUpd (mkTables D) p v.val d i).map (term (mkTables D) (d - 1))).sum
      = pderiv v (monomial (mono (decode (mkTables D) i d)) (p.getD i 0)) := by
  unfold diffUpd
  simp only
  rw [pderiv_monomial]
  split
  · rename_i h; rw [h]; simp
  · split
    · rename_i he
      have : (mono (decode (mkTables D) i d)) v = 0 := by rw [mono_apply]; exact he
      rw [this]; simp
    · rename_i he
      have hl := length_decode (mkTables D) i d
      have hl' : ((decode (mkTables D) i d).set v.val ((decode (mkTables D) i d).getD v.val 0 - 1)).length = 6 := by
        rw [List.length_set]; exact hl
      have hs := sum_set_pred hl v he
      rw [sum_decode hD hd hi] at hs
      obtain ⟨idx, _, h2, h3⟩ := encode_of_degree hD (d := d - 1) (by omega) hl' hs
      rw [h2]
      simp only [List.map_cons, List.map_nil, List.sum_cons, List.sum_nil, add_zero, term]
      rw [h3, mono_set_pred hl v, mono_apply]

/-- `_poly_diff` returns the block of the partial derivative — for every schedule of the `prange` -/
theorem toMv_polyDiffSched {D d : Nat} (hD : D ≤ 63) (hd : d ≤ D) (p : List K) (hp : p.length = psi 6 d) (v : Fin 6)
    (sched : List (List Nat)) (hs : sched.flatten.Perm (List.range p.length)) :
    toMv (mkTables D) (d - 1) (polyDiffSched (mkTables D) p v.val d sched) = pderiv v (toMv (mkTables D) d p) := by
  unfold polyDiffSched
  split
  · rename_i h0
    subst h0
    rw [toMv_zeros]
    -- a degree-0 block is a constant
    unfold toMv
    rw [map_sum]
    symm
    apply Finset.sum_eq_zero
    intro i hi
    have hi' : i < psi 6 0 := by rw [← hp]; exact Finset.mem_range.mp hi
    rw [pderiv_monomial]
    have hsum := sum_decode hD hd hi'
    have : (mono (decode (mkTables D) i 0)) v = 0 := by
      rw [mono_apply]
      have hm : (decode (mkTables D) i 0).getD v.val 0 ≤ (decode (mkTables D) i 0).sum := by
        rw [List.getD_eq_getElem _ _ (by rw [length_decode]; exact v.isLt)]
        exact le_sum_of_mem (List.getElem_mem _)
      omega
    rw [this]; simp
  · rw [toMv_parKernel_perm _ _ _ p.length _ (diffUpd_bound hD hd p hp v) sched hs]
    conv_rhs => rw [toMv, map_sum]
    apply Finset.sum_congr rfl
    intro i hi
    exact diffUpd_sum hD hd p v i (by rw [← hp]; exact Finset.mem_range.mp hi)

theorem length_polyDiffSched (T : List (List Nat)) (p : List K) (var d : Nat) (sched : List (List Nat)) :
    (polyDiffSched T p var d sched).length = psi 6 (d - 1) := by
  unfold polyDiffSched
  split
  · rename_i h; subst h; simp
  · exact length_parKernel _ _ _

end


/-! ### coefficients -/

theorem mono_injective {a b : List Nat} (ha : a.length = 6) (hb : b.length = 6) (h : mono a = mono b) : a = b := by
  obtain ⟨a0, a1, a2, a3, a4, a5, rfl⟩ := length_six ha
  obtain ⟨b0, b1, b2, b3, b4, b5, rfl⟩ := length_six hb
  have h0 := DFunLike.congr_fun h (0 : Fin 6)
  have h1 := DFunLike.congr_fun h (1 : Fin 6)
  have h2 := DFunLike.congr_fun h (2 : Fin 6)
  have h3 := DFunLike.congr_fun h (3 : Fin 6)
  have h4 := DFunLike.congr_fun h (4 : Fin 6)
  have h5 := DFunLike.congr_fun h (5 : Fin 6)
  simp at h0 h1 h2 h3 h4 h5
  subst_vars; rfl

/-- distinct slots of a degree hold distinct monomials -/
theorem decode_injective {D d i j : Nat} (hD : D ≤ 63) (hd : d ≤ D) (hi : i < psi 6 d) (hj : j < psi 6 d)
    (h : mono (decode (mkTables D) i d) = mono (decode (mkTables D) j d)) : i = j := by
  have h' := mono_injective (length_decode _ _ _) (length_decode _ _ _) h
  rw [decode_table hD hd (psi_lt_enum hi), decode_table hD hd (psi_lt_enum hj)] at h'
  exact (List.Nodup.getElem_inj_iff (nodup_enum 6 d)).mp h'

section
variable {K : Type} [CommSemiring K]

/-- slot `i` of a block is the coefficient of the monomial `decode i` of the represented polynomial -/
theorem coeff_toMv {D d : Nat} (hD : D ≤ 63) (hd : d ≤ D) (p : List K) (hp : p.length = psi 6 d) {i : Nat} (hi : i < psi 6 d) :
    coeff (mono (decode (mkTables D) i d)) (toMv (mkTables D) d p) = p.getD i 0 := by
  classical
  unfold toMv
  rw [coeff_sum]
  rw [Finset.sum_eq_single i]
  · rw [coeff_monomial, if_pos rfl]
  · intro j hj hne
    rw [coeff_monomial, if_neg]
    intro h
    exact hne (decode_injective hD hd (by rw [← hp]; exact Finset.mem_range.mp hj) hi h)
  · intro h; exact absurd (Finset.mem_range.mpr (hp ▸ hi)) h

/-- a block is determined by the polynomial it represents -/
theorem toMv_injective {D d : Nat} (hD : D ≤ 63) (hd : d ≤ D) (p q : List K) (hp : p.length = psi 6 d) (hq : q.length = psi 6 d)
    (h : toMv (mkTables D) d p = toMv (mkTables D) d q) : p = q := by
  apply List.ext_getElem (by rw [hp, hq])
  intro i h1 h2
  have hi : i < psi 6 d := hp ▸ h1
  have e1 := coeff_toMv hD hd p hp hi
  have e2 := coeff_toMv hD hd q hq hi
  rw [h, e2] at e1
  rw [List.getD_eq_getElem _ _ h1, List.getD_eq_getElem _ _ h2] at e1
  exact e1.symm

end



/-! ### integration -/
section
variable {K : Type} [Field K] [CharZero K] [DecidableEq K]

theorem intUpd_bound {D d : Nat} (hD : D ≤ 63) (hd : d + 1 ≤ D) (p : List K) (hp : p.length = psi 6 d) (v : Fin 6) (i : Nat) :
    ∀ u ∈ intUpd (mkTables D) p v.val d i, u.1 < psi 6 (d + 1) := by
  intro u hu
  unfold intUpd at hu
  simp only at hu
  split at hu
  · cases hu
  · rename_i hc
    have hi : i < psi 6 d := by
      by_contra h
      apply hc
      rw [List.getD_eq_default _ _ (by omega)]
    have hl := length_decode (mkTables D) i d
    have hl' : ((decode (mkTables D) i d).set v.val ((decode (mkTables D) i d).getD v.val 0 + 1)).length = 6 := by
      rw [List.length_set]; exact hl
    have hs := sum_set_succ hl v
    rw [sum_decode hD (by omega) hi] at hs
    obtain ⟨idx, h1, h2, _⟩ := encode_of_degree hD hd hl' hs
    rw [h2] at hu
    simp only [List.mem_singleton] at hu
    rw [hu]; exact h1

theorem intUpd_sum {D d : Nat} (hD : D ≤ 63) (hd : d + 1 ≤ D) (p : List K) (v : Fin 6) (i : Nat) (hi : i < psi 6 d) :
    pderiv v (((intUpd (mkTables D) p v.val d i).map (term (mkTables D) (d + 1))).sum)
      = monomial (mono (decode (mkTables D) i d)) (p.getD i 0) := by
  unfold intUpd
  simp only
  split
  · rename_i h; rw [h]; simp
  · have hl := length_decode (mkTables D) i d
    have hl' : ((decode (mkTables D) i d).set v.val ((decode (mkTables D) i d).getD v.val 0 + 1)).length = 6 := by
      rw [List.length_set]; exact hl
    have hs := sum_set_succ hl v
    rw [sum_decode hD (by omega) hi] at hs
    obtain ⟨idx, _, h2, h3⟩ := encode_of_degree hD hd hl' hs
    rw [h2]
    simp only [List.map_cons, List.map_nil, List.sum_cons, List.sum_nil, add_zero, term]
    rw [h3, mono_set_succ hl v, pderiv_monomial]
    have e1 : mono (decode (mkTables D) i d) + Finsupp.single v 1 - Finsupp.single v 1 = mono (decode (mkTables D) i d) := by
      ext j; simp
    rw [e1]
    congr 1
    have : (mono (decode (mkTables D) i d) + Finsupp.single v 1 : Fin 6 →₀ ℕ) v = (decode (mkTables D) i d).getD v.val 0 + 1 := by
      simp
    rw [this]
    have hne : (((decode (mkTables D) i d).getD v.val 0 + 1 : ℕ) : K) ≠ 0 := Nat.cast_ne_zero.mpr (by omega)
    exact div_mul_cancel₀ _ hne

/-- `_poly_integrate`: the partial derivative of the returned block is the input block (antiderivative in `x_v`) -/
theorem pderiv_toMv_polyIntegrate {D d : Nat} (hD : D ≤ 63) (hd : d + 1 ≤ D) (p : List K) (hp : p.length = psi 6 d) (v : Fin 6) :
    pderiv v (toMv (mkTables D) (d + 1) (polyIntegrate (mkTables D) p v.val d)) = toMv (mkTables D) d p := by
  unfold polyIntegrate
  rw [toMv_applyUpd _ _ _ _ (by
    intro u hu
    obtain ⟨i, _, hi⟩ := List.mem_flatMap.mp hu
    rw [length_zeros]; exact intUpd_bound hD hd p hp v i u hi), toMv_zeros, zero_add]
  have : ∀ (l : List Nat), (∀ i ∈ l, i < psi 6 d) →
      pderiv v (((l.flatMap (intUpd (mkTables D) p v.val d)).map (term (mkTables D) (d + 1))).sum)
        = (l.map fun i => monomial (mono (decode (mkTables D) i d)) (p.getD i 0)).sum := by
    intro l
    induction l with
    | nil => intro _; simp
    | cons a as ih =>
      intro h
      rw [List.flatMap_cons, List.map_append, List.sum_append, map_add, ih (fun i hi => h i (by simp [hi])),
        intUpd_sum hD hd p v a (h a (by simp)), List.map_cons, List.sum_cons]
  rw [this _ (by intro i hi; rw [← hp]; exact List.mem_range.mp hi), sum_map_range_eq_finset]
  rfl

theorem length_polyIntegrate (T : List (List Nat)) (p : List K) (var d : Nat) :
    (polyIntegrate T p var d).length = psi 6 (d + 1) := by simp [polyIntegrate]

end

/-! ### evaluation -/
section
variable {K : Type} [CommSemiring K] [DecidableEq K]

theorem length_powTable (b : K) : ∀ n, (powTable b n).length = n + 1
  | 0 => rfl
  | n + 1 => by simp [powTable, length_powTable b n]

theorem getD_powTable (b : K) : ∀ (n e : Nat), e ≤ n → (powTable b n).getD e 0 = b ^ e
  | 0, e, h => by
    have : e = 0 := by omega
    subst this; simp [powTable]
  | n + 1, e, h => by
    simp only [powTable]
    by_cases he : e ≤ n
    · rw [List.getD_append _ _ _ _ (by rw [length_powTable]; omega)]
      exact getD_powTable b n e he
    · have : e = n + 1 := by omega
      subst this
      rw [List.getD_append_right _ _ _ _ (by rw [length_powTable])]
      rw [length_powTable, Nat.sub_self, List.getD_cons_zero, getD_powTable b n n le_rfl, pow_succ]

theorem foldl_add_range (f : Nat → K) (n : Nat) (s0 : K) :
    (List.range n).foldl (fun s i => s + f i) s0 = s0 + ∑ i ∈ Finset.range n, f i := by
  induction n with
  | zero => simp
  | succ n ih => rw [List.range_succ, List.foldl_append, ih, Finset.sum_range_succ]; simp [add_assoc]

theorem foldl_range_eq_sum (F : K → Nat → K) (g : Nat → K) (n : Nat) (h : ∀ s i, i < n → F s i = s + g i) (s0 : K) :
    (List.range n).foldl F s0 = s0 + ∑ i ∈ Finset.range n, g i := by
  induction n with
  | zero => simp
  | succ n ih =>
    rw [List.range_succ, List.foldl_append, ih (fun s i hi => h s i (by omega)), Finset.sum_range_succ]
    simp only [List.foldl_cons, List.foldl_nil]
    rw [h _ n (by omega), add_assoc]

/-- `_poly_evaluate` is the value of the represented polynomial at the point -/
theorem polyEvaluate_eq_eval {D d : Nat} (hD : D ≤ 63) (hd : d ≤ D) (p : List K) (hp : p.length = psi 6 d) (pt : List K)
    (hpt : pt.length = 6) :
    polyEvaluate (mkTables D) p d pt = eval (fun i : Fin 6 => pt.getD i.val 0) (toMv (mkTables D) d p) := by
  unfold polyEvaluate
  split
  · rename_i h0
    unfold toMv; rw [h0]; simp
  · simp only
    have key : ∀ i, i < psi 6 d →
        (List.range 6).foldl (fun t v => t * ((pt.map fun b => powTable b d).getD v []).getD ((decode (mkTables D) i d).getD v 0) 0) (1 : K)
          = (mono (decode (mkTables D) i d)).prod fun n e => (pt.getD n.val 0) ^ e := by
      intro i hi
      rw [Finsupp.prod_fintype _ _ (fun _ => pow_zero _), Fin.prod_univ_six]
      have hsum := sum_decode hD hd hi
      have hle : ∀ v : Fin 6, (decode (mkTables D) i d).getD v.val 0 ≤ d := by
        intro v
        have : (decode (mkTables D) i d).getD v.val 0 ≤ (decode (mkTables D) i d).sum := by
          rw [List.getD_eq_getElem _ _ (by rw [length_decode]; exact v.isLt)]
          exact le_sum_of_mem (List.getElem_mem _)
        omega
      have tb : ∀ v : Fin 6, ((pt.map fun b => powTable b d).getD v.val []).getD ((decode (mkTables D) i d).getD v.val 0) 0
          = (pt.getD v.val 0) ^ ((decode (mkTables D) i d).getD v.val 0) := by
        intro v
        have hv : v.val < pt.length := by rw [hpt]; exact v.isLt
        have e : (pt.map fun b => powTable b d).getD v.val [] = powTable (pt.getD v.val 0) d := by
          rw [List.getD_eq_getElem?_getD, List.getElem?_map, List.getElem?_eq_getElem hv, List.getD_eq_getElem _ _ hv]
          rfl
        rw [e, getD_powTable _ _ _ (hle v)]
      have h0 := tb 0; have h1 := tb 1; have h2 := tb 2; have h3 := tb 3; have h4 := tb 4; have h5 := tb 5
      simp only [mono_apply]
      simp only [Fin.val_zero, Fin.val_one] at h0 h1
      have e2 : ((2 : Fin 6) : Nat) = 2 := rfl
      have e3 : ((3 : Fin 6) : Nat) = 3 := rfl
      have e4 : ((4 : Fin 6) : Nat) = 4 := rfl
      have e5 : ((5 : Fin 6) : Nat) = 5 := rfl
      rw [e2] at h2; rw [e3] at h3; rw [e4] at h4; rw [e5] at h5
      simp only [List.range, List.range.loop, List.foldl_cons, List.foldl_nil, one_mul]
      rw [h0, h1, h2, h3, h4, h5]
      simp only [Fin.val_zero, Fin.val_one, e2, e3, e4, e5]
    have body : ∀ (s : K) (i : Nat), i < psi 6 d →
        (if p.getD i 0 = 0 then s else s + p.getD i 0 *
          (List.range 6).foldl (fun t v => t * ((pt.map fun b => powTable b d).getD v []).getD ((decode (mkTables D) i d).getD v 0) 0) (1 : K))
        = s + p.getD i 0 * ((mono (decode (mkTables D) i d)).prod fun n e => (pt.getD n.val 0) ^ e) := by
      intro s i hi
      rw [key i hi]
      split
      · rename_i h; rw [h]; simp
      · rfl
    rw [foldl_range_eq_sum _ _ p.length (fun s i hi => body s i (by omega)) 0, zero_add]
    unfold toMv
    rw [map_sum]
    apply Finset.sum_congr rfl
    intro i _
    rw [eval_monomial]

end



/-! ### Poisson bracket -/
section
variable {K : Type} [CommRing K] [DecidableEq K]

theorem length_polySub (p q : List K) : (polySub p q).length = min p.length q.length := by simp [polySub]

theorem getD_polySub (p q : List K) (h : p.length = q.length) (j : Nat) :
    (polySub p q).getD j 0 = p.getD j 0 - q.getD j 0 := by
  unfold polySub
  by_cases hj : j < p.length
  · have hq : j < q.length := h ▸ hj
    rw [List.getD_eq_getElem?_getD, List.getD_eq_getElem?_getD, List.getD_eq_getElem?_getD,
      List.getElem?_zipWith, List.getElem?_eq_getElem hj, List.getElem?_eq_getElem hq]
    rfl
  · have hq : ¬ j < q.length := h ▸ hj
    rw [List.getD_eq_default _ _ (by simp; omega), List.getD_eq_default _ _ (by omega),
      List.getD_eq_default _ _ (by omega), sub_zero]

theorem toMv_polySub (clmo : List (List Nat)) (d : Nat) (p q : List K) (h : p.length = q.length) :
    toMv clmo d (polySub p q) = toMv clmo d p - toMv clmo d q := by
  unfold toMv
  rw [length_polySub, ← h, Nat.min_self, ← Finset.sum_sub_distrib]
  apply Finset.sum_congr rfl
  intro i _
  rw [getD_polySub p q h, map_sub]

theorem step_shape (r t1 t2 : List K) (n : Nat) (hr : r.length = n) (h1 : t1.length = n) (h2 : t2.length = n) :
    (let r1 := if t1.length = r.length then polyAdd r t1 else r
     if t2.length = r1.length then polySub r1 t2 else r1) = polySub (polyAdd r t1) t2 := by
  have e1 : t1.length = r.length := by rw [h1, hr]
  have e2 : t2.length = (polyAdd r t1).length := by rw [length_polyAdd, h1, hr, h2, Nat.min_self]
  simp only [if_pos e1, if_pos e2]

/-- the canonical bracket of two polynomials in `(q₁,q₂,q₃,p₁,p₂,p₃)` -/
noncomputable def bracket (P Q : MvPolynomial (Fin 6) K) : MvPolynomial (Fin 6) K :=
  ∑ m : Fin 3, (pderiv ⟨m.val, by omega⟩ P * pderiv ⟨m.val + 3, by omega⟩ Q
              - pderiv ⟨m.val + 3, by omega⟩ P * pderiv ⟨m.val, by omega⟩ Q)

theorem toMv_poissonStep {D dp dq : Nat} (hD : D ≤ 63) (hd : dp + dq ≤ D) (hdp : 1 ≤ dp) (hdq : 1 ≤ dq) (p q : List K)
    (hp : p.length = psi 6 dp) (hq : q.length = psi 6 dq) (σ : Nat → List (List Nat))
    (hσ : ∀ n, (σ n).flatten.Perm (List.range n)) (r : List K) (hr : r.length = psi 6 (dp + dq - 2)) (m : Fin 3) :
    (poissonStep (mkTables D) σ p dp q dq r m.val).length = psi 6 (dp + dq - 2) ∧
    toMv (mkTables D) (dp + dq - 2) (poissonStep (mkTables D) σ p dp q dq r m.val)
      = toMv (mkTables D) (dp + dq - 2) r
        + (pderiv ⟨m.val, by omega⟩ (toMv (mkTables D) dp p) * pderiv ⟨m.val + 3, by omega⟩ (toMv (mkTables D) dq q)
           - pderiv ⟨m.val + 3, by omega⟩ (toMv (mkTables D) dp p) * pderiv ⟨m.val, by omega⟩ (toMv (mkTables D) dq q)) := by
  have e : dp - 1 + (dq - 1) = dp + dq - 2 := by omega
  have d1 := toMv_polyDiffSched hD (by omega : dp ≤ D) p hp ⟨m.val, by omega⟩ (σ p.length) (hσ _)
  have d2 := toMv_polyDiffSched hD (by omega : dq ≤ D) q hq ⟨m.val + 3, by omega⟩ (σ q.length) (hσ _)
  have d3 := toMv_polyDiffSched hD (by omega : dp ≤ D) p hp ⟨m.val + 3, by omega⟩ (σ p.length) (hσ _)
  have d4 := toMv_polyDiffSched hD (by omega : dq ≤ D) q hq ⟨m.val, by omega⟩ (σ q.length) (hσ _)
  have m1 := toMv_polyMulSched hD (by omega : dp - 1 + (dq - 1) ≤ D) _ _ (length_polyDiffSched (mkTables D) p m.val dp (σ p.length))
    (length_polyDiffSched (mkTables D) q (m.val + 3) dq (σ q.length)) (σ _) (hσ _)
  have m2 := toMv_polyMulSched hD (by omega : dp - 1 + (dq - 1) ≤ D) _ _ (length_polyDiffSched (mkTables D) p (m.val + 3) dp (σ p.length))
    (length_polyDiffSched (mkTables D) q m.val dq (σ q.length)) (σ _) (hσ _)
  have l1 := length_polyMulSched (mkTables D) (polyDiffSched (mkTables D) p m.val dp (σ p.length))
    (polyDiffSched (mkTables D) q (m.val + 3) dq (σ q.length)) (dp - 1) (dq - 1)
    (σ (polyDiffSched (mkTables D) p m.val dp (σ p.length)).length)
  have l2 := length_polyMulSched (mkTables D) (polyDiffSched (mkTables D) p (m.val + 3) dp (σ p.length))
    (polyDiffSched (mkTables D) q m.val dq (σ q.length)) (dp - 1) (dq - 1)
    (σ (polyDiffSched (mkTables D) p (m.val + 3) dp (σ p.length)).length)
  rw [e] at m1 m2 l1 l2
  simp only at d1 d2 d3 d4
  have shape := step_shape r _ _ _ hr l1 l2
  have hstep : poissonStep (mkTables D) σ p dp q dq r m.val = _ := shape
  rw [hstep]
  have lr1 : (polyAdd r (polyMulSched (mkTables D) (polyDiffSched (mkTables D) p m.val dp (σ p.length)) (dp - 1)
      (polyDiffSched (mkTables D) q (m.val + 3) dq (σ q.length)) (dq - 1)
      (σ (polyDiffSched (mkTables D) p m.val dp (σ p.length)).length))).length = psi 6 (dp + dq - 2) := by
    rw [length_polyAdd, l1, hr, Nat.min_self]
  refine ⟨by rw [length_polySub, lr1, l2, Nat.min_self], ?_⟩
  rw [toMv_polySub _ _ _ _ (by rw [lr1, l2]), toMv_polyAdd _ _ _ _ (by rw [hr, l1]), m1, m2, d1, d2, d3, d4]
  ring

/-- `_poly_poisson` returns the block of the Poisson bracket `Σ ∂P/∂qᵢ ∂Q/∂pᵢ − ∂P/∂pᵢ ∂Q/∂qᵢ` (for every scheduler of the
nested parallel kernels); the zero-degree cases return the zero block, which is the bracket with a constant -/
theorem toMv_polyPoisson {D dp dq : Nat} (hD : D ≤ 63) (hd : dp + dq ≤ D) (p q : List K)
    (hp : p.length = psi 6 dp) (hq : q.length = psi 6 dq) (σ : Nat → List (List Nat))
    (hσ : ∀ n, (σ n).flatten.Perm (List.range n)) :
    toMv (mkTables D) (dp + dq - 2) (polyPoisson (mkTables D) σ p dp q dq)
      = bracket (toMv (mkTables D) dp p) (toMv (mkTables D) dq q) := by
  unfold polyPoisson
  split
  · rename_i h0
    rw [toMv_zeros]
    unfold bracket
    symm
    apply Finset.sum_eq_zero
    intro m _
    rcases h0 with h0 | h0
    · subst h0
      have a := toMv_polyDiffSched hD (by omega : 0 ≤ D) p hp ⟨m.val, by omega⟩ [List.range p.length] (by simp)
      have b := toMv_polyDiffSched hD (by omega : 0 ≤ D) p hp ⟨m.val + 3, by omega⟩ [List.range p.length] (by simp)
      simp only [polyDiffSched, if_true, toMv_zeros] at a b
      rw [← a, ← b]; simp
    · subst h0
      have a := toMv_polyDiffSched hD (by omega : 0 ≤ D) q hq ⟨m.val, by omega⟩ [List.range q.length] (by simp)
      have b := toMv_polyDiffSched hD (by omega : 0 ≤ D) q hq ⟨m.val + 3, by omega⟩ [List.range q.length] (by simp)
      simp only [polyDiffSched, if_true, toMv_zeros] at a b
      rw [← a, ← b]; simp
  · rename_i h0
    have hdp : 1 ≤ dp := by omega
    have hdq : 1 ≤ dq := by omega
    simp only [List.foldl_cons, List.foldl_nil]
    have s0 := toMv_poissonStep hD hd hdp hdq p q hp hq σ hσ (zeros (psi 6 (dp + dq - 2))) (length_zeros _) (0 : Fin 3)
    have s1 := toMv_poissonStep hD hd hdp hdq p q hp hq σ hσ _ s0.1 (1 : Fin 3)
    have s2 := toMv_poissonStep hD hd hdp hdq p q hp hq σ hσ _ s1.1 (2 : Fin 3)
    have e0 : ((0 : Fin 3) : Nat) = 0 := rfl
    have e1 : ((1 : Fin 3) : Nat) = 1 := rfl
    have e2 : ((2 : Fin 3) : Nat) = 2 := rfl
    simp only [e0, e1, e2] at s0 s1 s2
    rw [s2.2, s1.2, s0.2, toMv_zeros, zero_add]
    unfold bracket
    rw [Fin.sum_univ_three]
    simp only [e0, e1, e2]

theorem length_polyPoisson {D dp dq : Nat} (hD : D ≤ 63) (hd : dp + dq ≤ D) (hdp : 1 ≤ dp) (hdq : 1 ≤ dq) (p q : List K)
    (hp : p.length = psi 6 dp) (hq : q.length = psi 6 dq) (σ : Nat → List (List Nat))
    (hσ : ∀ n, (σ n).flatten.Perm (List.range n)) :
    (polyPoisson (mkTables D) σ p dp q dq).length = psi 6 (dp + dq - 2) := by
  unfold polyPoisson
  rw [if_neg (by omega)]
  simp only [List.foldl_cons, List.foldl_nil]
  have s0 := toMv_poissonStep hD hd hdp hdq p q hp hq σ hσ (zeros (psi 6 (dp + dq - 2))) (length_zeros _) (0 : Fin 3)
  have s1 := toMv_poissonStep hD hd hdp hdq p q hp hq σ hσ _ s0.1 (1 : Fin 3)
  exact (toMv_poissonStep hD hd hdp hdq p q hp hq σ hσ _ s1.1 (2 : Fin 3)).1

end


end HitenModel.C06
