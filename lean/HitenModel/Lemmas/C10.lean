/-
  Lemmas/C10.lean — ODE facts behind property C10 (time reversal of a vector field).
  `E` is any real normed space (ℝ⁶ for the CR3BP, ℝ⁴² for the variational system, …).  Solutions are global `C¹`
  curves that stay in a set `U` on which the field is Lipschitz (uniqueness: Mathlib's `ODE_solution_unique_univ`,
  Grönwall).
-/
import Mathlib.Analysis.ODE.ExistUnique
import Mathlib.Analysis.Calculus.Deriv.Shift
import Mathlib.Analysis.Calculus.Deriv.Pow
import Mathlib.Analysis.Calculus.Deriv.Mul

namespace HitenModel.C10.Flow
open Set

variable {E : Type*} [NormedAddCommGroup E] [NormedSpace ℝ E]

/-- chain rule for `t ↦ x (-t)` -/
theorem hasDerivAt_comp_neg {x : ℝ → E} {x' : E} {t : ℝ} (hx : HasDerivAt x x' (-t)) :
    HasDerivAt (fun s => x (-s)) (-x') t := by
  have h := hx.scomp t (hasDerivAt_neg t)
  simpa [Function.comp_def] using h

/-- If `x` solves `x' = f(t, x)` then `s ↦ x(-s)` solves the time-reversed system `z' = -f(-s, z)`. -/
theorem reversed_solves {f : ℝ → E → E} {x : ℝ → E} (hx : ∀ t, HasDerivAt x (f t (x t)) t) (s : ℝ) :
    HasDerivAt (fun s => x (-s)) (-(f (-s) (x (-s)))) s :=
  hasDerivAt_comp_neg (hx (-s))

/-- **Backward propagation is the flow at negative time** for the wrapper `z' = -f(-s, z)`:
    the solution of the reversed system through the same initial state is `s ↦ x(-s)`, for every (also time-dependent) `f`. -/
theorem backward_eq_flow_neg {f : ℝ → E → E} {U : Set E} {K : NNReal}
    (hL : ∀ t, LipschitzOnWith K (f t) U) {x y : ℝ → E}
    (hx : ∀ t, HasDerivAt x (f t (x t)) t) (hxU : ∀ t, x t ∈ U)
    (hy : ∀ s, HasDerivAt y (-(f (-s) (y s))) s) (hyU : ∀ s, y s ∈ U)
    (h0 : y 0 = x 0) (s : ℝ) : y s = x (-s) := by
  have hv : ∀ t : ℝ, LipschitzOnWith K (fun u => -(f (-t) u)) U := fun t => by
    have := (hL (-t))
    intro a ha b hb
    simpa [edist_neg_neg] using this ha hb
  have := ODE_solution_unique_univ (v := fun t u => -(f (-t) u)) (s := fun _ => U) (f := y) (g := fun s => x (-s))
    (t₀ := 0) hv (fun t => ⟨hy t, hyU t⟩) (fun t => ⟨reversed_solves hx t, hxU (-t)⟩) (by simpa using h0)
  exact congrFun this s

/-- autonomous special case: the wrapper `z' = -g(z)` (what `_DirectedSystem` implements) -/
theorem backward_eq_flow_neg_autonomous {g : E → E} {U : Set E} {K : NNReal} (hL : LipschitzOnWith K g U)
    {x y : ℝ → E} (hx : ∀ t, HasDerivAt x (g (x t)) t) (hxU : ∀ t, x t ∈ U)
    (hy : ∀ s, HasDerivAt y (-(g (y s))) s) (hyU : ∀ s, y s ∈ U) (h0 : y 0 = x 0) (s : ℝ) : y s = x (-s) :=
  backward_eq_flow_neg (f := fun _ => g) (fun _ => hL) hx hxU hy hyU h0 s

/-- **Round trip**: forward for a duration `T` with `x' = g(x)`, then backward for the same duration with the
    reversed field started at the forward end state, returns to the starting state. -/
theorem roundtrip_autonomous {g : E → E} {U : Set E} {K : NNReal} (hL : LipschitzOnWith K g U)
    {x y : ℝ → E} (hx : ∀ t, HasDerivAt x (g (x t)) t) (hxU : ∀ t, x t ∈ U)
    (hy : ∀ s, HasDerivAt y (-(g (y s))) s) (hyU : ∀ s, y s ∈ U) (T : ℝ) (h0 : y 0 = x T) : y T = x 0 := by
  have hx' : ∀ t, HasDerivAt (fun t => x (t + T)) (g (x (t + T))) t := fun t => (hx (t + T)).comp_add_const t T
  have := backward_eq_flow_neg_autonomous hL (x := fun t => x (t + T)) hx' (fun t => hxU _) hy hyU (by simpa using h0) T
  simpa using this

/-- The wrapper as it is coded, `z' = -f(c·s, z)` with a general time coefficient `c`, applied to the field `f(t,u) = t`:
    `x(t) = t²/2` is the flow through 0 and `y(s) = -c s²/2` the "backward" solution; they agree at `-s` only when `c = -1`. -/
theorem counterexample_solutions (c : ℝ) :
    (∀ t : ℝ, HasDerivAt (fun t : ℝ => t ^ 2 / 2) t t) ∧
    (∀ s : ℝ, HasDerivAt (fun s : ℝ => -(c * s ^ 2 / 2)) (-(c * s)) s) := by
  constructor
  · intro t
    have := (hasDerivAt_pow 2 t).div_const 2
    simpa using this
  · intro s
    have h := (((hasDerivAt_pow 2 s).const_mul c).div_const 2).neg
    have e : -(c * ((2 : ℕ) * s ^ (2 - 1)) / 2) = -(c * s) := by
      norm_num
      ring
    rw [e] at h
    exact h

end HitenModel.C10.Flow
