/- Drivers/C05.lean — line-protocol driver of the Newton / Armijo model (see harness/props/c05.py).
   Oracle tables are replayed from the real run; every query is answered from the table.  A query that is not in the
   table is detected by running the model with two different default answers and comparing (prints `miss`). -/
import HitenModel.Core.C05
import HitenModel.Core.Drv
open HitenModel.C05 Drv

structure Sess where
  cfg : ArmijoCfg Rat := { maxDelta := none, rho := 1/2, minAlpha := 1/16, c := 1/8 }
  ntab : List (List Rat × NormRes Rat) := []
  dtab : List (List Rat × Option (List Rat)) := []

def lookupN (tab : List (List Rat × NormRes Rat)) (dflt : NormRes Rat) (x : List Rat) : NormRes Rat :=
  match tab.find? (fun p => p.1 == x) with
  | some p => p.2
  | none => dflt

def lookupD (tab : List (List Rat × Option (List Rat))) (dflt : Option (List Rat)) (x : List Rat) : Option (List Rat) :=
  match tab.find? (fun p => p.1 == x) with
  | some p => p.2
  | none => dflt

/-- split a word list at "|" -/
def splitBar (ws : List String) : List (List String) :=
  let r := ws.foldl (fun (acc : List (List String)) w =>
    if w == "|" then [] :: acc else match acc with
      | [] => [[w]]
      | a :: rest => (a ++ [w]) :: rest) [[]]
  r.reverse

def showOptRat (o : Option Rat) : String := match o with | none => "nan" | some r => showRat r
def parseOptRat (s : String) : Option (Option Rat) := if s == "nan" then some none else (parseRat? s).map some
def parseCap (s : String) : Option (Option Rat) := if s == "none" then some none else (parseRat? s).map some

def showStep (r : StepRes Rat) : String :=
  match r with
  | .armijo x n a t => s!"armijo {showRat n} {showRat a} {t} | {showVec x}"
  | .fallback x n a t => s!"fallback {showRat n} {showRat a} {t} | {showVec x}"
  | .failed t => s!"failed {t}"
  | .outOfFuel => "outOfFuel"

def showPlain (r : PlainRes Rat) : String :=
  match r with
  | .ok x n a => s!"ok {showOptRat n} {showRat a} | {showVec x}"
  | .raised => "raised"

def showOutcome (o : Outcome Rat) : String :=
  match o with
  | .ok x k r => s!"ok {k} {showRat r} | {showVec x}"
  | .notConverged x r => s!"notConverged {showOptRat r} | {showVec x}"
  | .stepFailed k => s!"stepFailed {k}"
  | .raised k => s!"raised {k}"
  | .outOfFuel => "outOfFuel"

def showHist (h : Hist Rat) : String :=
  " ; ".intercalate (h.map fun p => s!"{showOptRat p.2} | {showVec p.1}")

def handle (s : Sess) (line : String) : IO Sess := do
  match splitBar (words line) with
  | [["reset"]] => return {}
  | [["cfg", md, rho, ma, c]] =>
      match parseCap md, parseRat? rho, parseRat? ma, parseRat? c with
      | some a, some b, some c', some d => return { s with cfg := { maxDelta := a, rho := b, minAlpha := c', c := d } }
      | _, _, _, _ => IO.println "bad-op"; return s
  | [["n"], xs, ["val", r]] =>
      match parseRats xs, parseRat? r with
      | some x, some v => return { s with ntab := (x, .val v) :: s.ntab }
      | _, _ => IO.println "bad-op"; return s
  | [["n"], xs, ["nan"]] =>
      match parseRats xs with
      | some x => return { s with ntab := (x, .nan) :: s.ntab }
      | _ => IO.println "bad-op"; return s
  | [["n"], xs, ["exc"]] =>
      match parseRats xs with
      | some x => return { s with ntab := (x, .exc) :: s.ntab }
      | _ => IO.println "bad-op"; return s
  | [["d"], xs, ["exc"]] =>
      match parseRats xs with
      | some x => return { s with dtab := (x, none) :: s.dtab }
      | _ => IO.println "bad-op"; return s
  | [["d"], xs, ds] =>
      match parseRats xs, parseRats ds with
      | some x, some d => return { s with dtab := (x, some d) :: s.dtab }
      | _, _ => IO.println "bad-op"; return s
  | [["armijo", fuel, cur], xs, ds] =>
      match fuel.toNat?, parseOptRat cur, parseRats xs, parseRats ds with
      | some f, some c, some x, some d =>
          let r1 := armijoRat (lookupN s.ntab .exc) s.cfg f x d c
          let r2 := armijoRat (lookupN s.ntab (.val 0)) s.cfg f x d c
          IO.println (if r1 == r2 then showStep r1 else "miss")
          return s
      | _, _, _, _ => IO.println "bad-op"; return s
  | [["plain"], xs, ds] =>
      match parseRats xs, parseRats ds with
      | some x, some d =>
          let r1 := plainStepRat (lookupN s.ntab .exc) s.cfg.maxDelta x d
          let r2 := plainStepRat (lookupN s.ntab (.val 0)) s.cfg.maxDelta x d
          IO.println (if r1 == r2 then showPlain r1 else "miss")
          return s
      | _, _ => IO.println "bad-op"; return s
  | [["newton", kind, tol, ma, fuel], xs] =>
      match parseRat? tol, ma.toNat?, fuel.toNat?, parseRats xs with
      | some t, some m, some f, some x =>
          let run := fun (dn : NormRes Rat) (dd : Option (List Rat)) =>
            if kind == "armijo" then newtonArmijoRat (lookupN s.ntab dn) (lookupD s.dtab dd) s.cfg f t m x
            else newtonPlainRat (lookupN s.ntab dn) (lookupD s.dtab dd) s.cfg.maxDelta t m x
          let r1 := run .exc none
          let r2 := run (.val 0) (some [])
          if r1 == r2 then
            IO.println s!"outcome {showOutcome r1.1}"
            IO.println s!"hist {showHist r1.2}"
          else
            IO.println "miss"
            IO.println "miss"
          return s
      | _, _, _, _ => IO.println "bad-op"; return s
  | [[]] => return s
  | _ => IO.println "bad-op"; return s

def main : IO Unit := do
  let _ ← forLines (← IO.getStdin) Sess {} handle
  return ()
