#!/bin/bash
# run every registered quick (or thorough) check once; summary on stdout
cd "$(dirname "$0")/.."
tier=${1:-quick}
for p in $(python3 -c "import json; print(' '.join(c['property_id'] for c in json.load(open('MANIFEST.json'))['checks']))"); do
  start=$(date +%s)
  mkdir -p /root/scratch/runall_logs 2>/dev/null
  out=$(./check $p --tier $tier 2>&1)
  rc=$?
  echo "$out" > /root/scratch/runall_logs/$p.$tier.log 2>/dev/null
  echo "$p rc=$rc $(( $(date +%s) - start ))s $(echo "$out" | grep -c '^VIOLATION') violation(s) $(echo "$out" | grep -c '^KNOWN-FINDING') known | $(echo "$out" | grep 'obligations' | tail -1 | sed 's/.*obligations/obligations/')"
  echo "$out" | grep '^VIOLATION' | head -3
done
