/- Drivers/C14.lean — line-protocol driver of the centre-manifold map model (see harness/props/c14.py).

   det <sec> <18 rationals>                     -> D <traced flag|none> <traced alpha> <model flag> <model alpha>
   flow <6 in> <6 out> / rhs <6 in> <6 out>     oracle table entries of the next `step`
   step <sec> <dt> <maxSteps> <4 seed>          -> S none | S <4 state> <time> | E <msg>      (clears the oracle tables)
   lift <2 in> none | lift <2 in> <4 out>       oracle table entries of the next `eng`
   ret <4 in> none | ret <4 in> <4 out> <time>
   pts <2k rationals>                           plane points
   order <indices>                              completion order of the futures
   eng <sec> <nIter> <nWorkers>                 -> R error | R ok <k> <state;time;point | ...> (clears the tables)
   split <len> <n>                              -> C <chunk sizes>
-/
import HitenModel.Core.C14
import HitenModel.Core.Drv
import HitenModel.Gen.C14
open HitenModel HitenModel.C14 Drv

structure Sess where
  flow : List (Vec × Vec) := []
  rhs : List (Vec × Vec) := []
  lift : List (Vec × Option Vec) := []
  ret : List (Vec × Option Hit) := []
  pts : List Vec := []
  order : List Nat := []
  missing : Bool := false

def lookup {β : Type} (t : List (Vec × β)) (k : Vec) : Option β :=
  match t.find? (fun e => e.1 == k) with
  | some e => some e.2
  | none => none

/-- the traced `_hermite_scalar` -/
def genHerm (s y0 y1 d0 d1 dt : Rat) : Rat := evalQ (env6 s y0 y1 d0 d1 dt) Gen.C14.hermite

def pairs : List Rat → List Vec
  | a :: b :: rest => [a, b] :: pairs rest
  | _ => []

def handle (s : Sess) (line : String) : IO Sess := do
  match words line with
  | "det" :: sec :: ws =>
      match Sec.ofName? sec, parseRats ws with
      | some sc, some v =>
          let so := v.take 6
          let sn := (v.drop 6).take 6
          let rn := (v.drop 12).take 6
          let tr := runPaths (env18 so sn rn) (Gen.C14.detectPaths sc)
          let md := detectPair sc so sn rn
          let trs := match tr with
            | none => "none 0"
            | some (b, a) => s!"{if b then 1 else 0} {showRat a}"
          IO.println s!"D {trs} {if md.1 then 1 else 0} {showRat md.2}"
          return s
      | _, _ => IO.println "bad-op"; return s
  | "flow" :: ws => match parseRats ws with
      | some v => return { s with flow := s.flow ++ [(v.take 6, v.drop 6)] }
      | none => IO.println "bad-op"; return s
  | "rhs" :: ws => match parseRats ws with
      | some v => return { s with rhs := s.rhs ++ [(v.take 6, v.drop 6)] }
      | none => IO.println "bad-op"; return s
  | "step" :: sec :: dt :: ms :: ws =>
      match Sec.ofName? sec, parseRat? dt, ms.toNat?, parseRats ws with
      | some sc, some d, some m, some seed =>
          -- an oracle miss is reported through a sentinel state (the harness records every call, so it never happens
          -- unless model and code evaluate the oracles at different states)
          let miss : Vec := [999983, 999983, 999983, 999983, 999983, 999983]
          let cfg : StepCfg := { sec := sc, dt := d, maxSteps := m,
                                 flow := fun x => (lookup s.flow x).getD miss,
                                 rhs := fun x => (lookup s.rhs x).getD miss, herm := genHerm }
          match poincareStep cfg seed with
          | none => IO.println "S none"
          | some h => IO.println s!"S {showVec h.state} {showRat h.time}"
          return {}
      | _, _, _, _ => IO.println "bad-op"; return s
  | ["lift", a, b, "none"] => match parseRats [a, b] with
      | some k => return { s with lift := s.lift ++ [(k, none)] }
      | none => IO.println "bad-op"; return s
  | "lift" :: ws => match parseRats ws with
      | some v => return { s with lift := s.lift ++ [(v.take 2, some (v.drop 2))] }
      | none => IO.println "bad-op"; return s
  | ["ret", a, b, c, d, "none"] => match parseRats [a, b, c, d] with
      | some k => return { s with ret := s.ret ++ [(k, none)] }
      | none => IO.println "bad-op"; return s
  | "ret" :: ws => match parseRats ws with
      | some v => return { s with ret := s.ret ++ [(v.take 4, some ⟨(v.drop 4).take 4, (v.drop 8).getD 0 0⟩)] }
      | none => IO.println "bad-op"; return s
  | "pts" :: ws => match parseRats ws with
      | some v => return { s with pts := pairs v }
      | none => IO.println "bad-op"; return s
  | "order" :: ws => match parseNats ws with
      | some v => return { s with order := v }
      | none => IO.println "bad-op"; return s
  | ["eng", sec, ni, nw] =>
      match Sec.ofName? sec, ni.toNat?, nw.toNat? with
      | some sc, some n, some w =>
          let pc := Gen.C14.planeCoords sc
          let cfg : EngineCfg := {
            step := fun x => (lookup s.ret x).getD (some ⟨[999983, 999983, 999983, 999983], 999983⟩),
            lift := fun p => (lookup s.lift p).getD (some [999983, 999983, 999983, 999983]),
            zeroCol := Gen.C14.stateIndex sc, planeI := Gen.C14.stateIndex pc.1, planeJ := Gen.C14.stateIndex pc.2,
            nIter := n, nWorkers := w }
          match solve cfg s.pts s.order with
          | .error => IO.println "R error"
          | .ok hits pts =>
              let rows := (hits.zip pts).map fun (h, p) => s!"{showVec h.state};{showRat h.time};{showVec p}"
              IO.println s!"R ok {hits.length} {"|".intercalate rows}"
          return {}
      | _, _, _ => IO.println "bad-op"; return s
  | ["split", len, n] =>
      match len.toNat?, n.toNat? with
      | some l, some k =>
          let ch := arraySplit (List.range l) k
          IO.println s!"C {" ".intercalate (ch.map fun c => toString c.length)}"
          return s
      | _, _ => IO.println "bad-op"; return s
  | [] => return s
  | _ => IO.println "bad-op"; return s

def main : IO Unit := do
  let _ ← forLines (← IO.getStdin) Sess {} handle
  return ()
