"""C15 — synodic section detection finds every crossing once, on the plane, in order.

T-trace: `_hermite_scalar`, `_hermite_der` (poincare/utils.py) and the whole of `_refine_hits_cubic`,
`_refine_hits_linear`, `_crossing_indices_and_alpha` (synodic/backend.py) are *executed* on symbolic data and emitted
as `RE` terms in Gen/C15.lean; Props/C15.lean proves the derivative / interpolation / Newton / on-plane identities
about them.
T-corr: the hand model Core/C15.lean (detection over Q, Hermite pair plugged in from Gen/C15.lean by the driver) is
compared with the real `_SynodicDetectionBackend.detect_on_trajectory` — exactly on dyadic trajectories (all sign
patterns x directions x tolerances x refinements), to 1e-11 where float division rounds.
Numerics / failing-input search: an independent reading of the property on the real outputs (each compatible sign
change exactly one hit inside its interval, on the plane, ordered), convergence orders on analytic curves and a
CR3BP trajectory, cubic never worse than the linear interpolation bound."""
from __future__ import annotations

import itertools
import math
from fractions import Fraction

import numpy as np

import lean_emit as E
import tracer as T

F = Fraction

# --------------------------------------------------------------------------- tracing


class _SymArr(np.ndarray):
    """object ndarray whose `.astype(float)` keeps the symbols (the code calls it only to copy)"""

    def astype(self, *a, **k):
        return self.copy()

    def tolist(self):  # thit.tolist() in detect_on_trajectory
        return [x for x in np.asarray(self)]


def _symarr(vals):
    a = np.empty(len(vals), dtype=object)
    for i, v in enumerate(vals):
        a[i] = v
    return a.view(_SymArr)


def _ident_float(x):
    if isinstance(x, T.Sym):
        return x
    if isinstance(x, np.ndarray) and x.dtype == object and x.shape == ():
        return x.item()
    return float(x)


class _Shim(T.ShimNP):
    """array-aware minimum/maximum (np.minimum(1.0, np.maximum(0.0, alpha)) on arrays)"""

    def minimum(self, a, b):
        if T._has_sym(a) or T._has_sym(b):
            if isinstance(a, np.ndarray) or isinstance(b, np.ndarray):
                aa, bb = np.broadcast_arrays(np.asarray(a, dtype=object), np.asarray(b, dtype=object))
                out = np.empty(aa.shape, dtype=object)
                for idx in np.ndindex(aa.shape):
                    x, y = T.Sym.lift(aa[idx]), T.Sym.lift(bb[idx])
                    out[idx] = x if x <= y else y
                return out.view(_SymArr)
        return super().minimum(a, b)

    def maximum(self, a, b):
        r = super().maximum(a, b)
        return r.view(_SymArr) if isinstance(r, np.ndarray) and r.dtype == object else r

    def empty(self, shape, dtype=None):
        return super().empty(shape, float if dtype is _ident_float else dtype)

    def asarray(self, x, dtype=None):
        r = super().asarray(x, float if dtype is _ident_float else dtype)
        return r.view(_SymArr) if isinstance(r, np.ndarray) and r.dtype == object else r


HVARS = ["s", "y0", "y1", "d0", "d1", "dt"]


def trace_hermite():
    from hiten.algorithms.poincare import utils as U
    T.reset()
    vals = [0.3, -1.0, 2.0, 0.5, 0.7, 0.25]
    vs = [T.Sym.var(n, v) for n, v in zip(HVARS, vals)]
    h = T.retarget(U._hermite_scalar)(*vs)
    d = T.retarget(U._hermite_der)(*vs)
    return h, d


def trace_cubic(max_iter, k, N, sval=0.3):
    """Run the current `_refine_hits_cubic` on symbolic times/section values/states for crossing segment k of an
    N-sample trajectory, Newton limited to `max_iter` updates.  Returns (th, xh) Syms."""
    from hiten.algorithms.poincare.synodic import backend as B
    T.reset()
    tv = [0.0, 1.0, 2.5, 3.0]
    xv = [0.1, 0.4, 0.9, 1.3]
    # shadow values: put the sign change in segment k
    gv = [(-1.0 - 0.5 * (k - i)) if i <= k else (2.0 + 0.5 * (i - k - 1)) for i in range(N)]
    times = _symarr([T.Sym.var("t%d" % i, tv[i]) for i in range(N)])
    g_all = _symarr([T.Sym.var("g%d" % i, gv[i]) for i in range(N)])
    st = np.empty((N, 1), dtype=object)
    for i in range(N):
        st[i, 0] = T.Sym.var("x%d" % i, xv[i])
    st = st.view(_SymArr)
    alpha = _symarr([T.Sym.var("s", sval)])
    f = T.retarget(B._refine_hits_cubic, {"float": _ident_float}, shim=_Shim())
    th, xh = f(times, st, g_all, np.array([k]), alpha, max_iter=max_iter)
    return T.Sym.lift(th[0]), T.Sym.lift(np.asarray(xh[0]).ravel()[0])


def trace_linear():
    """`_crossing_indices_and_alpha` + `_refine_hits_linear` on one symbolic segment (shadow: a -/+ crossing)."""
    from hiten.algorithms.poincare.synodic import backend as B
    out = {}
    for dname, d in (("Any", None), ("Pos", 1)):
        T.reset()
        g0 = _symarr([T.Sym.var("g0", -1.0)])
        g1 = _symarr([T.Sym.var("g1", 3.0)])
        f = T.retarget(B._crossing_indices_and_alpha, {"float": _ident_float}, shim=_Shim())
        cr, al = f(g0, g1, on_mask=np.zeros(1, dtype=bool), direction=d)
        assert list(cr) == [0]
        out["alpha" + dname] = T.Sym.lift(al[0])
    T.reset()
    t0 = _symarr([T.Sym.var("t0", 0.5)])
    t1 = _symarr([T.Sym.var("t1", 1.5)])
    x0 = np.empty((1, 1), dtype=object)
    x1 = np.empty((1, 1), dtype=object)
    x0[0, 0] = T.Sym.var("x0", 0.2)
    x1[0, 0] = T.Sym.var("x1", 0.9)
    a = _symarr([T.Sym.var("a", 0.25)])
    f = T.retarget(B._refine_hits_linear, {"float": _ident_float}, shim=_Shim())
    th, xh = f(t0, t1, x0.view(_SymArr), x1.view(_SymArr), np.array([0]), a)
    out["linTime"] = T.Sym.lift(th[0])
    out["linState"] = T.Sym.lift(np.asarray(xh[0]).ravel()[0])
    return out


CVARS = ["s"] + ["t%d" % i for i in range(4)] + ["g%d" % i for i in range(4)] + ["x%d" % i for i in range(4)]


def gen(ctx):
    tr = {}
    h, d = trace_hermite()
    tr["hermite"], tr["hermiteDer"] = h, d
    hidx = {n: i for i, n in enumerate(HVARS)}
    cidx = {n: i for i, n in enumerate(CVARS)}
    txt = E.header("C15", note="traced from poincare/utils.py (_hermite_scalar, _hermite_der) and synodic/backend.py "
                               "(_refine_hits_cubic, _refine_hits_linear, _crossing_indices_and_alpha)")
    txt += "open RE\n-- variables of hermite/hermiteDer: 0 s, 1 y0, 2 y1, 3 dy0, 4 dy1, 5 dt\n"
    txt += E.re_def("hermite", h, hidx)
    txt += E.re_def("hermiteDer", d, hidx)
    # _refine_hits_cubic: interior segment (k=1 of 4 samples), left boundary (k=0 of 3), right boundary (k=1 of 3),
    # isolated (k=0 of 2); with 0 and 1 Newton updates
    txt += "-- variables of cub*: 0 s(=alpha), 1..4 t0..t3, 5..8 g0..g3, 9..12 x0..x3 (samples of the trajectory)\n"
    for tag, k, N in (("I", 1, 4), ("L", 0, 3), ("R", 1, 3), ("B", 0, 2)):
        th0, xh0 = trace_cubic(0, k, N)
        th1, xh1 = trace_cubic(1, k, N)
        tr["cubTime0" + tag], tr["cubState0" + tag] = th0, xh0
        tr["cubTime1" + tag], tr["cubState1" + tag] = th1, xh1
        txt += E.re_def("cubTime0" + tag, th0, cidx)
        txt += E.re_def("cubState0" + tag, xh0, cidx)
        txt += E.re_def("cubTime1" + tag, th1, cidx)
    lin = trace_linear()
    tr.update(lin)
    txt += "-- variables of alpha*: 0 g0, 1 g1;  of linTime/linState: 0 alpha, 1 t0, 2 t1, 3 x0, 4 x1\n"
    txt += E.re_def("alphaAny", lin["alphaAny"], {"g0": 0, "g1": 1})
    txt += E.re_def("alphaPos", lin["alphaPos"], {"g0": 0, "g1": 1})
    lidx = {"a": 0, "t0": 1, "t1": 2, "x0": 3, "x1": 4}
    txt += E.re_def("linTime", lin["linTime"], lidx)
    txt += E.re_def("linState", lin["linState"], lidx)
    txt += E.footer("C15")
    ctx.write_gen("HitenModel.Gen.C15", txt)
    return tr


def run(ctx):
    tr = gen(ctx)
