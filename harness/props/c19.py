"""C19 — reported connections are geometrically and kinematically what they claim.

Tie 1 (regenerated): `_closest_points_on_segments_2d` (the current `.py_func`) is *symbolically executed on all of its
syntactic paths* (forking re-execution over the tracer's Sym values) and emitted as the piecewise Lean function
`Gen.C19.closestGen` over an arbitrary ordered field; `Props/C19.lean` proves it equal to the hand model
`closestCore` and proves KKT + global optimality for every segment pair.
Tie 2 (correspondence): the hand model of the whole backend (`Core/C19.lean`: counts, prefix sums, fill, mutual-best
dictionaries, nearest neighbours, refinement, result branches, thresholds, stable sort) is executed over `Rat` by
`Drivers/C19.lean` (with `closestGen` plugged in) on lattice clouds and compared with the real
`_ConnectionsBackend.run`, `_radpair2d`, `_nearest_neighbor_2d`, `_refine_pairs_on_section`,
`_closest_points_on_segments_2d` (njit and py_func) and `ConnectionPipeline.solve` (stubbed section extraction):
exactly wherever the exact result is dyadic, to 1e-12 otherwise.
Search: every clause of the property is checked directly on the real outputs with exact rational brute force."""
from __future__ import annotations

import itertools
import math
from fractions import Fraction

import numpy as np

import tracer as T

F = Fraction
ARGS = ["a0x", "a0y", "a1x", "a1y", "b0x", "b0y", "b1x", "b1y"]


# ---------------------------------------------------------------------------------------------------------
# symbolic execution of all syntactic paths
# ---------------------------------------------------------------------------------------------------------

def explore(fn, mkargs, max_paths=4000):
    """Run `fn` on symbolic arguments once per syntactic path.  Returns [(events, result)], events =
    [(op, lhs Sym, rhs Sym, outcome)] in program order (constant-vs-constant comparisons are decided, not recorded)."""
    orig = T.Sym._cmp
    st = {"script": [], "pos": 0, "events": []}

    def _cmp(self, o, op, f):
        o = T.Sym.lift(o)
        if self.is_const() and o.is_const():
            return bool(f(self.val, o.val))
        if st["pos"] < len(st["script"]):
            out = st["script"][st["pos"]]
        else:
            out = True
            st["script"].append(True)
        st["pos"] += 1
        st["events"].append((op, self, o, out))
        return out

    T.Sym._cmp = _cmp
    paths = []
    try:
        script = []
        while True:
            st["script"], st["pos"], st["events"] = list(script), 0, []
            res = fn(*mkargs())
            paths.append((list(st["events"]), tuple(T.Sym.lift(r) for r in res)))
            if len(paths) > max_paths:
                raise RuntimeError("too many paths")
            script = list(st["script"])
            while script and script[-1] is False:
                script.pop()
            if not script:
                break
            script[-1] = False
    finally:
        T.Sym._cmp = orig
    return paths


def build_tree(paths):
    """Merge the paths into a decision tree: ('leaf', result) | ('if', (op, a, b), true_subtree, false_subtree)."""

    def go(ps, depth):
        if len(ps) == 1 and len(ps[0][0]) == depth:
            return ("leaf", ps[0][1])
        heads = {(p[0][depth][0], id(p[0][depth][1]), id(p[0][depth][2])) for p in ps}
        if len(heads) != 1:
            raise RuntimeError("non-deterministic branching structure")
        op, a, b, _ = ps[0][0][depth]
        tt = [p for p in ps if p[0][depth][3]]
        ff = [p for p in ps if not p[0][depth][3]]
        return ("if", (op, a, b), go(tt, depth + 1), go(ff, depth + 1))

    return go(paths, 0)


def tree_nodes(tree, acc):
    if tree[0] == "leaf":
        acc.extend(tree[1])
    else:
        acc.extend([tree[1][1], tree[1][2]])
        tree_nodes(tree[2], acc)
        tree_nodes(tree[3], acc)
    return acc


def count_leaves(tree):
    return 1 if tree[0] == "leaf" else count_leaves(tree[2]) + count_leaves(tree[3])


OPS = {"add": "+", "sub": "-", "mul": "*", "div": "/"}
CMP = {"lt": "<", "le": "≤", "gt": ">", "ge": "≥", "eq": "=", "ne": "≠"}


def emit_lean(tree, fname="closestGen"):
    roots = tree_nodes(tree, [])
    # reference counts over the DAG (each distinct parent counts once, each root occurrence counts once)
    refs = {}
    seen = set()

    def visit(s):
        refs[id(s)] = refs.get(id(s), 0) + 1
        if id(s) in seen:
            return
        seen.add(id(s))
        if s.op in ("var", "const"):
            return
        for a in s.args:
            if isinstance(a, T.Sym):
                visit(a)

    for r in roots:
        visit(r)
    names = {}
    lets = []

    def term(s, top=False):
        if not top and id(s) in names:
            return names[id(s)]
        if s.op == "var":
            return s.args[0]
        if s.op == "const":
            q = s.args[0]
            if q.denominator == 1 and q.numerator in (0, 1):
                return "(%d : K)" % q.numerator
            n = "(natLit %d : K)" % abs(q.numerator)
            if q.denominator != 1:
                n = "(%s / (natLit %d : K))" % (n, q.denominator)
            return "(-%s)" % n if q < 0 else n
        if s.op in OPS:
            return "(%s %s %s)" % (term(s.args[0]), OPS[s.op], term(s.args[1]))
        if s.op == "neg":
            return "(-%s)" % term(s.args[0])
        if s.op == "pow":
            return "(%s)" % " * ".join([term(s.args[0])] * int(s.args[1]))
        raise ValueError("operation %r is outside the ordered-field fragment" % s.op)

    # hoist shared compound nodes in dependency order
    order = []
    done = set()

    def topo(s):
        if id(s) in done:
            return
        done.add(id(s))
        if s.op in ("var", "const"):
            return
        for a in s.args:
            if isinstance(a, T.Sym):
                topo(a)
        order.append(s)

    for r in roots:
        topo(r)
    k = 0
    for s in order:
        if refs.get(id(s), 0) >= 2:
            nm = "n%d" % k
            k += 1
            lets.append("  let %s : K := %s\n" % (nm, term(s, top=True)))
            names[id(s)] = nm

    def emit(t, ind):
        pad = "  " * ind
        if t[0] == "leaf":
            return pad + "(" + ", ".join(term(x) for x in t[1]) + ")\n"
        op, a, b = t[1]
        return (pad + "if %s %s %s then\n" % (term(a), CMP[op], term(b)) + emit(t[2], ind + 1) + pad + "else\n" + emit(t[3], ind + 1))

    txt = "def %s (%s : K) : K × K × K × K × K × K :=\n" % (fname, " ".join(ARGS))
    txt += "".join(lets) + emit(tree, 1)
    return txt


GEN_HEADER = """-- GENERATED by /verif/harness/props/c19.py from /repo's current source on every run. DO NOT EDIT.
-- all syntactic paths of hiten.algorithms.connections.backends._closest_points_on_segments_2d (py_func),
-- executed on symbolic values; shared sub-expressions are let-bound; import-free (runs under `lean --run`).
namespace HitenModel.Gen.C19

section
variable {K : Type} [Add K] [Sub K] [Mul K] [Div K] [Neg K] [LT K] [LE K]
  [DecidableLT K] [DecidableLE K] [DecidableEq K] [OfNat K 0] [OfNat K 1]

/-- numerals other than 0 and 1 (none occur in the unchanged source) -/
def natLit : Nat → K
  | 0 => 0
  | n + 1 => natLit n + 1

"""


def trace_closest():
    from hiten.algorithms.connections import backends as B
    T.reset()
    f = T.retarget(B._closest_points_on_segments_2d)
    paths = explore(f, lambda: [T.Sym.var(n, 0.0) for n in ARGS])
    tree = build_tree(paths)
    return paths, tree


def gen(ctx):
    paths, tree = trace_closest()
    txt = GEN_HEADER + emit_lean(tree) + "\ndef closestGen_paths : Nat := %d\n\nend\n\nend HitenModel.Gen.C19\n" % len(paths)
    ctx.write_gen("HitenModel.Gen.C19", txt)
    ctx.extra["closest_paths"] = len(paths)
    return paths, tree


# ---------------------------------------------------------------------------------------------------------
# exact helpers
# ---------------------------------------------------------------------------------------------------------

def fr(q):
    q = F(q)
    return str(q.numerator) if q.denominator == 1 else "%d/%d" % (q.numerator, q.denominator)


def pq(s):
    return F(s)


def is_dyadic(q, maxbits=40):
    d = F(q).denominator
    return d & (d - 1) == 0 and d.bit_length() <= maxbits


def same(x, q, exact):
    """float x of the real code vs rational q of the model"""
    x = float(x)
    if not math.isfinite(x):
        return False
    if exact:
        return F(x) == q
    return abs(x - float(q)) <= 1e-12 * (1.0 + abs(float(q)))


def d2q(p, q):
    return (F(p[0]) - F(q[0])) ** 2 + (F(p[1]) - F(q[1])) ** 2


def seg_min_d2(a0, a1, b0, b1):
    """exact minimal squared distance between two closed segments (rational brute force, independent of the routine
    under test): the minimum is 0 at a proper crossing, otherwise it is attained with one endpoint."""
    a0, a1, b0, b1 = [(F(p[0]), F(p[1])) for p in (a0, a1, b0, b1)]

    def pt_seg(p, s0, s1):
        vx, vy = s1[0] - s0[0], s1[1] - s0[1]
        L = vx * vx + vy * vy
        if L == 0:
            return d2q(p, s0)
        t = ((p[0] - s0[0]) * vx + (p[1] - s0[1]) * vy) / L
        t = min(F(1), max(F(0), t))
        return d2q(p, (s0[0] + t * vx, s0[1] + t * vy))

    best = min(pt_seg(a0, b0, b1), pt_seg(a1, b0, b1), pt_seg(b0, a0, a1), pt_seg(b1, a0, a1))
    ux, uy = a1[0] - a0[0], a1[1] - a0[1]
    vx, vy = b1[0] - b0[0], b1[1] - b0[1]
    cr = ux * vy - uy * vx
    if cr != 0:
        wx, wy = b0[0] - a0[0], b0[1] - a0[1]
        s = (wx * vy - wy * vx) / cr
        t = (wx * uy - wy * ux) / cr
        if 0 <= s <= 1 and 0 <= t <= 1:
            best = F(0)
    return best


# ---------------------------------------------------------------------------------------------------------
# generators (everything derives from ctx.rng)
# ---------------------------------------------------------------------------------------------------------

EPS_SET = [F(0), F(1, 2), F(1), F(5, 4), F(3, 2), F(2), F(5, 2), F(3), F(5), F(13, 2)]
TOL_SET = [F(0), F(1, 2), F(1), F(3, 2), F(2), F(5, 2), F(3), F(4), F(6), F(100)]


def gen_cloud(rng, n, style):
    if style == "grid3":
        return [(rng.randrange(3), rng.randrange(3)) for _ in range(n)]
    if style == "collinear":
        dx, dy = rng.choice([(1, 0), (0, 1), (1, 1), (1, -1), (2, 1)])
        ox, oy = rng.randrange(-2, 3), rng.randrange(-2, 3)
        return [(ox + k * dx, oy + k * dy) for k in (rng.randrange(-3, 4) for _ in range(n))]
    if style == "clustered":
        cs = [(rng.randrange(-4, 5), rng.randrange(-4, 5)) for _ in range(2)]
        out = []
        for _ in range(n):
            c = rng.choice(cs)
            out.append((c[0] + rng.randrange(-1, 2), c[1] + rng.randrange(-1, 2)))
        return out
    if style == "dup":
        base = [(rng.randrange(-2, 3), rng.randrange(-2, 3)) for _ in range(max(1, n // 2))]
        return [rng.choice(base) for _ in range(n)]
    if style == "half":
        return [(F(rng.randrange(-8, 9), 2), F(rng.randrange(-8, 9), 2)) for _ in range(n)]
    return [(rng.randrange(-4, 5), rng.randrange(-4, 5)) for _ in range(n)]


def gen_case(rng, small=False):
    style = rng.choice(["grid3", "grid3", "collinear", "clustered", "dup", "half", "lattice"])
    if small:
        style = "grid3"
        nu, ns = rng.randrange(1, 4), rng.randrange(1, 4)
    else:
        nu, ns = rng.choice([1, 2, 3, 4, 5, 6, 8]), rng.choice([1, 2, 3, 4, 5, 6, 8])
    pu = gen_cloud(rng, nu, style)
    ps = gen_cloud(rng, ns, style if rng.random() < 0.7 else "lattice")
    vr = rng.choice([1, 2, 3])
    Xu = [[rng.randrange(-3, 4) for _ in range(3)] + [rng.randrange(-vr, vr + 1) for _ in range(3)] for _ in range(nu)]
    Xs = [[rng.randrange(-3, 4) for _ in range(3)] + [rng.randrange(-vr, vr + 1) for _ in range(3)] for _ in range(ns)]
    tu = None if rng.random() < 0.4 else [rng.randrange(0, 50) for _ in range(nu)]
    ts = None if rng.random() < 0.4 else [rng.randrange(0, 50) for _ in range(ns)]
    return {"pu": pu, "ps": ps, "Xu": Xu, "Xs": Xs, "tu": tu, "ts": ts, "eps": rng.choice(EPS_SET),
            "dv_tol": rng.choice(TOL_SET), "bal_tol": rng.choice(TOL_SET), "style": style}


def case_lines(c, max_len=F(10 ** 9)):
    L = ["pu " + " ".join(fr(v) for p in c["pu"] for v in p), "ps " + " ".join(fr(v) for p in c["ps"] for v in p),
         "xu " + " ".join(fr(v) for x in c["Xu"] for v in x), "xs " + " ".join(fr(v) for x in c["Xs"] for v in x),
         "tu " + ("none" if c["tu"] is None else " ".join(map(str, c["tu"]))),
         "ts " + ("none" if c["ts"] is None else " ".join(map(str, c["ts"]))),
         "par %s %s %s %s" % (fr(c["eps"]), fr(c["dv_tol"]), fr(c["bal_tol"]), fr(max_len))]
    return L


def arrays(c):
    pu = np.array([[float(v) for v in p] for p in c["pu"]], dtype=float).reshape(-1, 2)
    ps = np.array([[float(v) for v in p] for p in c["ps"]], dtype=float).reshape(-1, 2)
    Xu = np.array([[float(v) for v in x] for x in c["Xu"]], dtype=float).reshape(-1, 6)
    Xs = np.array([[float(v) for v in x] for x in c["Xs"]], dtype=float).reshape(-1, 6)
    tu = None if c["tu"] is None else np.array(c["tu"], dtype=int)
    ts = None if c["ts"] is None else np.array(c["ts"], dtype=int)
    return pu, ps, Xu, Xs, tu, ts


def jsonable(c):
    return {k: ([[fr(v) for v in row] for row in val] if k in ("pu", "ps", "Xu", "Xs") else
                (fr(val) if isinstance(val, F) else val)) for k, val in c.items()}


def unjson(c):
    out = dict(c)
    for k in ("pu", "ps", "Xu", "Xs"):
        out[k] = [[F(v) for v in row] for row in c[k]]
    for k in ("eps", "dv_tol", "bal_tol"):
        out[k] = F(c[k])
    return out


# ---------------------------------------------------------------------------------------------------------
# the real code
# ---------------------------------------------------------------------------------------------------------

def real_run(c):
    from hiten.algorithms.connections.backends import _ConnectionsBackend
    from hiten.algorithms.connections.types import ConnectionsBackendRequest
    pu, ps, Xu, Xs, tu, ts = arrays(c)
    req = ConnectionsBackendRequest(points_u=pu, points_s=ps, states_u=Xu, states_s=Xs, traj_indices_u=tu,
                                    traj_indices_s=ts, eps=float(c["eps"]), dv_tol=float(c["dv_tol"]),
                                    bal_tol=float(c["bal_tol"]))
    resp = _ConnectionsBackend().run(req)
    return resp


class _Dyn:
    def __init__(self):
        self.payloads = []

    def apply_connections(self, payload):
        self.payloads.append(payload)


class _Svc:
    def __init__(self):
        self.dynamics = _Dyn()


class _FakeManifold:
    def __init__(self, stable):
        self.stable = stable
        self.services = _Svc()
        self.result = object()


def real_solve(c):
    """ConnectionPipeline.solve with the section extraction (`to_numeric`) replaced by the given clouds."""
    from hiten.algorithms.connections.base import ConnectionPipeline
    from hiten.algorithms.connections.config import ConnectionConfig
    from hiten.algorithms.connections.interfaces import _ManifoldConnectionInterface
    from hiten.algorithms.connections.options import ConnectionOptions
    from hiten.algorithms.poincare.synodic.config import SynodicMapConfig
    pu, ps, Xu, Xs, tu, ts = arrays(c)
    src, tgt = _FakeManifold(-1), _FakeManifold(1)

    class Stub(_ManifoldConnectionInterface):
        def to_numeric(self, manifold, config, *, direction=None):
            if manifold is src:
                return pu, Xu, tu
            if manifold is tgt:
                return ps, Xs, ts
            raise AssertionError("unknown manifold")

    cfg = ConnectionConfig(section=SynodicMapConfig(section_axis="x", section_offset=0.8, plane_coords=("y", "z")), direction=None)
    pipe = ConnectionPipeline.with_default_engine(config=cfg, interface=Stub())
    opts = ConnectionOptions(delta_v_tol=float(c["dv_tol"]), ballistic_tol=float(c["bal_tol"]), eps2d=float(c["eps"]))
    res = pipe.solve(src, tgt, opts)
    return list(res.connections), src, tgt


# ---------------------------------------------------------------------------------------------------------
# direct (model-independent) check of every clause of the property on real outputs
# ---------------------------------------------------------------------------------------------------------

def first_nn(pts, i):
    best, bj = None, -1
    for j, q in enumerate(pts):
        if j == i:
            continue
        d = d2q(pts[i], q)
        if best is None or d < best:
            best, bj = d, j
    return bj


def direct_check(c, results, rel=1e-12):
    """Returns [(clause_key, message)] of property clauses violated by `results` (real outputs) on input c."""
    from hiten.algorithms.connections import backends as B
    bad = []
    pu, ps = c["pu"], c["ps"]
    eps2 = F(c["eps"]) ** 2
    dv_tol, bal_tol = float(c["dv_tol"]), float(c["bal_tol"])
    seen_i, seen_j = set(), set()
    prev = None
    for r in results:
        i, j = int(r.index_u), int(r.index_s)
        if not (0 <= i < len(pu) and 0 <= j < len(ps)):
            bad.append(("pair-index", "reported index pair (%d,%d) out of range" % (i, j)))
            continue
        d = d2q(pu[i], ps[j])
        tolf = F(1) + F(1, 10 ** 12)
        if d > eps2 * tolf:
            bad.append(("pair-radius", "pair (%d,%d) at distance^2 %s > eps^2 %s" % (i, j, fr(d), fr(eps2))))
        for jj in range(len(ps)):
            if d2q(pu[i], ps[jj]) * tolf < d:
                bad.append(("pair-mutual-nearest", "pair (%d,%d): stable point %d is nearer to unstable point %d" % (i, j, jj, i)))
                break
        for ii in range(len(pu)):
            if d2q(pu[ii], ps[j]) * tolf < d:
                bad.append(("pair-mutual-nearest", "pair (%d,%d): unstable point %d is nearer to stable point %d" % (i, j, ii, j)))
                break
        if i in seen_i or j in seen_j:
            bad.append(("pair-one-to-one", "index reused in pair (%d,%d)" % (i, j)))
        seen_i.add(i)
        seen_j.add(j)
        su, ss = np.asarray(r.state_u, float), np.asarray(r.state_s, float)
        dv_rep = float(r.delta_v)
        dv_true = math.sqrt(sum((float(su[k]) - float(ss[k])) ** 2 for k in (3, 4, 5)))
        if not abs(dv_rep - dv_true) <= 1e-11 * (1.0 + dv_true):
            bad.append(("dv-mismatch", "pair (%d,%d): delta_v %r but |v_u - v_s| of the reported states is %r" % (i, j, dv_rep, dv_true)))
        if not dv_rep <= dv_tol:
            bad.append(("dv-limit", "pair (%d,%d): delta_v %r exceeds limit %r" % (i, j, dv_rep, dv_tol)))
        if (r.kind == "ballistic") != (dv_rep <= bal_tol) or r.kind not in ("ballistic", "impulsive"):
            bad.append(("dv-label", "pair (%d,%d): delta_v %r, ballistic tolerance %r, labelled %r" % (i, j, dv_rep, bal_tol, r.kind)))
        if prev is not None and dv_rep < prev:
            bad.append(("sorted", "results not sorted: %r after %r" % (dv_rep, prev)))
        prev = dv_rep
        # meeting point and reported states
        pt = (float(r.point2d[0]), float(r.point2d[1]))
        iu = first_nn(pu, i) if len(pu) >= 2 else -1
        js = first_nn(ps, j) if len(ps) >= 2 else -1
        Xu, Xs = c["Xu"], c["Xs"]
        if iu < 0 or js < 0:
            want = (float(pu[i][0]), float(pu[i][1]))
            if not (abs(pt[0] - want[0]) <= rel * (1 + abs(want[0])) and abs(pt[1] - want[1]) <= rel * (1 + abs(want[1]))):
                bad.append(("point-fallback", "pair (%d,%d): no local segment, point %r is not the unstable point %r" % (i, j, pt, want)))
            if len(Xu) > i and len(Xs) > j:
                if not (np.allclose(su, [float(v) for v in Xu[i]], rtol=0, atol=1e-12) and np.allclose(ss, [float(v) for v in Xs[j]], rtol=0, atol=1e-12)):
                    bad.append(("state-fallback", "pair (%d,%d): reported states are not the section states" % (i, j)))
        else:
            a0, a1, b0, b1 = pu[i], pu[iu], ps[j], ps[js]
            dmin = seg_min_d2(a0, a1, b0, b1)
            # the reported point must be the midpoint of points P on segment a, Q on segment b with |P-Q| minimal.
            # P, Q are recovered from the reported states' parameters when the segments are non-degenerate:
            # check via the necessary condition  dist(point, seg a) = dist(point, seg b) = sqrt(dmin)/2  and
            # (when the minimiser is unique) against the exact midpoint.
            uniq = unique_minimiser(a0, a1, b0, b1)
            if uniq is not None:
                want = ((uniq[0][0] + uniq[1][0]) / 2, (uniq[0][1] + uniq[1][1]) / 2)
                if not (abs(pt[0] - float(want[0])) <= 1e-9 * (1 + abs(float(want[0]))) and abs(pt[1] - float(want[1])) <= 1e-9 * (1 + abs(float(want[1])))):
                    bad.append(("point-midpoint", "pair (%d,%d): point %r is not the midpoint %s of the closest points of segments %s-%s and %s-%s"
                                % (i, j, pt, (fr(want[0]), fr(want[1])), a0, a1, b0, b1)))
            else:
                # non-unique minimiser (parallel overlap): point must lie at distance sqrt(dmin)/2 from both segments
                P = (F(pt[0]), F(pt[1]))
                da = seg_min_d2(P, P, a0, a1)
                db = seg_min_d2(P, P, b0, b1)
                want = float(dmin) / 4.0
                if not (abs(float(da) - want) <= 1e-9 * (1 + want) and abs(float(db) - want) <= 1e-9 * (1 + want)):
                    bad.append(("point-midpoint", "pair (%d,%d): point %r is not midway between segments %s-%s and %s-%s (min dist^2 %s)"
                                % (i, j, pt, a0, a1, b0, b1, fr(dmin))))
    return bad


def unique_minimiser(a0, a1, b0, b1):
    """exact closest points (P,Q) when the minimiser over the two closed segments is unique, else None"""
    a0, a1, b0, b1 = [(F(p[0]), F(p[1])) for p in (a0, a1, b0, b1)]
    ux, uy = a1[0] - a0[0], a1[1] - a0[1]
    vx, vy = b1[0] - b0[0], b1[1] - b0[1]
    dmin = seg_min_d2(a0, a1, b0, b1)
    cr = ux * vy - uy * vx
    A, C = ux * ux + uy * uy, vx * vx + vy * vy
    if cr == 0 and A != 0 and C != 0:
        # parallel non-degenerate: unique iff the projections overlap in at most one point
        # parametrise both on the direction of u
        def par(p):
            return ((p[0] - a0[0]) * ux + (p[1] - a0[1]) * uy) / A
        lo_b, hi_b = sorted([par(b0), par(b1)])
        lo, hi = max(F(0), lo_b), min(F(1), hi_b)
        if lo < hi:
            return None
    # candidates: endpoints projected, crossing point
    cands = []

    def proj(p, s0, s1):
        wx, wy = s1[0] - s0[0], s1[1] - s0[1]
        L = wx * wx + wy * wy
        if L == 0:
            return s0
        t = min(F(1), max(F(0), ((p[0] - s0[0]) * wx + (p[1] - s0[1]) * wy) / L))
        return (s0[0] + t * wx, s0[1] + t * wy)

    for p in (a0, a1):
        cands.append((p, proj(p, b0, b1)))
    for q in (b0, b1):
        cands.append((proj(q, a0, a1), q))
    if cr != 0:
        wx, wy = b0[0] - a0[0], b0[1] - a0[1]
        s = (wx * vy - wy * vx) / cr
        t = (wx * uy - wy * ux) / cr
        if 0 <= s <= 1 and 0 <= t <= 1:
            X = (a0[0] + s * ux, a0[1] + s * uy)
            cands.append((X, X))
    best = [pq_ for pq_ in cands if d2q(pq_[0], pq_[1]) == dmin]
    uniq = {(p, q) for p, q in best}
    if len(uniq) == 1:
        return best[0]
    return None
