"""CLI of the checks.  ./check Cxx --tier quick|thorough [--replay file]"""
import argparse
import importlib
import json
import os
import sys
import traceback

HERE = os.path.dirname(os.path.abspath(__file__))
sys.path.insert(0, HERE)
sys.path.insert(0, os.path.join(os.path.dirname(HERE), "translator"))

import common  # noqa: E402


def main():
    ap = argparse.ArgumentParser()
    ap.add_argument("prop")
    ap.add_argument("--tier", default=os.environ.get("VERIF_TIER", "quick"), choices=["quick", "thorough"])
    ap.add_argument("--replay", default=None)
    a = ap.parse_args()
    seed = int(os.environ.get("VERIF_SEED", "20260925"))
    # never run from inside the repo tree (its corrector/types.py shadows the stdlib)
    os.chdir(common.VERIF)
    rec = json.load(open(a.replay)) if a.replay else None
    mod = importlib.import_module("props." + a.prop.lower())
    if rec is not None and not hasattr(mod, "replay"):
        # no dedicated replay entry point: every random choice of a check derives from (seed, tier), so re-running the check with the
        # recorded seed and tier regenerates the recorded failing input deterministically
        seed = int(rec.get("seed", seed))
        a.tier = rec.get("tier", a.tier)
    ctx = common.Ctx(a.prop, a.tier, seed)
    try:
        # hiten's prange kernels are small; with all 16 numba threads active every parallel region waits at its barrier for the slowest
        # thread, which on a busy machine (several checks at once) makes a run 10-20x slower.  Four active threads by default; the checks
        # whose property quantifies over thread counts (C06, C14) sweep numba.set_num_threads(1..NUMBA_NUM_THREADS) themselves.
        import numba
        numba.set_num_threads(min(4, int(numba.config.NUMBA_NUM_THREADS)))
    except Exception:
        pass
    try:
        if a.replay:
            if hasattr(mod, "replay"):
                mod.replay(ctx, rec)
            else:
                mod.run(ctx)
        else:
            mod.run(ctx)
    except Exception:
        tb = traceback.format_exc()
        ctx.log("HARNESS EXCEPTION\n" + tb)
        ctx.broken.append(("harness", tb[-1500:]))
        ctx.obligations["harness-completed"] = False
    rc = ctx.finish()
    sys.stdout.flush()
    os._exit(rc)


if __name__ == "__main__":
    main()
