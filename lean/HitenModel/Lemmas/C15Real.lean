/-
  Lemmas/C15Real.lean — the rational evaluator `evalQ` used by the executable model agrees with the real semantics
  `RE.eval` (for sqrt-free terms), so facts proved over ℝ about traced terms transfer to the model over ℚ.
-/
import HitenModel.Core.C15
import HitenModel.Lemmas.REReal
import Mathlib.Data.Rat.Cast.CharZero

namespace HitenModel.C15
open RE

theorem evalQ_cast (ρ : ℕ → ℚ) : ∀ e : RE, sqrtFree e = true →
    ((evalQ ρ e : ℚ) : ℝ) = eval (fun i => ((ρ i : ℚ) : ℝ)) e
  | .var i, _ => rfl
  | .const n d, _ => by simp [evalQ, eval]
  | .add a b, h => by
    simp only [sqrtFree, Bool.and_eq_true] at h
    simp [evalQ, eval, evalQ_cast ρ a h.1, evalQ_cast ρ b h.2]
  | .sub a b, h => by
    simp only [sqrtFree, Bool.and_eq_true] at h
    simp [evalQ, eval, evalQ_cast ρ a h.1, evalQ_cast ρ b h.2]
  | .mul a b, h => by
    simp only [sqrtFree, Bool.and_eq_true] at h
    simp [evalQ, eval, evalQ_cast ρ a h.1, evalQ_cast ρ b h.2]
  | .div a b, h => by
    simp only [sqrtFree, Bool.and_eq_true] at h
    simp [evalQ, eval, evalQ_cast ρ a h.1, evalQ_cast ρ b h.2]
  | .neg a, h => by
    simp only [sqrtFree] at h
    simp [evalQ, eval, evalQ_cast ρ a h]
  | .pow a n, h => by
    simp only [sqrtFree] at h
    simp [evalQ, eval, evalQ_cast ρ a h]
  | .sqrt a, h => by simp [sqrtFree] at h

end HitenModel.C15
