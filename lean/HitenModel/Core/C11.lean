/-
  Core/C11.lean — hand model of hiten's event detection (property C11).  Import-free, total, executable.

  The model is polymorphic in the number type `α` (only the operations the code uses are required as instance
  arguments) so that *the same definitions* are (a) executed at `α := Rat` (core Lean's exact rationals) by
  `Drivers/C11.lean` in the correspondence with the real drivers and (b) the subject of the theorems of
  `Props/C11.lean`, which hold for every linearly ordered field (ℚ = `Rat` and ℝ included).

  Modelled source (src/hiten/algorithms/integrators):
    utils.py      `_event_crossed`, `_crossed_direction`, `_bisection_update`, `_bracket_converged`,
                  `_clamp_step`, `_adjust_step_to_endpoint`
    rk.py         `_hermite_refine_in_step`, `_rk45_refine_in_step`, `_dop853_refine_in_step(_ham)`  (= `refine`)
                  `_integrate_fixed_rk_until_event(_ham)`                                            (= `gridScan`)
                  `_integrate_rk45_until_event(_ham)`, `_integrate_dop853_until_event(_ham)`         (= `adaptiveScan`)
    symplectic.py `_hermite_refine_event_symplectic` (= `refine`), `_integrate_symplectic_until_event` (= `gridScan`)
  Unknown numerics are oracle parameters: the dense-output curve `P : θ ↦ state` of a step, the event function
  `g : t → state → α`, the accepted/rejected decision, step-size factor and new state of every attempted step.
-/
namespace HitenModel.C11

/-! ## the four predicates of integrators/utils.py -/
section Pred
variable {α : Type} [Zero α] [LT α] [DecidableLT α] [DecidableEq α]

/-- `_event_crossed(g_prev, g_new, direction)` -/
def eventCrossed (gp gn : α) (dir : Int) : Bool :=
  if dir = 0 then
    (decide (gp < 0) && decide (0 < gn)) || (decide (0 < gp) && decide (gn < 0)) || decide (gn = 0)
  else if 0 < dir then
    (decide (gp < 0) && decide (0 < gn)) || decide (gn = 0)
  else
    (decide (0 < gp) && decide (gn < 0)) || decide (gn = 0)

/-- `_crossed_direction(g_left, g_mid, direction)` -/
def crossedDirection (gl gm : α) (dir : Int) : Bool :=
  if dir = 0 then
    (decide (gl < 0) && decide (0 < gm)) || (decide (0 < gl) && decide (gm < 0))
  else if 0 < dir then
    decide (gl < 0) && decide (0 < gm)
  else
    decide (0 < gl) && decide (gm < 0)

/-- `_bisection_update(a, b, g_left, mid, g_mid, crossed)` -/
def bisectionUpdate (a b gl mid gm : α) (crossed : Bool) : α × α × α :=
  if crossed then (a, mid, gl) else (mid, b, gm)
end Pred

/-! ## arithmetic part -/
section Arith
variable {α : Type} [Zero α] [One α] [Add α] [Sub α] [Mul α] [Div α] [Neg α]
  [LT α] [LE α] [DecidableLT α] [DecidableLE α] [DecidableEq α]

/-- Python's `abs` -/
def absv (x : α) : α := if x < 0 then -x else x

/-- the literal `0.5` -/
def half : α := 1 / (1 + 1)

/-- `_bracket_converged(a, b, h, xtol)` -/
def bracketConverged (a b h xtol : α) : Bool := decide ((b - a) * absv h ≤ xtol)

/-- `_clamp_step(h, max_step, min_step)` -/
def clampStep (h maxS minS : α) : α :=
  let h := if maxS < h then maxS else h
  if h < minS then minS else h

/-- `_adjust_step_to_endpoint(t, h, t_end)` -/
def adjustStep (t h tEnd : α) : α := if tEnd < t + h then absv (tEnd - t) else h

/-! ## in-step refinement (one model for the five hand-duplicated loops) -/

/-- how the bisection stopped -/
inductive Exit where
  | gtol      -- `abs(g_mid) <= gtol`: the midpoint is returned
  | xtol      -- `_bracket_converged`: the right end `b` of the bracket is returned
  | maxIter   -- 128 iterations used up: the right end `b` of the best bracket is returned
deriving Repr, DecidableEq, Inhabited

structure Refined (α σ : Type) where
  x : α          -- normalised abscissa θ_hit ∈ [0,1]
  t : α          -- reported time  t0 + θ_hit * h
  y : σ          -- reported state P θ_hit
  exit : Exit
  iters : Nat    -- number of midpoint evaluations of the event function
  a : α          -- final bracket [a,b] and the event value carried for its left end
  b : α
  gl : α

/-- the bisection loop. `P` dense-output curve of the step, `g` event function, `t0`,`h` step start and (signed)
length, bracket `[a,b]` in normalised step time, `gl` the event value carried for `a`, `n` remaining iterations. -/
def refineLoop {σ : Type} (P : α → σ) (g : α → σ → α) (t0 h : α) (dir : Int) (xtol gtol : α) :
    Nat → Nat → α → α → α → Refined α σ
  | 0, k, a, b, gl => ⟨b, t0 + b * h, P b, .maxIter, k, a, b, gl⟩
  | n + 1, k, a, b, gl =>
    let mid := half * (a + b)
    let gm := g (t0 + mid * h) (P mid)
    if absv gm ≤ gtol then ⟨mid, t0 + mid * h, P mid, .gtol, k + 1, a, b, gl⟩
    else
      let c := crossedDirection gl gm dir
      let u := bisectionUpdate a b gl mid gm c
      if bracketConverged u.1 u.2.1 h xtol then ⟨u.2.1, t0 + u.2.1 * h, P u.2.1, .xtol, k + 1, u.1, u.2.1, u.2.2⟩
      else refineLoop P g t0 h dir xtol gtol n (k + 1) u.1 u.2.1 u.2.2

/-- `max_iter = 128` -/
def maxIter : Nat := 128

/-- `_*_refine_in_step(event_fn, t0, y0, …, h, direction, xtol, gtol)`; `y0` is the state at the step start. -/
def refine {σ : Type} (P : α → σ) (g : α → σ → α) (t0 h : α) (y0 : σ) (dir : Int) (xtol gtol : α) : Refined α σ :=
  refineLoop P g t0 h dir xtol gtol maxIter 0 0 1 (g t0 y0)

/-! ## scan drivers -/

/-- one accepted integration step: start time, signed length, end states, dense-output curve -/
structure Step (α σ : Type) where
  t0 : α
  h : α
  y0 : σ
  y1 : σ
  P : α → σ

inductive Outcome (α σ : Type) where
  /-- event in accepted step number `idx`; `ynew` is the (discarded) state at the end of that step -/
  | hit (idx : Nat) (r : Refined α σ) (ynew : σ)
  /-- no event: time and state at the end of the span -/
  | noHit (t : α) (y : σ)
  /-- the adaptive loop did not terminate within the fuel (the code has no such bound) -/
  | outOfFuel

/-- the generic scan over a sequence of accepted steps; `gprev` event value at the start of the first step,
`(tl, yl)` time and state reached so far. -/
def scan {σ : Type} (g : α → σ → α) (dir : Int) (xtol gtol : α) :
    Nat → List (Step α σ) → α → α → σ → Outcome α σ
  | _, [], _, tl, yl => .noHit tl yl
  | i, s :: rest, gprev, _, _ =>
    let gnew := g (s.t0 + s.h) s.y1
    if eventCrossed gprev gnew dir then .hit i (refine s.P g s.t0 s.h s.y0 dir xtol gtol) s.y1
    else scan g dir xtol gtol (i + 1) rest gnew (s.t0 + s.h) s.y1

/-- steps of a fixed grid `t_vals` (fixed-step RK and symplectic drivers): step `i` goes from `t_i` to `t_{i+1}` with
`h = t_{i+1} - t_i`; `adv t h y = (y_new, P)` is the step oracle. -/
def gridSteps {σ : Type} (adv : α → α → σ → σ × (α → σ)) : List α → σ → List (Step α σ)
  | t :: t' :: ts, y =>
    let r := adv t (t' - t) y
    ⟨t, t' - t, y, r.1, r.2⟩ :: gridSteps adv (t' :: ts) r.1
  | _, _ => []

/-- `_integrate_fixed_rk_until_event(_ham)` / `_integrate_symplectic_until_event`.
The no-event result is `(t_vals[-1], states[-1])`; the event value of the start point is `g t_vals[0] y0`. -/
def gridScan {σ : Type} (adv : α → α → σ → σ × (α → σ)) (g : α → σ → α) (dir : Int) (xtol gtol : α)
    (tvals : List α) (y0 : σ) : Outcome α σ :=
  match tvals with
  | [] => .noHit 0 y0
  | t0 :: _ =>
    match scan g dir xtol gtol 0 (gridSteps adv tvals y0) (g t0 y0) t0 y0 with
    | .noHit _ y => .noHit (tvals.getLastD t0) y
    | o => o

/-- answer of the step oracle for one attempted adaptive step -/
structure Attempt (α σ : Type) where
  accept : Bool       -- `err_norm <= 1`
  factor : α          -- `_pi_accept_factor` resp. `_pi_reject_factor`
  ynew : σ
  P : α → σ

/-- `_integrate_rk45_until_event(_ham)` / `_integrate_dop853_until_event(_ham)`:
`while t < tmax: h = clamp(h); h = adjust(t,h,tmax); attempt; if accepted: event check …; else shrink`.
`oracle k t h y` answers attempt number `k`. State: attempt counter, accepted-step counter, `t`, `y`, `h`, `g_prev`. -/
def adaptiveLoop {σ : Type} (oracle : Nat → α → α → σ → Attempt α σ) (g : α → σ → α) (dir : Int) (xtol gtol : α)
    (tmax maxS minS : α) : Nat → Nat → Nat → α → σ → α → α → Outcome α σ
  | 0, _, _, t, y, _, _ => if t - tmax < 0 then .outOfFuel else .noHit t y
  | fuel + 1, k, i, t, y, h, gprev =>
    if t - tmax < 0 then
      let h1 := adjustStep t (clampStep h maxS minS) tmax
      let att := oracle k t h1 y
      if att.accept then
        let tnew := t + h1
        let gnew := g tnew att.ynew
        if eventCrossed gprev gnew dir then .hit i (refine att.P g t h1 y dir xtol gtol) att.ynew
        else adaptiveLoop oracle g dir xtol gtol tmax maxS minS fuel (k + 1) (i + 1) tnew att.ynew (h1 * att.factor) gnew
      else
        adaptiveLoop oracle g dir xtol gtol tmax maxS minS fuel (k + 1) i t y (clampStep (h1 * att.factor) maxS minS) gprev
    else .noHit t y

def adaptiveScan {σ : Type} (oracle : Nat → α → α → σ → Attempt α σ) (g : α → σ → α) (dir : Int) (xtol gtol : α)
    (t0 tmax maxS minS h0 : α) (y0 : σ) (fuel : Nat) : Outcome α σ :=
  adaptiveLoop oracle g dir xtol gtol tmax maxS minS fuel 0 0 t0 y0 h0 (g t0 y0)

/-- the accepted steps the adaptive loop would take if no event stopped it (same oracle, same fuel) -/
def acceptedSteps {σ : Type} (oracle : Nat → α → α → σ → Attempt α σ) (tmax maxS minS : α) :
    Nat → Nat → α → σ → α → List (Step α σ)
  | 0, _, _, _, _ => []
  | fuel + 1, k, t, y, h =>
    if t - tmax < 0 then
      let h1 := adjustStep t (clampStep h maxS minS) tmax
      let att := oracle k t h1 y
      if att.accept then
        ⟨t, h1, y, att.ynew, att.P⟩ :: acceptedSteps oracle tmax maxS minS fuel (k + 1) (t + h1) att.ynew (h1 * att.factor)
      else acceptedSteps oracle tmax maxS minS fuel (k + 1) t y (clampStep (h1 * att.factor) maxS minS)
    else []

end Arith
end HitenModel.C11
