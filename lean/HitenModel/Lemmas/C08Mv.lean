/-
  Lemmas/C08Mv.lean — the sparse term lists of Core/C08.lean denote Mathlib multivariate polynomials
  (`toMv : Poly K → MvPolynomial (Fin 6) K`); the kernels of the model are the algebraic operations:
  `diff = pderiv`, `mul = *`, `poisson = PB` (the canonical Poisson bracket), `coeff = MvPolynomial.coeff`.
  The bracket with the diagonal quadratic part acts diagonally on monomials (`coeff_PB_H2`).
-/
import HitenModel.Lemmas.C08
import Mathlib.Algebra.MvPolynomial.PDeriv
import Mathlib.Algebra.MvPolynomial.Eval
import Mathlib.Algebra.MvPolynomial.CommRing
import Mathlib.Algebra.BigOperators.Fin
import Mathlib.Tactic.FinCases
import Mathlib.Tactic.FieldSimp

set_option linter.unusedSectionVars false

namespace HitenModel.C08
open MvPolynomial

/-! ### exponent vectors -/

/-- the exponent vector as a finitely supported function on the six variables -/
noncomputable def Mono.toFinsupp (m : Mono) : Fin 6 →₀ ℕ := Finsupp.equivFunOnFinite.symm fun j => m.get j.val

@[simp] theorem Mono.toFinsupp_apply (m : Mono) (j : Fin 6) : m.toFinsupp j = m.get j.val := rfl

def Mono.ofFun (f : Fin 6 → ℕ) : Mono := ⟨f 0, f 1, f 2, f 3, f 4, f 5⟩

theorem Mono.toFinsupp_ofFun (s : Fin 6 →₀ ℕ) : (Mono.ofFun s).toFinsupp = s := by
  ext j; fin_cases j <;> rfl

theorem Mono.toFinsupp_injective : Function.Injective Mono.toFinsupp := by
  intro m n h
  have h0 := DFunLike.congr_fun h 0
  have h1 := DFunLike.congr_fun h 1
  have h2 := DFunLike.congr_fun h 2
  have h3 := DFunLike.congr_fun h 3
  have h4 := DFunLike.congr_fun h 4
  have h5 := DFunLike.congr_fun h 5
  simp only [Mono.toFinsupp_apply, Mono.get] at h0 h1 h2 h3 h4 h5
  cases m; cases n
  simp_all

theorem Mono.toFinsupp_add (m n : Mono) : (m.add n).toFinsupp = m.toFinsupp + n.toFinsupp := by
  ext j; fin_cases j <;> simp [Mono.add, Mono.get]

theorem Mono.toFinsupp_dec (m : Mono) (j : Fin 6) : (m.dec j.val).toFinsupp = m.toFinsupp - Finsupp.single j 1 := by
  ext i
  fin_cases j <;> fin_cases i <;> simp [Mono.dec, Mono.get]

section
variable {K : Type} [Field K] [DecidableEq K]

/-! ### denotation -/

/-- the polynomial denoted by a term list -/
noncomputable def toMv (p : Poly K) : MvPolynomial (Fin 6) K := (p.map fun t => monomial t.1.toFinsupp t.2).sum

@[simp] theorem toMv_nil : toMv ([] : Poly K) = 0 := rfl

@[simp] theorem toMv_cons (t : Mono × K) (r : Poly K) : toMv (t :: r) = monomial t.1.toFinsupp t.2 + toMv r := by
  simp [toMv]

theorem toMv_append (p q : Poly K) : toMv (p ++ q) = toMv p + toMv q := by
  induction p with
  | nil => simp
  | cons t r ih => rw [List.cons_append, toMv_cons, toMv_cons, ih, add_assoc]

/-- `coeff` of the model is the coefficient of the denoted polynomial -/
theorem coeff_toMv (p : Poly K) (m : Mono) : MvPolynomial.coeff m.toFinsupp (toMv p) = coeff p m := by
  induction p with
  | nil => simp
  | cons t r ih =>
    rw [toMv_cons, MvPolynomial.coeff_add, ih, coeff_cons, MvPolynomial.coeff_monomial]
    by_cases e : t.1 = m
    · subst e; simp
    · have : ¬ t.1.toFinsupp = m.toFinsupp := fun h => e (Mono.toFinsupp_injective h)
      simp [e, this]

/-- two term lists with the same coefficients denote the same polynomial -/
theorem toMv_ext {p q : Poly K} (h : ∀ m, coeff p m = coeff q m) : toMv p = toMv q := by
  apply MvPolynomial.ext
  intro s
  rw [← Mono.toFinsupp_ofFun s, coeff_toMv, coeff_toMv, h]

theorem toMv_eq_iff {p q : Poly K} : toMv p = toMv q ↔ ∀ m, coeff p m = coeff q m :=
  ⟨fun h m => by rw [← coeff_toMv, ← coeff_toMv, h], toMv_ext⟩

theorem toMv_neg (p : Poly K) : toMv (neg p) = - toMv p := by
  induction p with
  | nil => simp [neg]
  | cons t r ih =>
    have : neg (t :: r) = (t.1, -t.2) :: neg r := rfl
    rw [this, toMv_cons, toMv_cons, ih]; simp only [map_neg]; ring

theorem toMv_scale (a : K) (p : Poly K) : toMv (scale a p) = C a * toMv p := by
  induction p with
  | nil => simp [scale]
  | cons t r ih =>
    have : scale a (t :: r) = (t.1, a * t.2) :: scale a r := rfl
    rw [this, toMv_cons, toMv_cons, ih, mul_add, C_mul_monomial]

/-- `_poly_diff` is the partial derivative -/
theorem toMv_diff (j : Fin 6) (p : Poly K) : toMv (diff j.val p) = pderiv j (toMv p) := by
  induction p with
  | nil => simp [diff]
  | cons t r ih =>
    unfold diff at ih ⊢
    rw [List.filterMap_cons, toMv_cons, map_add, pderiv_monomial, ← ih]
    by_cases h0 : t.1.get j.val = 0
    · simp [h0]
    · simp only [h0, ↓reduceIte, toMv_cons, Mono.toFinsupp_dec, Mono.toFinsupp_apply]
      rw [mul_comm]

theorem toMv_mulTerm (t : Mono × K) (q : Poly K) : toMv (mulTerm t q) = monomial t.1.toFinsupp t.2 * toMv q := by
  induction q with
  | nil => simp [mulTerm]
  | cons u r ih =>
    have : mulTerm t (u :: r) = (t.1.add u.1, t.2 * u.2) :: mulTerm t r := rfl
    rw [this, toMv_cons, toMv_cons, ih, mul_add, monomial_mul, Mono.toFinsupp_add]

/-- `_poly_mul` is the product -/
theorem toMv_mul (p q : Poly K) : toMv (mul p q) = toMv p * toMv q := by
  induction p with
  | nil => simp [mul]
  | cons t r ih =>
    unfold mul at ih ⊢
    rw [List.flatMap_cons, toMv_append, toMv_mulTerm, ih, toMv_cons, add_mul]

/-- the canonical Poisson bracket on `K[q1,q2,q3,p1,p2,p3]` (variables 0,1,2 = q, 3,4,5 = p) -/
noncomputable def PB (f g : MvPolynomial (Fin 6) K) : MvPolynomial (Fin 6) K :=
  (pderiv 0 f * pderiv 3 g - pderiv 3 f * pderiv 0 g)
    + ((pderiv 1 f * pderiv 4 g - pderiv 4 f * pderiv 1 g) + (pderiv 2 f * pderiv 5 g - pderiv 5 f * pderiv 2 g))

/-- `_poly_poisson` / `_polynomial_poisson_bracket` (untruncated) is the canonical Poisson bracket -/
theorem toMv_poisson (p q : Poly K) : toMv (poisson p q) = PB (toMv p) (toMv q) := by
  have d0 := toMv_diff (K := K) 0
  have d1 := toMv_diff (K := K) 1
  have d2 := toMv_diff (K := K) 2
  have d3 := toMv_diff (K := K) 3
  have d4 := toMv_diff (K := K) 4
  have d5 := toMv_diff (K := K) 5
  simp only [Fin.val_zero, Fin.val_one] at d0 d1
  have e2 : ((2 : Fin 6) : ℕ) = 2 := rfl
  have e3 : ((3 : Fin 6) : ℕ) = 3 := rfl
  have e4 : ((4 : Fin 6) : ℕ) = 4 := rfl
  have e5 : ((5 : Fin 6) : ℕ) = 5 := rfl
  rw [e2] at d2; rw [e3] at d3; rw [e4] at d4; rw [e5] at d5
  simp only [poisson, poissonPair, toMv_append, toMv_neg, toMv_mul, Nat.zero_add, Nat.reduceAdd, d0, d1, d2, d3, d4, d5, PB]
  ring

theorem PB_add_left (f g h : MvPolynomial (Fin 6) K) : PB (f + g) h = PB f h + PB g h := by
  simp only [PB, map_add]; ring

theorem PB_add_right (f g h : MvPolynomial (Fin 6) K) : PB f (g + h) = PB f g + PB f h := by
  simp only [PB, map_add]; ring

theorem PB_antisymm (f g : MvPolynomial (Fin 6) K) : PB f g = - PB g f := by
  simp only [PB]; ring

/-- Leibniz rule: `{·, h}` is a derivation -/
theorem PB_mul_left (f g h : MvPolynomial (Fin 6) K) : PB (f * g) h = f * PB g h + PB f h * g := by
  simp only [PB, Derivation.leibniz, smul_eq_mul]; ring

/-! ### the bracket with the diagonal quadratic part -/

/-- Euler: `x_i ∂/∂x_i` multiplies the monomial `x^s` by `s_i` -/
theorem coeff_X_mul_pderiv (i : Fin 6) (f : MvPolynomial (Fin 6) K) (s : Fin 6 →₀ ℕ) :
    MvPolynomial.coeff s (X i * pderiv i f) = (s i : K) * MvPolynomial.coeff s f := by
  induction f using MvPolynomial.induction_on' with
  | monomial u a =>
    have key : X i * pderiv i (monomial u a) = monomial u (a * (u i : K)) := by
      rw [pderiv_monomial]
      by_cases h0 : u i = 0
      · simp [h0]
      · have hX : (X i : MvPolynomial (Fin 6) K) = monomial (Finsupp.single i 1) 1 := rfl
        have hs : Finsupp.single i 1 + (u - Finsupp.single i 1) = u := by
          ext j
          by_cases e : j = i
          · subst e; simp; omega
          · simp [Finsupp.single_apply, Ne.symm e]
        rw [hX, monomial_mul, one_mul, hs]
    rw [key, MvPolynomial.coeff_monomial, MvPolynomial.coeff_monomial]
    by_cases e : u = s
    · subst e; simp; ring
    · simp [e]
  | add p q hp hq => rw [map_add, mul_add, MvPolynomial.coeff_add, MvPolynomial.coeff_add, hp, hq]; ring

theorem toMv_H2 (e1 e2 e3 : K) :
    toMv (H2 e1 e2 e3) = C e1 * (X 0 * X 3) + (C e2 * (X 1 * X 4) + C e3 * (X 2 * X 5)) := by
  have hXX : ∀ a b : Fin 6, (X a * X b : MvPolynomial (Fin 6) K) = monomial (Finsupp.single a 1 + Finsupp.single b 1) 1 := by
    intro a b
    have hX : ∀ c : Fin 6, (X c : MvPolynomial (Fin 6) K) = monomial (Finsupp.single c 1) 1 := fun _ => rfl
    rw [hX a, hX b, monomial_mul, one_mul]
  have s1 : (⟨1, 0, 0, 1, 0, 0⟩ : Mono).toFinsupp = Finsupp.single 0 1 + Finsupp.single 3 1 :=
by
    ext j; fin_cases j <;> simp [Mono.get, Finsupp.single_apply]
  have s2 : (⟨0, 1, 0, 0, 1, 0⟩ : Mono).toFinsupp = Finsupp.single 1 1 + Finsupp.single 4 1 :=
by
    ext j; fin_cases j <;> simp [Mono.get, Finsupp.single_apply]
  have s3 : (⟨0, 0, 1, 0, 0, 1⟩ : Mono).toFinsupp = Finsupp.single 2 1 + Finsupp.single 5 1 :=
by
    ext j; fin_cases j <;> simp [Mono.get, Finsupp.single_apply]
  simp only [H2, toMv_cons, toMv_nil, add_zero, s1, s2, s3, hXX, C_mul_monomial, mul_one]

/-- the bracket with `H2 = e1 q1 p1 + e2 q2 p2 + e3 q3 p3` in closed form -/
theorem PB_H2 (e1 e2 e3 : K) (f : MvPolynomial (Fin 6) K) :
    PB (toMv (H2 e1 e2 e3)) f
      = C e1 * (X 3 * pderiv 3 f - X 0 * pderiv 0 f)
        + (C e2 * (X 4 * pderiv 4 f - X 1 * pderiv 1 f) + C e3 * (X 5 * pderiv 5 f - X 2 * pderiv 2 f)) := by
  rw [toMv_H2]
  simp only [PB, map_add, Derivation.leibniz, pderiv_C, pderiv_X, smul_eq_mul, smul_zero, add_zero, Pi.single_apply]
  simp only [show ((3 : Fin 6) = 0) = False from by decide, show ((0 : Fin 6) = 3) = False from by decide,
    show ((4 : Fin 6) = 1) = False from by decide, show ((1 : Fin 6) = 4) = False from by decide,
    show ((5 : Fin 6) = 2) = False from by decide, show ((2 : Fin 6) = 5) = False from by decide,
    show ((1 : Fin 6) = 0) = False from by decide, show ((0 : Fin 6) = 1) = False from by decide,
    show ((2 : Fin 6) = 0) = False from by decide, show ((0 : Fin 6) = 2) = False from by decide,
    show ((4 : Fin 6) = 0) = False from by decide, show ((0 : Fin 6) = 4) = False from by decide,
    show ((5 : Fin 6) = 0) = False from by decide, show ((0 : Fin 6) = 5) = False from by decide,
    show ((2 : Fin 6) = 1) = False from by decide, show ((1 : Fin 6) = 2) = False from by decide,
    show ((3 : Fin 6) = 1) = False from by decide, show ((1 : Fin 6) = 3) = False from by decide,
    show ((5 : Fin 6) = 1) = False from by decide, show ((1 : Fin 6) = 5) = False from by decide,
    show ((3 : Fin 6) = 2) = False from by decide, show ((2 : Fin 6) = 3) = False from by decide,
    show ((4 : Fin 6) = 2) = False from by decide, show ((2 : Fin 6) = 4) = False from by decide,
    show ((4 : Fin 6) = 3) = False from by decide, show ((3 : Fin 6) = 4) = False from by decide,
    show ((5 : Fin 6) = 3) = False from by decide, show ((3 : Fin 6) = 5) = False from by decide,
    show ((5 : Fin 6) = 4) = False from by decide, show ((4 : Fin 6) = 5) = False from by decide,
    if_true, if_false]
  ring

/-- **the homological operator is diagonal**: `{H2, ·}` multiplies the monomial with exponents `k` by the divisor
`(k3-k0) e1 + (k4-k1) e2 + (k5-k2) e3` of the code -/
theorem coeff_poisson_H2 (e1 e2 e3 : K) (G : Poly K) (m : Mono) :
    coeff (poisson (H2 e1 e2 e3) G) m = divisor e1 e2 e3 m * coeff G m := by
  rw [← coeff_toMv, toMv_poisson, PB_H2]
  simp only [MvPolynomial.coeff_add, MvPolynomial.coeff_C_mul, MvPolynomial.coeff_sub, coeff_X_mul_pderiv, coeff_toMv,
    Mono.toFinsupp_apply]
  simp only [divisor, Mono.get]
  have e2 : ((2 : Fin 6) : ℕ) = 2 := rfl
  have e3 : ((3 : Fin 6) : ℕ) = 3 := rfl
  have e4 : ((4 : Fin 6) : ℕ) = 4 := rfl
  have e5 : ((5 : Fin 6) : ℕ) = 5 := rfl
  simp only [Fin.val_zero, Fin.val_one, e2, e3, e4, e5]
  ring

/-- congruence: the bracket only depends on the coefficients of its arguments -/
theorem coeff_poisson_congr {p p' q q' : Poly K} (hp : ∀ m, coeff p m = coeff p' m) (hq : ∀ m, coeff q m = coeff q' m)
    (m : Mono) : coeff (poisson p q) m = coeff (poisson p' q') m := by
  rw [← coeff_toMv, ← coeff_toMv, toMv_poisson, toMv_poisson, toMv_ext hp, toMv_ext hq]

theorem coeff_poisson_append_left (p1 p2 q : Poly K) (m : Mono) :
    coeff (poisson (p1 ++ p2) q) m = coeff (poisson p1 q) m + coeff (poisson p2 q) m := by
  rw [← coeff_toMv, ← coeff_toMv, ← coeff_toMv, toMv_poisson, toMv_poisson, toMv_poisson, toMv_append, PB_add_left,
    MvPolynomial.coeff_add]

/-! ### evaluation -/

theorem npow_eq (x : K) (n : ℕ) : npow x n = x ^ n := by
  induction n with
  | zero => simp [npow]
  | succ n ih => rw [npow, ih, pow_succ']

theorem evalPoly_toMv (z : ℕ → K) (p : Poly K) : evalPoly z p = MvPolynomial.eval (fun j : Fin 6 => z j.val) (toMv p) := by
  induction p with
  | nil => simp [evalPoly]
  | cons t r ih =>
    have : evalPoly z (t :: r) = t.2 * evalMono z t.1 + evalPoly z r := rfl
    rw [this, ih, toMv_cons, map_add, eval_monomial, Finsupp.prod_fintype _ _ (fun i => pow_zero _), Fin.prod_univ_six]
    simp only [evalMono, npow_eq, Mono.toFinsupp_apply, Mono.get]
    rfl

/-- if every monomial of `f` has equal exponents in `x_i` and `x_j` (`i ≠ j`), `∂f/∂x_i` vanishes wherever `x_j = 0` -/
theorem eval_pderiv_eq_zero (f : MvPolynomial (Fin 6) K) (z : Fin 6 → K) (i j : Fin 6) (hij : i ≠ j) (hz : z j = 0)
    (hs : ∀ s ∈ f.support, s i = s j) : MvPolynomial.eval z (pderiv i f) = 0 := by
  conv_lhs => rw [f.as_sum]
  rw [map_sum, map_sum]
  apply Finset.sum_eq_zero
  intro s hsupp
  rw [pderiv_monomial, eval_monomial]
  by_cases h0 : s i = 0
  · simp [h0]
  · have hj : (s - Finsupp.single i 1 : Fin 6 →₀ ℕ) j ≠ 0 := by
      have := hs s hsupp
      simp only [Finsupp.coe_tsub, Pi.sub_apply, Finsupp.single_apply, hij, ↓reduceIte]
      omega
    have : ((s - Finsupp.single i 1).prod fun n e => z n ^ e) = 0 := by
      apply Finset.prod_eq_zero (Finsupp.mem_support_iff.mpr hj)
      show z j ^ _ = 0
      rw [hz, zero_pow hj]
    rw [this, mul_zero]


/-- two polynomials whose coefficients agree on the monomials free of `x_0`, `x_3` take the same value wherever
`x_0 = x_3 = 0` -/
theorem eval_eq_of_coeff_eq_on_cm (f g : MvPolynomial (Fin 6) K) (z : Fin 6 → K) (h0 : z 0 = 0) (h3 : z 3 = 0)
    (h : ∀ s : Fin 6 →₀ ℕ, s 0 = 0 → s 3 = 0 → MvPolynomial.coeff s f = MvPolynomial.coeff s g) :
    MvPolynomial.eval z f = MvPolynomial.eval z g := by
  rw [← sub_eq_zero, ← map_sub]
  conv_lhs => rw [(f - g).as_sum]
  rw [map_sum]
  apply Finset.sum_eq_zero
  intro s hs
  rw [eval_monomial]
  have hc := MvPolynomial.mem_support_iff.mp hs
  rw [MvPolynomial.coeff_sub, sub_ne_zero] at hc
  have : ¬ (s 0 = 0 ∧ s 3 = 0) := fun hh => hc (h s hh.1 hh.2)
  have hz : (s.prod fun n e => z n ^ e) = 0 := by
    by_cases e0 : s 0 = 0
    · have e3 : s 3 ≠ 0 := fun e3 => this ⟨e0, e3⟩
      apply Finset.prod_eq_zero (Finsupp.mem_support_iff.mpr e3)
      show z 3 ^ _ = 0
      rw [h3, zero_pow e3]
    · apply Finset.prod_eq_zero (Finsupp.mem_support_iff.mpr e0)
      show z 0 ^ _ = 0
      rw [h0, zero_pow e0]
  rw [hz, mul_zero]

end

end HitenModel.C08
