/-
  Lemmas/C08.lean — list-level lemmas for the Lie-series model (Core/C08.lean): which monomials can occur in the
  result of each kernel (degree bookkeeping) and how `coeff` behaves under the linear kernels, `normalize`, `clean`.
-/
import HitenModel.Core.C08
import Mathlib.Algebra.Field.Basic
import Mathlib.Tactic.Ring
import Mathlib.Tactic.SplitIfs
import Mathlib.Data.List.Basic

set_option linter.unusedSectionVars false

namespace HitenModel.C08

/-! ### monomials -/

theorem Mono.deg_add (m n : Mono) : (m.add n).deg = m.deg + n.deg := by
  simp only [Mono.add, Mono.deg]; omega

theorem Mono.deg_dec (m : Mono) (j : Nat) (h : m.get j ≠ 0) : (m.dec j).deg + 1 = m.deg := by
  unfold Mono.get at h
  unfold Mono.dec Mono.deg
  split <;> simp_all <;> omega

/-! ### which monomials occur (support / degree bookkeeping) -/

section support
variable {K : Type} [Add K] [Sub K] [Mul K] [Div K] [Neg K] [OfNat K 0] [OfNat K 1] [NatCast K] [DecidableEq K]

theorem mem_scale {a : K} {p : Poly K} {t : Mono × K} (h : t ∈ scale a p) : ∃ u ∈ p, u.1 = t.1 := by
  simp only [scale, List.mem_map] at h
  obtain ⟨u, hu, rfl⟩ := h
  exact ⟨u, hu, rfl⟩

theorem mem_neg {p : Poly K} {t : Mono × K} (h : t ∈ neg p) : ∃ u ∈ p, u.1 = t.1 := by
  simp only [neg, List.mem_map] at h
  obtain ⟨u, hu, rfl⟩ := h
  exact ⟨u, hu, rfl⟩

theorem mem_diff {j : Nat} {p : Poly K} {t : Mono × K} (h : t ∈ diff j p) :
    ∃ u ∈ p, u.1.get j ≠ 0 ∧ t.1 = u.1.dec j := by
  simp only [diff, List.mem_filterMap] at h
  obtain ⟨u, hu, hf⟩ := h
  by_cases h0 : u.1.get j = 0
  · simp [h0] at hf
  · simp only [h0, ↓reduceIte, Option.some.injEq] at hf
    exact ⟨u, hu, h0, by rw [← hf]⟩

theorem mem_mul {p q : Poly K} {t : Mono × K} (h : t ∈ mul p q) : ∃ u ∈ p, ∃ v ∈ q, t.1 = u.1.add v.1 := by
  simp only [mul, mulTerm, List.mem_flatMap, List.mem_map] at h
  obtain ⟨u, hu, v, hv, rfl⟩ := h
  exact ⟨u, hu, v, hv, rfl⟩

theorem mem_poissonPair {m : Nat} {p q : Poly K} {t : Mono × K} (h : t ∈ poissonPair m p q) :
    ∃ u ∈ p, ∃ v ∈ q, t.1.deg + 2 = u.1.deg + v.1.deg := by
  simp only [poissonPair, List.mem_append] at h
  rcases h with h | h
  · obtain ⟨a, ha, b, hb, e⟩ := mem_mul h
    obtain ⟨u, hu, hu0, eu⟩ := mem_diff ha
    obtain ⟨v, hv, hv0, ev⟩ := mem_diff hb
    refine ⟨u, hu, v, hv, ?_⟩
    rw [e, Mono.deg_add, eu, ev]
    have := Mono.deg_dec u.1 m hu0
    have := Mono.deg_dec v.1 (m + 3) hv0
    omega
  · obtain ⟨w, hw, ew⟩ := mem_neg h
    obtain ⟨a, ha, b, hb, e⟩ := mem_mul hw
    obtain ⟨u, hu, hu0, eu⟩ := mem_diff ha
    obtain ⟨v, hv, hv0, ev⟩ := mem_diff hb
    refine ⟨u, hu, v, hv, ?_⟩
    rw [← ew, e, Mono.deg_add, eu, ev]
    have := Mono.deg_dec u.1 (m + 3) hu0
    have := Mono.deg_dec v.1 m hv0
    omega

/-- every term of `{p,q}` comes from a term of `p` of degree `d` and a term of `q` of degree `n` and has degree `d+n-2` -/
theorem mem_poisson {p q : Poly K} {t : Mono × K} (h : t ∈ poisson p q) :
    ∃ u ∈ p, ∃ v ∈ q, t.1.deg + 2 = u.1.deg + v.1.deg := by
  simp only [poisson, List.mem_append] at h
  rcases h with h | h | h <;> exact mem_poissonPair h

theorem mem_mergeGo {cur : Mono × K} {r : Poly K} {t : Mono × K} (h : t ∈ mergeGo cur r) :
    t.1 = cur.1 ∨ ∃ u ∈ r, u.1 = t.1 := by
  induction r generalizing cur with
  | nil => simp only [mergeGo, List.mem_singleton] at h; exact Or.inl (by rw [h])
  | cons a r ih =>
    simp only [mergeGo] at h
    split_ifs at h with e
    · rcases ih h with h1 | ⟨u, hu, e1⟩
      · exact Or.inl h1
      · exact Or.inr ⟨u, List.mem_cons_of_mem _ hu, e1⟩
    · rcases List.mem_cons.mp h with h1 | h1
      · exact Or.inl (by rw [h1])
      · rcases ih h1 with h2 | ⟨u, hu, e1⟩
        · exact Or.inr ⟨a, List.mem_cons_self, h2.symm⟩
        · exact Or.inr ⟨u, List.mem_cons_of_mem _ hu, e1⟩

theorem mem_mergeAdj {p : Poly K} {t : Mono × K} (h : t ∈ mergeAdj p) : ∃ u ∈ p, u.1 = t.1 := by
  cases p with
  | nil => simp [mergeAdj] at h
  | cons a r =>
    have h' : t ∈ mergeGo a r := h
    rcases mem_mergeGo h' with h1 | ⟨u, hu, e⟩
    · exact ⟨a, List.mem_cons_self, h1.symm⟩
    · exact ⟨u, List.mem_cons_of_mem _ hu, e⟩

/-- `normalize` creates no new monomials -/
theorem mem_normalize {p : Poly K} {t : Mono × K} (h : t ∈ normalize p) : ∃ u ∈ p, u.1 = t.1 := by
  simp only [normalize, List.mem_filter] at h
  obtain ⟨u, hu, e⟩ := mem_mergeAdj h.1
  exact ⟨u, (List.mergeSort_perm p _).mem_iff.mp hu, e⟩

theorem mem_clean {tiny : K → Bool} {p : Poly K} {t : Mono × K} (h : t ∈ clean tiny p) : ∃ u ∈ p, u.1 = t.1 := by
  simp only [clean, List.mem_filter] at h
  exact mem_normalize h.1

theorem mem_solve {small : K → Bool} {e1 e2 e3 : K} {p : Poly K} {t : Mono × K} (h : t ∈ solve small e1 e2 e3 p) :
    ∃ u ∈ p, u.1 = t.1 := by
  simp only [solve, List.mem_filterMap] at h
  obtain ⟨u, hu, hf⟩ := h
  split_ifs at hf
  simp only [Option.some.injEq] at hf
  exact ⟨u, hu, by rw [← hf]⟩

/-- **degree bookkeeping of the Lie series**: if every term of `B` has degree `≥ d` and the generator is homogeneous
of degree `n ≥ 2`, every term `(1/k!) B_k` of the series has degree `≥ d + (n-2)` and `≤ N` -/
theorem mem_lieTerms {tiny : K → Bool} {N n : Nat} {G : Poly K} (hG : ∀ v ∈ G, v.1.deg = n) (hn : 2 ≤ n) :
    ∀ (Kc k d : Nat) (B : Poly K), (∀ u ∈ B, d ≤ u.1.deg) → ∀ t ∈ lieTerms tiny N G Kc k B,
      d + (n - 2) ≤ t.1.deg ∧ t.1.deg ≤ N := by
  intro Kc
  induction Kc with
  | zero => intro k d B _ t ht; simp [lieTerms] at ht
  | succ Kc ih =>
    intro k d B hB t ht
    simp only [lieTerms, List.mem_append] at ht
    have hB' : ∀ u ∈ clean tiny (trunc N (poisson B G)), d + (n - 2) ≤ u.1.deg ∧ u.1.deg ≤ N := by
      intro u hu
      obtain ⟨w, hw, e⟩ := mem_clean hu
      simp only [trunc, List.mem_filter, decide_eq_true_eq] at hw
      obtain ⟨a, ha, b, hb, hd⟩ := mem_poisson hw.1
      have h1 := hB a ha
      have h2 := hG b hb
      rw [← e]
      exact ⟨by omega, hw.2⟩
    rcases ht with ht | ht
    · obtain ⟨u, hu, e⟩ := mem_scale ht
      rw [← e]; exact hB' u hu
    · have := ih (k + 1) (d + (n - 2)) _ (fun u hu => (hB' u hu).1) t ht
      exact ⟨by omega, this.2⟩

end support

/-! ### coefficients -/

section coeff
variable {K : Type} [Field K] [DecidableEq K]

@[simp] theorem coeff_nil (m : Mono) : coeff ([] : Poly K) m = 0 := rfl

theorem coeff_cons (t : Mono × K) (r : Poly K) (m : Mono) :
    coeff (t :: r) m = (if t.1 = m then t.2 else 0) + coeff r m := by
  simp only [coeff]; split_ifs <;> simp

theorem coeff_append (p q : Poly K) (m : Mono) : coeff (p ++ q) m = coeff p m + coeff q m := by
  induction p with
  | nil => simp
  | cons t r ih => rw [List.cons_append, coeff_cons, coeff_cons, ih]; ring

/-- a monomial that does not occur has coefficient 0 -/
theorem coeff_eq_zero_of_not_mem {p : Poly K} {m : Mono} (h : ∀ t ∈ p, t.1 ≠ m) : coeff p m = 0 := by
  induction p with
  | nil => rfl
  | cons t r ih =>
    rw [coeff_cons, ih (fun u hu => h u (List.mem_cons_of_mem _ hu)), if_neg (h t List.mem_cons_self)]; ring

theorem coeff_scale (a : K) (p : Poly K) (m : Mono) : coeff (scale a p) m = a * coeff p m := by
  induction p with
  | nil => simp [scale]
  | cons t r ih =>
    have : scale a (t :: r) = (t.1, a * t.2) :: scale a r := rfl
    rw [this, coeff_cons, coeff_cons, ih]; split_ifs <;> ring

theorem coeff_neg (p : Poly K) (m : Mono) : coeff (neg p) m = - coeff p m := by
  induction p with
  | nil => simp [neg]
  | cons t r ih =>
    have : neg (t :: r) = (t.1, -t.2) :: neg r := rfl
    rw [this, coeff_cons, coeff_cons, ih]; split_ifs <;> ring

/-- filtering on a property of the monomial -/
theorem coeff_filter_mono (P : Mono → Bool) (p : Poly K) (m : Mono) :
    coeff (p.filter fun t => P t.1) m = if P m then coeff p m else 0 := by
  induction p with
  | nil => simp
  | cons t r ih =>
    rw [List.filter_cons]
    by_cases hP : P t.1 = true
    · rw [if_pos hP, coeff_cons, coeff_cons, ih]
      by_cases e : t.1 = m
      · subst e; simp [hP]
      · simp [e]
    · rw [if_neg hP, ih, coeff_cons]
      by_cases e : t.1 = m
      · subst e; simp [hP]
      · simp [e]

theorem coeff_select (sel : Mono → Bool) (p : Poly K) (m : Mono) :
    coeff (select sel p) m = if sel m then coeff p m else 0 := coeff_filter_mono sel p m

theorem coeff_block (d : Nat) (p : Poly K) (m : Mono) :
    coeff (block d p) m = if m.deg = d then coeff p m else 0 := by
  have := coeff_filter_mono (fun k => decide (k.deg = d)) p m
  simpa [block] using this

theorem coeff_trunc (N : Nat) (p : Poly K) (m : Mono) :
    coeff (trunc N p) m = if m.deg ≤ N then coeff p m else 0 := by
  have := coeff_filter_mono (fun k => decide (k.deg ≤ N)) p m
  simpa [trunc] using this

/-- dropping terms whose coefficient is zero does not change any coefficient -/
theorem coeff_filter_of_zero (keep : Mono × K → Bool) (p : Poly K) (h : ∀ t ∈ p, keep t = false → t.2 = 0) (m : Mono) :
    coeff (p.filter keep) m = coeff p m := by
  induction p with
  | nil => rfl
  | cons t r ih =>
    have ihr := ih (fun u hu => h u (List.mem_cons_of_mem _ hu))
    rw [List.filter_cons]
    by_cases hk : keep t = true
    · rw [if_pos hk, coeff_cons, coeff_cons, ihr]
    · rw [if_neg hk, ihr, coeff_cons, h t List.mem_cons_self (by simpa using hk)]; simp

theorem coeff_perm {p q : Poly K} (h : p.Perm q) (m : Mono) : coeff p m = coeff q m := by
  induction h with
  | nil => rfl
  | cons x _ ih => rw [coeff_cons, coeff_cons, ih]
  | swap x y l => rw [coeff_cons, coeff_cons, coeff_cons, coeff_cons]; ring
  | trans _ _ ih1 ih2 => rw [ih1, ih2]

theorem coeff_mergeGo (cur : Mono × K) (r : Poly K) (m : Mono) : coeff (mergeGo cur r) m = coeff (cur :: r) m := by
  induction r generalizing cur with
  | nil => rfl
  | cons a r ih =>
    simp only [mergeGo]
    split_ifs with e
    · rw [ih, coeff_cons, coeff_cons, coeff_cons]
      by_cases e2 : cur.1 = m
      · simp [e2, e ▸ e2]; ring
      · have : ¬ a.1 = m := fun h => e2 (e ▸ h)
        simp [e2, this]
    · rw [coeff_cons, ih, coeff_cons cur]

theorem coeff_mergeAdj (p : Poly K) (m : Mono) : coeff (mergeAdj p) m = coeff p m := by
  cases p with
  | nil => rfl
  | cons a r => exact coeff_mergeGo a r m

/-- `normalize` preserves every coefficient -/
theorem coeff_normalize (p : Poly K) (m : Mono) : coeff (normalize p) m = coeff p m := by
  unfold normalize
  rw [coeff_filter_of_zero, coeff_mergeAdj, coeff_perm (List.mergeSort_perm p _)]
  intro t _ h
  simpa using h

/-- with exact cleaning (`tiny c → c = 0`; the code's `tol = 1e-30` against exact arithmetic) `clean` preserves coefficients -/
theorem coeff_clean {tiny : K → Bool} (htiny : ∀ c, tiny c = true → c = 0) (p : Poly K) (m : Mono) :
    coeff (clean tiny p) m = coeff p m := by
  unfold clean
  rw [coeff_filter_of_zero, coeff_normalize]
  intro t _ h
  exact htiny _ (by simpa using h)

/-- `not arr.any()`: an empty normal form means that every coefficient vanishes -/
theorem coeff_of_normalize_isEmpty {p : Poly K} (h : (normalize p).isEmpty = true) (m : Mono) : coeff p m = 0 := by
  rw [← coeff_normalize p m, List.isEmpty_iff.mp h]; rfl

/-- `_solve_homological_equation` monomial by monomial -/
theorem coeff_solve (small : K → Bool) (e1 e2 e3 : K) (p : Poly K) (m : Mono) :
    coeff (solve small e1 e2 e3 p) m
      = if small (divisor e1 e2 e3 m) then 0 else - coeff p m / divisor e1 e2 e3 m := by
  induction p with
  | nil => simp [solve]
  | cons t r ih =>
    unfold solve at ih ⊢
    rw [List.filterMap_cons]
    by_cases hs : small (divisor e1 e2 e3 t.1) = true
    · simp only [hs, ↓reduceIte]
      rw [ih, coeff_cons]
      by_cases e : t.1 = m
      · subst e; simp [hs]
      · simp [e]
    · simp only [hs, Bool.false_eq_true, ↓reduceIte]
      rw [coeff_cons, ih, coeff_cons]
      by_cases e : t.1 = m
      · subst e
        simp only [hs, Bool.false_eq_true, ↓reduceIte]
        ring
      · simp [e]

end coeff

end HitenModel.C08
