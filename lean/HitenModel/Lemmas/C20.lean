/-
  Lemmas/C20.lean — simulation invariants behind the C20 theorems (no Mathlib needed).
-/
import HitenModel.Core.C20

namespace HitenModel.C20

/-! ### cache dict -/

theorem lookup_mem {κ ν : Type} [DecidableEq κ] {k : κ} {v : ν} :
    ∀ {c : List (κ × ν)}, lookup k c = some v → (k, v) ∈ c
  | [], h => by simp [lookup] at h
  | (k', v') :: r, h => by
      simp only [lookup] at h
      split at h
      · rename_i hk; cases h; subst hk; exact List.mem_cons_self
      · exact List.mem_cons_of_mem _ (lookup_mem h)

theorem resetKey_cons {κ ν : Type} [DecidableEq κ] (k : κ) (e : κ × ν) (c : List (κ × ν)) :
    resetKey k (e :: c) = if e.1 = k then resetKey k c else e :: resetKey k c := by
  by_cases h : e.1 = k <;> simp [resetKey, List.filter_cons, h]

theorem lookup_resetKey_self {κ ν : Type} [DecidableEq κ] (k : κ) :
    ∀ (c : List (κ × ν)), lookup k (resetKey k c) = none
  | [] => rfl
  | (k', v') :: r => by
      rw [resetKey_cons]
      by_cases h : k' = k
      · simp only [h, if_true]; exact lookup_resetKey_self k r
      · simp only [h, if_false, lookup]; exact lookup_resetKey_self k r

theorem lookup_resetKey_other {κ ν : Type} [DecidableEq κ] {k k' : κ} (hne : k' ≠ k) :
    ∀ (c : List (κ × ν)), lookup k' (resetKey k c) = lookup k' c
  | [] => rfl
  | (k'', v'') :: r => by
      rw [resetKey_cons]
      by_cases h : k'' = k
      · have h3 : ¬ k'' = k' := by intro h2; exact hne (h2 ▸ h)
        simp only [h, if_true, lookup]
        rw [lookup_resetKey_other hne r]
        have h4 : ¬ k = k' := fun e => hne e.symm
        simp [h4]
      · simp only [h, if_false, lookup]
        rw [lookup_resetKey_other hne r]

theorem mem_resetKey {κ ν : Type} [DecidableEq κ] {k : κ} {e : κ × ν} {c : List (κ × ν)}
    (h : e ∈ resetKey k c) : e ∈ c := by
  simp only [resetKey, List.mem_filter] at h; exact h.1

/-! ### key shapes -/

theorem Slot.clash_of_matches {s t : Slot} {v : PyVal} (hs : s.matches v = true) (ht : t.matches v = true) :
    s.clash t = true := by
  cases s <;> cases t <;> cases v <;> simp_all [Slot.matches, Slot.clash] <;>
    (try (rename_i a; cases a <;> simp_all [Slot.matches, Slot.clash]))

theorem separable_sound : ∀ {p q : List Slot} {k : List PyVal},
    separable p q = true → matchesKey p k = true → matchesKey q k = true → False
  | [], [], _, h, _, _ => by simp [separable] at h
  | [], _ :: _, [], _, _, h2 => by simp [matchesKey] at h2
  | [], _ :: _, _ :: _, _, h1, _ => by simp [matchesKey] at h1
  | _ :: _, [], [], _, h1, _ => by simp [matchesKey] at h1
  | _ :: _, [], _ :: _, _, _, h2 => by simp [matchesKey] at h2
  | _ :: _, _ :: _, [], _, h1, _ => by simp [matchesKey] at h1
  | s :: ss, t :: ts, v :: vs, h, h1, h2 => by
      simp only [matchesKey, Bool.and_eq_true] at h1 h2
      simp only [separable, Bool.or_eq_true, Bool.not_eq_true'] at h
      rcases h with h | h
      · have := Slot.clash_of_matches h1.1 h2.1; rw [h] at this; cases this
      · exact separable_sound h h1.2 h2.2

/-! ### orbit: simulation of the code by the fresh twin -/

@[simp] theorem lookup_nil {κ ν : Type} [DecidableEq κ] (k : κ) : lookup k ([] : List (κ × ν)) = none := rfl

/-- simulation relation between the code's state and the logical state -/
structure Inv (O : Oracle) (s : OState) (l : OLog) : Prop where
  hx : s.x = l.x
  hT : s.T = l.T
  hc : s.ccfg = l.ccfg
  htraj : s.traj = (match l.last, l.T with
                    | some (a, b, c), some T => some (O.prop l.x T a b c)
                    | _, _ => none)
  hstab : ∀ v, s.stabInfo = some v → ∃ T, l.T = some T ∧ v = O.stab l.x T
  hd : ∀ k v, (k, v) ∈ s.dcache → ∃ T, l.T = some T ∧ v = evalD O l.x T k
  hds : ∀ v, lookup DKey.stab s.dcache = some v → s.stabInfo = some v
  hcc : ∀ k r, (k, r) ∈ s.ccache → ∃ x0, k.1 = some x0 ∧ r = O.corr x0 l.ccfg k.2
  hm : s.mres = l.mlast.map (fun p => (O.man p.2.1 p.2.2 p.1, p.2.1, p.2.2))
  hmc : ∀ k v, (k, v) ∈ s.mcache → ∃ x0 T0, k.1 = some (x0, some T0) ∧ v = O.man x0 T0 k.2

theorem inv_fresh (O : Oracle) (x : Tok) (T : Option Tok) : Inv O (freshO x T) (freshL x T) where
  hx := rfl
  hT := rfl
  hc := rfl
  htraj := by simp [freshO, freshL]
  hstab := by intro v h; simp [freshO] at h
  hd := by intro k v h; simp [freshO] at h
  hds := by intro v h; simp [freshO] at h
  hcc := by intro k r h; simp [freshO] at h
  hm := rfl
  hmc := by intro k v h; simp [freshO] at h

theorem inv_setPeriod {O : Oracle} {s : OState} {l : OLog} (h : Inv O s l) (T' : Option Tok) :
    Inv O (setPeriodO s T') (setPeriodL l T') := by
  unfold setPeriodO setPeriodL
  rw [h.hT]
  by_cases hT : T' = l.T
  · simp only [hT, if_true]; exact h
  · simp only [hT, if_false]
    exact {
      hx := h.hx, hT := rfl, hc := h.hc
      htraj := by simp
      hstab := by intro v hv; simp at hv
      hd := by intro k v hv; simp at hv
      hds := by intro v hv; simp at hv
      hcc := h.hcc, hm := h.hm, hmc := h.hmc }

theorem inv_applyCorr {cfg : Cfg} (hclr : cfg.applyClearsShadows = true) {O : Oracle} {s : OState} {l : OLog}
    (h : Inv O s l) (x' T' : Tok) :
    Inv O (applyCorr cfg s x' T') (applyCorrL l x' T') := by
  unfold applyCorr applyCorrL
  apply inv_setPeriod
  rw [hclr, h.hx]
  by_cases hxx : x' = l.x
  · subst hxx
    simp only [decide_true, Bool.not_true, Bool.and_false, if_true]
    exact {
      hx := rfl, hT := h.hT, hc := h.hc, htraj := h.htraj, hstab := h.hstab
      hd := by intro k v hv; simp at hv
      hds := by intro v hv; simp at hv
      hcc := h.hcc, hm := h.hm, hmc := h.hmc }
  · simp only [hxx, decide_false, Bool.not_false, Bool.and_true, if_true, if_false]
    exact {
      hx := rfl, hT := h.hT, hc := h.hc
      htraj := by simp
      hstab := by intro v hv; simp at hv
      hd := by intro k v hv; simp at hv
      hds := by intro v hv; simp at hv
      hcc := h.hcc, hm := h.hm, hmc := h.hmc }


theorem cfg_flags {cfg : Cfg} (hs : cfg.sound = true) :
    cfg.propHitRefreshesTraj = true ∧ cfg.corrKeyHasState = true ∧ cfg.corrApplyOnHit = true ∧
    cfg.corrCfgSetterResets = true ∧ cfg.applyClearsShadows = true ∧ cfg.manKeyHasOrbitState = true ∧
    cfg.manHitRefreshesResult = true ∧ cfg.manResultChecksOrbit = true ∧ cfg.saveOverridesStale = true := by
  simpa [Cfg.sound, and_assoc] using hs

theorem lookup_cons_ne {κ ν : Type} [DecidableEq κ] {k k' : κ} (v : ν) (c : List (κ × ν)) (h : k' ≠ k) :
    lookup k ((k', v) :: c) = lookup k c := by simp [lookup, h]

theorem lookup_cons_self {κ ν : Type} [DecidableEq κ] (k : κ) (v : ν) (c : List (κ × ν)) :
    lookup k ((k, v) :: c) = some v := by simp [lookup]

theorem step_sim {cfg : Cfg} (hs : cfg.sound = true) {O : Oracle} {s : OState} {l : OLog} (h : Inv O s l)
    (op : OOp) : Inv O (stepO cfg O s op).1 (stepL O l op).1 ∧ (stepO cfg O s op).2 = (stepL O l op).2 := by
  obtain ⟨f1, f2, f3, f4, f5, f6, f7, f8, f9⟩ := cfg_flags hs
  rcases s with ⟨sx, sT, sc, straj, sstab, sd, scc, smres, smc, sdT, sdTr, sdSt⟩
  rcases l with ⟨lx, lT, lc, llast, lmlast⟩
  have hx := h.hx; have hT := h.hT; have hc := h.hc
  simp only at hx hT hc
  subst hx hT hc
  cases op with
  | setPeriod T' => exact ⟨inv_setPeriod h T', rfl⟩
  | setPeriodBad => exact ⟨h, rfl⟩
  | setCorrCfg c =>
      refine ⟨?_, rfl⟩
      simp only [stepO, stepL, f4, if_true]
      exact { hx := rfl, hT := rfl, hc := rfl, htraj := h.htraj, hstab := h.hstab, hd := h.hd, hds := h.hds
              hcc := by intro k r hv; simp at hv
              hm := h.hm, hmc := h.hmc }
  | correct o =>
      simp only [stepO, stepL, corrKey, f2, f3, if_true]
      cases hl : lookup (some sx, o) scc with
      | some r =>
          obtain ⟨x0, hk, hr⟩ := h.hcc _ _ (lookup_mem hl)
          simp only at hk hr
          cases hk
          subst hr
          exact ⟨inv_applyCorr f5 h _ _, rfl⟩
      | none =>
          refine ⟨?_, rfl⟩
          refine inv_applyCorr f5 ?_ _ _
          exact { hx := rfl, hT := rfl, hc := rfl, htraj := h.htraj, hstab := h.hstab, hd := h.hd, hds := h.hds
                  hcc := by
                    intro k r hv
                    rcases List.mem_cons.mp hv with he | he
                    · cases he; exact ⟨sx, rfl, rfl⟩
                    · exact h.hcc k r he
                  hm := h.hm, hmc := h.hmc }
  | propagate st m r =>
      cases sT with
      | none => exact ⟨h, rfl⟩
      | some T =>
          simp only [stepO, stepL, f1, if_true]
          cases hl : lookup (DKey.prop st m r) sd with
          | some v =>
              obtain ⟨T1, hT1, hv⟩ := h.hd _ _ (lookup_mem hl)
              simp only [Option.some.injEq] at hT1
              subst hT1
              simp only [evalD] at hv
              subst hv
              refine ⟨?_, rfl⟩
              exact { hx := rfl, hT := rfl, hc := rfl, htraj := rfl, hstab := h.hstab, hd := h.hd, hds := h.hds
                      hcc := h.hcc, hm := h.hm, hmc := h.hmc }
          | none =>
              refine ⟨?_, rfl⟩
              exact { hx := rfl, hT := rfl, hc := rfl, htraj := rfl, hstab := h.hstab
                      hd := by
                        intro k v hv
                        rcases List.mem_cons.mp hv with he | he
                        · cases he; exact ⟨T, rfl, rfl⟩
                        · exact h.hd k v he
                      hds := by
                        intro v hv
                        rw [lookup_cons_ne _ _ (by simp)] at hv
                        exact h.hds v hv
                      hcc := h.hcc, hm := h.hm, hmc := h.hmc }
  | trajectory =>
      have ht := h.htraj
      simp only at ht
      subst ht
      simp only [stepO, stepL]
      cases llast with
      | none => exact ⟨h, rfl⟩
      | some p =>
          cases sT with
          | none => exact ⟨h, rfl⟩
          | some T => exact ⟨h, rfl⟩
  | monodromy =>
      cases sT with
      | none => exact ⟨h, rfl⟩
      | some T =>
          simp only [stepO, stepL]
          cases hl : lookup DKey.mono sd with
          | some v =>
              obtain ⟨T1, hT1, hv⟩ := h.hd _ _ (lookup_mem hl)
              simp only [Option.some.injEq] at hT1
              subst hT1
              simp only [evalD] at hv
              subst hv
              exact ⟨h, rfl⟩
          | none =>
              refine ⟨?_, rfl⟩
              exact { hx := rfl, hT := rfl, hc := rfl, htraj := h.htraj, hstab := h.hstab
                      hd := by
                        intro k v hv
                        rcases List.mem_cons.mp hv with he | he
                        · cases he; exact ⟨T, rfl, rfl⟩
                        · exact h.hd k v he
                      hds := by
                        intro v hv
                        rw [lookup_cons_ne _ _ (by simp)] at hv
                        exact h.hds v hv
                      hcc := h.hcc, hm := h.hm, hmc := h.hmc }
  | computeStability =>
      cases sT with
      | none => exact ⟨h, rfl⟩
      | some T =>
          simp only [stepO, stepL]
          cases hl : lookup DKey.stab sd with
          | some v =>
              obtain ⟨T1, hT1, hv⟩ := h.hd _ _ (lookup_mem hl)
              simp only [Option.some.injEq] at hT1
              subst hT1
              simp only [evalD] at hv
              subst hv
              exact ⟨h, rfl⟩
          | none =>
              refine ⟨?_, rfl⟩
              exact { hx := rfl, hT := rfl, hc := rfl, htraj := h.htraj
                      hstab := by intro v hv; simp only [Option.some.injEq] at hv; exact ⟨T, rfl, hv.symm⟩
                      hd := by
                        intro k v hv
                        rcases List.mem_cons.mp hv with he | he
                        · cases he; exact ⟨T, rfl, rfl⟩
                        · exact h.hd k v he
                      hds := by
                        intro v hv
                        rw [lookup_cons_self] at hv
                        exact hv
                      hcc := h.hcc, hm := h.hm, hmc := h.hmc }
  | eigenvalues =>
      cases hsi : sstab with
      | some v =>
          obtain ⟨T1, hT1, hv⟩ := h.hstab v hsi
          simp only at hT1 hv
          subst hT1 hv hsi
          exact ⟨h, rfl⟩
      | none =>
          subst hsi
          cases sT with
          | none => exact ⟨h, rfl⟩
          | some T =>
              simp only [stepO, stepL]
              cases hl : lookup DKey.stab sd with
              | some v => have := h.hds v hl; simp at this
              | none =>
                  refine ⟨?_, rfl⟩
                  exact { hx := rfl, hT := rfl, hc := rfl, htraj := h.htraj
                          hstab := by intro v hv; simp only [Option.some.injEq] at hv; exact ⟨T, rfl, hv.symm⟩
                          hd := by
                            intro k v hv
                            rcases List.mem_cons.mp hv with he | he
                            · cases he; exact ⟨T, rfl, rfl⟩
                            · exact h.hd k v he
                          hds := by
                            intro v hv
                            rw [lookup_cons_self] at hv
                            exact hv
                          hcc := h.hcc, hm := h.hm, hmc := h.hmc }
  | energy => exact ⟨h, rfl⟩
  | getPeriod => exact ⟨h, rfl⟩
  | getState => exact ⟨h, rfl⟩
  | manCompute c =>
      simp only [stepO, stepL, manKey, f6, f7, if_true]
      cases hl : lookup (some (sx, sT), c) smc with
      | some v =>
          obtain ⟨x0, T0, hk, hv⟩ := h.hmc _ _ (lookup_mem hl)
          simp only [Option.some.injEq, Prod.mk.injEq] at hk hv
          obtain ⟨hk1, hk2⟩ := hk
          subst hk1 hk2 hv
          refine ⟨?_, rfl⟩
          exact { hx := rfl, hT := rfl, hc := rfl, htraj := h.htraj, hstab := h.hstab, hd := h.hd, hds := h.hds
                  hcc := h.hcc, hm := rfl, hmc := h.hmc }
      | none =>
          cases sT with
          | none => exact ⟨h, rfl⟩
          | some T =>
              refine ⟨?_, rfl⟩
              exact { hx := rfl, hT := rfl, hc := rfl, htraj := h.htraj, hstab := h.hstab, hd := h.hd, hds := h.hds
                      hcc := h.hcc, hm := rfl
                      hmc := by
                        intro k v hv
                        rcases List.mem_cons.mp hv with he | he
                        · cases he; exact ⟨sx, T, rfl, rfl⟩
                        · exact h.hmc k v he }
  | manResult =>
      have hm := h.hm
      simp only at hm
      subst hm
      cases lmlast with
      | none => exact ⟨h, rfl⟩
      | some p =>
          obtain ⟨c, x0, T0⟩ := p
          simp only [stepO, stepL, f8, Option.map_some, Bool.true_and]
          by_cases hcnd : x0 = sx ∧ some T0 = sT
          · rw [if_neg (by simp [hcnd]), if_pos hcnd]; exact ⟨h, rfl⟩
          · rw [if_pos (by simp [hcnd]), if_neg hcnd]; exact ⟨h, rfl⟩
  | saveLoad =>
      refine ⟨?_, rfl⟩
      simp only [stepO, stepL, savedAttr, f9, if_true]
      exact { hx := rfl, hT := rfl, hc := rfl, htraj := h.htraj, hstab := h.hstab
              hd := by intro k v hv; simp at hv
              hds := by intro v hv; simp at hv
              hcc := by intro k r hv; simp at hv
              hm := rfl
              hmc := by intro k v hv; simp at hv }


/-! ### centre manifold -/

def evalC (O : COracle) : CKey → Tok
  | .pipe n => O.pipe n
  | .ham n => O.ham (O.pipe n) 0
  | .map n e => O.map n e

structure CInv (O : COracle) (s : CState) (d : Nat) : Prop where
  hd : s.d = d
  hh : ∀ v, s.hamsys = some v → v = O.hsys (O.pipe d)
  hc : ∀ k v, (k, v) ∈ s.cache → v = evalC O k

theorem cinv_fresh (O : COracle) (d : Nat) : CInv O (freshC d) d where
  hd := rfl
  hh := by intro v h; simp [freshC] at h
  hc := by intro k v h; simp [freshC] at h

theorem cinv_setDegree {cfg : CCfg} (hclr : cfg.setterClearsHamsys = true) {O : COracle} {s : CState} {d : Nat}
    (h : CInv O s d) (n : Nat) : CInv O (setDegreeC cfg s n) n := by
  unfold setDegreeC
  by_cases hn : n = s.d
  · simp only [hn, if_true]; rw [h.hd]; exact h
  · simp only [hn, if_false, hclr, if_true]
    exact { hd := rfl
            hh := by intro v hv; simp at hv
            hc := by intro k v hv; exact h.hc k v (mem_resetKey (mem_resetKey hv)) }

theorem cinv_pipeline {O : COracle} {s : CState} {d : Nat} (h : CInv O s d) :
    CInv O (pipelineC O s).1 d ∧ (pipelineC O s).2 = O.pipe d := by
  rcases s with ⟨sd, sh, sc, sdh⟩
  have hd := h.hd
  simp only at hd
  subst hd
  unfold pipelineC
  simp only
  cases hl : lookup (CKey.pipe sd) sc with
  | some p =>
      have := h.hc _ _ (lookup_mem hl)
      simp only [evalC] at this
      exact ⟨h, this⟩
  | none =>
      refine ⟨?_, rfl⟩
      exact { hd := rfl, hh := h.hh
              hc := by
                intro k v hv
                rcases List.mem_cons.mp hv with he | he
                · cases he; rfl
                · exact h.hc k v he }

theorem cstep_sim {cfg : CCfg} (hs : cfg.sound = true) {O : COracle} {s : CState} {d : Nat} (h : CInv O s d)
    (op : COp) : CInv O (stepC cfg O s op).1 (stepCL cfg O d op).1 ∧ (stepC cfg O s op).2 = (stepCL cfg O d op).2 := by
  have hf : (cfg.hamDeg ≠ .onMiss ∧ cfg.setterClearsHamsys = true) ∧ cfg.saveOverridesStale = true := by
    simpa [CCfg.sound] using hs
  obtain ⟨⟨hne, hclr⟩, hsv⟩ := hf
  cases op with
  | setDegree n => exact ⟨cinv_setDegree hclr h n, rfl⟩
  | setDegreeBad => exact ⟨h, rfl⟩
  | getDegree => exact ⟨h, by simp [stepC, stepCL, h.hd]⟩
  | hamiltonian n =>
      simp only [stepC, stepCL]
      cases hl : lookup (CKey.ham n) s.cache with
      | some v =>
          have hv := h.hc _ _ (lookup_mem hl)
          simp only [evalC] at hv
          subst hv
          refine ⟨?_, rfl⟩
          cases hdg : cfg.hamDeg with
          | never => simpa using h
          | onMiss => exact absurd hdg hne
          | always => simpa using cinv_setDegree hclr h n
      | none =>
          cases hdg : cfg.hamDeg with
          | never =>
              refine ⟨?_, rfl⟩
              simp only [if_true]
              exact { hd := h.hd, hh := h.hh
                      hc := by
                        intro k v hv
                        rcases List.mem_cons.mp hv with he | he
                        · cases he; rfl
                        · exact h.hc k v he }
          | onMiss => exact absurd hdg hne
          | always =>
              obtain ⟨hp1, hp2⟩ := cinv_pipeline (cinv_setDegree (cfg := cfg) hclr h n)
              refine ⟨?_, by simp only [hp2]⟩
              simp only [reduceCtorEq, if_false]
              exact { hd := hp1.hd, hh := hp1.hh
                      hc := by
                        intro k v hv
                        rcases List.mem_cons.mp hv with he | he
                        · cases he; simp only [evalC, hp2]
                        · exact hp1.hc k v he }
  | compute form =>
      obtain ⟨hp1, hp2⟩ := cinv_pipeline h
      exact ⟨hp1, by simp only [stepC, stepCL, hp2]⟩
  | hamsys =>
      simp only [stepC, stepCL]
      cases hh : s.hamsys with
      | some v => have := h.hh v hh; subst this; exact ⟨h, rfl⟩
      | none =>
          obtain ⟨hp1, hp2⟩ := cinv_pipeline h
          refine ⟨?_, by simp only [hp2]⟩
          exact { hd := hp1.hd
                  hh := by intro v hv; simp only [Option.some.injEq] at hv; rw [← hv, hp2]
                  hc := hp1.hc }
  | map e =>
      rcases s with ⟨sd, sh, sc, sdh⟩
      have hd := h.hd
      simp only at hd
      subst hd
      simp only [stepC, stepCL]
      cases hl : lookup (CKey.map sd e) sc with
      | some v =>
          have hv := h.hc _ _ (lookup_mem hl)
          simp only [evalC] at hv
          subst hv
          exact ⟨h, rfl⟩
      | none =>
          refine ⟨?_, rfl⟩
          exact { hd := rfl, hh := h.hh
                  hc := by
                    intro k v hv
                    rcases List.mem_cons.mp hv with he | he
                    · cases he; rfl
                    · exact h.hc k v he }
  | saveLoad =>
      refine ⟨?_, rfl⟩
      simp only [stepC, stepCL, hsv, if_true]
      exact { hd := h.hd
              hh := h.hh
              hc := by intro k v hv; simp at hv }

/-! ### stability pipeline cache -/

structure SInv (R : Tok → Tok → Tok) (s : SState) (l : Tok × Tok) : Prop where
  hc : s.cfg = l.1
  ho : s.defOpt = l.2
  hk : ∀ k i, (k, i) ∈ s.cache → i < s.next ∧ ∃ c, k.1 = some c ∧ lookup i s.held = some (R c k.2)

theorem sinv_fresh (R : Tok → Tok → Tok) (c o : Tok) : SInv R (freshS c o) (c, o) where
  hc := rfl
  ho := rfl
  hk := by intro k i h; simp [freshS] at h

theorem stabS_sim {sc : SCfg} (hs : sc.sound = true) {R : Tok → Tok → Tok} {s : SState} {l : Tok × Tok}
    (h : SInv R s l) (o : Tok) : SInv R (stabS sc R s o).1 l ∧ (stabS sc R s o).2 = .tok (R l.1 o) := by
  have hf : sc.pipelinePerKey = true ∧ sc.keyHasConfig = true := by simpa [SCfg.sound] using hs
  obtain ⟨f1, f2⟩ := hf
  rcases s with ⟨scfg, sdo, scur, snext, sheld, scache⟩
  obtain ⟨l1, l2⟩ := l
  have hc := h.hc; have ho := h.ho
  simp only at hc ho
  subst hc ho
  simp only [stabS, f1, f2, if_true]
  cases hl : lookup (some scfg, o) scache with
  | some i =>
      obtain ⟨_, c, hk1, hk2⟩ := h.hk _ _ (lookup_mem hl)
      simp only [Option.some.injEq] at hk1
      subst hk1
      simp only at hk2
      simp only [hk2]
      exact ⟨h, trivial⟩
  | none =>
      refine ⟨?_, rfl⟩
      exact { hc := rfl, ho := rfl
              hk := by
                intro k i hv
                rcases List.mem_cons.mp hv with he | he
                · cases he
                  exact ⟨Nat.lt_succ_self _, scfg, rfl, lookup_cons_self _ _ _⟩
                · obtain ⟨hlt, c, hk1, hk2⟩ := h.hk k i he
                  simp only at hlt
                  refine ⟨Nat.lt_succ_of_lt hlt, c, hk1, ?_⟩
                  rw [lookup_cons_ne _ _ (by intro e; omega)]
                  exact hk2 }

theorem sstep_sim {sc : SCfg} (hs : sc.sound = true) {R : Tok → Tok → Tok} {s : SState} {l : Tok × Tok}
    (h : SInv R s l) (op : SOp) :
    SInv R (stepS sc R s op).1 (stepSL R l op).1 ∧ (stepS sc R s op).2 = (stepSL R l op).2 := by
  cases op with
  | stab o => exact stabS_sim hs h o
  | eig =>
      have := stabS_sim hs h s.defOpt
      simp only [stepS, stepSL]
      rw [← h.ho]
      exact this
  | setOpts o => exact ⟨{ hc := h.hc, ho := rfl, hk := h.hk }, rfl⟩
  | setCfg c => exact ⟨{ hc := rfl, ho := h.ho, hk := h.hk }, rfl⟩

end HitenModel.C20
