/-
  Core/RE.lean — deep-embedded real expressions (import-free, executable part).

  `RE` is the target language of the concolic tracer (translator/tracer.py).  Constants are
  exact rationals `n / d` of the float literals the Python code uses.  The Float evaluator
  `evalF` is what the line-protocol driver uses for translation validation; the real-valued
  semantics and the verified symbolic derivative live in `Lemmas/REReal.lean`.
-/
namespace HitenModel

inductive RE where
  | var : Nat → RE
  | const : Int → Nat → RE          -- numerator / denominator (denominator > 0 by construction)
  | add : RE → RE → RE
  | sub : RE → RE → RE
  | mul : RE → RE → RE
  | div : RE → RE → RE
  | neg : RE → RE
  | pow : RE → Nat → RE
  | sqrt : RE → RE
deriving Repr, DecidableEq, Inhabited

namespace RE

def evalF (ρ : Nat → Float) : RE → Float
  | var i => ρ i
  | const n d => Float.ofInt n / Float.ofNat d
  | add a b => evalF ρ a + evalF ρ b
  | sub a b => evalF ρ a - evalF ρ b
  | mul a b => evalF ρ a * evalF ρ b
  | div a b => evalF ρ a / evalF ρ b
  | neg a => - evalF ρ a
  | pow a n => Id.run do
      let x := evalF ρ a
      let mut r : Float := 1.0
      for _ in [0:n] do r := r * x
      return r
  | sqrt a => Float.sqrt (evalF ρ a)

/-- symbolic partial derivative with respect to variable `i` -/
def D (i : Nat) : RE → RE
  | var j => if i = j then const 1 1 else const 0 1
  | const _ _ => const 0 1
  | add a b => add (D i a) (D i b)
  | sub a b => sub (D i a) (D i b)
  | mul a b => add (mul (D i a) b) (mul a (D i b))
  | div a b => div (sub (mul (D i a) b) (mul a (D i b))) (pow b 2)
  | neg a => neg (D i a)
  | pow a n => mul (mul (const n 1) (pow a (n - 1))) (D i a)
  | sqrt a => div (D i a) (mul (const 2 1) (sqrt a))

/-- number of nodes (for evidence) -/
def size : RE → Nat
  | var _ => 1
  | const _ _ => 1
  | add a b => 1 + size a + size b
  | sub a b => 1 + size a + size b
  | mul a b => 1 + size a + size b
  | div a b => 1 + size a + size b
  | neg a => 1 + size a
  | pow a _ => 1 + size a
  | sqrt a => 1 + size a

end RE
end HitenModel
