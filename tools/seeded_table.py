#!/usr/bin/env python3
"""Print the markdown table of DESIGN.md section 0.8 from seeded/*/meta.json and result.json (and harmless/*)."""
import glob
import json
import os
import sys

VERIF = os.path.dirname(os.path.dirname(os.path.abspath(__file__)))


def clean(s, n):
    s = " ".join(str(s).split()).replace("|", "/")
    return s[:n] + ("…" if len(s) > n else "")


def main():
    which = sys.argv[1] if len(sys.argv) > 1 else "seeded"
    print("| id | change | needs | caught by (key of the concrete replay) |" if which == "seeded" else "| id | refactor | rounding | check result |")
    print("|---|---|---|---|")
    for d in sorted(glob.glob(os.path.join(VERIF, which, "*"))):
        sid = os.path.basename(d)
        try:
            meta = json.load(open(os.path.join(d, "meta.json")))
        except Exception:
            continue
        res = {}
        if os.path.exists(os.path.join(d, "result.json")):
            res = json.load(open(os.path.join(d, "result.json")))
        if which == "seeded":
            caught = []
            for p, r in res.get("checks", {}).items():
                if r.get("exit") == 1:
                    keys = list(dict.fromkeys(r.get("keys", [])))[:2]
                    caught.append("%s: %s" % (p, ", ".join(keys) if keys else "VIOLATION"))
                else:
                    caught.append("%s: exit %s" % (p, r.get("exit")))
            note = res.get("note")
            print("| %s | %s | %s | %s |" % (sid, clean(meta.get("summary", ""), 170), clean(meta.get("needs", ""), 130),
                                           clean("; ".join(caught) or note or "(not run)", 160)))
        else:
            out = []
            for p, r in res.get("checks", {}).items():
                out.append("%s: exit %s%s" % (p, r.get("exit"), "" if r.get("exit") == 0 else " " + "; ".join(r.get("lines", [])[:2])))
            print("| %s | %s | %s | %s |" % (sid, clean(meta.get("summary", ""), 200), clean(meta.get("rounding", ""), 60), clean("; ".join(out) or "(not run)", 200)))


if __name__ == "__main__":
    main()
