/-
  Props/C13.lean — property C13 (continuation): theorems about the model `Core/C13.lean`, valid for EVERY oracle
  behaviour of the corrector (every accept/reject/raise history, every corrected vector), every configuration and
  every norm function.  The model is tied to the code by the exact trace correspondence in harness/props/c13.py.
-/
import HitenModel.Core.C13
import Mathlib.Tactic.Ring
import Mathlib.Tactic.Linarith
import Mathlib.Algebra.Order.Field.Rat
import Mathlib.Data.Rat.Defs
import Mathlib.Data.List.GetD

namespace HitenModel.Props.C13
open HitenModel.C13

variable (cfg : Cfg) (norm : Vec → Rat)

/-- generic induction principle: a predicate preserved by every *enabled* corrector call holds after the run -/
theorem run_induct (P : St → Prop)
    (hstep : ∀ s o, P s → finished cfg s = false → P (step cfg norm s o)) :
    ∀ (os : List Outcome) (s : St), P s → P (run cfg norm s os) := by
  intro os
  induction os with
  | nil => intro s h; simpa [run] using h
  | cons o os ih =>
    intro s h
    simp only [run]
    split
    · exact h
    · rename_i hf
      exact ih _ (hstep s o h (by simpa using hf))

/-! ### bookkeeping invariant -/

/-- counts and lengths are consistent, the member limit is respected -/
structure Inv (s : St) : Prop where
  acc_len : s.accepted = s.family.length
  par_len : s.params.length = s.family.length
  per_len : s.periods.length + 1 = s.family.length
  iters : s.iterations + 1 = s.accepted + s.rejected
  preds_len : s.preds.length = s.iterations
  steps_len : s.steps.length = s.iterations
  bound : s.accepted ≤ max cfg.maxMembers 1
  attempt_le : s.attempt ≤ cfg.maxRetries + 1
  failed_iff : s.failed = true ↔ s.attempt = cfg.maxRetries + 1

theorem inv_init (seed step0 : Vec) : Inv cfg (init cfg norm seed step0) := by
  constructor <;> simp [init] <;> omega

theorem inv_step (s : St) (o : Outcome) (h : Inv cfg s) (hf : finished cfg s = false) :
    Inv cfg (step cfg norm s o) := by
  simp only [finished, Bool.or_eq_false_iff, decide_eq_false_iff_not, not_le] at hf
  obtain ⟨⟨hacc, hfail⟩, _⟩ := hf
  have hnf : ¬ s.attempt = cfg.maxRetries + 1 := fun e => by
    have := h.failed_iff.mpr e; simp [this] at hfail
  have hat := h.attempt_le
  cases o with
  | ok c p =>
    constructor <;> simp only [step, List.length_append, List.length_cons, List.length_nil]
    · have := h.acc_len; omega
    · have := h.par_len; omega
    · have := h.per_len; omega
    · have := h.iters; omega
    · have := h.preds_len; omega
    · have := h.steps_len; omega
    · omega
    · omega
    · simp only [h.failed_iff]
      constructor
      · intro e; exact absurd e hnf
      · intro e; omega
  | fail =>
    constructor <;> simp only [step, List.length_append, List.length_cons, List.length_nil]
    · exact h.acc_len
    · exact h.par_len
    · exact h.per_len
    · have := h.iters; omega
    · have := h.preds_len; omega
    · have := h.steps_len; omega
    · exact h.bound
    · omega
    · simp only [decide_eq_true_eq]; omega

/-- **family_bounded / counts_exact**: for every oracle history the family never exceeds the member limit, the
reported accepted count is the family size (seed included), and `iterations = accepted − 1 + rejected`
(every corrector call is either an accept or a reject). -/
theorem counts_exact (seed step0 : Vec) (os : List Outcome) :
    let r := run cfg norm (init cfg norm seed step0) os
    r.family.length ≤ max cfg.maxMembers 1 ∧ r.accepted = r.family.length ∧
      r.iterations + 1 = r.accepted + r.rejected ∧ r.preds.length = r.iterations ∧
      r.params.length = r.family.length := by
  have h := run_induct cfg norm (Inv cfg) (fun s o hs hf => inv_step cfg norm s o hs hf) os _ (inv_init cfg norm seed step0)
  exact ⟨h.acc_len ▸ h.bound, h.acc_len, h.iters, h.preds_len, h.par_len⟩

/-- **rejected_counts_failures**: `rejected` is exactly the number of failed corrections among the consumed answers -/
theorem rejected_counts_failures : ∀ (os : List Outcome) (s : St),
    (run cfg norm s os).rejected =
      s.rejected + ((os.take (consumed cfg norm s os)).filter (fun o => match o with | .fail => true | _ => false)).length := by
  intro os
  induction os with
  | nil => intro s; simp [run, consumed]
  | cons o os ih =>
    intro s
    simp only [run, consumed]
    split
    · simp
    · rw [ih]
      cases o <;> simp [step, List.take_succ_cons, List.filter_cons] <;> omega

/-! ### retries -/

/-- **gives_up_after_retries**: the run is marked failed exactly when `max_retries_per_step + 1` consecutive
corrections failed at one member (the attempt counter is reset by every accept), and then no further corrector call is
made. -/
theorem gives_up_after_retries (seed step0 : Vec) (os : List Outcome) :
    let r := run cfg norm (init cfg norm seed step0) os
    (r.failed = true ↔ r.attempt = cfg.maxRetries + 1) ∧ r.attempt ≤ cfg.maxRetries + 1 := by
  have h := run_induct cfg norm (Inv cfg) (fun s o hs hf => inv_step cfg norm s o hs hf) os _ (inv_init cfg norm seed step0)
  exact ⟨h.failed_iff, h.attempt_le⟩

theorem no_call_after_failure (s : St) (os : List Outcome) (h : s.failed = true) : run cfg norm s os = s := by
  cases os with
  | nil => rfl
  | cons o os => simp [run, finished, h]

theorem attempt_counts_consecutive_failures (s : St) (o : Outcome) :
    (step cfg norm s o).attempt = match o with | .fail => s.attempt + 1 | .ok _ _ => 0 := by
  cases o <;> rfl

/-! ### step discipline -/

theorem rabs_nonneg (x : Rat) : 0 ≤ rabs x := by
  unfold rabs; split <;> linarith

theorem rabs_neg_one_mul (m : Rat) (hm : 0 < m) : rabs (-1 * m) = m := by
  unfold rabs; rw [if_pos (by linarith)]; ring
theorem rabs_one_mul (m : Rat) (hm : 0 < m) : rabs (1 * m) = m := by
  unfold rabs; rw [if_neg (by linarith)]; ring

theorem clampComp_bounds (lo hi x : Rat) (hlo : 0 < lo) (hlh : lo ≤ hi) (hx : x ≠ 0) :
    lo ≤ rabs (clampComp lo hi x) ∧ rabs (clampComp lo hi x) ≤ hi := by
  have hm1 : lo ≤ min (max (rabs x) lo) hi := le_min (le_max_right _ _) hlh
  have hm2 : min (max (rabs x) lo) hi ≤ hi := min_le_right _ _
  have hpos : 0 < min (max (rabs x) lo) hi := lt_of_lt_of_le hlo hm1
  unfold clampComp rsign
  by_cases hneg : x < 0
  · simp only [hneg, if_true]
    rw [rabs_neg_one_mul _ hpos]; exact ⟨hm1, hm2⟩
  · simp only [hneg, if_false, hx]
    rw [rabs_one_mul _ hpos]; exact ⟨hm1, hm2⟩

theorem clampComp_zero (lo hi : Rat) : clampComp lo hi 0 = 0 := by
  simp [clampComp, rsign]

theorem clampComp_sign (lo hi x : Rat) (hlo : 0 < lo) (hlh : lo ≤ hi) :
    (x < 0 → clampComp lo hi x < 0) ∧ (0 < x → 0 < clampComp lo hi x) := by
  have hm1 : lo ≤ min (max (rabs x) lo) hi := le_min (le_max_right _ _) hlh
  have hpos : 0 < min (max (rabs x) lo) hi := lt_of_lt_of_le hlo hm1
  unfold clampComp rsign
  constructor
  · intro h; simp only [h, if_true]; linarith
  · intro h
    have h1 : ¬ x < 0 := by linarith
    have h2 : ¬ x = 0 := by intro e; rw [e] at h; exact lt_irrefl _ h
    simp only [h1, h2, if_false]; linarith

/-- every component of a step vector is zero or has magnitude within `[step_min, step_max]` -/
def StepOK (v : Vec) : Prop := ∀ x ∈ v, x = 0 ∨ (cfg.stepMin ≤ rabs x ∧ rabs x ≤ cfg.stepMax)

theorem clampStep_ok (v : Vec) (hlo : 0 < cfg.stepMin) (hlh : cfg.stepMin ≤ cfg.stepMax) :
    StepOK cfg (clampStep cfg.stepMin cfg.stepMax v) := by
  intro y hy
  simp only [clampStep, List.mem_map] at hy
  obtain ⟨x, _, rfl⟩ := hy
  by_cases hx : x = 0
  · left; rw [hx]; exact clampComp_zero _ _
  · right; exact clampComp_bounds _ _ x hlo hlh hx

/-- **step_in_bounds**: after every corrector call (accept or reject) the step vector handed to the next prediction has
every non-zero component's magnitude inside `[step_min, step_max]` (zero components stay zero, signs are preserved by
`clampComp_sign`); a rejection replaces the step by `clamp(shrink · step)` — `shrink = 1/2` unless a custom shrink policy is configured, and
the clamp applies to EVERY policy. -/
theorem step_in_bounds (s : St) (o : Outcome) (hlo : 0 < cfg.stepMin) (hlh : cfg.stepMin ≤ cfg.stepMax) :
    StepOK cfg (step cfg norm s o).step ∧
    (∀ c p, o = .ok c p → (step cfg norm s o).step = clampStep cfg.stepMin cfg.stepMax s.step) ∧
    (o = .fail → (step cfg norm s o).step = clampStep cfg.stepMin cfg.stepMax (vscale cfg.shrink s.step)) := by
  cases o with
  | ok c p => exact ⟨clampStep_ok cfg _ hlo hlh, (fun _ _ _ => rfl), (fun h => by cases h)⟩
  | fail => exact ⟨clampStep_ok cfg _ hlo hlh, (fun _ _ h => by cases h), (fun _ => rfl)⟩

/-- lifted to whole runs: once any corrector call has happened the final step is within bounds -/
theorem final_step_in_bounds (seed step0 : Vec) (os : List Outcome)
    (hlo : 0 < cfg.stepMin) (hlh : cfg.stepMin ≤ cfg.stepMax) :
    let r := run cfg norm (init cfg norm seed step0) os
    r.iterations = 0 ∨ StepOK cfg r.step := by
  have := run_induct cfg norm (fun s => s.iterations = 0 ∨ StepOK cfg s.step)
    (fun s o _ _ => Or.inr (step_in_bounds cfg norm s o hlo hlh).1) os (init cfg norm seed step0) (Or.inl rfl)
  exact this

/-! ### predictions -/

/-- **prediction_offset (natural)**: every prediction handed to the corrector is the last member with the current step
added on the continuation indices; (secant) it is the last member plus `‖step‖` times the stored unit secant. -/
theorem prediction_offset (s : St) (o : Outcome) :
    (step cfg norm s o).preds = s.preds ++ [prediction cfg norm s] ∧
    (cfg.secant = false → prediction cfg norm s = predictNatural cfg.idx (lastMember s) s.step) ∧
    (cfg.secant = true → ∀ t, s.tangent = some t →
        prediction cfg norm s = vadd (lastMember s) (vscale (norm s.step) t)) := by
  refine ⟨by cases o <;> rfl, ?_, ?_⟩
  · intro h; simp [prediction, h]
  · intro h t ht; simp [prediction, h, predictSecant, ht]

/-- natural predictor without index list adds the step component-wise -/
theorem predictNatural_none (last st : Vec) : predictNatural none last st = vadd last st := rfl

/-- the stored secant is the normalised difference of the last two members -/
theorem tangent_is_secant (s : St) (c : Vec) (p : Option Rat) (h : cfg.secant = true) :
    (step cfg norm s (.ok c p)).tangent = tangentOf norm (lastMember s) c := by
  simp [step, h]

/-! ### target interval -/

/-- all members strictly between the seed and the last one lie inside the target interval, and `leftTarget` records
whether the last accepted member left it -/
def TargetInv (s : St) : Prop :=
  (∀ i, 1 ≤ i → i + 1 < s.params.length → outside (s.params.getD i []) cfg.tmin cfg.tmax = false) ∧
  (s.leftTarget = false → 2 ≤ s.params.length →
      outside (s.params.getD (s.params.length - 1) []) cfg.tmin cfg.tmax = false) ∧
  1 ≤ s.params.length

theorem targetInv_init (seed step0 : Vec) : TargetInv cfg (init cfg norm seed step0) := by
  refine ⟨?_, ?_, ?_⟩
  · intro i h1 h2; simp [init] at h2
  · intro _ h2; simp [init] at h2
  · simp only [init, List.length_cons, List.length_nil]; omega

theorem targetInv_step (s : St) (o : Outcome) (h : TargetInv cfg s) (hf : finished cfg s = false) :
    TargetInv cfg (step cfg norm s o) := by
  simp only [finished, Bool.or_eq_false_iff] at hf
  obtain ⟨_, hleft⟩ := hf
  obtain ⟨h1, h2, h3⟩ := h
  cases o with
  | fail => exact ⟨h1, h2, h3⟩
  | ok c p =>
    refine ⟨?_, ?_, ?_⟩
    · intro i hi hlen
      simp only [step, List.length_append, List.length_cons, List.length_nil] at hlen
      simp only [step]
      have hi' : i < s.params.length := by omega
      rw [List.getD_append _ _ _ _ hi']
      by_cases hlast : i + 1 < s.params.length
      · exact h1 i hi hlast
      · have : i = s.params.length - 1 := by omega
        rw [this]; exact h2 hleft (by omega)
    · intro hl _
      simp only [step] at hl ⊢
      simp only [List.length_append, List.length_cons, List.length_nil, Nat.add_sub_cancel]
      rw [List.getD_append_right _ _ _ _ (le_refl _)]
      simpa using hl
    · simp [step]

/-- **stops_outside_target**: generation stops once a member leaves the target interval — for every oracle history
only the LAST member of the family may lie outside `[target_min, target_max]` (the seed is never tested). -/
theorem stops_outside_target (seed step0 : Vec) (os : List Outcome) :
    let r := run cfg norm (init cfg norm seed step0) os
    ∀ i, 1 ≤ i → i + 1 < r.params.length → outside (r.params.getD i []) cfg.tmin cfg.tmax = false := by
  have h := run_induct cfg norm (TargetInv cfg) (fun s o hs hf => targetInv_step cfg norm s o hs hf) os _
    (targetInv_init cfg norm seed step0)
  exact h.1

theorem no_call_after_leaving_target (s : St) (os : List Outcome) (h : s.leftTarget = true) :
    run cfg norm s os = s := by
  cases os with
  | nil => rfl
  | cons o os => simp [run, finished, h]

/-! ### termination -/

/-- **run_terminates**: the run consumes at most `(max_members − 1)·(max_retries + 2) + …` oracle answers; stated as a
potential that strictly decreases with every corrector call. -/
def potential (s : St) : Nat :=
  if finished cfg s then 0
  else (cfg.maxMembers - s.accepted) * (cfg.maxRetries + 2) + (cfg.maxRetries + 1 - s.attempt)

theorem potential_decreases (s : St) (o : Outcome) (h : Inv cfg s) (hf : finished cfg s = false) :
    potential cfg (step cfg norm s o) < potential cfg s := by
  have hf' := hf
  simp only [finished, Bool.or_eq_false_iff, decide_eq_false_iff_not, not_le] at hf
  obtain ⟨⟨hacc, hfail⟩, _⟩ := hf
  have hnf : ¬ s.attempt = cfg.maxRetries + 1 := fun e => by
    have := h.failed_iff.mpr e; simp [this] at hfail
  have hat := h.attempt_le
  have hlt : s.attempt < cfg.maxRetries + 1 := by omega
  have hpos : 0 < cfg.maxMembers - s.accepted := by omega
  have hmul := Nat.mul_pos hpos (show 0 < cfg.maxRetries + 2 by omega)
  have hcur : potential cfg s = (cfg.maxMembers - s.accepted) * (cfg.maxRetries + 2) + (cfg.maxRetries + 1 - s.attempt) := by
    unfold potential; rw [if_neg (by simp [hf'])]
  rw [hcur]
  by_cases hfin : finished cfg (step cfg norm s o) = true
  · unfold potential; rw [if_pos hfin]; omega
  · unfold potential; rw [if_neg hfin]
    cases o with
    | ok c p =>
      simp only [step]
      have e : cfg.maxMembers - s.accepted = (cfg.maxMembers - (s.accepted + 1)) + 1 := by omega
      rw [e, Nat.add_mul]; omega
    | fail =>
      simp only [step]; omega

theorem consumed_le_potential : ∀ (os : List Outcome) (s : St), Inv cfg s →
    consumed cfg norm s os ≤ potential cfg s := by
  intro os
  induction os with
  | nil => intro s _; simp [consumed]
  | cons o os ih =>
    intro s h
    simp only [consumed]
    split
    · exact Nat.zero_le _
    · rename_i hf
      have hf' : finished cfg s = false := by simpa using hf
      have := ih _ (inv_step cfg norm s o h hf')
      have := potential_decreases cfg norm s o h hf'
      omega

/-- explicit bound on the number of corrector calls of any run -/
theorem run_terminates (seed step0 : Vec) (os : List Outcome) :
    consumed cfg norm (init cfg norm seed step0) os ≤ cfg.maxMembers * (cfg.maxRetries + 2) + cfg.maxRetries + 1 := by
  have h := consumed_le_potential cfg norm os _ (inv_init cfg norm seed step0)
  have : potential cfg (init cfg norm seed step0) ≤ cfg.maxMembers * (cfg.maxRetries + 2) + cfg.maxRetries + 1 := by
    unfold potential; split
    · omega
    · have : (cfg.maxMembers - (init cfg norm seed step0).accepted) * (cfg.maxRetries + 2) ≤ cfg.maxMembers * (cfg.maxRetries + 2) :=
        Nat.mul_le_mul_right _ (Nat.sub_le _ _)
      omega
  omega

/-! ### member periods (interface `to_domain`) -/

/-- **member_carries_own_period**: member `i ≥ 1` receives the period reported by *its own* correction (aux entry
`i − 1`) whenever one was reported. -/
theorem member_carries_own_period (seedP : Option Rat) (n : Nat) (aux : List (Option Rat)) (i : Nat) (p : Rat)
    (hi : 1 ≤ i) (hn : i < n) (h : aux.getD (i - 1) none = some p) :
    (assignPeriods seedP n aux).getD i none = some p := by
  obtain ⟨j, rfl⟩ : ∃ j, i = j + 1 := ⟨i - 1, by omega⟩
  simp only [Nat.add_sub_cancel] at h
  simp only [assignPeriods, List.getD_cons_succ]
  have hj : j < n - 1 := by omega
  rw [List.getD_eq_getElem?_getD] at h
  simp [List.getD_eq_getElem?_getD, List.getElem?_map, List.getElem?_range hj, h]

/-! ### non-vacuity: a concrete run (accept, reject, accept leaving the target) -/
example :
    let cfg : Cfg := { maxMembers := 5, maxRetries := 1, stepMin := 1/8, stepMax := 1, tmin := [0], tmax := [1/2],
                       secant := false, idx := none, pidx := [0] }
    let r := run cfg (fun _ => 0) (init cfg (fun _ => 0) [0] [1/2]) [.ok [1/2] none, .fail, .ok [3/4] none, .ok [1] none]
    r.family = [[0], [1/2], [3/4]] ∧ r.leftTarget = true ∧ r.rejected = 1 ∧ r.step = [1/4] := by decide +kernel

end HitenModel.Props.C13
