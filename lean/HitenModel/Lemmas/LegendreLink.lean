/-
  Lemmas/LegendreLink.lean — the executable list model `Core/Legendre.lean` (sparse polynomials in `(x, s)`, evaluated by the kernel in
  `Props/C07.legendre_generating_identity` for N ≤ 10) denotes the Mathlib sequence of `Lemmas/Legendre.lean`, for every N.
  §1  denotation `den : P2 → ℚ[x, s]` (`MvPolynomial (Fin 2) ℚ`, `x = X 0`, `s = X 1`) and the coefficient reading
      `coeff (x^i s^j) (den p) = Legendre.coeff p i j`.
  §2  agreement up to weight N (`EqUpTo N`; `x` weight 1, `s` weight 2) is a congruence; `normalize N`, `mulTrunc N`, `scale`, `add`
      are correct up to weight N.
  §3  `Tw` (the code's recurrence in `ℚ[x, s]`), weighted-homogeneous of weight n; `Ts N n` is `[T_n, …, T_0]` with entry k
      `EqUpTo N` `Tw k` and storing only terms of weight k (`Ts_rel`), for ALL N and n; `sumTs N ≡ Σ_{n≤N} Tw n`.
  §4  weighted generating identity in `ℚ[x, s]` from `LegendreGen.truncated_identity` (`weighted_identity`, `weighted_identity_coeff`).
  §5  `Legendre.generatingIdentity N = true` for EVERY N (`generatingIdentity_all`).
  §6  exact denotation for n ≤ N (`Ts_exact`); `Legendre.homogeneous N = true` for EVERY N; `list_model_all`.
  §7  `Tw ↦ Tpoly` under `s ↦ x² + y² + z²`; sanity checks.
-/
import HitenModel.Core.Legendre
import HitenModel.Lemmas.Legendre
import Mathlib.RingTheory.MvPolynomial.WeightedHomogeneous
import Mathlib.Tactic.FinCases

namespace HitenModel.LegendreLink
open HitenModel MvPolynomial
open HitenModel.Legendre (P2)

/-- `ℚ[x, s]` -/
abbrev B := MvPolynomial (Fin 2) ℚ

/-! ### §1 denotation -/

/-- the exponent vector of `x^i s^j` -/
noncomputable def e (i j : ℕ) : Fin 2 →₀ ℕ := Finsupp.single 0 i + Finsupp.single 1 j

@[simp] theorem e_zero (i j : ℕ) : e i j 0 = i := by simp [e]
@[simp] theorem e_one (i j : ℕ) : e i j 1 = j := by simp [e]

theorem eq_e (m : Fin 2 →₀ ℕ) : m = e (m 0) (m 1) := by
  ext a; fin_cases a <;> simp

theorem e_inj {i j i' j' : ℕ} : e i j = e i' j' ↔ i = i' ∧ j = j' := by
  constructor
  · intro h
    exact ⟨by simpa using DFunLike.congr_fun h 0, by simpa using DFunLike.congr_fun h 1⟩
  · rintro ⟨rfl, rfl⟩; rfl

theorem e_add (i j i' j' : ℕ) : e i j + e i' j' = e (i + i') (j + j') := by
  ext a; fin_cases a <;> simp

/-- denotation of one term `(i, j, c)`: `c · x^i s^j` -/
noncomputable def termDen (t : ℕ × ℕ × ℚ) : B := monomial (e t.1 t.2.1) t.2.2

/-- denotation of a sparse list polynomial -/
noncomputable def den (p : P2) : B := (p.map termDen).sum

@[simp] theorem den_nil : den [] = 0 := rfl
@[simp] theorem den_cons (t : ℕ × ℕ × ℚ) (p : P2) : den (t :: p) = termDen t + den p := by
  simp [den]

theorem den_append (p q : P2) : den (p ++ q) = den p + den q := by
  simp [den, List.map_append, List.sum_append]

theorem den_add (p q : P2) : den (Legendre.add p q) = den p + den q := den_append p q

theorem den_scale (c : ℚ) (p : P2) : den (Legendre.scale c p) = C c * den p := by
  induction p with
  | nil => simp [Legendre.scale]
  | cons t p ih =>
    rw [Legendre.scale] at ih ⊢
    rw [List.map_cons, den_cons, den_cons, ih, mul_add, termDen, termDen, C_mul_monomial]

theorem den_flatMap_id (l : List P2) : den (l.flatMap id) = (l.map den).sum := by
  induction l with
  | nil => simp
  | cons a l ih => rw [List.flatMap_cons, den_append, ih, List.map_cons, List.sum_cons]; rfl

/-- the coefficient of `x^i s^j` contributed by one term -/
def tc (i j : ℕ) (t : ℕ × ℕ × ℚ) : ℚ := if t.1 = i ∧ t.2.1 = j then t.2.2 else 0

theorem foldl_acc (i j : ℕ) (p : P2) (acc : ℚ) :
    p.foldl (fun acc t => if t.1 = i ∧ t.2.1 = j then acc + t.2.2 else acc) acc = acc + (p.map (tc i j)).sum := by
  induction p generalizing acc with
  | nil => simp
  | cons t p ih =>
    simp only [List.foldl_cons, List.map_cons, List.sum_cons, ih, tc]
    split_ifs <;> ring

theorem coeff_eq_sum (p : P2) (i j : ℕ) : Legendre.coeff p i j = (p.map (tc i j)).sum := by
  rw [Legendre.coeff, foldl_acc, zero_add]

theorem coeff_nil (i j : ℕ) : Legendre.coeff [] i j = 0 := by simp [coeff_eq_sum]

theorem coeff_cons (t : ℕ × ℕ × ℚ) (p : P2) (i j : ℕ) :
    Legendre.coeff (t :: p) i j = tc i j t + Legendre.coeff p i j := by
  simp [coeff_eq_sum]

theorem coeff_append (p q : P2) (i j : ℕ) :
    Legendre.coeff (p ++ q) i j = Legendre.coeff p i j + Legendre.coeff q i j := by
  simp [coeff_eq_sum, List.map_append, List.sum_append]

theorem coeff_termDen (i j : ℕ) (t : ℕ × ℕ × ℚ) : coeff (e i j) (termDen t) = tc i j t := by
  rw [termDen, coeff_monomial, tc]
  simp only [e_inj]

/-- **coefficient reading of the denotation** -/
theorem coeff_den (p : P2) (i j : ℕ) : coeff (e i j) (den p) = Legendre.coeff p i j := by
  induction p with
  | nil => simp [coeff_nil]
  | cons t p ih => rw [den_cons, coeff_add, coeff_termDen, ih, coeff_cons]

/-! ### §2 agreement up to weight N -/

/-- weights: `x ↦ 1`, `s ↦ 2` -/
def wt : Fin 2 → ℕ := ![1, 2]

theorem weight_eq (m : Fin 2 →₀ ℕ) : Finsupp.weight wt m = m 0 + 2 * m 1 := by
  rw [Finsupp.weight_eq_sum, Fin.sum_univ_two]
  simp [wt, mul_comm]

theorem weight_e (i j : ℕ) : Finsupp.weight wt (e i j) = i + 2 * j := by rw [weight_eq, e_zero, e_one]

/-- `p` and `q` have the same coefficients on all monomials of weight `≤ N` -/
def EqUpTo (N : ℕ) (p q : B) : Prop := ∀ m : Fin 2 →₀ ℕ, Finsupp.weight wt m ≤ N → coeff m p = coeff m q

namespace EqUpTo
variable {N : ℕ} {p p' q q' r : B}

theorem of_eq (h : p = q) : EqUpTo N p q := fun _ _ => by rw [h]
theorem rfl' : EqUpTo N p p := fun _ _ => rfl
theorem symm (h : EqUpTo N p q) : EqUpTo N q p := fun m hm => (h m hm).symm
theorem trans (h1 : EqUpTo N p q) (h2 : EqUpTo N q r) : EqUpTo N p r := fun m hm => (h1 m hm).trans (h2 m hm)

theorem add (h1 : EqUpTo N p p') (h2 : EqUpTo N q q') : EqUpTo N (p + q) (p' + q') := fun m hm => by
  rw [coeff_add, coeff_add, h1 m hm, h2 m hm]

theorem sub (h1 : EqUpTo N p p') (h2 : EqUpTo N q q') : EqUpTo N (p - q) (p' - q') := fun m hm => by
  rw [coeff_sub, coeff_sub, h1 m hm, h2 m hm]

theorem C_mul (c : ℚ) (h : EqUpTo N p p') : EqUpTo N (C c * p) (C c * p') := fun m hm => by
  rw [coeff_C_mul, coeff_C_mul, h m hm]

/-- agreement up to weight `N` is a congruence for multiplication (weights are additive and nonnegative) -/
theorem mul (h1 : EqUpTo N p p') (h2 : EqUpTo N q q') : EqUpTo N (p * q) (p' * q') := by
  intro m hm
  rw [coeff_mul, coeff_mul]
  refine Finset.sum_congr rfl fun ab hab => ?_
  have hab' := Finset.mem_antidiagonal.mp hab
  have : Finsupp.weight wt ab.1 + Finsupp.weight wt ab.2 = Finsupp.weight wt m := by rw [← map_add, hab']
  rw [h1 _ (by omega), h2 _ (by omega)]

theorem pow (h : EqUpTo N p p') (k : ℕ) : EqUpTo N (p ^ k) (p' ^ k) := by
  induction k with
  | zero => simp only [pow_zero]; exact rfl'
  | succ k ih => rw [pow_succ, pow_succ]; exact ih.mul h

end EqUpTo

/-- reading of `EqUpTo` on the exponent pairs `(i, j)` -/
theorem eqUpTo_iff (N : ℕ) (p q : B) :
    EqUpTo N p q ↔ ∀ i j : ℕ, i + 2 * j ≤ N → coeff (e i j) p = coeff (e i j) q := by
  constructor
  · intro h i j hij; exact h _ (by rw [weight_e]; exact hij)
  · intro h m hm
    rw [eq_e m]
    exact h _ _ (by rw [weight_eq] at hm; exact hm)

/-! #### `normalize` -/

theorem coeff_flatMap {α : Type} (l : List α) (f : α → P2) (i j : ℕ) :
    Legendre.coeff (l.flatMap f) i j = (l.map fun a => Legendre.coeff (f a) i j).sum := by
  induction l with
  | nil => simp [coeff_nil]
  | cons a l ih => rw [List.flatMap_cons, coeff_append, ih, List.map_cons, List.sum_cons]

theorem list_range_sum (f : ℕ → ℚ) (n : ℕ) : ((List.range n).map f).sum = ∑ k ∈ Finset.range n, f k := by
  induction n with
  | zero => simp
  | succ n ih => rw [List.range_succ, List.map_append, List.sum_append, ih, Finset.sum_range_succ]; simp

/-- one row (fixed power `i'` of `x`) of `normalize N p` -/
theorem coeff_normalize_row (p : P2) (N i' i j : ℕ) (js : List ℕ) :
    Legendre.coeff
      ((js.filter fun j' => i' + 2 * j' ≤ N).filterMap fun j' =>
        let c := Legendre.coeff p i' j'
        if c = 0 then none else some (i', j', c)) i j
      = (js.map fun j' => if i' + 2 * j' ≤ N ∧ i' = i ∧ j' = j then Legendre.coeff p i j else 0).sum := by
  induction js with
  | nil => simp [coeff_nil]
  | cons j' js ih =>
    rw [List.map_cons, List.sum_cons, ← ih]
    by_cases hw : i' + 2 * j' ≤ N
    · rw [List.filter_cons_of_pos (by simpa using hw)]
      by_cases hc : Legendre.coeff p i' j' = 0
      · rw [List.filterMap_cons_none (by simp [hc])]
        by_cases hij : i' = i ∧ j' = j
        · obtain ⟨rfl, rfl⟩ := hij
          simp [hc]
        · simp [hij]
      · rw [List.filterMap_cons_some (b := (i', j', Legendre.coeff p i' j')) (by simp [hc]), coeff_cons, tc]
        by_cases hij : i' = i ∧ j' = j
        · obtain ⟨rfl, rfl⟩ := hij
          simp [hw]
        · simp [hij]
    · rw [List.filter_cons_of_neg (by simpa using hw)]
      simp [hw]

/-- `normalize N` preserves every coefficient of weight `≤ N` -/
theorem coeff_normalize (N : ℕ) (p : P2) (i j : ℕ) (h : i + 2 * j ≤ N) :
    Legendre.coeff (Legendre.normalize N p) i j = Legendre.coeff p i j := by
  rw [Legendre.normalize, coeff_flatMap]
  simp only [coeff_normalize_row]
  rw [list_range_sum]
  simp only [list_range_sum]
  rw [Finset.sum_eq_single i, Finset.sum_eq_single j]
  · simp [h]
  · intro b _ hb; simp [hb]
  · intro hj; exact absurd (Finset.mem_range.mpr (by omega)) hj
  · intro b _ hb
    refine Finset.sum_eq_zero fun c _ => ?_
    simp [hb]
  · intro hi; exact absurd (Finset.mem_range.mpr (by omega)) hi

theorem den_normalize (N : ℕ) (p : P2) : EqUpTo N (den (Legendre.normalize N p)) (den p) := by
  rw [eqUpTo_iff]
  intro i j hij
  rw [coeff_den, coeff_den, coeff_normalize N p i j hij]

/-! #### `mulTrunc` -/

theorem termDen_mul (a b : ℕ × ℕ × ℚ) :
    termDen a * termDen b = termDen (a.1 + b.1, a.2.1 + b.2.1, a.2.2 * b.2.2) := by
  rw [termDen, termDen, termDen, monomial_mul, e_add]

theorem eqUpTo_zero_termDen (N : ℕ) (t : ℕ × ℕ × ℚ) (h : N < t.1 + 2 * t.2.1) : EqUpTo N 0 (termDen t) := by
  intro m hm
  rw [termDen, coeff_zero, coeff_monomial, if_neg]
  rintro rfl
  rw [weight_e] at hm
  omega

theorem den_mulRow (N : ℕ) (a : ℕ × ℕ × ℚ) (q : P2) :
    EqUpTo N
      (den (q.filterMap fun b =>
        if Legendre.weight a + Legendre.weight b ≤ N then some (a.1 + b.1, a.2.1 + b.2.1, a.2.2 * b.2.2) else none))
      (termDen a * den q) := by
  induction q with
  | nil => simp only [List.filterMap_nil, den_nil, mul_zero]; exact EqUpTo.rfl'
  | cons b q ih =>
    rw [den_cons, mul_add]
    by_cases hw : Legendre.weight a + Legendre.weight b ≤ N
    · rw [List.filterMap_cons_some (by rw [if_pos hw]), den_cons, termDen_mul]
      exact EqUpTo.rfl'.add ih
    · rw [List.filterMap_cons_none (by rw [if_neg hw]), termDen_mul]
      have h0 := eqUpTo_zero_termDen N (a.1 + b.1, a.2.1 + b.2.1, a.2.2 * b.2.2)
        (by simp only [Legendre.weight] at hw ⊢; omega)
      have := h0.add ih
      rwa [zero_add] at this

/-- `mulTrunc N` is the product, up to weight `N` -/
theorem den_mulTrunc (N : ℕ) (p q : P2) : EqUpTo N (den (Legendre.mulTrunc N p q)) (den p * den q) := by
  rw [Legendre.mulTrunc]
  refine (den_normalize N _).trans ?_
  induction p with
  | nil => simp only [List.flatMap_nil, den_nil, zero_mul]; exact EqUpTo.rfl'
  | cons a p ih =>
    rw [List.flatMap_cons, den_append, den_cons, add_mul]
    exact (den_mulRow N a q).add ih

/-! ### §3 the list model's `T_n` denote the Mathlib sequence -/

/-- the Mathlib sequence in `ℚ[x, s]`: the code's recurrence `T_m = (2m−1)/m · x · T_{m−1} − (m−1)/m · s · T_{m−2}` (`m = n+2`), with the
coefficients written exactly as in `Core/Legendre.Ts` -/
noncomputable def Tw : ℕ → B
  | 0 => 1
  | 1 => X 0
  | (n + 2) => C ((2 * ((n + 2 : ℕ) : ℚ) - 1) / ((n + 2 : ℕ) : ℚ)) * (X 0 * Tw (n + 1))
      - C ((((n + 2 : ℕ) : ℚ) - 1) / ((n + 2 : ℕ) : ℚ)) * (X 1 * Tw n)

theorem Tw_zero : Tw 0 = 1 := by rw [Tw]
theorem Tw_one : Tw 1 = X 0 := by rw [Tw]

/-- `Tw` satisfies the division-free recurrence of `Lemmas/Legendre.lean` §1 (with `x = X 0`, `s = X 1`) -/
theorem Tw_rec (n : ℕ) :
    ((n : B) + 2) * Tw (n + 2) = (2 * (n : B) + 3) * (X 0 * Tw (n + 1)) - ((n : B) + 1) * (X 1 * Tw n) := by
  have hne : ((n : ℚ) + 2) ≠ 0 := by positivity
  have e1 : ((n : B) + 2) = C ((n : ℚ) + 2) := by rw [map_add, map_natCast, map_ofNat]
  have e2 : (2 * (n : B) + 3) = C (2 * (n : ℚ) + 3) := by rw [map_add, map_mul, map_natCast, map_ofNat, map_ofNat]
  have e3 : ((n : B) + 1) = C ((n : ℚ) + 1) := by rw [map_add, map_natCast, map_one]
  have c1 : ((n : ℚ) + 2) * ((2 * ((n + 2 : ℕ) : ℚ) - 1) / ((n + 2 : ℕ) : ℚ)) = 2 * (n : ℚ) + 3 := by
    push_cast; field_simp; ring
  have c2 : ((n : ℚ) + 2) * ((((n + 2 : ℕ) : ℚ) - 1) / ((n + 2 : ℕ) : ℚ)) = (n : ℚ) + 1 := by
    push_cast; field_simp; ring
  rw [e1, e2, e3, Tw]
  simp only [mul_sub, ← mul_assoc, ← C_mul, c1, c2]

theorem X0_isWH : IsWeightedHomogeneous wt (X 0 : B) 1 := isWeightedHomogeneous_X ℚ wt 0
theorem X1_isWH : IsWeightedHomogeneous wt (X 1 : B) 2 := isWeightedHomogeneous_X ℚ wt 1

/-- every `T_n` is weighted-homogeneous of weight `n` (`x` weight 1, `s` weight 2) -/
theorem Tw_isWeightedHomogeneous (n : ℕ) : IsWeightedHomogeneous wt (Tw n) n := by
  suffices h : ∀ n, IsWeightedHomogeneous wt (Tw n) n ∧ IsWeightedHomogeneous wt (Tw (n + 1)) (n + 1) from (h n).1
  intro n
  induction n with
  | zero => exact ⟨by simpa [Tw] using isWeightedHomogeneous_one ℚ wt, by simpa [Tw] using X0_isWH⟩
  | succ n ih =>
    refine ⟨ih.2, ?_⟩
    rw [Tw]
    refine IsWeightedHomogeneous.sub (IsWeightedHomogeneous.C_mul ?_ _) (IsWeightedHomogeneous.C_mul ?_ _)
    · have := X0_isWH.mul ih.2
      rwa [show 1 + (n + 1) = n + 1 + 1 by omega] at this
    · have := X1_isWH.mul ih.1
      rwa [show 2 + n = n + 1 + 1 by omega] at this

theorem den_one : den [(0, 0, 1)] = 1 := by
  have : e 0 0 = 0 := by ext a; fin_cases a <;> simp
  rw [den_cons, den_nil, add_zero, termDen, this]; rfl

theorem den_X : den Legendre.X = X 0 := by
  have : e 1 0 = Finsupp.single 0 1 := by ext a; fin_cases a <;> simp
  rw [Legendre.X, den_cons, den_nil, add_zero, termDen, this]; rfl

theorem den_S : den Legendre.S = X 1 := by
  have : e 0 1 = Finsupp.single 1 1 := by ext a; fin_cases a <;> simp
  rw [Legendre.S, den_cons, den_nil, add_zero, termDen, this]; rfl

/-- `[n, n−1, …, 0]` -/
def desc : ℕ → List ℕ
  | 0 => [0]
  | n + 1 => (n + 1) :: desc n

theorem desc_eq (n : ℕ) : ∃ tl, desc n = n :: tl := by
  cases n with
  | zero => exact ⟨[], rfl⟩
  | succ n => exact ⟨desc n, rfl⟩

/-- one step of the list recurrence is one step of the Mathlib recurrence, up to weight `N` -/
theorem den_step (N n : ℕ) (t1 t0 : P2) (h1 : EqUpTo N (den t1) (Tw (n + 1))) (h0 : EqUpTo N (den t0) (Tw n)) :
    EqUpTo N
      (den (Legendre.normalize N (Legendre.add
        (Legendre.scale ((2 * ((n + 2 : ℕ) : ℚ) - 1) / ((n + 2 : ℕ) : ℚ)) (Legendre.mulTrunc N Legendre.X t1))
        (Legendre.scale (-((((n + 2 : ℕ) : ℚ) - 1) / ((n + 2 : ℕ) : ℚ))) (Legendre.mulTrunc N Legendre.S t0)))))
      (Tw (n + 2)) := by
  refine (den_normalize N _).trans ?_
  rw [den_add, den_scale, den_scale, Tw, map_neg, neg_mul, ← sub_eq_add_neg]
  refine EqUpTo.sub (EqUpTo.C_mul _ ?_) (EqUpTo.C_mul _ ?_)
  · refine (den_mulTrunc N _ _).trans ?_
    rw [den_X]
    exact EqUpTo.rfl'.mul h1
  · refine (den_mulTrunc N _ _).trans ?_
    rw [den_S]
    exact EqUpTo.rfl'.mul h0

/-- membership in a normalized list: the exponents have weight `≤ N` and the coefficient is the (nonzero) collected coefficient -/
theorem mem_normalize {N : ℕ} {p : P2} {t : ℕ × ℕ × ℚ} (h : t ∈ Legendre.normalize N p) :
    t.1 + 2 * t.2.1 ≤ N ∧ t.2.2 = Legendre.coeff p t.1 t.2.1 ∧ t.2.2 ≠ 0 := by
  rw [Legendre.normalize, List.mem_flatMap] at h
  obtain ⟨i, _, h⟩ := h
  rw [List.mem_filterMap] at h
  obtain ⟨j, hj, h⟩ := h
  rw [List.mem_filter] at hj
  have hw : i + 2 * j ≤ N := by simpa using hj.2
  by_cases hc : Legendre.coeff p i j = 0
  · simp [hc] at h
  · simp only [hc, if_false, Option.some.injEq] at h
    subst h
    exact ⟨hw, rfl, hc⟩

/-- a normalized list that denotes `T_k` up to weight `N` only has terms of weight exactly `k` -/
theorem weight_of_mem_normalize {N k : ℕ} {p : P2} (hp : EqUpTo N (den p) (Tw k)) {t : ℕ × ℕ × ℚ}
    (h : t ∈ Legendre.normalize N p) : Legendre.weight t = k := by
  obtain ⟨hw, hc, hne⟩ := mem_normalize h
  rw [hc, ← coeff_den, (eqUpTo_iff N _ _).mp hp _ _ hw] at hne
  have := Tw_isWeightedHomogeneous k hne
  rwa [weight_e] at this

/-- the invariant of the list recurrence: the list `t` denotes `T_k` on all monomials of weight `≤ N`, and every term stored in `t`
has weight exactly `k` -/
def Rel (N : ℕ) (t : P2) (k : ℕ) : Prop := EqUpTo N (den t) (Tw k) ∧ ∀ m ∈ t, Legendre.weight m = k

/-- **the list model denotes the Mathlib sequence** (with syntactic homogeneity): for every truncation weight `N` and every `n`, the
list `Ts N n` is `[T_n, …, T_0]`, entry `k` denoting `Tw k` on all monomials of weight `≤ N` and storing only terms of weight `k` -/
theorem Ts_rel (N : ℕ) (n : ℕ) : List.Forall₂ (Rel N) (Legendre.Ts N n) (desc n) := by
  suffices h : ∀ n, List.Forall₂ (Rel N) (Legendre.Ts N n) (desc n) ∧
      List.Forall₂ (Rel N) (Legendre.Ts N (n + 1)) (desc (n + 1)) from (h n).1
  have r0 : Rel N [(0, 0, 1)] 0 :=
    ⟨EqUpTo.of_eq (by rw [den_one, Tw_zero]), by intro m hm; rw [List.mem_singleton] at hm; subst hm; rfl⟩
  have r1 : Rel N Legendre.X 1 :=
    ⟨EqUpTo.of_eq (by rw [den_X, Tw_one]), by
      intro m hm; rw [Legendre.X, List.mem_singleton] at hm; subst hm; rfl⟩
  intro n
  induction n with
  | zero =>
    refine ⟨?_, ?_⟩
    · rw [Legendre.Ts, desc]
      exact List.Forall₂.cons r0 List.Forall₂.nil
    · rw [Legendre.Ts, desc, desc]
      exact List.Forall₂.cons r1 (List.Forall₂.cons r0 List.Forall₂.nil)
  | succ n ih =>
    refine ⟨ih.2, ?_⟩
    have h := ih.2
    rw [desc] at h
    obtain ⟨t1, tl, h1, htl, hT⟩ := List.forall₂_cons_right_iff.mp h
    obtain ⟨dtl, hd⟩ := desc_eq n
    rw [hd] at htl
    obtain ⟨t0, rest, h0, hrest, hT0⟩ := List.forall₂_cons_right_iff.mp htl
    have hTs : Legendre.Ts N (n + 2) =
        Legendre.normalize N (Legendre.add
          (Legendre.scale ((2 * ((n + 2 : ℕ) : ℚ) - 1) / ((n + 2 : ℕ) : ℚ)) (Legendre.mulTrunc N Legendre.X t1))
          (Legendre.scale (-((((n + 2 : ℕ) : ℚ) - 1) / ((n + 2 : ℕ) : ℚ))) (Legendre.mulTrunc N Legendre.S t0)))
          :: t1 :: t0 :: rest := by
      rw [Legendre.Ts, hT, hT0]
    rw [hTs, desc]
    refine List.Forall₂.cons ⟨den_step N n t1 t0 h1.1 h0.1, ?_⟩ ?_
    · intro m hm
      refine weight_of_mem_normalize (k := n + 2) ?_ hm
      have := den_step N n t1 t0 h1.1 h0.1
      exact (den_normalize N _).symm.trans this
    · rw [← hT0, ← hT]
      exact ih.2

/-- the denotation part alone -/
theorem Ts_spec (N : ℕ) (n : ℕ) :
    List.Forall₂ (fun t k => EqUpTo N (den t) (Tw k)) (Legendre.Ts N n) (desc n) :=
  (Ts_rel N n).imp fun _ _ h => h.1

theorem desc_length (n : ℕ) : (desc n).length = n + 1 := by
  induction n with
  | zero => rfl
  | succ n ih => rw [desc, List.length_cons, ih]

/-- head form: the first entry of `Ts N n` is `T_n` (on weights `≤ N`; for `n ≤ N` that is all of `T_n`, see `Tw_isWeightedHomogeneous`) -/
theorem Ts_head (N n : ℕ) : ∃ t rest, Legendre.Ts N n = t :: rest ∧ rest.length = n ∧ EqUpTo N (den t) (Tw n) := by
  have h := Ts_spec N n
  obtain ⟨dtl, hd⟩ := desc_eq n
  have hl := h.length_eq
  rw [hd] at h
  obtain ⟨t, rest, ht, _, hT⟩ := List.forall₂_cons_right_iff.mp h
  refine ⟨t, rest, hT, ?_, ht⟩
  rw [hT, desc_length, List.length_cons] at hl
  omega

theorem sum_desc (n : ℕ) : ((desc n).map Tw).sum = ∑ k ∈ Finset.range (n + 1), Tw k := by
  induction n with
  | zero => simp [desc]
  | succ n ih => rw [desc, List.map_cons, List.sum_cons, ih, Finset.sum_range_succ _ (n + 1), add_comm]

theorem eqUpTo_list_sum (N : ℕ) (l : List P2) (ks : List ℕ)
    (h : List.Forall₂ (fun t k => EqUpTo N (den t) (Tw k)) l ks) : EqUpTo N ((l.map den).sum) ((ks.map Tw).sum) := by
  induction h with
  | nil => exact EqUpTo.rfl'
  | cons hab _ ih => rw [List.map_cons, List.map_cons, List.sum_cons, List.sum_cons]; exact hab.add ih

/-- the list model's partial sum `sumTs N` denotes `Σ_{n ≤ N} T_n` up to weight `N` -/
theorem den_sumTs (N : ℕ) : EqUpTo N (den (Legendre.sumTs N)) (∑ k ∈ Finset.range (N + 1), Tw k) := by
  rw [Legendre.sumTs, ← sum_desc]
  refine (den_normalize N _).trans ?_
  rw [den_flatMap_id]
  exact eqUpTo_list_sum N _ _ (Ts_spec N N)

/-! ### §4 the weighted-homogeneous identity in `ℚ[x, s]`, every N -/

open HitenModel.LegendreGen (quadPoly partialSum)

/-- a polynomial in the grading variable `t` whose `t^k` coefficient is weighted-homogeneous of weight `k` -/
def GradedW (p : Polynomial B) : Prop := ∀ k, IsWeightedHomogeneous wt (p.coeff k) k

theorem GradedW.mul {p q : Polynomial B} (hp : GradedW p) (hq : GradedW q) : GradedW (p * q) := by
  intro k
  rw [Polynomial.coeff_mul]
  refine IsWeightedHomogeneous.sum _ _ _ fun ij hij => ?_
  rw [← Finset.mem_antidiagonal.mp hij]
  exact (hp _).mul (hq _)

theorem GradedW.add {p q : Polynomial B} (hp : GradedW p) (hq : GradedW q) : GradedW (p + q) := by
  intro k; rw [Polynomial.coeff_add]; exact (hp k).add (hq k)

theorem GradedW.sub {p q : Polynomial B} (hp : GradedW p) (hq : GradedW q) : GradedW (p - q) := by
  intro k; rw [Polynomial.coeff_sub]; exact (hp k).sub (hq k)

theorem GradedW.monomial {n : ℕ} {a : B} (ha : IsWeightedHomogeneous wt a n) : GradedW (Polynomial.monomial n a) := by
  intro k
  rw [Polynomial.coeff_monomial]
  split_ifs with h
  · exact h ▸ ha
  · exact isWeightedHomogeneous_zero ℚ wt k

theorem gradedW_quadPoly : GradedW (quadPoly (X 0 : B) (X 1)) := by
  have : quadPoly (X 0 : B) (X 1) =
      Polynomial.monomial 0 1 - Polynomial.monomial 1 (2 * X 0) + Polynomial.monomial 2 (X 1) := by
    rw [quadPoly, Polynomial.C_mul_X_eq_monomial, Polynomial.C_mul_X_pow_eq_monomial, Polynomial.monomial_zero_one]
  rw [this]
  refine ((GradedW.monomial (isWeightedHomogeneous_one ℚ wt)).sub (GradedW.monomial ?_)).add (GradedW.monomial X1_isWH)
  have := (isWeightedHomogeneous_C wt (2 : ℚ)).mul X0_isWH
  rwa [map_ofNat, zero_add] at this

theorem gradedW_partialSum (N : ℕ) : GradedW (partialSum Tw N) := by
  intro k
  rw [LegendreGen.partialSum_eq_trunc, PowerSeries.coeff_trunc]
  split_ifs
  · rw [PowerSeries.coeff_mk]; exact Tw_isWeightedHomogeneous k
  · exact isWeightedHomogeneous_zero ℚ wt k

/-- setting `t = 1`: the weight-`r` component is the `t^r` coefficient -/
theorem GradedW.component_eval_one {p : Polynomial B} (hp : GradedW p) (r : ℕ) :
    weightedHomogeneousComponent wt r (p.eval 1) = p.coeff r := by
  rw [Polynomial.eval_eq_sum_range, map_sum]
  simp only [one_pow, mul_one]
  rw [Finset.sum_congr rfl fun i _ => weightedHomogeneousComponent_of_mem (m := r) (hp i), Finset.sum_ite_eq]
  split_ifs with h
  · rfl
  · rw [Finset.mem_range, not_lt] at h
    exact (Polynomial.coeff_eq_zero_of_natDegree_lt (Nat.lt_of_succ_le h)).symm

theorem eval_one_quad_mul_sq (N : ℕ) :
    (quadPoly (X 0 : B) (X 1) * partialSum Tw N ^ 2).eval 1
      = (∑ n ∈ Finset.range (N + 1), Tw n) ^ 2 * (1 - 2 * X 0 + X 1) := by
  simp [quadPoly, partialSum, Polynomial.eval_finsetSum]
  ring

/-- **generating identity in `ℚ[x, s]`, weighted form, every N**: `(Σ_{n≤N} T_n)² · (1 − 2x + s)` has weight-`r` component `1` for
`r = 0` and `0` for `1 ≤ r ≤ N` -/
theorem weighted_identity (N r : ℕ) (hr : r ≤ N) :
    weightedHomogeneousComponent wt r ((∑ n ∈ Finset.range (N + 1), Tw n) ^ 2 * (1 - 2 * X 0 + X 1))
      = if r = 0 then 1 else 0 := by
  have : IsAddTorsionFree B := IsAddTorsionFree.of_module_rat B
  rw [← eval_one_quad_mul_sq,
    ((gradedW_quadPoly).mul (by rw [pow_two]; exact (gradedW_partialSum N).mul (gradedW_partialSum N))).component_eval_one,
    LegendreGen.truncated_identity (X 0) (X 1) Tw Tw_zero Tw_one Tw_rec N r hr]

/-- coefficient form: on every monomial `x^i s^j` of weight `i + 2j ≤ N` the coefficient is `1` for `(i, j) = (0, 0)`, else `0` -/
theorem weighted_identity_coeff (N i j : ℕ) (h : i + 2 * j ≤ N) :
    coeff (e i j) ((∑ n ∈ Finset.range (N + 1), Tw n) ^ 2 * (1 - 2 * X 0 + X 1)) = if i = 0 ∧ j = 0 then 1 else 0 := by
  have hc := coeff_weightedHomogeneousComponent (w := wt) (i + 2 * j)
    ((∑ n ∈ Finset.range (N + 1), Tw n) ^ 2 * (1 - 2 * X 0 + X 1)) (e i j)
  rw [if_pos (weight_e i j), weighted_identity N _ h] at hc
  rw [← hc]
  by_cases hij : i = 0 ∧ j = 0
  · obtain ⟨rfl, rfl⟩ := hij
    have : e 0 0 = 0 := by ext a; fin_cases a <;> simp
    simp [this]
  · rw [if_neg hij, if_neg (by omega), coeff_zero]

/-! ### §5 the Boolean of the list model holds for EVERY N -/

theorem den_Q : den Legendre.Q = 1 - 2 * X 0 + X 1 := by
  have h00 : e 0 0 = 0 := by ext a; fin_cases a <;> simp
  have h10 : e 1 0 = Finsupp.single 0 1 := by ext a; fin_cases a <;> simp
  have h01 : e 0 1 = Finsupp.single 1 1 := by ext a; fin_cases a <;> simp
  rw [Legendre.Q, den_cons, den_cons, den_cons, den_nil, termDen, termDen, termDen, h00, h10, h01,
    ← C_mul_X_eq_monomial, ← C_mul_X_eq_monomial]
  simp only [map_neg, map_ofNat, map_one]
  change (monomial 0 1 : B) + (-2 * X 0 + (1 * X 1 + 0)) = _
  rw [show (monomial 0 1 : B) = 1 from rfl]
  ring

/-- the left-hand side the list model computes denotes `(Σ_{n≤N} T_n)² (1 − 2x + s)` up to weight `N` -/
theorem den_lhs (N : ℕ) :
    EqUpTo N (den (Legendre.mulTrunc N (Legendre.mulTrunc N (Legendre.sumTs N) (Legendre.sumTs N)) Legendre.Q))
      ((∑ n ∈ Finset.range (N + 1), Tw n) ^ 2 * (1 - 2 * X 0 + X 1)) := by
  refine (den_mulTrunc N _ _).trans ?_
  rw [den_Q, pow_two]
  exact ((den_mulTrunc N _ _).trans ((den_sumTs N).mul (den_sumTs N))).mul EqUpTo.rfl'

/-- **`Legendre.generatingIdentity N = true` for EVERY N** (the kernel computation `Props/C07.legendre_generating_identity` checks
N ≤ 10): the executable list model of `_build_T_polynomials` satisfies its generating identity at every truncation degree. -/
theorem generatingIdentity_all (N : ℕ) : Legendre.generatingIdentity N = true := by
  rw [Legendre.generatingIdentity]
  simp only [List.all_eq_true]
  intro i _ j _
  by_cases h : i + 2 * j ≤ N
  · rw [if_pos h, decide_eq_true_eq, ← coeff_den, (eqUpTo_iff N _ _).mp (den_lhs N) i j h, weighted_identity_coeff N i j h]
  · rw [if_neg h]

/-! ### §6 exact denotation for `n ≤ N`, and the homogeneity Boolean for every N -/

theorem den_isWeightedHomogeneous {t : P2} {k : ℕ} (h : ∀ m ∈ t, Legendre.weight m = k) :
    IsWeightedHomogeneous wt (den t) k := by
  induction t with
  | nil => exact isWeightedHomogeneous_zero ℚ wt k
  | cons a t ih =>
    rw [den_cons]
    refine IsWeightedHomogeneous.add ?_ (ih fun m hm => h m (List.mem_cons_of_mem _ hm))
    refine isWeightedHomogeneous_monomial wt _ _ ?_
    rw [weight_e]
    exact h a List.mem_cons_self

/-- for `k ≤ N` nothing is lost by the truncation: the list denotes `T_k` exactly -/
theorem Rel.den_eq {N k : ℕ} {t : P2} (h : Rel N t k) (hk : k ≤ N) : den t = Tw k := by
  ext m
  by_cases hm : Finsupp.weight wt m ≤ N
  · exact h.1 m hm
  · rw [(den_isWeightedHomogeneous h.2).coeff_eq_zero m (by omega),
      (Tw_isWeightedHomogeneous k).coeff_eq_zero m (by omega)]

theorem mem_desc {n k : ℕ} (h : k ∈ desc n) : k ≤ n := by
  induction n with
  | zero => rw [desc, List.mem_singleton] at h; omega
  | succ n ih =>
    rw [desc, List.mem_cons] at h
    rcases h with h | h
    · omega
    · have := ih h; omega

theorem map_den_eq_of_rel {N : ℕ} {l : List P2} {ks : List ℕ} (h : List.Forall₂ (Rel N) l ks) (hks : ∀ k ∈ ks, k ≤ N) :
    l.map den = ks.map Tw := by
  induction h with
  | nil => rfl
  | cons hab _ ih =>
    rw [List.map_cons, List.map_cons, hab.den_eq (hks _ List.mem_cons_self),
      ih fun k hk => hks k (List.mem_cons_of_mem _ hk)]

/-- **exact form**: for `n ≤ N`, the list model's `Ts N n`, read through `den`, is literally `[Tw n, Tw (n−1), …, Tw 0]` -/
theorem Ts_exact (N n : ℕ) (hn : n ≤ N) : (Legendre.Ts N n).map den = (desc n).map Tw :=
  map_den_eq_of_rel (Ts_rel N n) fun _ hk => (mem_desc hk).trans hn

/-- head form of `Ts_exact`: the first entry of `Ts N n` denotes `T_n` exactly, `n ≤ N` -/
theorem Ts_head_exact (N n : ℕ) (hn : n ≤ N) : ∃ t rest, Legendre.Ts N n = t :: rest ∧ den t = Tw n := by
  have h := Ts_rel N n
  obtain ⟨dtl, hd⟩ := desc_eq n
  rw [hd] at h
  obtain ⟨t, rest, ht, _, hT⟩ := List.forall₂_cons_right_iff.mp h
  exact ⟨t, rest, hT, ht.den_eq hn⟩

theorem reverse_range_eq_desc (N : ℕ) : (List.range (N + 1)).reverse = desc N := by
  induction N with
  | zero => rfl
  | succ n ih => rw [List.range_succ, List.reverse_append, ih]; rfl

/-- **`Legendre.homogeneous N = true` for EVERY N**: every term the list model stores in `T_n` has weight exactly `n` -/
theorem homogeneous_all (N : ℕ) : Legendre.homogeneous N = true := by
  rw [Legendre.homogeneous, reverse_range_eq_desc]
  have h := Ts_rel N N
  generalize Legendre.Ts N N = l at h
  generalize desc N = ks at h
  induction h with
  | nil => rfl
  | cons hab _ ih =>
    rw [List.zip_cons_cons, List.all_cons, ih, Bool.and_true]
    simp only [List.all_eq_true, beq_iff_eq]
    exact hab.2

/-- **the kernel-checked statement of `Props/C07.legendre_generating_identity`, for every N instead of N ≤ 10** -/
theorem list_model_all (N : ℕ) : (Legendre.generatingIdentity N && Legendre.homogeneous N) = true := by
  rw [generatingIdentity_all, homogeneous_all]; rfl

/-! ### §7 link to `ℚ[x, y, z]` (`Lemmas/Legendre.lean` §3) and sanity checks -/

/-- the substitution `x ↦ X 0`, `s ↦ X 0² + X 1² + X 2²` from `ℚ[x, s]` to `ℚ[x, y, z]` -/
noncomputable def toXYZ : B →ₐ[ℚ] LegendreGen.A := aeval ![LegendreGen.xv, LegendreGen.sv]

theorem toXYZ_X0 : toXYZ (X 0) = LegendreGen.xv := by rw [toXYZ, aeval_X]; rfl
theorem toXYZ_X1 : toXYZ (X 1) = LegendreGen.sv := by rw [toXYZ, aeval_X]; rfl
theorem toXYZ_C (c : ℚ) : toXYZ (C c) = C c := by rw [toXYZ, aeval_C]; rfl

/-- under `s = x² + y² + z²` the sequence `Tw` in `ℚ[x, s]` (the one the list model denotes) is the sequence `Tpoly` of
`Lemmas/Legendre.lean` in `ℚ[x, y, z]` -/
theorem toXYZ_Tw (n : ℕ) : toXYZ (Tw n) = LegendreGen.Tpoly n := by
  suffices h : ∀ n, toXYZ (Tw n) = LegendreGen.Tpoly n ∧ toXYZ (Tw (n + 1)) = LegendreGen.Tpoly (n + 1) from (h n).1
  intro n
  induction n with
  | zero => exact ⟨by rw [Tw, LegendreGen.Tpoly, map_one], by rw [Tw, LegendreGen.Tpoly, toXYZ_X0]⟩
  | succ n ih =>
    refine ⟨ih.2, ?_⟩
    have c1 : (2 * ((n + 2 : ℕ) : ℚ) - 1) / ((n + 2 : ℕ) : ℚ) = (2 * (n : ℚ) + 3) / ((n : ℚ) + 2) := by
      push_cast; ring
    have c2 : (((n + 2 : ℕ) : ℚ) - 1) / ((n + 2 : ℕ) : ℚ) = ((n : ℚ) + 1) / ((n : ℚ) + 2) := by
      push_cast; ring
    rw [Tw, LegendreGen.Tpoly, map_sub, map_mul, map_mul, map_mul, map_mul, toXYZ_C, toXYZ_C, toXYZ_X0, toXYZ_X1,
      ih.1, ih.2, c1, c2]

/-- sanity: `T_2 = (3x² − s)/2` -/
example : Tw 2 = C (3 / 2) * X 0 ^ 2 - C (1 / 2) * X 1 := by
  rw [Tw, Tw, Tw]
  norm_num
  ring

/-- sanity: the theorem for every N contains the kernel-checked instances -/
example : Legendre.generatingIdentity 3 = true := generatingIdentity_all 3

end HitenModel.LegendreLink
