/-
  Core/C05.lean — executable model of the Newton / line-search corrector of `hiten`:
    * `_NewtonBackend.run`                       (corrector/backends/newton.py)
    * `_ArmijoLineSearch.__call__`               (corrector/stepping/armijo.py)
    * `_CorrectorPlainStep._make_plain_stepper`  (corrector/stepping/plain.py)

  The model is generic over the scalar type `K` (only the operations `+ - * / <  ≤ 0 1` are used), so the same
  definitions are (a) *executed* by `Drivers/C05.lean` over core `Rat` in the correspondence with the real classes and
  (b) *reasoned about* in `Props/C05.lean` over an arbitrary linearly ordered field.

  Everything numerical that the solver does not control is an ORACLE parameter:
    * `N : List K → NormRes K`     — `norm_fn(residual_fn(x))`: a value, a NaN, or a raised exception;
    * `solve : List K → Option (List K)` — the Newton direction `_solve_delta_dense(J(x), R(x))` (`none`: the Jacobian
      evaluation or the linear solve raised);
  Floating point `NaN` is an explicit constructor (`NormRes.nan`, `Option K` for the current norm), exceptions are explicit
  constructors of the result types; nothing is totalised away.  Import-free; structural recursion on fuel only.
-/
namespace HitenModel.C05

/-- result of evaluating `norm_fn(residual_fn(x))` -/
inductive NormRes (K : Type) where
  | val (v : K)
  | nan
  | exc
deriving Repr, DecidableEq, Inhabited

section
variable {K : Type} [Add K] [Sub K] [Mul K] [Div K] [Neg K] [LT K] [LE K]
  [DecidableLT K] [DecidableLE K] [OfNat K 0] [OfNat K 1]

def absK (a : K) : K := if a < 0 then -a else a
def maxK (a b : K) : K := if a < b then b else a

/-- `np.linalg.norm(v, ord=np.inf)` -/
def normInf : List K → K
  | [] => 0
  | a :: as => maxK (absK a) (normInf as)

/-- `x + alpha * delta` (numpy broadcasting on equal-length vectors) -/
def axpy (α : K) : List K → List K → List K
  | x :: xs, d :: ds => (x + α * d) :: axpy α xs ds
  | _, _ => []

def vsub : List K → List K → List K
  | a :: as, b :: bs => (a - b) :: vsub as bs
  | _, _ => []

/-- the step-cap shared by both steppers: `if |δ|∞ > max_delta: δ = δ * (max_delta / |δ|∞)`;
`none` stands for `max_delta is None or isinf(max_delta)` -/
def capDelta (maxDelta : Option K) (δ : List K) : List K :=
  match maxDelta with
  | none => δ
  | some m => if m < normInf δ then δ.map (fun d => d * (m / normInf δ)) else δ

/-- configuration of `_ArmijoLineSearch` -/
structure ArmijoCfg (K : Type) where
  maxDelta : Option K
  rho : K        -- alpha_reduction
  minAlpha : K
  c : K          -- armijo_c
deriving Repr

/-- result of one line search -/
inductive StepRes (K : Type) where
  /-- Armijo condition met at trial number `trials` -/
  | armijo (x : List K) (norm : K) (alpha : K) (trials : Nat)
  /-- loop exhausted, best strictly improving trial returned -/
  | fallback (x : List K) (norm : K) (alpha : K) (trials : Nat)
  /-- `BackendError("Armijo line search failed to find a productive step.")` -/
  | failed (trials : Nat)
  /-- the model ran out of fuel (the real loop would still be running) -/
  | outOfFuel
deriving Repr, DecidableEq, Inhabited

/-- number of trial points a line-search result reports having evaluated -/
def StepRes.trials {K : Type} : StepRes K → Nat
  | .armijo _ _ _ t => t
  | .fallback _ _ _ t => t
  | .failed t => t
  | .outOfFuel => 0

/-- Armijo acceptance test `norm_trial <= (1 - c*alpha) * current_norm` (false when `current_norm` is NaN) -/
def armijoAccept (c α n : K) (cur : Option K) : Bool :=
  match cur with
  | none => false
  | some c0 => decide (n ≤ (1 - c * α) * c0)

/-- `norm_trial < best_norm`, where `best_norm` starts as `current_norm` (possibly NaN) -/
def improves (n : K) (best : Option (List K × K × K)) (cur : Option K) : Bool :=
  match best with
  | some (_, bn, _) => decide (n < bn)
  | none => match cur with
    | none => false
    | some c0 => decide (n < c0)

/-- after the loop: `if best_alpha > 0: return best` else raise -/
def armijoFinish (best : Option (List K × K × K)) (trials : Nat) : StepRes K :=
  match best with
  | some (bx, bn, ba) => if 0 < ba then .fallback bx bn ba trials else .failed trials
  | none => .failed trials

/-- the `while alpha >= min_alpha` loop; `t` counts the trial points evaluated so far -/
def armijoLoop (N : List K → NormRes K) (cfg : ArmijoCfg K) (x0 δ : List K) (cur : Option K) :
    Nat → K → Option (List K × K × K) → Nat → StepRes K
  | 0, α, best, t => if cfg.minAlpha ≤ α then .outOfFuel else armijoFinish best t
  | fuel + 1, α, best, t =>
    if cfg.minAlpha ≤ α then
      match N (axpy α x0 δ) with
      | .exc => armijoLoop N cfg x0 δ cur fuel (α * cfg.rho) best (t + 1)
      | .nan => armijoLoop N cfg x0 δ cur fuel (α * cfg.rho) best (t + 1)
      | .val n =>
        if armijoAccept cfg.c α n cur then .armijo (axpy α x0 δ) n α (t + 1)
        else
          armijoLoop N cfg x0 δ cur fuel (α * cfg.rho)
            (if improves n best cur then some (axpy α x0 δ, n, α) else best) (t + 1)
    else armijoFinish best t

/-- `_ArmijoLineSearch.__call__(x0, delta, current_norm)` -/
def armijo (N : List K → NormRes K) (cfg : ArmijoCfg K) (fuel : Nat) (x0 δ : List K) (cur : Option K) : StepRes K :=
  armijoLoop N cfg x0 (capDelta cfg.maxDelta δ) cur fuel 1 none 0

/-- result of the plain (full Newton step, optionally capped) stepper -/
inductive PlainRes (K : Type) where
  | ok (x : List K) (norm : Option K) (alpha : K)
  | raised
deriving Repr, DecidableEq, Inhabited

/-- `_plain_step(x, delta, current_norm)` -/
def plainStep (N : List K → NormRes K) (maxDelta : Option K) (x δ : List K) : PlainRes K :=
  let α : K := match maxDelta with
    | none => 1
    | some m => if m < normInf δ then m / normInf δ else 1
  let x' := axpy 1 x (capDelta maxDelta δ)
  match N x' with
  | .val n => .ok x' (some n) α
  | .nan => .ok x' none α
  | .exc => .raised

/-- what the Newton loop sees of a stepper call -/
inductive StepOut (K : Type) where
  | next (x : List K)
  | failed            -- the stepper raised (mapped to ConvergenceError by the backend)
  | outOfFuel
deriving Repr, DecidableEq, Inhabited

abbrev Stepper (K : Type) := List K → List K → Option K → StepOut K

def armijoStepper (N : List K → NormRes K) (cfg : ArmijoCfg K) (fuel : Nat) : Stepper K :=
  fun x δ cur => match armijo N cfg fuel x δ cur with
    | .armijo x' _ _ _ => .next x'
    | .fallback x' _ _ _ => .next x'
    | .failed _ => .failed
    | .outOfFuel => .outOfFuel

def plainStepper (N : List K → NormRes K) (maxDelta : Option K) : Stepper K :=
  fun x δ _ => match plainStep N maxDelta x δ with
    | .ok x' _ _ => .next x'
    | .raised => .failed

/-- outcome of `_NewtonBackend.run` -/
inductive Outcome (K : Type) where
  /-- `CorrectorOutput(x_corrected, iterations, residual_norm)` -/
  | ok (x : List K) (iters : Nat) (rnorm : K)
  /-- `ConvergenceError("Newton did not converge after max_attempts iterations")`; `rnorm = none` is NaN -/
  | notConverged (x : List K) (rnorm : Option K)
  /-- `ConvergenceError("Step strategy failed to produce an update at iter k")` -/
  | stepFailed (iter : Nat)
  /-- an exception of the residual / norm / Jacobian / linear solve propagates out of `run` -/
  | raised (iter : Nat)
  | outOfFuel
deriving Repr, DecidableEq, Inhabited

/-- history entry: iterate and its residual norm (`none` = NaN) -/
abbrev Hist (K : Type) := List (List K × Option K)

/-- the `for k in range(max_attempts)` loop followed by the final tolerance test.
`n` = attempts left, `k` = iteration index.  Returns the outcome and the list of iterates whose norm was evaluated. -/
def newtonLoop (N : List K → NormRes K) (solve : List K → Option (List K)) (stepper : Stepper K) (tol : K) :
    Nat → Nat → List K → Outcome K × Hist K
  | 0, k, x =>
    match N x with
    | .exc => (.raised k, [])
    | .nan => (.notConverged x none, [(x, none)])
    | .val r => if r < tol then (.ok x k r, [(x, some r)]) else (.notConverged x (some r), [(x, some r)])
  | n + 1, k, x =>
    match N x with
    | .exc => (.raised k, [])
    | .nan =>
      match solve x with
      | none => (.raised k, [(x, none)])
      | some δ =>
        match stepper x δ none with
        | .failed => (.stepFailed k, [(x, none)])
        | .outOfFuel => (.outOfFuel, [(x, none)])
        | .next x' => let p := newtonLoop N solve stepper tol n (k + 1) x'; (p.1, (x, none) :: p.2)
    | .val r =>
      if r < tol then (.ok x k r, [(x, some r)])
      else
        match solve x with
        | none => (.raised k, [(x, some r)])
        | some δ =>
          match stepper x δ (some r) with
          | .failed => (.stepFailed k, [(x, some r)])
          | .outOfFuel => (.outOfFuel, [(x, some r)])
          | .next x' => let p := newtonLoop N solve stepper tol n (k + 1) x'; (p.1, (x, some r) :: p.2)

/-- `_NewtonBackend.run(request=CorrectorInput(initial_guess=x0, tol, max_attempts, …), stepper_factory)` -/
def newton (N : List K → NormRes K) (solve : List K → Option (List K)) (stepper : Stepper K) (tol : K)
    (maxAttempts : Nat) (x0 : List K) : Outcome K × Hist K :=
  newtonLoop N solve stepper tol maxAttempts 0 x0

end
/-! ### the instances the correspondence driver executes (core `Rat`, import-free) -/

def armijoRat (N : List Rat → NormRes Rat) (cfg : ArmijoCfg Rat) (fuel : Nat) (x0 δ : List Rat) (cur : Option Rat) :
    StepRes Rat := armijo N cfg fuel x0 δ cur
def plainStepRat (N : List Rat → NormRes Rat) (maxDelta : Option Rat) (x δ : List Rat) : PlainRes Rat :=
  plainStep N maxDelta x δ
def newtonArmijoRat (N : List Rat → NormRes Rat) (solve : List Rat → Option (List Rat)) (cfg : ArmijoCfg Rat)
    (fuel : Nat) (tol : Rat) (maxAttempts : Nat) (x0 : List Rat) : Outcome Rat × Hist Rat :=
  newton N solve (armijoStepper N cfg fuel) tol maxAttempts x0
def newtonPlainRat (N : List Rat → NormRes Rat) (solve : List Rat → Option (List Rat)) (maxDelta : Option Rat)
    (tol : Rat) (maxAttempts : Nat) (x0 : List Rat) : Outcome Rat × Hist Rat :=
  newton N solve (plainStepper N maxDelta) tol maxAttempts x0

end HitenModel.C05
