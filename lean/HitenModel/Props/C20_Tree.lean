/-
  Props/C20_Tree.lean — property C20, the theorems of Props/C20.lean instantiated with the data regenerated from the
  current tree (Gen/C20.lean, rewritten by harness/props/c20.py on every run from the live objects):
    `keepValues`  — does the live `_make_hashable` keep the values of a mapping;
    `services`    — key shape of every `make_key` call site of every service class;
    `orbitCfg`    — the nine behaviour switches probed on the real LyapunovOrbit / Manifold with the histories that
                    `witness_discriminates` proves characteristic;
    `cmCfg`       — the three switches probed on the real CenterManifold;
    `stabCfgManifold`, `stabCfgLibration` — the two switches of the `compute_stability(options)` cache.
  A theorem here stops checking exactly when the code loses the corresponding behaviour; the harness then reports the
  shortest stale history on the real objects (the witness history of that switch).
-/
import HitenModel.Props.C20
import HitenModel.Gen.C20

namespace HitenModel.Props.C20
open HitenModel.C20

/-- the current tree keeps the values of mapping arguments (regenerated flag; false before /repo 79842fa) -/
theorem tree_keeps_mapping_values : Gen.C20.keepValues = true := by decide


/-- hence, for the current tree: different argument values of one call site (same container kinds) give different keys -/
theorem tree_make_key_injective (self : PyVal) (args args' : List PyVal) (hl : args.length = args'.length)
    (hk : ∀ p ∈ args.zip args', sameKind p.1 p.2 = true)
    (h : makeKey Gen.C20.keepValues self args = makeKey Gen.C20.keepValues self args') : args = args' := by
  rw [tree_keeps_mapping_values] at h
  exact make_key_injective self args args' hl hk h

/-- **keys_separate** for the current tree: in every service class, the key shapes of any two different
`make_key` call sites (regenerated census: literal tags from the live code objects, argument classes from the live
calls) are separable.  Clause: "distinct quantities never share a cache entry" (quantity part; the frame-name prefix
is the same literal "make_key" everywhere, so separation rests on the hand-written tags, as decided here). -/
theorem keys_separate : Gen.C20.services.all (fun svc => pairwiseSep svc.2) = true := by decide

/-- unfolded meaning of `keys_separate` -/
theorem keys_separate_spec (svc : String × List (String × List Slot)) (h : svc ∈ Gen.C20.services) :
    svc.2.Pairwise (fun p q => ∀ k, ¬ (matchesKey p.2 k = true ∧ matchesKey q.2 k = true)) :=
  pairwiseSep_sound (List.all_eq_true.mp keys_separate svc h)

/-- the behaviour switches probed from the current tree are the sound ones -/
theorem tree_orbit_cfg_sound : Gen.C20.orbitCfg.sound = true := by decide

/-- no_stale_read for the current tree's orbit / manifold services -/
theorem no_stale_read_tree (O : Oracle) (x : Tok) (T : Option Tok) (ops : List OOp) :
    runO Gen.C20.orbitCfg O (freshO x T) ops = runL O (freshL x T) ops :=
  no_stale_read _ tree_orbit_cfg_sound O x T ops

/-- the centre-manifold switches probed from the current tree are the sound ones -/
theorem tree_cm_cfg_sound : Gen.C20.cmCfg.sound = true := by decide


/-- no_stale_read for the current tree's centre-manifold service -/
theorem cm_no_stale_read_tree (O : COracle) (d : Nat) (ops : List COp) :
    runC Gen.C20.cmCfg O (freshC d) ops = runCL Gen.C20.cmCfg O d ops :=
  cm_no_stale_read _ tree_cm_cfg_sound O d ops

/-- the stability-cache behaviours probed on the real Manifold and on the real LibrationPoint are the sound ones -/
theorem tree_stab_cfg_sound : Gen.C20.stabCfgManifold.sound = true ∧ Gen.C20.stabCfgLibration.sound = true := by
  decide

/-- no_stale_read for the current tree's `compute_stability` caches -/
theorem stab_no_stale_read_tree (R : Tok → Tok → Tok) (c o : Tok) (ops : List SOp) :
    runS Gen.C20.stabCfgManifold R (freshS c o) ops = runSL R (c, o) ops ∧
    runS Gen.C20.stabCfgLibration R (freshS c o) ops = runSL R (c, o) ops :=
  ⟨stab_no_stale_read _ tree_stab_cfg_sound.1 R c o ops, stab_no_stale_read _ tree_stab_cfg_sound.2 R c o ops⟩

end HitenModel.Props.C20
