/-
  Lemmas/C10Model.lean — helper definitions and lemmas about the hand model Core/C10.lean used by Props/C10.lean
  (grid predicates, exact-flow oracles, the step loop, searchsorted, dense-output lookup).  No property theorem here.
-/
import HitenModel.Core.C10
import Mathlib.Tactic.Ring
import Mathlib.Tactic.Linarith
import Mathlib.Tactic.NormNum

namespace HitenModel.C10

theorem negateAt_getElem? {β : Type} [Neg β] (idx : List Nat) (k : Nat) (l : List β) (i : Nat) :
    (negateAt idx k l)[i]? = (l[i]?).map (fun v => if idx.contains (k + i) then -v else v) := by
  induction l generalizing k i with
  | nil => simp [negateAt]
  | cons v vs ih =>
    cases i with
    | zero => simp [negateAt]
    | succ i =>
      simp only [negateAt, List.getElem?_cons_succ, ih]
      have : k + 1 + i = k + (i + 1) := by omega
      rw [this]


/-- strictly decreasing / increasing grid (consecutive samples) -/
def Desc : List Int → Prop
  | a :: b :: rest => b < a ∧ Desc (b :: rest)
  | _ => True

def Asc : List Int → Prop
  | a :: b :: rest => a < b ∧ Asc (b :: rest)
  | _ => True


theorem diffs_all_neg_iff (ts : List Int) : (diffs ts).all (fun x => decide (x < 0)) = true ↔ Desc ts := by
  induction ts with
  | nil => simp [diffs, Desc]
  | cons a rest ih =>
    cases rest with
    | nil => simp [diffs, Desc]
    | cons b rest =>
      simp only [diffs, List.all_cons, Bool.and_eq_true, decide_eq_true_eq, Desc, ih]
      constructor <;> rintro ⟨h1, h2⟩ <;> exact ⟨by omega, h2⟩


theorem diffs_all_pos_iff (ts : List Int) : (diffs ts).all (fun x => decide (0 < x)) = true ↔ Asc ts := by
  induction ts with
  | nil => simp [diffs, Asc]
  | cons a rest ih =>
    cases rest with
    | nil => simp [diffs, Asc]
    | cons b rest =>
      simp only [diffs, List.all_cons, Bool.and_eq_true, decide_eq_true_eq, Asc, ih]
      constructor <;> rintro ⟨h1, h2⟩ <;> exact ⟨by omega, h2⟩


theorem desc_last_lt_head : ∀ (a b : Int) (rest : List Int), Desc (a :: b :: rest) → (a :: b :: rest).getLastD 0 < a
  | a, b, [], h => by simpa [Desc] using h
  | a, b, c :: rest, h => by
    have h1 : b < a := h.1
    have := desc_last_lt_head b c rest h.2
    simp only [List.getLastD_cons] at this ⊢
    omega


theorem asc_head_lt_last : ∀ (a b : Int) (rest : List Int), Asc (a :: b :: rest) → a < (a :: b :: rest).getLastD 0
  | a, b, [], h => by simpa [Asc] using h
  | a, b, c :: rest, h => by
    have h1 : a < b := h.1
    have := asc_head_lt_last b c rest h.2
    simp only [List.getLastD_cons] at this ⊢
    omega


/-- an exact flow on the tick axis: `φ τ` advances the state by the (signed) duration `τ` -/
structure IsFlow {S : Type} (φ : Int → S → S) : Prop where
  zero : ∀ y, φ 0 y = y
  add : ∀ a b y, φ (a + b) y = φ b (φ a y)


/-- a returned trajectory is *faithful* to the flow `φ` when every sample is the state the flow has at its stamp
    (relative to the first stamp).  A silently wrong trajectory is one that is returned without being faithful. -/
def Faithful {S : Type} (φ : Int → S → S) (y0 : S) (s : Sol S) : Prop :=
  s.states = s.times.map (fun t => φ (t - s.times.headD 0) y0)


theorem fixedStates_exact {S : Type} (φ : Int → S → S) (hφ : IsFlow φ) (y : S) (t : Int) (ts : List Int) :
    fixedStates (fun _ h y => φ h y) y (t :: ts) = (t :: ts).map (fun u => φ (u - t) y) := by
  induction ts generalizing y t with
  | nil => simp [fixedStates, hφ.zero]
  | cons t' rest ih =>
    simp only [fixedStates, List.map_cons, Int.sub_self, hφ.zero, List.cons.injEq, true_and]
    rw [ih]
    simp only [List.map_cons, Int.sub_self, hφ.zero, List.cons.injEq, true_and]
    apply List.map_congr_left
    intro u _
    rw [← hφ.add]; congr 1; omega


/-- `while (t - tf) < 0` is not entered when `tf ≤ t` — whatever the controller would do -/
theorem loop_not_entered (c : Ctl) (tf : Int) (orc : List (Bool × Int)) (t h : Int) (hge : tf ≤ t) :
    loop c tf orc t h = some [] := by
  have hn : ¬ (t - tf < 0) := by omega
  cases orc with
  | nil => simp [loop, hn]
  | cons p rest => obtain ⟨acc, hnx⟩ := p; simp [loop, hn]


/-- dense-output lookup on a node list that consists of the start node only (`n_nodes = 1`): the clipping
    `if j > n_nodes - 2: j = n_nodes - 2` yields `j = -1`, both ends of the "segment" are the start node, `hseg = 0` -/
theorem query_single (k : Kind) (t0 q : Int) :
    query k [t0] q = (match k with | .rk45 => Sample.zeroDiv | .dop853 => Sample.left 0) := by
  by_cases h : t0 ≤ q <;> cases k <;> simp [query, segIdx, ssRight, wrapIdx, h]


theorem query_single_dop853 (t0 : Int) : query .dop853 [t0] = fun _ => Sample.left 0 :=
  funext fun q => by simpa using query_single .dop853 t0 q

theorem query_single_rk45 (t0 : Int) : query .rk45 [t0] = fun _ => Sample.zeroDiv :=
  funext fun q => by simpa using query_single .rk45 t0 q


theorem adaptiveDriver_descending (k : Kind) (c : Ctl) (orc : List (Bool × Int)) (ts : List Int)
    (hl : 2 ≤ ts.length) (hd : Desc ts) :
    adaptiveDriver k c orc ts =
      (match k with
       | .rk45 => AOutcome.error .zeroDivision
       | .dop853 => AOutcome.ok [ts.headD 0] (ts.map fun _ => Sample.left 0)) := by
  match ts, hl, hd with
  | a :: b :: rest, _, hd =>
    have hlt := desc_last_lt_head a b rest hd
    have hloop : loop c ((a :: b :: rest).getLastD 0) orc ((a :: b :: rest).headD 0) c.h0 = some [] :=
      loop_not_entered c _ orc _ _ (by simp only [List.headD_cons]; omega)
    unfold adaptiveDriver
    rw [hloop]
    cases k <;> simp [query_single_dop853, query_single_rk45]


theorem symStates_exact {S : Type} (φ : Int → S → S) (hφ : IsFlow φ) (y : S) (t : Int) (ts : List Int) :
    symStates (fun dt y => φ dt y) y (diffs (t :: ts)) = (t :: ts).map (fun u => φ (u - t) y) := by
  induction ts generalizing y t with
  | nil => simp [symStates, diffs, hφ.zero]
  | cons t' rest ih =>
    simp only [diffs, symStates, List.map_cons, Int.sub_self, hφ.zero, List.cons.injEq, true_and]
    rw [ih]
    simp only [List.map_cons, Int.sub_self, hφ.zero, List.cons.injEq, true_and]
    apply List.map_congr_left
    intro u _
    rw [← hφ.add]; congr 1; omega


theorem diffs_map_mul (σ : Int) (ts : List Int) : diffs (ts.map fun t => σ * t) = (diffs ts).map fun d => σ * d := by
  induction ts with
  | nil => simp [diffs]
  | cons a rest ih =>
    cases rest with
    | nil => simp [diffs]
    | cons b rest =>
      simp only [List.map_cons, diffs, List.cons.injEq] at ih ⊢
      exact ⟨by ring, ih⟩


theorem toOutcome_times {S : Type} (y0 : S) (ns : Nat → S) (dense : Nat → Int → Int → S) (ts : List Int) (a : AOutcome) (s : Sol S)
    (h : toOutcome y0 ns dense ts a = some (.sol s)) : s.times = ts := by
  cases a <;> simp [toOutcome] at h <;> (cases h; rfl)


theorem clamp_ge_min (c : Ctl) (h : Int) : c.minS ≤ clamp c h := by
  unfold clamp; simp only; split <;> omega


/-- the accepted nodes: strictly increasing from the start node and ending EXACTLY at `tf` -/
theorem loop_nodes (c : Ctl) (hmin : 0 < c.minS) (tf : Int) (orc : List (Bool × Int)) (t h : Int) (ht : t ≤ tf)
    (acc : List Int) (hl : loop c tf orc t h = some acc) : Asc (t :: acc) ∧ (t :: acc).getLastD 0 = tf := by
  induction orc generalizing t h acc with
  | nil =>
    simp only [loop] at hl
    split at hl
    · cases hl
    · cases hl; exact ⟨by simp [Asc], by simp; omega⟩
  | cons p rest ih =>
    obtain ⟨a, hn⟩ := p
    simp only [loop] at hl
    split at hl
    · rename_i hlt
      have hc := clamp_ge_min c h
      have h1pos : 0 < adjust t (clamp c h) tf ∧ t + adjust t (clamp c h) tf ≤ tf := by
        unfold adjust; split <;> omega
      split at hl
      · cases hrec : loop c tf rest (t + adjust t (clamp c h) tf) hn with
        | none => rw [hrec] at hl; cases hl
        | some l =>
          rw [hrec] at hl; cases hl
          obtain ⟨hasc, hlast⟩ := ih _ _ h1pos.2 l hrec
          refine ⟨⟨by omega, hasc⟩, ?_⟩
          simpa [List.getLastD_cons] using hlast
      · exact ih _ _ ht acc hl
    · cases hl; exact ⟨by simp [Asc], by simp; omega⟩


theorem ssRight_spec (nodes : List Int) (q : Int) :
    ssRight nodes q ≤ nodes.length ∧ (∀ i, i < ssRight nodes q → nodes.getD i 0 ≤ q) ∧
      (ssRight nodes q < nodes.length → q < nodes.getD (ssRight nodes q) 0) := by
  induction nodes with
  | nil => simp [ssRight]
  | cons t ts ih =>
    by_cases h : t ≤ q
    · simp only [ssRight, h, if_true, List.length_cons]
      obtain ⟨h1, h2, h3⟩ := ih
      refine ⟨by omega, ?_, ?_⟩
      · intro i hi
        cases i with
        | zero => simpa using h
        | succ i => simpa using h2 i (by omega)
      · intro hlt
        simpa using h3 (by omega)
    · simp only [ssRight, h, if_false, List.length_cons]
      refine ⟨by omega, by intro i hi; omega, ?_⟩
      intro _; simp; omega


theorem asc_getD_lt (nodes : List Int) (ha : Asc nodes) (i : Nat) (hi : i + 1 < nodes.length) :
    nodes.getD i 0 < nodes.getD (i + 1) 0 := by
  induction nodes generalizing i with
  | nil => simp at hi
  | cons a rest ih =>
    cases rest with
    | nil => simp at hi
    | cons b rest =>
      cases i with
      | zero => simpa using ha.1
      | succ i =>
        have := ih ha.2 i (by simpa using hi)
        simpa using this


theorem getLastD_eq_getD (nodes : List Int) (hn : 0 < nodes.length) : nodes.getLastD 0 = nodes.getD (nodes.length - 1) 0 := by
  induction nodes with
  | nil => simp at hn
  | cons a rest ih =>
    cases rest with
    | nil => simp
    | cons b rest =>
      have := ih (by simp)
      simp only [List.getLastD_cons, List.length_cons] at this ⊢
      rw [this]
      simp


/-- dense-output lookup on an ascending node list that brackets the query -/
theorem query_ascending (k : Kind) (nodes : List Int) (q : Int) (hn : 2 ≤ nodes.length) (ha : Asc nodes)
    (hq0 : nodes.headD 0 ≤ q) (hq1 : q ≤ nodes.getLastD 0) :
    ∃ j, j + 1 < nodes.length ∧ nodes.getD j 0 ≤ q ∧ q ≤ nodes.getD (j + 1) 0 ∧ nodes.getD j 0 < nodes.getD (j + 1) 0 ∧
      query k nodes q = .dense j (q - nodes.getD j 0) (nodes.getD (j + 1) 0 - nodes.getD j 0) ∧
      (q = nodes.headD 0 → j = 0) := by
  obtain ⟨h1, h2, h3⟩ := ssRight_spec nodes q
  have hhead : nodes.headD 0 = nodes.getD 0 0 := by cases nodes <;> simp
  have hlast := getLastD_eq_getD nodes (by omega)
  have hr1 : 1 ≤ ssRight nodes q := by
    by_contra hc
    have h0 : ssRight nodes q = 0 := by omega
    have := h3 (by omega)
    rw [h0] at this
    omega
  -- the chosen segment
  have key : ∀ j : Nat, segIdx nodes.length (ssRight nodes q) = (j : Int) → j + 1 < nodes.length →
      nodes.getD j 0 ≤ q → q ≤ nodes.getD (j + 1) 0 →
      query k nodes q = .dense j (q - nodes.getD j 0) (nodes.getD (j + 1) 0 - nodes.getD j 0) ∧
        nodes.getD j 0 < nodes.getD (j + 1) 0 := by
    intro j hj hjn _ _
    have hlt := asc_getD_lt nodes ha j hjn
    have hw1 : wrapIdx nodes.length (j : Int) = j := by simp [wrapIdx]
    have hw2 : wrapIdx nodes.length ((j : Int) + 1) = j + 1 := by
      unfold wrapIdx; rw [if_neg (by omega)]; omega
    have hne : ¬ (nodes.getD (j + 1) 0 - nodes.getD j 0 = 0) := by omega
    refine ⟨?_, hlt⟩
    unfold query
    simp only [hj, hw1, hw2]
    cases k <;> simp only [hne, if_false]
  by_cases hrn : ssRight nodes q = nodes.length
  · -- q is at (or beyond) the last node: clipped to the last segment, x = 1
    have hseg : segIdx nodes.length (ssRight nodes q) = ((nodes.length - 2 : Nat) : Int) := by
      unfold segIdx; simp only; rw [hrn]; split <;> split <;> omega
    have hge : nodes.getD (nodes.length - 1) 0 ≤ q := h2 _ (by omega)
    have hjn : nodes.length - 2 + 1 < nodes.length := by omega
    have hidx : nodes.length - 2 + 1 = nodes.length - 1 := by omega
    have hlt := asc_getD_lt nodes ha (nodes.length - 2) hjn
    have hle : nodes.getD (nodes.length - 2) 0 ≤ q := by rw [hidx] at hlt; omega
    have hqb : q ≤ nodes.getD (nodes.length - 2 + 1) 0 := by rw [hidx]; omega
    obtain ⟨hqe, hlt'⟩ := key (nodes.length - 2) hseg hjn hle hqb
    refine ⟨nodes.length - 2, hjn, hle, hqb, hlt', hqe, ?_⟩
    intro hq
    by_contra hj0
    have h01 := asc_getD_lt nodes ha 0 (by omega)
    -- q = node 0 < node 1 ≤ … contradiction with q ≥ last node unless n = 2
    have : nodes.getD 0 0 < nodes.getD (nodes.length - 1) 0 := by
      have hmono : ∀ m, m < nodes.length → nodes.getD 0 0 ≤ nodes.getD m 0 := by
        intro m hm
        induction m with
        | zero => exact le_refl _
        | succ m ihm => have := asc_getD_lt nodes ha m hm; have := ihm (by omega); omega
      have := hmono (nodes.length - 2) (by omega)
      rw [hidx] at hlt; omega
    omega
  · have hlt' : ssRight nodes q < nodes.length := by omega
    have hseg : segIdx nodes.length (ssRight nodes q) = ((ssRight nodes q - 1 : Nat) : Int) := by
      unfold segIdx; simp only; split <;> split <;> omega
    have hjn : ssRight nodes q - 1 + 1 < nodes.length := by omega
    have hidx : ssRight nodes q - 1 + 1 = ssRight nodes q := by omega
    have hle : nodes.getD (ssRight nodes q - 1) 0 ≤ q := h2 _ (by omega)
    have hqb : q ≤ nodes.getD (ssRight nodes q - 1 + 1) 0 := by rw [hidx]; exact le_of_lt (h3 hlt')
    obtain ⟨hqe, hltn⟩ := key (ssRight nodes q - 1) hseg hjn hle hqb
    refine ⟨ssRight nodes q - 1, hjn, hle, hqb, hltn, hqe, ?_⟩
    intro hq
    by_contra hj0
    -- q = node 0, but node (r-1) ≤ q with r - 1 ≥ 1 > 0 contradicts strict monotonicity
    have hmono : ∀ m, 0 < m → m < nodes.length → nodes.getD 0 0 < nodes.getD m 0 := by
      intro m hm0 hm
      induction m with
      | zero => omega
      | succ m ihm =>
        have := asc_getD_lt nodes ha m hm
        by_cases hm' : m = 0
        · subst hm'; exact this
        · have := ihm (by omega) (by omega); omega
    have := hmono (ssRight nodes q - 1) (by omega) (by omega)
    omega


theorem asc_bounds : ∀ (ts : List Int), Asc ts → ∀ x ∈ ts, ts.headD 0 ≤ x ∧ x ≤ ts.getLastD 0
  | [], _, x, hx => by simp at hx
  | [a], _, x, hx => by simp at hx; subst hx; simp
  | a :: b :: rest, h, x, hx => by
    have ih := asc_bounds (b :: rest) h.2
    have hab : a < b := h.1
    have hlast : b ≤ (b :: rest).getLastD 0 := (ih b (by simp)).2
    simp only [List.mem_cons] at hx
    simp only [List.headD_cons, List.getLastD_cons] at ih ⊢
    rcases hx with rfl | hx
    · constructor <;> [exact le_refl _; skip]
      simp only [List.headD_cons, List.getLastD_cons] at hlast; omega
    · have := ih x (by simpa using hx)
      omega


/-- **Clause 4 for the adaptive drivers (and correctness on ascending grids)**: if the step loop terminates, then
    (1) no error is raised, (2) the accepted nodes increase strictly from `t_eval[0]` to exactly `t_eval[-1]`,
    (3) EVERY requested time is answered by the dense interpolant of a step `[a,b]` that contains it, at the abscissa
    `x = (t_q - a)/(b - a) ∈ [0,1]`, and (4) the first requested time is answered at `x = 0` of the first step. -/
theorem asc_head_lt_last_of_length (ts : List Int) (hl : 2 ≤ ts.length) (ha : Asc ts) : ts.headD 0 < ts.getLastD 0 := by
  match ts, hl, ha with
  | a :: b :: rest, _, ha => simpa using asc_head_lt_last a b rest ha


theorem map_head?_of_ne_nil {α β : Type} (f : α → β) (d : α) (l : List α) (h : l ≠ []) : (l.map f).head? = some (f (l.headD d)) := by
  cases l with
  | nil => exact absurd rfl h
  | cons a rest => simp


end HitenModel.C10
